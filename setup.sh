#!/bin/bash
# Build the static part of the framework from files on disk only (offline):
#   full .vo build of coq/theories (never -vos/-vok), extraction, modelrun.
# --incremental: do not clean first (used by every check; make decides what is stale).
set -e
cd "$(dirname "$0")"
ROOT=$(pwd)
ulimit -s unlimited 2>/dev/null || true
cd coq/theories
if [ "$1" != "--incremental" ]; then
  [ -f Makefile ] && make -s clean >/dev/null 2>&1 || true
  rm -f Makefile Makefile.conf
  find . -name '*.vo' -o -name '*.vok' -o -name '*.vos' -o -name '*.glob' -o -name '.*.aux' | xargs -r rm -f
fi
if [ ! -f Makefile ] || [ _CoqProject -nt Makefile ]; then
  coq_makefile -f _CoqProject -o Makefile >/dev/null
fi
timeout 3000 make -j16 > "$ROOT/build.log" 2>&1 || { mkdir -p "$ROOT/build"; tail -40 "$ROOT/build.log"; exit 1; }
mkdir -p "$ROOT/build"; mv "$ROOT/build.log" "$ROOT/build/coq-build.log"
cd "$ROOT/ocaml"
if [ ! -x modelrun ] || [ ../coq/theories/model.ml -nt modelrun ] || [ driver.ml -nt modelrun ]; then
  cp ../coq/theories/model.ml ../coq/theories/model.mli .
  ocamlfind ocamlopt -O3 -w -a -package str,unix -linkpkg model.mli model.ml driver.ml -o modelrun.tmp 2>&1 | grep -v 'options -O3 is only relevant' || true
  mv modelrun.tmp modelrun
fi
echo "setup ok"
