#!/usr/bin/env python3-vt
"""Writes MANIFEST.json from the table below (kept in one place so it always validates)."""
import json, os, sys
HERE = os.path.dirname(os.path.dirname(os.path.abspath(__file__)))
CHECKS = {}
def check(pid, category, text, note, technique, design_ref):
    CHECKS[pid] = dict(property_id=pid, quick_cmd='./check %s --tier quick' % pid, thorough_cmd='./check %s --tier thorough' % pid,
        evidence_file='evidence/%s.json' % pid, replay_cmd_template='./check %s --replay {path}' % pid, engine='coq-model',
        level_claimed=dict(category=category, text=text, design_ref=design_ref), level_note=note, technique=technique)

check('C17', 'proof',
      'Coq theorems (closed under the global context) state for EVERY n that bits_requiredN n is ceil(log2 n) and for every byte string and '
      'width list that the cache-level reader returns the consecutive MSB-first fields and the rest from the next whole byte. The '
      'implementation uses a floating-point formula, so it is tied to the proved function by enumerating the complete stated domain '
      '[0,2^22] (thorough 2^26) and by a differential run of the reader; a proof fits because the property is pure arithmetic over all inputs.',
      'Trusted: Coq kernel, extraction (ExtrOcamlBasic) + OCaml driver, the Python harness; the float formula itself is not proved, its whole domain is enumerated.',
      'Coq proof of the integer model + exhaustive domain sweep and differential run against the extracted model', 'DESIGN.md §6 C17')

check('C03', 'proof',
      'Coq theorem decode_wire_encode_partial: for every type tree (12 constructors, any depth/width), header size, typed value within the '
      'code ranges and tail, decoding the stated wire encoding returns exactly the value and the tail (plus argument-list lifting and the '
      'prefix-consumption theorem); the full statement is kept visible and refuted by three vm_compute witnesses that are the known findings '
      'C03-a/b/c. The model is tied to the code by generated-table instance theorems (SIMPLE_TYPES, struct formats, sizes) and a three-way '
      'differential run: spec encoder -> {extracted decoder, library decoder} on generated types/values/malformed bytes, and every method and '
      'property payload of the real recordings decoded by the independent model with consumption compared.',
      'Trusted: Coq kernel, extraction + driver, translators/harness, CPython struct/BytesIO, lxml. Header sizes < 0 and int() corner syntax are outside the model.',
      'Coq proof over the type-tree model + generated instance theorems + differential run (extracted model vs library)', 'DESIGN.md §6 C03')

NOT_YET = {}
ALL = ['C%02d' % i for i in range(1, 20)]
def main():
    na = [dict(property_id=p, reason=NOT_YET.get(p, 'check not built yet in this revision of /verif (work in progress, see DESIGN.md §9 staging)'))
          for p in ALL if p not in CHECKS]
    m = dict(version=1, setup_cmd='./setup.sh',
             hooks=dict(guard='REPLAYS_UNPACK_VERIF', enable='no hooks are compiled into /repo; checks set REPLAYS_UNPACK_VERIF=1 for uniformity',
                        baseline_off_cmd='cd /repo && /venv/bin/python -m pytest -ra -q -p no:cacheprovider --timeout=900 --continue-on-collection-errors',
                        source_commits=[], add_only=True),
             engines=[dict(name='coq-model', path='coq/theories', serves_properties=sorted(CHECKS),
                           kind_free_text='hand-written Gallina model + Coq proofs; generated-table instance theorems; extracted OCaml model run differentially against the implementation')],
             checks=[CHECKS[p] for p in sorted(CHECKS)],
             notes='See DESIGN.md. Every check: ./check <id> --tier quick|thorough ; replays under evidence/replays/.',
             not_applicable=na)
    json.dump(m, open(os.path.join(HERE, 'MANIFEST.json'), 'w'), indent=1)
    import jsonschema
    jsonschema.validate(m, json.load(open('/root/.vp/MANIFEST.schema.json')))
    print('MANIFEST.json written,', len(CHECKS), 'checks,', len(na), 'not claimed')
if __name__ == '__main__': main()
