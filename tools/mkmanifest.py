#!/usr/bin/env python3-vt
"""Writes MANIFEST.json from the table below (kept in one place so it always validates)."""
import json, os, sys
HERE = os.path.dirname(os.path.dirname(os.path.abspath(__file__)))
CHECKS = {}
def check(pid, category, text, note, technique, design_ref):
    CHECKS[pid] = dict(property_id=pid, quick_cmd='./check %s --tier quick' % pid, thorough_cmd='./check %s --tier thorough' % pid,
        evidence_file='evidence/%s.json' % pid, replay_cmd_template='./check %s --replay {path}' % pid, engine='coq-model',
        level_claimed=dict(category=category, text=text, design_ref=design_ref), level_note=note, technique=technique)

check('C17', 'proof',
      'Coq theorems (closed under the global context) state for EVERY n that bits_requiredN n is ceil(log2 n) and for every byte string and '
      'width list that the cache-level reader returns the consecutive MSB-first fields and the rest from the next whole byte. The '
      'implementation uses a floating-point formula, so it is tied to the proved function by enumerating the complete stated domain '
      '[0,2^22] (thorough 2^26) and by a differential run of the reader; a proof fits because the property is pure arithmetic over all inputs.',
      'Trusted: Coq kernel, extraction (ExtrOcamlBasic) + OCaml driver, the Python harness; the float formula itself is not proved, its whole domain is enumerated.',
      'Coq proof of the integer model + exhaustive domain sweep and differential run against the extracted model', 'DESIGN.md §6 C17')

check('C03', 'proof',
      'Coq theorem decode_wire_encode_partial: for every type tree (12 constructors, any depth/width), header size, typed value within the '
      'code ranges and tail, decoding the stated wire encoding returns exactly the value and the tail (plus argument-list lifting and the '
      'prefix-consumption theorem); the full statement is kept visible; after the repairs of C03-a/b the remaining refutation witness is the counted array of 255 and more '
      'elements (known finding C03-c). The model is tied to the code by generated-table instance theorems (SIMPLE_TYPES, struct formats, sizes) and a three-way '
      'differential run: spec encoder -> {extracted decoder, library decoder} on generated types/values/malformed bytes, and every method and '
      'property payload of the real recordings decoded by the independent model with consumption compared.',
      'Trusted: Coq kernel, extraction + driver, translators/harness, CPython struct/BytesIO, lxml. Header sizes < 0 and int() corner syntax are outside the model.',
      'Coq proof over the type-tree model + generated instance theorems + differential run (extracted model vs library)', 'DESIGN.md §6 C03')

WORLD_NOTE = ('Trusted: Coq kernel, extraction + driver, translators/harness (generators, canonicaliser, the Python SPEC state of the generator), '
              'CPython/struct/BytesIO/lxml. The model mirrors player.py/entity.py by hand; the tie is the differential run (library vs extracted model) '
              'on generated histories over generated definition sets and on the real recordings, plus generated instance theorems for the packet tables AND the packet '
              'layouts (tools/gen_packets.py translates the __init__ of every mapped packet class on every run; LayoutProofs.step_class_is_layout proves that the '
              'model\'s step function is the table-driven one). DESIGN.md 10.8.')
check('C02', 'proof',
      'Coq theorems: framing of any list of well-formed packets returns exactly those packets in order (frames_enc), the two truncation shapes '
      '(cut header / cut payload), termination on EVERY byte string (fuel never exhausted), unmapped packets and mapped-but-ignored packets are '
      'no-ops anywhere in both modes. Tie: generated packet tables proved equal to the model tables, delivered-packet traces of PlayerBase.play '
      'vs the extracted framer on generated streams (all cut offsets, oversized lengths, extreme ids/times), no-op insertion into synthetic '
      'and real streams, and histories with handler payloads shorter than their struct; deliveries repeated with debug logging on; the module-level tables '
      'must survive the construction of players; a sample of the framer cases is re-evaluated by vm_compute inside Coq (extraction cross-check).', WORLD_NOTE,
      'Coq proof over the framing/play model + generated instance theorems + differential run', 'DESIGN.md §6 C02')
check('C05', 'proof',
      'Coq theorems: from the BYTES of the packet stream (framing + table dispatch + step: stream_refines_spec) and after ANY history of base-player, cell-player, '
      'creation and update packets the entity table is the last-writer-wins fold (refinement to an id -> (type, property -> value) spec, '
      'pointwise, no axioms), events never affect other ids, a decodable property-update packet IS the update event at byte level, the base-player '
      'id is reported as the player. Tie: three-way run (library / extracted model / SPEC state kept with plain dicts) over generated definition '
      'sets and histories in all four dialects, and the final entity state of real recordings against the independent model.', WORLD_NOTE,
      'Coq refinement proof + differential run against the extracted model and a Python SPEC state', 'DESIGN.md §6 C05')
check('C06', 'proof',
      'Coq theorems: the bit path with bits_required widths is walked back to the same path and leaf at any depth, update_at replaces exactly the '
      'addressed sub-value and nothing beside the path, a nested packet changes only one client property of one entity, Python slice assignment '
      'characterised for all (i,j); end to end from the payload bytes (element set, dict field, slice) at any depth, and nested_history: ANY sequence of nested '
      'payloads gives the fold of the ordinary list/dict updates. Tie: sweep '
      'over list sizes 0..40 at depth 1-3 with EVERY (i,j,k) slice triple for small lists, the state after each single operation compared with '
      'ordinary Python list/dict operations, plus generated histories and all nested packets of real recordings vs the independent model.', WORLD_NOTE,
      'Coq proof of the path/leaf/slice model + exhaustive small-list sweep + differential run', 'DESIGN.md §6 C06')
check('C07', 'proof',
      'Coq theorems: the callback trace after ANY history is the concatenation, in stream order, of what each packet contributed (nothing recorded is ever removed '
      'or reordered); an unsubscribed method call is a no-op and is not decoded for ANY payload bytes; with n callbacks the trace gains exactly n '
      'entries with positional/keyword split; property subscribers get the new value after assignment; the "every registered callback is invoked" '
      'clause is stated in full and REFUTED for the faithful registration model (known finding C07-a). Tie: callback traces (key, id, args, kwargs) '
      'of recording subscribers registered through the public API vs the extracted model over generated histories x generated registrations, and '
      'every method call / property / nested notification of real recordings with everything subscribed; direct clause tests for C07-a..d.', WORLD_NOTE,
      'Coq proof of the dispatch model + differential callback traces', 'DESIGN.md §6 C07')
check('C08', 'proof',
      'Coq theorems (for the repaired code): pose_history - after ANY sequence of position / own-player position packets every pose is the last-writer-wins value and '
      'nothing else changes; a position packet sets exactly the four pose components of the addressed entity, an own-player packet '
      'without a second entity sets the first from the packet, with a second entity copies its current pose, unknown ids are ignored, pose updates '
      'never touch other ids or any property, new entities start at the defaults. Tie: three-way run on histories with several entities of equal '
      'and different types and arbitrary float bit patterns; poses of real recordings vs the independent model.', WORLD_NOTE,
      'Coq proof of the pose model + differential run', 'DESIGN.md §6 C08')
check('C12', 'proof',
      'Coq theorems over the real step function (which returns the state even on error): strict stops at the first failing packet with that error; '
      'lenient equals strict on the survivors for trace-free failures; every packet class except player/entity creation and own-player position '
      'fails atomically; a failing creation never registers the entity; without failures both modes agree. Tie: fault placement (8-20% faulty '
      'packets of every class) in both modes vs the extracted model, the survivors statement tested on the library alone, get_info error/raise.', WORLD_NOTE,
      'Coq proof over the play/step model + fault-placement differential run', 'DESIGN.md §6 C12')

check('C04', 'proof',
      'Coq theorems: entity ids are 1-based positions without wrap-around; the id order of methods and exposed properties is the stable sort by '
      'wire size - a permutation, sorted, every tie class in collection order, and the UNIQUE list with these properties; the code\'s recursive '
      'collection is proved equal to the fold of one-file absorption over the depth-first list of definition files (interfaces first, own last); '
      'redefinition of a property takes the later position, the first definition of a method wins; smaller key => smaller id. Tie: generated '
      'flag/mask/type tables proved equal to the model\'s, and the complete index maps (order, keys, resolved argument and property types, four '
      'property lists, volatiles) of ALL bundled definition sets and of generated sets compared with the extracted model.',
      'Trusted: Coq kernel, extraction + driver, harness; lxml parses the XML on both sides (same parser options); int() corner syntax of header sizes outside ASCII digits is not modelled.',
      'Coq proof (stable-sort uniqueness, DFS refinement) + exhaustive comparison over all bundled sets + generated sets', 'DESIGN.md §6 C04')

check('C01', 'proof',
      'Coq theorems (closed): a Feistel network is inverted by reversing the round keys for every round function/key/block (hence Blowfish); '
      'XOR of signed 64-bit integers is XOR of the bit patterns and stays in range (the code chains with struct q values); the byte-level '
      'chained decryption with the `if previous_block:` shortcut inverts the writer for every block list; the whole reader inverts the '
      'independent writer for every whitelisted extension, block list (empty blocks -> None), prefix and padded stream; bad extension / bad '
      'magic / short file give ValueError before anything else is read; the progress-reporting reader used for the tie is proved equal to the '
      'plain one. Tie: keys/magic/whitelist regenerated from the source and proved equal to the model\'s; the Coq Blowfish (pi-derived tables) '
      'against Cryptodome block for block; containers written by the extracted writer (all lengths 0..64, levels x strategies, keys, blocks) '
      'read by ReplayReader and by the extracted reader; malformed containers; real recordings read by both and re-wrapped; raw dump.',
      'Trusted: Coq kernel, extraction + driver, harness; zlib and json are oracles applied identically on both sides (inflate(deflate z ++ pad) = z is assumed of zlib); Cryptodome is replaced by the Coq Blowfish and compared with it.',
      'Coq proof (Feistel/chain/container round-trip) + generated instance theorems + differential run', 'DESIGN.md §6 C01')

check('C11', 'proof',
      'Coq theorems: for every inventory in which each bundled directory carries its definitions (instance-checked on the working tree), a wows/wowp '
      'replay is played with the four-component directory if bundled, otherwise the three-component one, controller and definitions ALWAYS from the '
      'same directory; a version with neither is refused with the "not supported" error, a directory without controller with AssertionError, wot with '
      'ImportError - never another version\'s data; the renumbered table is selected iff major > 12 or (major = 12 and minor >= 6) (numeric, so 12.10 > '
      '12.6); the wows version string with any blanks around the commas yields the parts as written. Tie: inventory, prefix literals, slices and '
      'threshold regenerated from the working tree (import of every version module; AST) with instance theorems; normalisation and selection of '
      'the library (list handed to the player class, controller module, definitions directory, packet table identity, exception class) vs the '
      'extracted model for every bundled directory x builds and for unbundled versions; get_info error/hidden/raise.',
      'Trusted: Coq kernel, extraction + driver, translators/harness; importlib and packaging.version are modelled (directory exists <=> importable; numeric release comparison), str slicing is modelled on ASCII prefixes.',
      'Coq proof of the selection model + generated inventory instance theorems + differential run', 'DESIGN.md §6 C11')

check('C10', 'proof',
      'The quantifier is finite and is enumerated completely: a table of ALL bundled version directories x ALL subscriptions their controllers register '
      '(recorded by really constructing each controller) x the arguments the SAME version declares for the target (computed by the extracted model from '
      'the raw definition files) is regenerated from the working tree on every run, and the instance theorem "every inconsistent (version, key) pair is a '
      'listed finding" is proved over it by vm_compute; static Coq theorems give its meaning (a version with no failing pair is fully consistent) and '
      'characterise the CPython binding model (too many positionals / unknown keyword / missing required parameter are rejected, the declared shape is '
      'accepted). The binding model is cross-checked against inspect.signature(...).bind on every pair. The dynamic clause (a minimal battle per version '
      'parses in strict mode) is exercised by the synthetic battles of the C09 check.',
      'Trusted: Coq kernel (vm_compute for the instance theorem), translator gen_versions (imports every version module, inspect.signature), harness; importlib and CPython call binding are modelled.',
      'exhaustive generated instance theorem (vm_compute) + Coq binding model + cross-check with inspect', 'DESIGN.md §6 C10')

check('C16', 'proof',
      'Coq theorems (for the repaired writers, fixed findings C16-a/b/c/d): on every writable type tree with distinct field names, for EVERY typed value, the model of the '
      'library\'s writers produces exactly the statement\'s wire encoding, hence (with the C03 theorem) the library\'s reader returns exactly the '
      'value and what followed; out-of-range integers, wrong argument counts and wrong-length fixed arrays are refused (None for an AllowNone dict and non-ASCII text round-trip). Tie: generated '
      'struct-format tables proved equal to the model\'s; bytes written by the library vs the extracted writer model and write->read round trips '
      'on generated types/values incl. the holes, unrepresentable values and method argument lists.',
      'Trusted: Coq kernel, extraction + driver, harness; CPython struct.pack range checks and float32 rounding (only float32-representable values are generated).',
      'Coq proof (writer model = spec encoder, composed with the decoder theorem) + differential write/read run', 'DESIGN.md §6 C16')

check('C09', 'proof',
      'The event-driven part of every bundled wows controller (76 files, 17 distinct programs) is TRANSLATED on every run from the working tree '
      '(battle_controller.py handlers, players_info.py, constants.py) into a small handler language whose interpreter is Gallina (Summary.v); Coq theorems '
      'about the interpreter, for ANY history strict play accepts and any interleaving with other calls: the damage field is the count over exactly the '
      '(victim, attacker, amount) entries of the damage calls - each entry counted each time it occurs, under its own path and no other, totals are the '
      'stream-order sums (integers: the arithmetic sum); the death list is the list of death calls, once each, in order; planes / achievements / old-style ribbons are counted by the same idiom (entry evaluated in the state the call finds); the roster is the key-mapped, '
      'id-keyed merge in which the last record that names a player and carries a field wins; a call changes only the fields its handler writes and the '
      'roster only if it is a roster call, an unhandled call changes nothing; the map setter removes exactly the prefix (repaired: fixed C09-a). Generated instance theorems discharge the section hypotheses (handler shape, no other writer of '
      'the field) for every distinct program. Tie: translator is fail-closed (unknown statement => obligation fails); the translated program is run by the '
      'extracted interpreter on the calls every synthetic battle of EVERY bundled version and real recordings deliver, and compared field by field with '
      'get_info(); independently, each synthetic summary is compared with what the generator put into the stream (index maps/types from the extracted '
      'model, container from the extracted writer).',
      'Trusted: Coq kernel, extraction + driver, tools/gen_controllers.py (translator) and summarycheck.py; CPython pickle as an oracle (roster blobs are unpickled by the harness '
      'with the encoding the handler names); exact dyadic float addition in the model (histories where CPython rounds are excluded and counted). Modelled, not proved: fields '
      'get_info() derives from the final world (ribbons of newer versions, crew, tasks, control points, new-style battle result inputs: covered by the C05/C06 theorems on that '
      'state), receiveDamageStat (_damage_map; pinned by source hash), '
      'the wot/wowp controllers (player id, map, tracer count compared by run only).',
      'Coq proof over an interpreter of controller programs regenerated from the source on every run (translator) + instance theorems + differential run on all bundled versions', 'DESIGN.md §10.7')

check('C13', 'proof',
      'Coq theorem over a model in which the process-global subscription tables are threaded through a SEQUENCE of parses: under the finite condition '
      'stale_safe (a key one version registers and another does not re-register does not exist in the other\'s definitions) every event of a replay is '
      'handled exactly as in a fresh process after ANY history of earlier parses, and no callback of an earlier parse ever runs; the condition is shown '
      'necessary by a counter-example. stale_safe is established for the working tree by a generated instance theorem over ALL ordered pairs of the 82 '
      'bundled versions (keys recorded by constructing every controller; existence in the definitions computed by the extracted model). Dynamic '
      'confirmation: random sequences of parse calls in one interpreter (all games, strict/lenient, failing files, repetitions) against fresh-interpreter digests.',
      'Trusted: Coq kernel (vm_compute), translator gen_versions, harness; interpreter-level global state other than the three tables (import caches, sys.path) is only observed dynamically.',
      'Coq proof of history independence + exhaustive generated instance theorem + dynamic digest comparison', 'DESIGN.md §6 C13')

check('C14', 'other',
      'Partial: json.dumps, the interpreter\'s stdout and exit code are CPython\'s and are observed. Proved (Coq, closed): on finite result trees the shipped '
      'encoder can only refuse a dict KEY that is a tuple/bytes/other object, never a value; bytes keys are repaired by the roster normalisation, tuple keys '
      'are not. Exhaustive: an AST inventory of every print/sys.stdout.write in the package is regenerated on each run and an instance theorem states that '
      'none is reachable while parsing (CLI print, dump-error message and never-referenced methods excepted). Dynamic: json.dumps(get_info()) and the '
      'command-line tool on synthetic battles of bundled versions of all three games containing entities, position and own-player-position packets for '
      'EVERY integer literal of the source as entity id, and on real recordings: stdout must be one JSON document equal to get_info(), exit code 0.',
      'Trusted: CPython json/stdout, translator gen_sites (AST), the battle generator; a print guarded by a condition that no literal of the source satisfies would only be caught by the inventory theorem (reported with no-failing-input-found).',
      'Coq characterisation of encoder refusals + generated stdout-site inventory theorem + CLI runs (observation)', 'DESIGN.md §6 C14')

check('C15', 'other',
      'Partial. Proved (Coq, closed, for ALL inputs): the framer terminates on every byte string; a successful decode consumes at least min_size(t) '
      'bytes, hence the element loop of a nested update ends within its budget whenever min_size > 0; a value decoder never runs out of budget; the bit-path '
      'loop takes >= 1 bit per iteration; the container block loop needs 4 more bytes per iteration whatever count the header claims - i.e. every recursion '
      'budget of the model is unreachable. Instance check: no array element type of any bundled definition set is zero-sized (15k array types, computed by the '
      'extracted model). Observed, not proved: wall time, peak resident size and outcome of ReplayParser(strict=False).get_info() in a fresh interpreter on '
      'single/multiple corruptions of header/blocks, ciphertext and decoded stream; container-intact damage must still return a result object.',
      'Trusted: CPython, zlib, lxml (time and memory are theirs), the fault generator; zlib bombs are outside the quantifier (corruptions of real files).',
      'Coq termination bounds for every model loop + generated zero-size-element scan + fault injection under time/RSS observation', 'DESIGN.md §6 C15')

check('C18', 'other',
      'Partial. Proved (Coq, closed): in a capability model of the unpickler, for EVERY opcode sequence whatever gets called is rooted at a global that '
      'find_class handed out - so an allow-list find_class confines the calls to the list, while pickle.loads (everything importable) does not (witness: '
      'GLOBAL os.system REDUCE = known finding C18-a); helper.get_definitions replaces every dot of the file-controlled version string before it builds '
      'the path, so no path component can be ".." for ANY version string. Exhaustive: AST inventory of every call site that can reach '
      'eval/exec/compile/__import__/import_module/os.system/subprocess/open/sys.path mutation, with an instance theorem that all are of an expected class. '
      'Observed under sys.addaudithook: benign recordings and battles (imports, find_class, files opened), battles whose every pickled argument is a '
      'hostile pickle naming a benign marker function (the marker IS called: C18-a), and crafted version strings with path components, absolute paths '
      'and module-like names for all three games (nothing outside the bundle is touched).',
      'Trusted: the capability abstraction of CPython\'s unpickler, the audit hook (lxml reads .def files in C, invisible to it), translator gen_sites.',
      'Coq capability model of unpickling + path theorem + generated call-site inventory theorem + audit-hook observation', 'DESIGN.md §6 C18')

check('C19', 'other',
      'Partial. setuptools is abstracted by a Gallina model (find_packages with its include filter, build_py modules, recursive package_data globs, scripts); '
      'the abstraction is VALIDATED on every run against the name list of a wheel really built offline from a scratch copy of the working tree (sets must be '
      'equal: translation validation). The completeness claim is an exhaustive GENERATED instance theorem over the directory trie of the working tree '
      '(every file parsing can need - every module, every definition file of every bundled version, the fixture modules, the script - that is not shipped is a '
      'listed finding; vm_compute). Static Coq theorems: reported packages have an __init__.py, nothing is reported below a non-package, the str passed as '
      'include admits every package through its "*" character. Dynamic: synthetic battles for bundled versions of all games and real recordings parsed from '
      'the unpacked wheel with the checkout removed from sys.path, digests equal to the checkout\'s. The defect present at the pinned commit (fixtures and all '
      'wowp controllers missing from the wheel) was repaired in /repo.',
      'Trusted: pip/setuptools for the validation build, translator gen_tree (AST of setup.py, os.listdir), the packaging model where the validation does not exercise it (sdist is not built).',
      'generated exhaustive instance theorem over the tree + translation validation against a really built wheel + installed-copy digests', 'DESIGN.md §6 C19')

NOT_YET = {}
ALL = ['C%02d' % i for i in range(1, 20)]
def main():
    na = [dict(property_id=p, reason=NOT_YET.get(p, 'check not built yet in this revision of /verif (work in progress, see DESIGN.md §9 staging)'))
          for p in ALL if p not in CHECKS]
    m = dict(version=1, setup_cmd='./setup.sh',
             hooks=dict(guard='REPLAYS_UNPACK_VERIF', enable='no hooks are compiled into /repo; checks set REPLAYS_UNPACK_VERIF=1 for uniformity',
                        baseline_off_cmd='cd /repo && /venv/bin/python -m pytest -ra -q -p no:cacheprovider --timeout=900 --continue-on-collection-errors',
                        source_commits=[], add_only=True),
             engines=[dict(name='coq-model', path='coq/theories', serves_properties=sorted(CHECKS),
                           kind_free_text='hand-written Gallina model + Coq proofs; generated-table instance theorems; extracted OCaml model run differentially against the implementation')],
             checks=[CHECKS[p] for p in sorted(CHECKS)],
             notes='See DESIGN.md. Every check: ./check <id> --tier quick|thorough ; replays under evidence/replays/.',
             not_applicable=na)
    json.dump(m, open(os.path.join(HERE, 'MANIFEST.json'), 'w'), indent=1)
    import jsonschema
    jsonschema.validate(m, json.load(open('/root/.vp/MANIFEST.schema.json')))
    print('MANIFEST.json written,', len(CHECKS), 'checks,', len(na), 'not claimed')
if __name__ == '__main__': main()
