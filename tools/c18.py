"""C18 - parsing a replay cannot execute code chosen by the file."""
import os, re, sys, json, pickle, random, shutil, struct, tempfile, sysconfig
from tools import common, gen_sites, battle, recordings, c18_marker, gen_types, synth
from tools.gen_const import GEN_DIR, coq_str
LEVEL = 'other'

EVENTS = []
_hook_on = [False]
PROC_EVENTS = []
def _hook(ev, args):
    if ev in ('subprocess.Popen', 'os.system', 'os.exec', 'os.posix_spawn', 'os.fork'):
        # processes are recorded ALWAYS (also during the un-audited helper parses of this check): some are spawned once per process and cached
        try: PROC_EVENTS.append((ev, tuple(str(a)[:200] for a in args[:2]), _hook_on[0]))
        except Exception: pass
    if not _hook_on[0]: return
    if ev in ('import', 'pickle.find_class', 'os.system', 'subprocess.Popen', 'open', 'exec', 'compile', 'os.exec', 'os.posix_spawn', 'os.fork'):
        try: EVENTS.append((ev, tuple(str(a)[:300] for a in args[:2])))
        except Exception: pass
sys.addaudithook(_hook)


def audited_parse(path, strict=False):
    from replay_parser import ReplayParser
    del EVENTS[:]; del c18_marker.CALLS[:]
    _hook_on[0] = True
    try:
        try: ReplayParser(path, strict=strict).get_info(); out = 'ok'
        except Exception as e: out = 'exc ' + type(e).__name__
    finally: _hook_on[0] = False
    return out, list(EVENTS), list(c18_marker.CALLS)


ALLOWED_CLASSES = {('CamouflageInfo', 'CamouflageInfo'), ('PlayerModeDef', 'PlayerMode')}


def judge(path, events, allowed_dirs):
    """-> list of (kind, detail) for everything the parse did that C18 does not allow"""
    bad = []
    stdlib = [sysconfig.get_paths()[k] for k in ('stdlib', 'platstdlib', 'purelib', 'platlib')] + [os.path.dirname(os.__file__)]
    for ev, a in events:
        if ev == 'pickle.find_class':
            if (a[0], a[1]) not in ALLOWED_CLASSES: bad.append(('find_class', '%s.%s' % a))
        elif ev in ('os.system', 'subprocess.Popen', 'os.exec', 'os.posix_spawn', 'os.fork'): bad.append(('process', ev + ' ' + a[0]))
        elif ev == 'exec' or ev == 'compile':
            pass    # the import system compiles/executes module code; imports are judged by name below
        elif ev == 'import':
            name = a[0]
            ok = (name.startswith('replay_unpack.') or name in ('replay_unpack', 'CamouflageInfo', 'PlayerModeDef', 'pickle', '_pickle', 'copyreg', '_compat_pickle', 'struct', '_struct')
                  or name.split('.')[0] in sys.stdlib_module_names or name.split('.')[0] in ('lxml', 'Cryptodome', 'packaging', 'tools'))
            if not ok: bad.append(('import', name))
        elif ev == 'open':
            p = a[0]
            if not p.startswith('/'): p = os.path.abspath(p)
            rp = os.path.realpath(p)
            if rp == os.path.realpath(path) or any(rp.startswith(os.path.realpath(d) + os.sep) for d in allowed_dirs + stdlib) or rp.startswith('/proc/') or rp == '/dev/null': continue
            # (source and byte-code files are opened by the import system: fine inside the bundle, the standard library, site-packages and this harness;
            #  a .py file anywhere else means the parse executed code from a place the FILE chose)
            if (p.endswith(('.pyc', '.py')) or '__pycache__' in p) and any(rp.startswith(os.path.realpath(d) + os.sep) for d in allowed_dirs + stdlib + [common.VERIF, common.REPO]): continue
            bad.append(('open', p))
    return bad


def hostile_pickle():
    """GLOBAL tools.c18_marker.mark ; args ; REDUCE - protocol 2 so that STRING/BLOB arguments stay bytes"""
    return b'\x80\x02ctools.c18_marker\nmark\nK\x07\x85R.'


def run(ctx):
    ctx.rule = ('static: AST inventory of every call site that can reach eval/exec/compile/__import__/import_module/os.system/subprocess/open/sys.path '
                'mutation, classified by where its argument comes from (instance theorem: nothing but the version-derived imports, constant-argument sites, '
                'the explicit dump and the listed pickle.loads sites). dynamic: synthetic battles for bundled versions in which EVERY pickled argument of '
                'every subscribed method is a hostile pickle naming a marker function, crafted version strings with path components, and benign recordings, '
                'parsed under sys.addaudithook; non-trivial = every parse; distinct by file')
    ctx.extra['explanation'] = ('Level "other": CPython\'s unpickler is abstracted (capability machine, theorems closed); the real code is observed under an audit hook with '
                                'benign payloads. The property is violated on the unchanged tree (unrestricted pickle.loads; version-string path traversal): both are listed findings.')
    ctx.coq_props('Props/C18.v')
    sites, ints, problems = gen_sites.scan()
    ctx.obligation('translator gen_sites parses every source file', not problems, '; '.join(problems))
    # ---- static classification
    cls = {}
    for kind, rel, fn, name, ln in sites:
        if kind == 'stdout': continue
        if kind == 'code' and name.endswith('import_module') and rel.endswith('helper.py'): c = 'version-import'
        elif kind == 'pickle': c = 'pickle-loads (listed finding C18-a)'
        elif kind == 'file' and rel == 'replay_parser.py' and fn.endswith('_get_hidden_data'): c = 'explicit-dump'
        elif kind == 'file' and rel.endswith('replay_reader.py'): c = 'replay-or-dump'
        elif kind == 'file' and rel.endswith(os.path.join('data_types', '__init__.py')): c = 'bundled-alias-file'
        elif kind == 'fs-or-path' and rel.endswith(os.path.join('replay_unpack', '__init__.py')): c = 'fixtures-path-constant'
        else: c = 'UNEXPECTED:' + kind
        cls.setdefault(c, []).append((rel, fn, name, ln))
    # pickle.loads sites: found by a separate scan on attribute calls named loads/load on a name bound to pickle
    import ast
    pl = []
    for f in gen_sites.py_files():
        rel = os.path.relpath(f, common.REPO)
        try: tree = ast.parse(open(f, encoding='utf-8').read())
        except SyntaxError: continue
        for n in ast.walk(tree):
            if isinstance(n, ast.Call) and isinstance(n.func, ast.Attribute) and n.func.attr in ('loads', 'load') and isinstance(n.func.value, ast.Name) and n.func.value.id in ('pickle', 'cPickle'):
                pl.append((rel, n.lineno))
    unexpected = sorted(set((r, fn, nm) for c, l in cls.items() if c.startswith('UNEXPECTED') for r, fn, nm, ln in l))
    with common.Lock('gen'):
        os.makedirs(GEN_DIR, exist_ok=True)
        open(os.path.join(GEN_DIR, 'GenC18.v'), 'w').write('From RU Require Import Base.\nOpen Scope string_scope.\n'
            'Definition gen_unexpected_sites : list (string * string) := [%s].\nDefinition gen_pickle_sites : nat := %d.\nDefinition gen_classified : list (string * nat) := [%s].\n' % (
            '; '.join('(%s, %s)' % (coq_str(r), coq_str(fn + ':' + nm)) for r, fn, nm in unexpected), len(pl),
            '; '.join('(%s, %d%%nat)' % (coq_str(c), len(l)) for c, l in sorted(cls.items()))))
        open(os.path.join(GEN_DIR, 'Inst_C18.v'), 'w').write('From RU Require Import Base.\nFrom Gen Require Import GenC18.\nOpen Scope string_scope.\n'
            '(* every call site that can reach a code-executing / process / file primitive is of an expected class *)\n'
            'Theorem inst_no_unexpected_site : gen_unexpected_sites = [].\nProof. reflexivity. Qed.\n')
        ok, out = common.coqc(os.path.join(GEN_DIR, 'GenC18.v'), extra_q=[(GEN_DIR, 'Gen')])
        if ok: ctx.coq_props(os.path.join(GEN_DIR, 'Inst_C18.v'), extra_q=[(GEN_DIR, 'Gen')])
    ctx.extra['call_sites'] = {c: len(l) for c, l in cls.items()}; ctx.extra['pickle_loads_sites'] = len(pl)
    # the listed finding covers ONE channel: pickled method arguments handed to the per-version controllers; a deserialisation site anywhere else
    # (a packet class, the reader, the CLI) is a different violation and is reported as such
    ctl = re.compile(r'^replay_unpack/clients/[a-z]+/versions/[^/]+/battle_controller\.py$')
    pl_ctl = [x for x in pl if ctl.match(x[0].replace(os.sep, '/'))]; pl_other = [x for x in pl if x not in pl_ctl]
    ctx.extra['pickle_loads_sites_outside_controllers'] = len(pl_other)
    if pl_ctl:
        ctx.deviation('unrestricted-pickle', {'class': 'unrestricted-pickle', 'channel': 'controller-method-argument'}, dict(kind='static', sites=len(pl_ctl), first=pl_ctl[:3],
                      how='pickle.loads / pickle.load on bytes taken from method arguments of the replay'))
    new_site_replay = None
    # ---- dynamic
    q = ctx.tier == 'quick'; rng = ctx.rng
    tmp = tempfile.mkdtemp(prefix='verif-c18-')
    bundled = os.path.join(common.REPO, 'replay_unpack')
    try:
        # (1) benign inputs: nothing but the expected imports/classes/files
        files = [f for f in recordings.list_recordings() if os.path.getsize(f) < (800000 if q else 10 ** 9)][: (3 if q else 60)]
        p = os.path.join(tmp, 'benign.wowsreplay'); battle.write_wows(p, '13_2_0', random.Random(3)); files.append(p)
        for f in files:
            out, ev, marks = audited_parse(f)
            ctx.case(('benign', os.path.basename(f))); ctx.traces_validated += 1
            bad = judge(f, ev, [bundled, tmp])
            if bad:
                ctx.violation(dict(kind='benign-parse-does-more-than-read', file=os.path.basename(f), events=bad[:10],
                                   how='ReplayParser(file).get_info() under sys.addaudithook (tools/c18.audited_parse)'))
        # (1') packets addressed to entities that were NEVER CREATED (every packet kind that names an entity; ids 0, negative, huge): whatever the
        # player does with them (fail and skip, ignore), it opens nothing - parsed in a scratch working directory, which must stay empty
        cwd0_ = os.getcwd(); wd_ = os.path.join(tmp, 'wd-orphans'); os.makedirs(wd_)
        for v_ in ('13_2_0', '0_10_0'):
            if v_ not in battle.wows_versions(): continue
            ob, ovs = battle.build_wows(v_, random.Random(11))
            for eid in (77777, 0, -5, 2 ** 31 - 1):
                ob.pkt('Position', struct.pack('<ii', eid, 0) + bytes(24) + bytes(12) + b'\x00')
                ob.pkt('PlayerPosition', struct.pack('<ii', eid, 0) + bytes(24))
                ob.pkt('PlayerPosition', struct.pack('<ii', 900, eid) + bytes(24))
                ob.pkt('EntityMethod', struct.pack('<iI', eid, 0) + synth.binstream(b''))
                ob.pkt('EntityProperty', struct.pack('<iI', eid, 0) + synth.binstream(b'\x00'))
                if 'NestedProperty' in ob.ids: ob.pkt('NestedProperty', struct.pack('<ibB', eid, 0, 1) + bytes(3) + b'\x80')
                ob.pkt('EntityLeave', struct.pack('<i', eid)); ob.pkt('EntityEnter', struct.pack('<iii', eid, 1, 2)); ob.pkt('EntityControl', struct.pack('<ib', eid, 1))
            po = os.path.join(tmp, 'orphans-%s.wowsreplay' % v_); battle.write_replay(po, 'wowsreplay', {'clientVersionFromXml': ovs}, ob.stream())
            os.chdir(wd_)
            try:
                out, ev, marks = audited_parse(po)
                bad = judge(po, ev, [bundled])
            finally: os.chdir(cwd0_)
            ctx.case(('orphan-packets', v_)); ctx.count('orphan-packets', 36)
            left = sorted(os.listdir(wd_))
            if bad or left:
                ctx.violation(dict(kind='benign-parse-does-more-than-read', file='a synthetic %s battle followed by packets of every kind for entity ids that were never created (77777, 0, -5, 2^31-1)' % v_,
                                   events=bad[:10], files_left_in_the_working_directory=left[:6],
                                   how='ReplayParser(file).get_info() under sys.addaudithook in an empty scratch working directory: only the replay and the bundled definitions may be opened, the directory stays empty'))
                break
        # (1a) a replay much bigger than any sample (a packet stream of 9 MiB of unmapped packets around a small battle): still nothing but the replay
        # and the bundle is opened - no spill files, wherever buffers are kept
        from tools import c15 as c15_
        bigb, bigvs = battle.build_wows('13_2_0', random.Random(5))
        filler = b''.join(struct.pack('<IIf', 65536, 0x99, 1.0) + bytes(random.Random(k_).randrange(256) for _ in range(64)) * 1024 for k_ in range(144))
        pbig = os.path.join(tmp, 'big.wowsreplay'); c15_.fast_write(pbig, 'wowsreplay', json.dumps({'clientVersionFromXml': bigvs}).encode(), bigb.stream() + filler, level=0)
        out, ev, marks = audited_parse(pbig)
        ctx.case(('benign-big', os.path.getsize(pbig)))
        bad = judge(pbig, ev, [bundled])
        if bad or out != 'ok':
            ctx.violation(dict(kind='benign-parse-does-more-than-read', file='a %d-byte replay (9 MiB of unmapped packets behind a 13.2.0 battle)' % os.path.getsize(pbig), outcome=out, events=bad[:10],
                               how='ReplayParser(file).get_info() under sys.addaudithook; only the replay and the bundled definitions may be opened'))
        os.unlink(pbig)
        # (1b) "an explicitly requested dump" is requested by THAT parse only: a later parse without a dump request opens nothing but its own
        # replay and the bundle, and the earlier dump keeps its content
        from replay_parser import ReplayParser as RP0
        dump = os.path.join(tmp, 'dumps', 'a.bin'); os.makedirs(os.path.dirname(dump))
        fa = files[-1]; fb = os.path.join(tmp, 'benign2.wotreplay'); battle.write_simple(fb, 'wot', '1_10_0', random.Random(4))
        RP0(fa, strict=False, raw_data_output=dump).get_info()
        before = open(dump, 'rb').read()
        for later in (fb, files[0]):
            out, ev, marks = audited_parse(later)
            ctx.case(('dump-then-parse', os.path.basename(later)))
            bad = judge(later, ev, [bundled])
            after = open(dump, 'rb').read() if os.path.exists(dump) else None
            if bad or after != before:
                ctx.violation(dict(kind='later-parse-touches-earlier-dump', first=os.path.basename(fa), later=os.path.basename(later), events=bad[:10], dump_changed=after != before,
                                   how='ReplayParser(first, raw_data_output=f).get_info(); then ReplayParser(later).get_info() under the audit hook: it may open only its replay and the bundle, and f keeps its content'))
                break
        # (1c) the reader's own dump option (ReplayReader(path, dump_binary=True)): the dump it writes is "<replay file name>.hex" in the working
        # directory - a name the CALLER chose; header fields of the replay (dates, vehicle and map names with path separators) must not steer it
        from replay_unpack.replay_reader import ReplayReader as RR0
        hostile = {'clientVersionFromXml': '0,9,4,0', 'dateTime': os.path.join(tmp, 'owned', 'x'), 'playerVehicle': '../../pv', 'mapDisplayName': '/tmp/verif-c18-map',
                   'playerName': os.path.join(tmp, 'owned', 'y'), 'mapName': '../m', 'name': os.path.join(tmp, 'owned', 'z')}
        os.makedirs(os.path.join(tmp, 'owned')); cwd0 = os.getcwd(); wd = os.path.join(tmp, 'wd'); os.makedirs(wd)
        for nm in ('temp.wowsreplay', 'temp.wotreplay', 'battle.wowsreplay'):
            p = os.path.join(wd, nm); battle.write_replay(p, nm.rsplit('.', 1)[1], hostile, b'\x00' * 24)
            del EVENTS[:]; os.chdir(wd); _hook_on[0] = True
            try:
                try: RR0(p, dump_binary=True).get_replay_data()
                except Exception: pass
            finally:
                _hook_on[0] = False
                judged = judge(p, list(EVENTS), [bundled])          # (relative paths of the events are resolved against the working directory of the call)
                os.chdir(cwd0)
            ctx.case(('reader-dump', nm))
            allowed = os.path.realpath(os.path.join(wd, nm + '.hex'))
            bad = [e for e in judged if not (e[0] == 'open' and os.path.realpath(e[1]) == allowed)]
            stray = [os.path.join(dp, f) for dp, _, fs in os.walk(tmp) for f in fs if dp.startswith(os.path.join(tmp, 'owned'))] + [f for f in os.listdir(wd) if f not in ('temp.wowsreplay', 'temp.wotreplay', 'battle.wowsreplay') and not f.endswith('.hex')]
            if bad or stray:
                ctx.violation(dict(kind='reader-dump-steered-by-file', replay_name=nm, header=hostile, events=bad[:6], files_written_elsewhere=stray[:6],
                                   how='ReplayReader(path, dump_binary=True).get_replay_data() in a scratch working directory, header fields holding paths: only <replay name>.hex in the working directory may be written'))
                break
        # (2) hostile pickles in every pickled argument
        wv = battle.wows_versions(); picks = wv if not q else battle.representative_versions(9)[::2]
        orig_dumps = pickle.dumps
        for v in picks:
            p = os.path.join(tmp, 'hostile-%s.wowsreplay' % v)
            pickle.dumps = lambda obj, protocol=None: hostile_pickle()          # the generator pickles rosters etc.: replace every such blob
            try: battle.write_wows(p, v, random.Random(rng.randrange(10 ** 9)))
            finally: pickle.dumps = orig_dumps
            out, ev, marks = audited_parse(p)
            ctx.case(('hostile', v)); ctx.count('hostile:marker-called' if marks else 'hostile:marker-not-called')
            if marks or any(e == 'pickle.find_class' and a[:2] == ('tools.c18_marker', 'mark') for e, a in ev):
                ctx.deviation('unrestricted-pickle', {'class': 'unrestricted-pickle', 'channel': 'controller-method-argument'}, dict(kind='dynamic', version='wows/' + v, marker_calls=len(marks),
                              how='a battle whose pickled arguments are  cGLOBAL tools.c18_marker.mark (7,) REDUCE ; ReplayParser(file).get_info()'))
            os.unlink(p)
        # (2b) hostile packet bodies: every packet type id 0..0x40 of every dialect carrying the hostile pickle raw, length-prefixed, and after a
        #      plausible entity header - no packet class may hand its body to a deserialiser (the failing-input search for a new site)
        hp = hostile_pickle()
        for ext, key, vs in (('wowsreplay', 'clientVersionFromXml', '13,2,0,1'), ('wowsreplay', 'clientVersionFromXml', '0,10,6,1'), ('wowsreplay', 'clientVersionFromXml', '12,6,0,1'),
                             ('wotreplay', 'clientVersionFromXml', 'World\xa0of\xa0Tanks v.1.10.0.0 #77'), ('wowpreplay', 'clientVersion', 'World of Warplanes 2.1.17.5')):
            for shape, body in (('raw', hp), ('length-prefixed', struct.pack('<I', len(hp)) + hp), ('after-ids', struct.pack('<II', 1, 0) + struct.pack('<I', len(hp)) + hp)):
                stream = b''.join(struct.pack('<IIf', len(body), t, 1.0) + body for t in range(0x41))
                p = os.path.join(tmp, 'bodies.' + ext); battle.write_replay(p, ext, {key: vs}, stream)
                out, ev, marks = audited_parse(p)
                ctx.case(('hostile-bodies', vs, shape)); ctx.count('hostile-bodies:' + ext)
                if marks or any(e == 'pickle.find_class' and a[:2] == ('tools.c18_marker', 'mark') for e, a in ev):
                    # which packet type does it: bisect by single-type streams
                    guilty = []
                    for t in range(0x41):
                        battle.write_replay(p, ext, {key: vs}, struct.pack('<IIf', len(body), t, 1.0) + body)
                        o2, ev2, m2 = audited_parse(p)
                        if m2 or any(e == 'pickle.find_class' for e, a in ev2): guilty.append(t)
                    new_site_replay = ctx.violation(dict(kind='packet-body-deserialised', version_string=vs, shape=shape, packet_types=[hex(t) for t in guilty], body=body.hex(),
                                       how='a replay with that version string and one packet of the listed type whose payload is the given bytes (a pickle naming '
                                           'tools.c18_marker.mark); ReplayParser(file).get_info() under sys.addaudithook resolves and calls the named function'))
                    break
            if new_site_replay: break
        if pl_other and not new_site_replay:
            ctx.violation(dict(kind='new-deserialisation-site', sites=pl_other[:5],
                               note='a pickle.load(s) call outside the per-version controllers; the hostile-packet-body search did not reach it'), no_input=True)
        # (2c) hostile pickles as the value of every PYTHON-typed client property and method argument (a PYTHON value is delivered as bytes;
        #      nothing may unpickle it on the way)
        for game, v, ext in (('wot', '1_10_0', 'wotreplay'), ('wot', '1_8_0', 'wotreplay'), ('wowp', '2_1_17', 'wowpreplay'), ('wows', wv[-1], 'wowsreplay'), ('wows', wv[0], 'wowsreplay')):
            dv = os.path.join(bundled, 'clients', game, 'versions', v)
            try:
                b = battle.Battle(dv, {'wows': 'wows126' if tuple(map(int, v.split('_')[:3])) >= (12, 6, 0) else 'wows', 'wot': 'wot', 'wowp': 'wowp'}[game], random.Random(3))
            except Exception: continue
            A = 321; b.base_player(A)
            if game != 'wowp':
                try: b.cell_player(A)
                except Exception: pass
            hp2 = hostile_pickle(); npk = 0
            # (wot / wowp: no bundled controller unpickles anything, so there EVERY byte-carrying argument and property - BLOB as well as PYTHON - gets the pickle)
            carry = ('python', 'blob', 'string') if game in ('wot', 'wowp') else ('python',)
            hp0 = b'ctools.c18_marker\nmark\n(I7\ntR.'        # the same pickle in protocol 0: plain ASCII, so it survives a STRING argument (decoded as text, encoded back)
            kint = [0]
            def has_py(t): return t[0] in carry or (t[0] == 'user' and has_py(t[1])) or (t[0] == 'array' and has_py(t[1])) or (t[0] == 'dict' and any(has_py(ft) for _, ft in t[1]))
            def fill(t):
                if t[0] == 'python': return ('b', hp2)
                if t[0] == 'blob' and 'blob' in carry: return ('s', hp2)
                if t[0] == 'string' and 'string' in carry: return ('s', hp0)
                if t[0] in 'ui' and 'string' in carry: return kint[0] % (2 ** (8 * t[1] - 1))          # (selector arguments: every small value is tried)
                if t[0] == 'user': return fill(t[1])
                if t[0] == 'array': return [fill(t[1])] * (t[2] if t[2] is not None else 1)
                if t[0] == 'dict': return {n: fill(ft) for n, ft in t[1]}
                return battle.default_value(t, random.Random(1))
            for ename in b.md.names:
                ent = b.md.ent[ename]
                for i, (pn, pt) in enumerate(ent['client']):
                    if has_py(pt):
                        if ename != 'Avatar':
                            try: b.create(4000 + npk, ename, [])
                            except Exception: continue
                        eid = A if ename == 'Avatar' else 4000 + npk
                        b.pkt('EntityProperty', struct.pack('<II', eid, i) + battle.synth.binstream(gen_types.wire_of(pt, fill(pt)))); npk += 1
                for i, m in enumerate(ent['methods']):
                    if any(has_py(at) for an, at in m['args']) and ename == 'Avatar':
                        for k_ in (range(0, 14) if 'string' in carry and any(at[0] in 'ui' for an, at in m['args']) else (0,)):
                            kint[0] = k_
                            body = b''.join(gen_types.wire_of(at, fill(at), max(m['hdr'], 0)) for an, at in m['args'])
                            b.pkt('EntityMethod', struct.pack('<II', A, i) + battle.synth.binstream(body)); npk += 1
            if not npk: continue
            vs_ = {'wot': 'World\xa0of\xa0Tanks v.%s.0 #77' % v.replace('_', '.'), 'wowp': 'World of Warplanes %s.5' % v.replace('_', '.'), 'wows': ','.join(v.split('_')[:3] + ['1'])}[game]
            p = os.path.join(tmp, 'pyvals.' + ext); battle.write_replay(p, ext, {('clientVersion' if game == 'wowp' else 'clientVersionFromXml'): vs_}, b.stream())
            out, ev, marks = audited_parse(p)
            ctx.case(('python-typed-values', game, v)); ctx.count('python-typed-packets', npk)
            if marks or any(e == 'pickle.find_class' and a[:2] == ('tools.c18_marker', 'mark') for e, a in ev):
                calls = [a for e, a in ev if e == 'pickle.find_class']
                # the listed finding covers controller callbacks unpickling their ARGUMENTS; a value unpickled by the type codec itself is something else:
                # tell them apart by running the same stream with nothing subscribed
                ctx.deviation('unrestricted-pickle', {'class': 'unrestricted-pickle', 'channel': 'python-typed-value:%s/%s' % (game, v)},
                              dict(kind='python-typed-value-unpickled', version='%s/%s' % (game, v), packets=npk, find_class=calls[:3],
                                   how='a replay whose PYTHON-typed property values / method arguments are the hostile pickle; ReplayParser(file).get_info() under the audit hook'))
        # (3) crafted version strings with path components: nothing outside the bundle may be probed or read
        evil = os.path.join(tmp, 'evil'); src = os.path.join(bundled, 'clients', 'wows', 'versions', '0_9_4', 'scripts')
        shutil.copytree(src, os.path.join(evil, 'scripts'))
        shutil.copytree(src, os.path.join(tmp, 'evil_9_4', 'scripts'))
        rel = os.path.relpath(evil, os.path.join(bundled, 'clients', 'wows', 'versions', '0_9_4_2442770'))
        crafted = [('wowsreplay', 'clientVersionFromXml', v) for v in ('0,9,4,2442770/' + rel, '0,9,4,../' * 3, '0,9,4,x/../../..', evil + ',9,4,1', '0,9,4,/' + evil,
                   '13,0,0,7983292/' + os.path.relpath(evil, os.path.join(bundled, 'clients', 'wows', 'versions', '13_0_0_7983292')), 'os,path,join,x', '0,9,4,2442770/scripts')]
        crafted += [('wowpreplay', 'clientVersion', 'World of Warplanes ' + v) for v in ('2.1.17/../../../../x', evil + '.1.2', '2.1.17.' + evil)]
        crafted += [('wotreplay', 'clientVersionFromXml', 'World\xa0of\xa0Tanks v.' + v) for v in ('1.10.0/../../x #1', evil + ' #1', '../../..')]
        # ... and directories laid out like a VERSION PACKAGE (an __init__.py that would leave a marker if it were ever executed)
        pkgroot = os.path.join(tmp, 'pk'); marker = os.path.join(tmp, 'EXECUTED')
        for name in ('extras_1_2_3', 'extras_1_2', 'x_9_4_1', 'x_9_4'):
            os.makedirs(os.path.join(pkgroot, name, 'scripts', 'entity_defs'), exist_ok=True)
            open(os.path.join(pkgroot, name, '__init__.py'), 'w').write('open(%r, "a").write("x")\n' % marker)
            for fn in ('battle_controller.py', 'constants.py', 'players_info.py'): open(os.path.join(pkgroot, name, fn), 'w').write('open(%r, "a").write("x")\n' % marker)
        crafted += [('wowsreplay', 'clientVersionFromXml', v) for v in (pkgroot + '/extras, 1, 2, 3', pkgroot + '/extras,1,2,3', pkgroot + '/x,9,4,1', '0,9,4,/../../../../../../../../' + pkgroot.lstrip('/') + '/x')]
        crafted += [('wowpreplay', 'clientVersion', 'World of Warplanes ' + pkgroot + '/extras.1.2.3'), ('wotreplay', 'clientVersionFromXml', 'World\xa0of\xa0Tanks v.' + pkgroot + '/extras.1.2 #1')]
        # ... and the BARE absolute path of a directory that holds definitions (no dots, no blanks, no commas: it survives every normalisation as ONE
        # version component; os.path.join(<bundle>/versions, <absolute path>) is that path)
        crafted += [('wowpreplay', 'clientVersion', 'World of Warplanes ' + evil), ('wowpreplay', 'clientVersion', 'World of Warplanes ' + evil + '.'),
                    ('wotreplay', 'clientVersionFromXml', 'World\xa0of\xa0Tanks v.' + evil), ('wotreplay', 'clientVersionFromXml', 'World of Tanks v.' + evil + ' #1'),
                    ('wowsreplay', 'clientVersionFromXml', evil), ('wowsreplay', 'clientVersionFromXml', evil + ',')]
        for ext, key, vs in crafted:
            p = os.path.join(tmp, 'crafted.' + ext); battle.write_replay(p, ext, {key: vs}, b'')
            out, ev, marks = audited_parse(p)
            ctx.case(('crafted-version', vs)); ctx.count('crafted:' + ext)
            bad = judge(p, ev, [bundled])
            if os.path.exists(marker): bad.append(('executed', 'code of a package outside the bundle was run')); os.unlink(marker)
            if bad:
                ctx.violation(dict(kind='crafted-version-string', ext=ext, version_string=vs, events=bad[:6],
                                   how='a replay whose open block carries that version string; audit events during ReplayParser(file).get_info()'))
        # (3') the same texts inside the STREAM: the wows stream carries a Version record of its own; whatever it says, it names no directory - the header
        # selected the definitions. Planted directories are laid out so that every way of turning the text into a path finds definitions there
        plant = os.path.join(tmp, 'plant')
        for nm in ('0_9_4_1', '0_9_4', '0_8_0_1', '0_8_0'): shutil.copytree(src, os.path.join(plant, nm, 'scripts'))
        texts = [plant + '/0,9,4,1', plant + '/0, 9, 4, 1', plant + '/0,8,0,1', evil + ',9,4,1', '0,9,4,/' + evil, '../../../../../../../..' + plant + '/0,9,4,1', plant.replace('/', ',')]
        for v_ in ('13_2_0', '0_10_0'):
            if v_ not in battle.wows_versions(): continue
            for t_ in texts:
                sb, svs = battle.build_wows(v_, random.Random(12))
                if 'Version' not in sb.ids: break
                tb_ = t_.encode(); rec = battle.synth.frame(sb.ids['Version'], 0, struct.pack('<i', len(tb_)) + tb_)
                p = os.path.join(tmp, 'instream.wowsreplay'); battle.write_replay(p, 'wowsreplay', {'clientVersionFromXml': svs}, rec + sb.stream() + rec)
                out, ev, marks = audited_parse(p)
                ctx.case(('in-stream-version', v_, t_)); ctx.count('crafted:in-stream-version')
                bad = judge(p, ev, [bundled])
                if bad:
                    ctx.violation(dict(kind='crafted-version-string', ext='wowsreplay', where='the Version record INSIDE the packet stream (the header names %s)' % svs, version_string=t_, events=bad[:6],
                                       how='a synthetic %s battle whose stream starts and ends with a Version record carrying that text; audit events during ReplayParser(file).get_info(): only the replay and the bundle may be opened' % v_))
                    break
    finally:
        shutil.rmtree(tmp, ignore_errors=True)
    # every process started while this check ran: the harness starts its own tools (the extracted model, coqc, the shell around them, the interpreter);
    # anything else was started by the library while it parsed
    mine = ('modelrun', 'coqc', 'bash', 'sh', 'python', 'git', 'ocaml', 'make', 'timeout')
    # (Cryptodome asks platform.architecture() once when its Blowfish module is IMPORTED: `file -b <the interpreter>` - a fixed command of a dependency, before any file is read)
    foreign = [(ev, a) for ev, a, on in PROC_EVENTS if not any(os.path.basename(a[0].split(' ')[0]).startswith(m) for m in mine)
               and not (a[0] == 'file' and "'-b'" in a[1] and 'python' in a[1])]
    ctx.case(('process-inventory', len(PROC_EVENTS)))
    if foreign:
        ctx.violation(dict(kind='process-spawned-while-parsing', events=[list(x) for x in foreign[:6]],
                           how='sys.addaudithook during the whole check (benign, hostile and damaged replays in strict and lenient mode, packets that fail): subprocess.Popen / os.system / fork events other than the harness\'s own tools'))


def replay(ctx, path):
    obj = json.load(open(path)); print(json.dumps(obj, indent=1)[:3000]); return 1
