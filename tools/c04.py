"""C04 - numeric ids on the wire resolve to the right definition members."""
import os, glob, shutil, json
from tools import common, gen_const, synth, defsview, recordings, worldcheck
LEVEL = 'proof'


def bundled_dirs():
    ds = sorted(glob.glob(os.path.join(common.REPO, 'replay_unpack', 'clients', '*', 'versions', '*')))
    return [d for d in ds if os.path.exists(os.path.join(d, 'scripts', 'entities.xml'))]


def compare(ctx, label, d, keep_files=False):
    try: a = [l.rstrip(' ') for l in defsview.lib_view(d)]
    except Exception as e: a = ['LIB-ERROR ' + type(e).__name__]
    b = defsview.model_view(d)
    if a and a[0].startswith('LIB-ERROR') and b and b[0].startswith('SETUP-ERROR'): return None
    fd = recordings.first_diff(a, b)
    if fd is None:
        # ids that name nothing (the type field of a creation packet is a signed 16-bit number): 0, negative, past the end
        try:
            from replay_unpack.core.entity_def.definitions import Definitions
            dd = Definitions(d); n = len(list(dd._entity_defs_by_name))
            for k in (0, -1, -2, -n, n + 1, n + 2, -0x8000, 0x7fff):
                try: got = dd.get_entity_def_by_index(k).get_name()
                except Exception: continue
                return dict(kind='index-map', definitions=label, entity=None, index=k, implementation='entity type id %d denotes %s' % (k, got),
                            expected='entity type id %d denotes nothing (ids are the 1-based positions 1..%d)' % (k, n), defs=worldcheck.read_defs_dir(d) if keep_files else None,
                            how='Definitions(dir).get_entity_def_by_index(%d)' % k)
        except Exception: pass
        return None
    # which entity / which list
    ent = None
    for l in a[:fd[0] + 1]:
        if l.startswith('MODEL '): ent = l.split(' ')[1]
    return dict(kind='index-map', definitions=label, entity=ent, index=fd[0], implementation=fd[1][:300], expected=fd[2][:300],
                defs=worldcheck.read_defs_dir(d) if keep_files else None,
                how='Definitions(dir): get_entity_def_by_index order, Entity(...)._methods / client_properties / client_properties_internal / '
                    'cell_properties / base_properties (names, wire-size keys, resolved types) vs the extracted model (tools/defsview)')


_model_views = {}
def model_view_cached(d):
    if d not in _model_views: _model_views[d] = defsview.model_view(d)
    return _model_views[d]


def player_definitions(ctx):
    from replay_unpack.clients import wows
    base = os.path.join(common.REPO, 'replay_unpack', 'clients', 'wows', 'versions')
    have = set(os.listdir(base))
    four = sorted(v for v in have if v.count('_') == 3 and os.path.isdir(os.path.join(base, v)))
    seq = []
    for v in four:
        rel = v.rsplit('_', 1)[0]
        if rel in have: seq += [v.split('_'), rel.split('_') + ['1234567'], v.split('_'), rel.split('_') + ['7']]
    seq = seq + seq[::-1]
    if ctx.tier != 'quick':
        seq += [v.split('_') + ['99'] for v in sorted(have) if v.count('_') == 2 and os.path.isdir(os.path.join(base, v))]
    bad = None
    for ver in seq:
        want = '_'.join(ver[:4]) if '_'.join(ver[:4]) in have else '_'.join(ver[:3])
        d = os.path.join(base, want)
        try: a = [l.rstrip(' ') for l in defsview.lib_view_of(wows.ReplayPlayer(list(ver))._definitions)]
        except Exception as e: a = ['LIB-ERROR ' + type(e).__name__]
        b = model_view_cached(d)
        ctx.case(('player-defs', '.'.join(ver))); ctx.count('sets:player-resolved')
        fd = recordings.first_diff(a, b)
        if fd is not None and bad is None:
            bad = dict(kind='index-map-of-player', version=','.join(ver), expected_definitions=os.path.relpath(d, common.REPO), index=fd[0],
                       implementation=fd[1][:300], expected=fd[2][:300], sequence=[','.join(x) for x in seq[:seq.index(ver) + 1]] if ver in seq else None,
                       how='in ONE process construct wows.ReplayPlayer(version) for the listed versions in this order; the index maps of player._definitions '
                           'must be those of the bundled directory the version selects (four-component match, else three-component)')
    return bad


def run(ctx):
    ctx.rule = ('exhaustively all bundled definition sets + generated sets (random interface DAGs, name clashes between interfaces and entities, '
                'size ties, every flag, <Arg>/<Args>, header 1/2/absent/garbage/empty, alias chains, alias_ext overrides, flat and wrapped '
                'entities.xml); compared: entity order, per entity the ordered method list with keys and resolved argument types, the four '
                'property lists, volatiles; non-trivial = every set (each has >= 2 entities); distinct by directory / generated content')
    ctx.coq_props('Props/C04.v')
    gen_const.instance_obligations(ctx, 'C04', which=('types', 'flags'))
    bad = None
    dirs = bundled_dirs()
    for d in dirs:
        label = os.path.relpath(d, common.REPO)
        r = compare(ctx, label, d)
        ctx.case(('bundled', label))
        if r and bad is None: bad = r
    ctx.extra['bundled_sets'] = len(dirs); ctx.extra['exhaustive'] = True
    ctx.count('sets:bundled', len(dirs))
    n = 150 if ctx.tier == 'quick' else 3000
    rng = ctx.rng
    ents = 0
    for k in range(n):
        ds = synth.gen_defset(rng, tie_heavy=(k % 3 == 0))
        d = synth.write_defset(ds, rng)
        try:
            r = compare(ctx, 'generated-%d' % k, d, keep_files=True)
            ctx.case(('gen', k, json.dumps(sorted(ds['ents'])), len(ds['ifaces'])))
            ctx.count('sets:generated'); ctx.count('sets:tie-heavy' if k % 3 == 0 else 'sets:mixed')
            ctx.count('sets:interfaces=%d' % len(ds['ifaces'])); ctx.count('sets:alias_ext' if ds['alias_ext'] else 'sets:no-alias_ext')
            if k == 1: ctx.sample(dict(generated=k, view=defsview.model_view(d)[:14]))
            if r and bad is None: bad = r
        finally:
            shutil.rmtree(d, ignore_errors=True)
    # the definitions a PLAYER resolves for a version (what the ids of a real parse are looked up in): sibling builds of one release in one
    # process, in both orders - a definitions object remembered per release, per directory prefix or per process would serve the wrong set
    pbad = player_definitions(ctx)
    if pbad and bad is None: bad = pbad
    # the type an entity id denotes is the one its LAST creation packet names (ids are re-used): histories with re-creation under another type
    worldcheck.run_histories(ctx, 'C04', n_defsets=6 if ctx.tier == 'quick' else 40, hist_per_set=3, sizes=[60, 150], dialects=('wows', 'wows126', 'wot'))
    ctx.traces_validated += len(dirs) + n
    ctx.obligation('correspondence: library index maps = extracted model on %d bundled + %d generated definition sets' % (len(dirs), n), bad is None,
                   '' if bad is None else json.dumps({k: v for k, v in bad.items() if k != 'defs'}))
    if bad is not None:
        ctx.violation(bad)


def replay(ctx, path):
    obj = json.load(open(path))
    if obj.get('kind') == 'index-map-of-player':
        from replay_unpack.clients import wows
        base = os.path.join(common.REPO, 'replay_unpack', 'clients', 'wows', 'versions'); rc = 0
        for v in obj['sequence']:
            ver = v.split(','); want = '_'.join(ver[:4]) if os.path.isdir(os.path.join(base, '_'.join(ver[:4]))) else '_'.join(ver[:3])
            a = [l.rstrip(' ') for l in defsview.lib_view_of(wows.ReplayPlayer(ver)._definitions)]; b = defsview.model_view(os.path.join(base, want))
            fd = recordings.first_diff(a, b)
            print(v, 'agree with ' + want if fd is None else 'DIFFERS from %s at %d: %s | %s' % (want, fd[0], fd[1][:200], fd[2][:200]))
            if fd is not None: rc = 1
        return rc
    if obj.get('defs'):
        d = worldcheck.write_defs_dir(obj['defs'])
        try:
            r = compare(ctx, 'replay', d)
            print('agree' if r is None else json.dumps({k: v for k, v in r.items() if k != 'defs'}, indent=1)); return 0 if r is None else 1
        finally: shutil.rmtree(d, ignore_errors=True)
    d = os.path.join(common.REPO, obj['definitions'])
    r = compare(ctx, obj['definitions'], d)
    print('agree' if r is None else json.dumps(r, indent=1)); return 0 if r is None else 1
