"""C04 - numeric ids on the wire resolve to the right definition members."""
import os, glob, shutil, json
from tools import common, gen_const, synth, defsview, recordings, worldcheck
LEVEL = 'proof'


def bundled_dirs():
    ds = sorted(glob.glob(os.path.join(common.REPO, 'replay_unpack', 'clients', '*', 'versions', '*')))
    return [d for d in ds if os.path.exists(os.path.join(d, 'scripts', 'entities.xml'))]


def compare(ctx, label, d, keep_files=False):
    try: a = [l.rstrip(' ') for l in defsview.lib_view(d)]
    except Exception as e: a = ['LIB-ERROR ' + type(e).__name__]
    b = defsview.model_view(d)
    if a and a[0].startswith('LIB-ERROR') and b and b[0].startswith('SETUP-ERROR'): return None
    fd = recordings.first_diff(a, b)
    if fd is None: return None
    # which entity / which list
    ent = None
    for l in a[:fd[0] + 1]:
        if l.startswith('MODEL '): ent = l.split(' ')[1]
    return dict(kind='index-map', definitions=label, entity=ent, index=fd[0], implementation=fd[1][:300], expected=fd[2][:300],
                defs=worldcheck.read_defs_dir(d) if keep_files else None,
                how='Definitions(dir): get_entity_def_by_index order, Entity(...)._methods / client_properties / client_properties_internal / '
                    'cell_properties / base_properties (names, wire-size keys, resolved types) vs the extracted model (tools/defsview)')


def run(ctx):
    ctx.rule = ('exhaustively all bundled definition sets + generated sets (random interface DAGs, name clashes between interfaces and entities, '
                'size ties, every flag, <Arg>/<Args>, header 1/2/absent/garbage/empty, alias chains, alias_ext overrides, flat and wrapped '
                'entities.xml); compared: entity order, per entity the ordered method list with keys and resolved argument types, the four '
                'property lists, volatiles; non-trivial = every set (each has >= 2 entities); distinct by directory / generated content')
    ctx.coq_props('Props/C04.v')
    gen_const.instance_obligations(ctx, 'C04', which=('types', 'flags'))
    bad = None
    dirs = bundled_dirs()
    for d in dirs:
        label = os.path.relpath(d, common.REPO)
        r = compare(ctx, label, d)
        ctx.case(('bundled', label))
        if r and bad is None: bad = r
    ctx.extra['bundled_sets'] = len(dirs); ctx.extra['exhaustive'] = True
    ctx.count('sets:bundled', len(dirs))
    n = 150 if ctx.tier == 'quick' else 3000
    rng = ctx.rng
    ents = 0
    for k in range(n):
        ds = synth.gen_defset(rng, tie_heavy=(k % 3 == 0))
        d = synth.write_defset(ds, rng)
        try:
            r = compare(ctx, 'generated-%d' % k, d, keep_files=True)
            ctx.case(('gen', k, json.dumps(sorted(ds['ents'])), len(ds['ifaces'])))
            ctx.count('sets:generated'); ctx.count('sets:tie-heavy' if k % 3 == 0 else 'sets:mixed')
            ctx.count('sets:interfaces=%d' % len(ds['ifaces'])); ctx.count('sets:alias_ext' if ds['alias_ext'] else 'sets:no-alias_ext')
            if k == 1: ctx.sample(dict(generated=k, view=defsview.model_view(d)[:14]))
            if r and bad is None: bad = r
        finally:
            shutil.rmtree(d, ignore_errors=True)
    ctx.traces_validated += len(dirs) + n
    ctx.obligation('correspondence: library index maps = extracted model on %d bundled + %d generated definition sets' % (len(dirs), n), bad is None,
                   '' if bad is None else json.dumps({k: v for k, v in bad.items() if k != 'defs'}))
    if bad is not None:
        ctx.violation(bad)


def replay(ctx, path):
    obj = json.load(open(path))
    if obj.get('defs'):
        d = worldcheck.write_defs_dir(obj['defs'])
        try:
            r = compare(ctx, 'replay', d)
            print('agree' if r is None else json.dumps({k: v for k, v in r.items() if k != 'defs'}, indent=1)); return 0 if r is None else 1
        finally: shutil.rmtree(d, ignore_errors=True)
    d = os.path.join(common.REPO, obj['definitions'])
    r = compare(ctx, obj['definitions'], d)
    print('agree' if r is None else json.dumps(r, indent=1)); return 0 if r is None else 1
