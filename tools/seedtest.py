#!/venv/bin/python
"""Apply each seeded change to /repo, run the listed checks, undo it straight afterwards; record which checks catch it.
usage: tools/seedtest.py [seed-id ...] [--checks C03,C16] [--tier quick] [--scratch=1]
With --scratch=1 the change is applied to a scratch worktree of /repo's HEAD under /tmp/seedwt/<id> (removed afterwards) and the checks run
with VERIF_REPO pointing at it, so /repo itself is not touched (used while background runs read /repo; several seeds of DIFFERENT
properties can then be tested at the same time)."""
import os, sys, json, subprocess, glob, time
HERE = os.path.dirname(os.path.dirname(os.path.abspath(__file__)))
REPO = '/repo'


def sh(cmd, **kw): return subprocess.run(cmd, shell=True, capture_output=True, text=True, **kw)


def main():
    args = [a for a in sys.argv[1:] if not a.startswith('--')]
    opts = dict(a[2:].split('=', 1) for a in sys.argv[1:] if a.startswith('--') and '=' in a)
    seeds = args or sorted(os.path.basename(d) for d in glob.glob(os.path.join(HERE, 'seeded', '*')) if os.path.isdir(d))
    tier = opts.get('tier', 'quick')
    results = {}
    scratch = opts.get('scratch') == '1'
    assert sh('git -C %s status --porcelain' % REPO).stdout.strip() == '', '/repo is not clean'
    for sid in seeds:
        d = os.path.join(HERE, 'seeded', sid)
        meta = json.load(open(os.path.join(d, 'meta.json')))
        checks = opts['checks'].split(',') if 'checks' in opts else meta.get('checks_to_run', [meta['property']])
        tree = REPO
        if scratch:
            tree = '/tmp/seedwt/%s' % sid
            sh('git -C %s worktree remove --force %s' % (REPO, tree)); os.makedirs('/tmp/seedwt', exist_ok=True)
            r = sh('git -C %s worktree add --detach %s HEAD' % (REPO, tree))
            if r.returncode != 0: print(sid, 'NO WORKTREE', r.stderr[:200]); continue
        r = sh('git -C %s apply %s' % (tree, os.path.join(d, 'patch.diff')))
        if r.returncode != 0: r = sh('git -C %s apply --3way %s' % (tree, os.path.join(d, 'patch.diff')))      # context moved by a later repair of /repo
        if r.returncode != 0: print(sid, 'PATCH DOES NOT APPLY', r.stderr[:200]); continue
        try:
            res = {}
            for c in checks:
                t = time.time()
                p = sh('cd %s && %s./check %s --tier %s' % (HERE, 'VERIF_REPO=%s ' % tree if scratch else '', c, tier), timeout=3600)
                lines = [l for l in p.stdout.split('\n') if l.startswith('VIOLATION')]
                res[c] = dict(rc=p.returncode, violations=lines[:3], seconds=round(time.time() - t))
                print(sid, c, 'rc=%d' % p.returncode, lines[:1]); sys.stdout.flush()
            results[sid] = res
        finally:
            if scratch: sh('git -C %s worktree remove --force %s' % (REPO, tree))
            else: sh('git -C %s checkout -- . && git -C %s clean -fdq' % (REPO, REPO))
    import fcntl
    lock = open(os.path.join(HERE, 'build', 'seedresults.lock'), 'w'); fcntl.flock(lock, fcntl.LOCK_EX)
    out = os.path.join(HERE, 'seeded', 'results-%s.json' % tier)
    old = json.load(open(out)) if os.path.exists(out) else {}
    old.update(results); json.dump(old, open(out, 'w'), indent=1)
    # the unchanged tree must be quiet again: restore evidence by re-running nothing here (callers re-run the checks before committing evidence)

if __name__ == '__main__': main()
