"""C09 - the battle summary is a faithful function of the recorded events."""
import os, json, random, tempfile, shutil, traceback
from tools import common, battle, recordings
LEVEL = 'other'


def removeprefix(s, p): return s[len(p):] if s.startswith(p) else s


def compare(b, h, v):
    """expected (from what the generator put into the stream) vs the returned summary; -> list of (field, expected, got)"""
    e = b.expect; out = []
    def chk(field, want, got):
        if want != got: out.append((field, want, got))
    chk('player_id', e['player_id'], h.get('player_id'))
    chk('map', removeprefix(e['map_raw'], 'spaces/'), h.get('map'))
    if 'arena_id' in e and 'arena_id' in h: chk('arena_id', e['arena_id'], h['arena_id'])
    chk('death_map', [tuple(x) for x in e['deaths']], [tuple(x) for x in h.get('death_map', [])])
    if e['damage']: chk('shots_damage_map', {k: {a: float(x) for a, x in d.items()} for k, d in e['damage'].items()},
                        {k: {a: float(x) for a, x in d.items()} for k, d in h.get('shots_damage_map', {}).items()})
    if e['achievements']: chk('achievements (counts per player)', [e['achievements']], list(h.get('achievements', {}).values()))
    if e['ribbons']: chk('ribbons (event counts)', [e['ribbons']], list(h.get('ribbons', {}).values()))
    if e.get('ended'): chk('battle_result present', True, h.get('battle_result') is not None)
    players = h.get('players', {})
    chk('roster ids', sorted(e['roster']), sorted(players))
    for pid, rec in e['roster'].items():
        got = players.get(pid, {})
        for k, val in rec.items():
            if got.get(k) != val: out.append(('players[%s][%s]' % (pid, k), val, got.get(k)))
    return out


def run(ctx):
    ctx.rule = ('every bundled wows version x synthetic battles (roster incl. a mid-battle join and a later roster update, repeated deaths, several damage '
                'batches per victim/attacker, repeated achievements/ribbons/plane kills, with and without battle end, two map names) encoded against that '
                'version\'s own definitions (index maps from the extracted model) and packet numbering, parsed by ReplayParser(strict=True); wot/wowp: '
                'player, map, tracer calls; non-trivial = every battle; distinct by (version, variant)')
    ctx.extra['explanation'] = ('Level "other": the summary functions of the 82 controllers are Python code operating on unpickled objects; no Gallina model of them is '
                                'proved. What is checked is exhaustive over the bundled versions: the expected fields are computed by the generator from the events it '
                                'encodes (independently of the library: index maps and types come from the extracted Coq model, the container from the extracted writer) and '
                                'compared field by field with get_info()["hidden"]; the event decoding underneath is covered by the C03/C05/C07 theorems and ties.')
    known_c10 = set(); known_end = set()
    for k in common.load_known('C10'):
        for p in k.get('pairs', []):
            if p[1] == 'Avatar_onNewPlayerSpawnedInBattle': known_c10.add(p[0].split('/')[1])
            if p[1] == 'Avatar_onBattleEnd': known_end.add(p[0].split('/')[1])
    from replay_parser import ReplayParser
    tmp = tempfile.mkdtemp(prefix='verif-c09-')
    rng = ctx.rng
    try:
        versions = battle.wows_versions()
        variants = [dict(join=True, battle_end=True, map_name='spaces/16_OC_bees_to_honey'), dict(join=False, battle_end=False, map_name='spaces/s07_Advance')]
        if ctx.tier != 'quick': variants += [dict(join=True, battle_end=True, map_name='spaces/41_Conquest', n_players=6), dict(join=False, battle_end=True, map_name='17_NA_fault_line')]
        for v in versions:
            for vi, kw in enumerate(variants):
                kw = dict(kw)
                if v in known_c10: kw['join'] = False          # the join fails there (listed C10 finding); the summary is still checked
                if v in known_end: kw['battle_end'] = False
                p = os.path.join(tmp, '%s-%d.wowsreplay' % (v, vi))
                b = battle.write_wows(p, v, random.Random(rng.randrange(10 ** 9)), **kw)
                ctx.case(('wows', v, vi)); ctx.count('game:wows'); ctx.count('variant:%d' % vi)
                try:
                    h = ReplayParser(p, strict=True).get_info()['hidden']
                except Exception as ex:
                    tb = traceback.extract_tb(ex.__traceback__)[-1]
                    ctx.violation(dict(kind='battle-does-not-parse', version='wows/' + v, variant=kw, exception='%s: %s' % (type(ex).__name__, str(ex)[:200]), where='%s:%d' % (os.path.basename(tb.filename), tb.lineno),
                                       how='tools/battle.write_wows(path, version, rng, **variant); ReplayParser(path, strict=True).get_info()'))
                    os.unlink(p); continue
                diffs = compare(b, h, v)
                if len(ctx.samples) < 2: ctx.sample(dict(version=v, variant=kw, summary={k: h.get(k) for k in ('map', 'player_id', 'death_map', 'shots_damage_map', 'achievements', 'ribbons', 'battle_result')}))
                for field, want, got in diffs:
                    if field == 'map' and got == b.expect['map_raw'].lstrip('spaces/'):
                        ctx.deviation('map-lstrip', {'class': 'map-lstrip'}, dict(kind='summary-field', version='wows/' + v, field=field, expected=want, implementation=got,
                                      how='map packet carrying "%s"' % b.expect['map_raw']))
                    else:
                        ctx.violation(dict(kind='summary-field', version='wows/' + v, variant=kw, field=field, expected=want, implementation=got,
                                           how='tools/battle.write_wows(path, "%s", random.Random(seed), **variant); ReplayParser(path, strict=True).get_info()["hidden"]' % v))
                        break
                os.unlink(p)
        for game, vs in (('wot', ['1_8_0', '1_10_0']), ('wowp', ['1_7_5', '2_1_17', '2_1_20'])):
            for v in vs:
                for mname in ('spaces/05_prohorovka', 'spaces/s01_x'):
                    p = os.path.join(tmp, '%s.%s' % (v, {'wot': 'wotreplay', 'wowp': 'wowpreplay'}[game]))
                    b = battle.write_simple(p, game, v, random.Random(rng.randrange(10 ** 9)), map_name=mname)
                    ctx.case((game, v, mname)); ctx.count('game:' + game)
                    try: h = ReplayParser(p, strict=True).get_info()['hidden']
                    except Exception as ex:
                        ctx.violation(dict(kind='battle-does-not-parse', version='%s/%s' % (game, v), exception='%s: %s' % (type(ex).__name__, str(ex)[:200]))); continue
                    if h.get('player_id') != b.expect['player_id']:
                        ctx.violation(dict(kind='summary-field', version='%s/%s' % (game, v), field='player_id', expected=b.expect['player_id'], implementation=h.get('player_id')))
                    if game == 'wot':
                        want = removeprefix(mname, 'spaces/')
                        if h.get('map') != want:
                            if h.get('map') == mname.lstrip('spaces/'): ctx.deviation('map-lstrip', {'class': 'map-lstrip'}, dict(kind='summary-field', version='wot/' + v, field='map', expected=want, implementation=h.get('map')))
                            else: ctx.violation(dict(kind='summary-field', version='wot/' + v, field='map', expected=want, implementation=h.get('map')))
                        if len(h.get('tracerts', [])) != b.expect['tracers']:
                            ctx.violation(dict(kind='summary-field', version='wot/' + v, field='tracerts', expected=b.expect['tracers'], implementation=len(h.get('tracerts', []))))
                    os.unlink(p)
    finally:
        shutil.rmtree(tmp, ignore_errors=True)


def replay(ctx, path):
    obj = json.load(open(path)); print(json.dumps(obj, indent=1)[:2500]); return 1
