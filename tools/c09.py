"""C09 - the battle summary is a faithful function of the recorded events."""
import os, json, random, tempfile, shutil, traceback
from tools import common, battle, recordings, gen_controllers, summarycheck, synth
from tools.gen_const import GEN_DIR
LEVEL = 'proof'


def removeprefix(s, p): return s[len(p):] if s.startswith(p) else s


def compare(b, h, v):
    """expected (from what the generator put into the stream) vs the returned summary; -> list of (field, expected, got)"""
    e = b.expect; out = []
    def chk(field, want, got):
        if want != got: out.append((field, want, got))
    chk('player_id', e['player_id'], h.get('player_id'))
    chk('map', removeprefix(e['map_raw'], 'spaces/'), h.get('map'))
    if 'arena_id' in e and 'arena_id' in h: chk('arena_id', e['arena_id'], h['arena_id'])
    chk('death_map', [tuple(x) for x in e['deaths']], [tuple(x) for x in h.get('death_map', [])])
    if e['damage']: chk('shots_damage_map', {k: {a: float(x) for a, x in d.items()} for k, d in e['damage'].items()},
                        {k: {a: float(x) for a, x in d.items()} for k, d in h.get('shots_damage_map', {}).items()})
    if e['achievements']: chk('achievements (counts per player)', [e['achievements']], list(h.get('achievements', {}).values()))
    if e['ribbons']: chk('ribbons (event counts)', [e['ribbons']], list(h.get('ribbons', {}).values()))
    if e.get('ended'): chk('battle_result present', True, h.get('battle_result') is not None)
    # the state of the FINAL world: which entities are ships now, with which crew / learned skills; control points and tasks as last sent
    veh = e.get('vehicles', {})
    if h.get('crew') is not None:
        chk('crew (ship ids of the final world)', sorted(veh), sorted(h['crew']))
        for vid, val in veh.items():
            if isinstance(val, dict) and 'paramsId' in val and vid in h['crew']: chk('crew[%d].crew_id' % vid, val['paramsId'], h['crew'][vid].get('crew_id'))
    elif h.get('skills') or any(isinstance(x, dict) and isinstance(x.get('learnedSkills'), int) for x in veh.values()):
        chk('skills (ship ids of the final world)', sorted(veh), sorted(h.get('skills', {})))
        for vid, val in veh.items():
            if isinstance(val, dict) and isinstance(val.get('learnedSkills'), int) and vid in h.get('skills', {}):
                chk('skills[%d]' % vid, [i + 1 for i in range(64) if val['learnedSkills'] >> i & 1], list(h['skills'][vid]))
    if 'avatar_ribbons' in e and isinstance(h.get('ribbons'), dict) and e['player_id'] in h['ribbons'] and not e['ribbons']:
        chk('ribbons of the recording player (from privateVehicleState after the nested update)', e['avatar_ribbons'], dict(h['ribbons'][e['player_id']]))
    chk('control_points', [], list(h.get('control_points', [])))
    chk('tasks', [], list(h.get('tasks', [])))
    players = h.get('players', {})
    chk('roster ids', sorted(e['roster']), sorted(players))
    for pid, rec in e['roster'].items():
        got = players.get(pid, {})
        for k, val in rec.items():
            if got.get(k) != val: out.append(('players[%s][%s]' % (pid, k), val, got.get(k)))
    return out


def translate(ctx):
    """the controllers of the working tree as programs of Summary.v's handler language, and their instance theorems"""
    ts = gen_controllers.translate_all()
    un = [(t['version'], k, v) for t in ts for k, v in t['untranslated'].items()]; pr = [(t['version'], p) for t in ts for p in t['problems']]
    ctx.obligation('translator gen_controllers: every subscribed handler, players_info.py and get_info of all %d bundled wows controllers translated' % len(ts),
                   not un and not pr, json.dumps((un + pr)[:6]))
    bad_opaque = [(t['version'], k, v) for t in ts for k, v in t['opaque'].items()
                  if not k.startswith('subscribe_') and v not in gen_controllers.OPAQUE.get({'Avatar_receiveDamageStat': 'receiveDamageStat'}.get(k, k), {}).get('sha', [])]
    ctx.obligation('handlers outside the model are the pinned ones (receiveDamageStat: writes only _damage_map, which the model does not report)', not bad_opaque, json.dumps(bad_opaque[:5]))
    g, i, missing = gen_controllers.coq_files(ts)
    ctx.obligation('every distinct controller program has the counting-loop damage handler and the single-append death handler the section theorems speak about',
                   not missing, json.dumps(missing[:5]))
    with common.Lock('gen'):
        os.makedirs(GEN_DIR, exist_ok=True)
        open(os.path.join(GEN_DIR, 'GenC09.v'), 'w').write(g); open(os.path.join(GEN_DIR, 'Inst_C09.v'), 'w').write(i)
        ok, out = common.coqc(os.path.join(GEN_DIR, 'GenC09.v'), extra_q=[(GEN_DIR, 'Gen')])
        ctx.obligation('generated GenC09.v (the translated programs) compiles', ok, out[-400:])
        if ok: ctx.coq_props(os.path.join(GEN_DIR, 'Inst_C09.v'), extra_q=[(GEN_DIR, 'Gen')])
    ctx.extra['controller_programs'] = dict(versions=len(ts), distinct=len(set(gen_controllers.ctl_digest(t) for t in ts)))
    return {t['version']: t for t in ts}


def model_vs_library(ctx, path, what, strict=True):
    """the translated program run by the extracted interpreter on the calls this replay delivers, against the controller's own summary"""
    try: r = summarycheck.check_replay(path, strict)
    except Exception as ex:
        ctx.count('summary-tie:not-run:' + type(ex).__name__); return None
    ctx.traces_validated += 1; ctx.count('summary-tie:events', r['events'])
    for u in r['unsure']: ctx.count('summary-tie:excluded:' + u.split(':')[0])
    if r['diffs']:
        k, m, l = r['diffs'][0]
        return dict(kind='library-vs-model-summary', what=what, version=r['version'], field=k, model=m, implementation=l, events=r['events'],
                    how='tools/summarycheck.check_replay(file): records every call delivered to the controller, runs the translated program (modelrun summary), compares with get_info()')
    return None


def run(ctx):
    ctx.rule = ('every bundled wows version x synthetic battles (roster incl. a mid-battle join and a later roster update, repeated deaths, several damage '
                'batches per victim/attacker with a repeated attacker inside one batch, repeated achievements/ribbons/plane kills, with and without battle end, two map names) '
                'encoded against that version\'s own definitions (index maps from the extracted model) and packet numbering, parsed by ReplayParser(strict=True); '
                'each summary compared (a) with what the generator put into the stream and (b) with the TRANSLATED controller program run by the extracted interpreter on '
                'the calls the replay delivers; the same (b) on real recordings; wot/wowp: player, map, tracer calls; non-trivial = every battle; distinct by (version, variant)')
    ctx.extra['explanation'] = ('The event-driven part of the 76 wows controllers (deaths, damage totals, plane/achievement/ribbon counts, roster merge, arena/player ids, map name, '
                                'old-style battle result) is TRANSLATED from the working tree into the handler language of Summary.v on every run; the theorems (Props/C09.v) are about '
                                'its interpreter and are instantiated for every distinct program (Inst_C09.v). Modelled, not proved: fields get_info() derives from the final world '
                                '(ribbons of newer versions, crew, tasks, control points, new-style battle result inputs), receiveDamageStat (_damage_map), the wot/wowp controllers; '
                                'CPython pickle is an oracle (the harness unpickles roster blobs with the encoding the handler names); floats are added exactly, histories where '
                                'CPython would round are excluded and counted.')
    ctx.coq_props('Props/C09.v')
    progs = translate(ctx)
    from tools import worldcheck
    worldcheck.logging_independence(ctx, 'C09')          # the summary is a function of the stream, not of the log level
    known_c10 = set(); known_end = set()
    for k in common.load_known('C10'):
        for p in k.get('pairs', []):
            if p[1] == 'Avatar_onNewPlayerSpawnedInBattle': known_c10.add(p[0].split('/')[1])
            if p[1] == 'Avatar_onBattleEnd': known_end.add(p[0].split('/')[1])
    from replay_parser import ReplayParser
    tmp = tempfile.mkdtemp(prefix='verif-c09-')
    rng = ctx.rng
    try:
        versions = battle.wows_versions()
        variants = [dict(join=True, battle_end=True, map_name='spaces/16_OC_bees_to_honey'), dict(join=False, battle_end=False, map_name='spaces/s07_Advance', reuse=True, twins=True)]
        if ctx.tier != 'quick': variants += [dict(join=True, battle_end=True, map_name='spaces/41_Conquest', n_players=6), dict(join=False, battle_end=True, map_name='17_NA_fault_line')]
        def big_record(consts):
            # one player record with a long text value: the pickled roster is then longer than 65535 bytes (packed length with a non-zero third byte)
            keys = sorted(k for k in consts.id_property_map.values() if k not in ('id', 'name', 'shipId', 'teamId', 'avatarId'))
            return {keys[0]: 'clan-' + 'x' * 70000} if keys else {}
        for v in versions:
            for vi, kw in enumerate(variants):
                kw = dict(kw)
                if vi == 0: kw['roster_extra'] = big_record
                kwj = {k_: (x.__name__ if callable(x) else x) for k_, x in kw.items()}
                if v in known_c10: kw['join'] = False          # the join fails there (listed C10 finding); the summary is still checked
                if v in known_end: kw['battle_end'] = False
                p = os.path.join(tmp, '%s-%d.wowsreplay' % (v, vi))
                b = battle.write_wows(p, v, random.Random(rng.randrange(10 ** 9)), **kw)
                ctx.case(('wows', v, vi)); ctx.count('game:wows'); ctx.count('variant:%d' % vi)
                try:
                    h = ReplayParser(p, strict=True).get_info()['hidden']
                except Exception as ex:
                    tb = traceback.extract_tb(ex.__traceback__)[-1]
                    ctx.violation(dict(kind='battle-does-not-parse', version='wows/' + v, variant=kwj, exception='%s: %s' % (type(ex).__name__, str(ex)[:200]), where='%s:%d' % (os.path.basename(tb.filename), tb.lineno),
                                       how='tools/battle.write_wows(path, version, rng, **variant); ReplayParser(path, strict=True).get_info()'))
                    os.unlink(p); continue
                diffs = compare(b, h, v)
                mv = model_vs_library(ctx, p, 'synthetic battle %s variant %d' % (v, vi))
                if mv and len(ctx.violations) < 4: ctx.violation(dict(mv, variant=kwj))
                if len(ctx.samples) < 2: ctx.sample(dict(version=v, variant=kwj, summary={k: h.get(k) for k in ('map', 'player_id', 'death_map', 'shots_damage_map', 'achievements', 'ribbons', 'battle_result')}))
                for field, want, got in diffs:
                    if field == 'map' and got == b.expect['map_raw'].lstrip('spaces/'):
                        ctx.deviation('map-lstrip', {'class': 'map-lstrip'}, dict(kind='summary-field', version='wows/' + v, field=field, expected=want, implementation=got,
                                      how='map packet carrying "%s"' % b.expect['map_raw']))
                    elif len(ctx.violations) < 4:
                        ctx.violation(dict(kind='summary-field', version='wows/' + v, variant=kwj, field=field, expected=want, implementation=got,
                                           how='tools/battle.write_wows(path, "%s", random.Random(seed), **variant); ReplayParser(path, strict=True).get_info()["hidden"]' % v))
                        break
                os.unlink(p)
        # a LONG recording: 72 MiB of packet stream (one unmapped packet of that size right behind the player creation), everything else behind it -
        # the summary still reports what the whole stream contains (library against the generator's expectations only; the model is not run on it)
        from tools import c15 as c15_
        vlong = versions[-1]
        bl_, vsl = battle.build_wows(vlong, random.Random(77), join=(vlong not in known_c10), battle_end=(vlong not in known_end))
        huge = synth.frame(0x99, 0, bytes(72 * 2 ** 20))
        pl_ = os.path.join(tmp, 'long.wowsreplay'); c15_.fast_write(pl_, 'wowsreplay', json.dumps({'clientVersionFromXml': vsl}).encode(), b''.join(bl_.out[:3]) + huge + b''.join(bl_.out[3:]), level=1)
        del huge
        ctx.case(('wows-long', vlong)); ctx.count('variant:long-stream')
        try:
            info_ = ReplayParser(pl_, strict=True).get_info(); hl_ = info_['hidden']
            dl_ = compare(bl_, hl_, vlong) if hl_ is not None else [('hidden', 'a summary', None)]
        except Exception as ex: dl_ = [('parse', 'no exception', '%s: %s' % (type(ex).__name__, str(ex)[:120]))]
        dl_ = [x for x in dl_ if not (x[0] == 'map' and x[2] == bl_.expect['map_raw'].lstrip('spaces/'))]
        if dl_:
            field, want, got = dl_[0]
            ctx.violation(dict(kind='summary-field', version='wows/' + vlong, variant='a 72 MiB unmapped packet (type 0x99, zero bytes) behind the third packet of the battle', field=field, expected=want, implementation=got,
                               how='tools/battle.build_wows("%s", random.Random(77)); the stream with that packet inserted, in a container (tools/c15.fast_write); ReplayParser(path, strict=True).get_info()["hidden"]' % vlong))
        os.unlink(pl_)
        # real recordings: the translated program against the controller on everything a real battle delivers
        recs = [f for f in recordings.list_recordings() if f.endswith('.wowsreplay') and os.path.getsize(f) > 1000]
        for f in (recs[::9] if ctx.tier == 'quick' else recs):
            ctx.case(('recording', os.path.basename(f))); ctx.count('game:wows-recording')
            mv = model_vs_library(ctx, f, 'recording ' + os.path.basename(f), strict=False)
            if mv and len(ctx.violations) < 6: ctx.violation(dict(mv, file=f))
        for game, vs in (('wot', ['1_8_0', '1_10_0']), ('wowp', ['1_7_5', '2_1_17', '2_1_20'])):
            for v in vs:
                for mname in ('spaces/05_prohorovka', 'spaces/s01_x'):
                    p = os.path.join(tmp, '%s.%s' % (v, {'wot': 'wotreplay', 'wowp': 'wowpreplay'}[game]))
                    b = battle.write_simple(p, game, v, random.Random(rng.randrange(10 ** 9)), map_name=mname)
                    ctx.case((game, v, mname)); ctx.count('game:' + game)
                    try: h = ReplayParser(p, strict=True).get_info()['hidden']
                    except Exception as ex:
                        ctx.violation(dict(kind='battle-does-not-parse', version='%s/%s' % (game, v), exception='%s: %s' % (type(ex).__name__, str(ex)[:200]))); continue
                    if h.get('player_id') != b.expect['player_id']:
                        ctx.violation(dict(kind='summary-field', version='%s/%s' % (game, v), field='player_id', expected=b.expect['player_id'], implementation=h.get('player_id')))
                    if game == 'wot':
                        want = removeprefix(mname, 'spaces/')
                        if h.get('map') != want:
                            if h.get('map') == mname.lstrip('spaces/'): ctx.deviation('map-lstrip', {'class': 'map-lstrip'}, dict(kind='summary-field', version='wot/' + v, field='map', expected=want, implementation=h.get('map')))
                            else: ctx.violation(dict(kind='summary-field', version='wot/' + v, field='map', expected=want, implementation=h.get('map')))
                        if len(h.get('tracerts', [])) != b.expect['tracers']:
                            ctx.violation(dict(kind='summary-field', version='wot/' + v, field='tracerts', expected=b.expect['tracers'], implementation=len(h.get('tracerts', []))))
                    os.unlink(p)
    finally:
        shutil.rmtree(tmp, ignore_errors=True)


def replay(ctx, path):
    obj = json.load(open(path)); print(json.dumps(obj, indent=1)[:2500]); return 1
