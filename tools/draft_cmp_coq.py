"""Run the extracted Coq model (modelrun) and the library on real recordings; diff canonical world dumps."""
import sys, os, glob, struct, logging, time, subprocess, tempfile, socket
sys.path.insert(0,'/repo'); sys.path.insert(0,'/root/scratch/proto')
logging.disable(logging.CRITICAL)
import defs_proto as P
from replay_unpack.replay_reader import ReplayReader
from replay_unpack.clients import wows, wot, wowp
from replay_unpack.core.network.types.vector_3 import Vector3

def hx(s): return s.encode('utf-8').hex() if s else ''
def emit_node(n, out):
    tag, text, kids = n
    out.append('N %s %s %d' % (hx(tag) or '00'[:0] or '', '-' if text is None else (hx(text) if text else ''), len(kids)))
    for k in kids: emit_node(k, out)
def write_case(path, dialect, rd):
    out = [dialect, str(len(rd['alias']))]
    for a in rd['alias']: emit_node(a, out)
    out.append(str(len(rd['ifaces'])))
    for name, nd in rd['ifaces'].items(): out.append(hx(name)); emit_node(nd, out)
    out.append(str(len(rd['entities'])))
    for name in rd['entities']: out.append(hx(name)); emit_node(rd['defs'][name], out)
    open(path, 'w').write('\n'.join(out) + '\n')

def f32c(x):
    if x != x: return 'nan'
    return struct.pack('<f', x).hex()
def canon(v):
    if v is None: return 'n'
    if isinstance(v, bool): return 'i%d' % int(v)
    if isinstance(v, int): return 'i%d' % v
    if isinstance(v, float): raise AssertionError('bare float needs type')
    if isinstance(v, str): return 's' + v.encode('utf-8').hex()
    if isinstance(v, bytes): return 'b' + v.hex()
    if isinstance(v, dict): return '{' + ','.join('%s=%s' % (k, canon_t(x, v._attributes[k])) for k, x in v.items()) + '}'
    raise AssertionError(type(v))
from replay_unpack.core.entity_def.data_types.other import FixedDict, Array, UserType, Mailbox
from replay_unpack.core.entity_def.data_types.numeric import Float32, Float64
from replay_unpack.core.entity_def.data_types.math import _MathType
def canon_t(v, t):
    while isinstance(t, UserType): t = t.type
    if v is None: return 'n'
    if isinstance(t, Float32): return 'f' + f32c(v)
    if isinstance(t, Float64): return 'd' + ('nan' if v != v else struct.pack('<d', v).hex())
    if isinstance(t, _MathType): return 'v(' + ','.join(f32c(x) for x in v) + ')'
    if isinstance(t, Mailbox): return 'm' + socket.inet_aton(v[0]).hex() + ':%d' % v[1]
    if isinstance(t, FixedDict): return '{' + ','.join('%s=%s' % (k, canon_t(v[k], ft)) for k, ft in t.attributes.items() if k in v) + '}'
    if isinstance(t, Array): return '[' + ','.join(canon_t(x, t.type) for x in v) + ']'
    return canon(v)
def dump_lib(pl, err):
    c = pl._battle_controller; out = ['RAISED' if err else 'DONE']
    out.append('PLAYER %s' % ('none' if c._player_id is None else c._player_id))
    m = getattr(c, '_raw_map', None)
    out.append('MAP %s' % ('none' if m is None else m.encode().hex()))
    for i, e in c.entities.items():
        out.append('E %d %s' % (i, e.get_name()))
        types = {p.get_name(): p._type for p in e._spec.properties()._internal_index}
        for b in ('client', 'base', 'cell'):
            for k, v in e.properties[b].items(): out.append('P %s %s %s' % (b, k, canon_t(v, types[k])))
        for k in sorted(e.volatiles):
            v = e.volatiles[k]
            if isinstance(v, Vector3): s = 'v(%s,%s,%s)' % (f32c(v.x), f32c(v.y), f32c(v.z))
            elif isinstance(v, tuple) or (k in e._spec.volatiles() and v is e._spec.volatiles()[k] and False): s = 'D'
            elif isinstance(v, float) and k in e._spec.volatiles() and not hasattr(e, '_set_' + k) and v == 0.0 and k not in getattr(e, '_touched', ()): s = 'D?'
            else: s = 'f' + f32c(v)
            out.append('V %s %s' % (k, s))
    return out

only = sys.argv[1:]
files = sorted(glob.glob('/repo/tests/data/random_replays/*/*replay'))
tot = bad = 0
tmp = tempfile.mkdtemp(prefix='cmpcoq')
for f in files:
    if os.path.getsize(f) == 0: continue
    if only and not any(o in f for o in only): continue
    rep = ReplayReader(f).get_replay_data()
    if rep.game == 'wows':
        ver = rep.engine_data['clientVersionFromXml'].replace(' ', '').split(',')
        pl = wows.ReplayPlayer(ver); four = '_'.join(ver[:4])
        vd = 'wows/versions/' + (four if os.path.isdir('/repo/replay_unpack/clients/wows/versions/' + four) else '_'.join(ver[:3]))
        dialect = 'wows126' if tuple(map(int, ver[:3])) >= (12, 6, 0) else 'wows'
    elif rep.game == 'wot':
        ver = '.'.join(rep.engine_data['clientVersionFromXml'].replace('World\xa0of\xa0Tanks v.', '').replace(' ', '.').replace('#', '').split('.')[:3])
        pl = wot.ReplayPlayer(ver); vd = 'wot/versions/' + ver.replace('.', '_'); dialect = 'wot'
    else:
        ver = rep.engine_data['clientVersion'][len('World of Warplanes '):].replace(' ', '').split('.')
        pl = wowp.ReplayPlayer(ver); vd = 'wowp/versions/' + '_'.join(ver[:3]); dialect = 'wowp'
    # record raw map name and which volatiles were touched
    ctrl = pl._battle_controller; cls = type(ctrl)
    t0 = time.time(); pl.play(rep.decrypted_data, True); t1 = time.time()
    case = os.path.join(tmp, 'case.txt'); stream = os.path.join(tmp, 'stream.bin')
    write_case(case, dialect, P.load_raw('/repo/replay_unpack/clients/' + vd)); open(stream, 'wb').write(rep.decrypted_data)
    r = subprocess.run(['bash', '-c', 'ulimit -s unlimited; export OCAMLRUNPARAM=s=4M; exec /root/scratch/draft/ocaml/mrun "$0" "$1" strict', case, stream], capture_output=True, text=True)
    t2 = time.time()
    mod = [l for l in r.stdout.split('\n') if l and not l.startswith('MAP ')]
    lib = [l for l in dump_lib(pl, False) if not l.startswith('MAP ')]
    # volatile defaults: library keeps (0,0,0)/0.0 until set; normalise both to the value form
    def norm(l):
        if l.startswith('V '):
            k, v = l.split(' ')[1:3]
            if v in ('D', 'D?'): return 'V %s %s' % (k, 'v(00000000,00000000,00000000)' if k == 'position' else 'f00000000')
        return l
    mod = [norm(l) for l in mod]; lib = [norm(l) for l in lib]
    tot += 1
    if mod != lib:
        bad += 1
        print(f.split('/')[-2], dialect, 'DIFF', len(mod), len(lib), r.stderr[:200])
        for a, b in zip(mod, lib):
            if a != b: print('   model:', a[:160]); print('   lib  :', b[:160]); break
    else:
        print(f.split('/')[-2], dialect, 'ok lines=%d lib %.1fs model %.1fs' % (len(lib), t1 - t0, t2 - t1))
print('files', tot, 'with diffs', bad)
