"""Translator gen_const: tables and constants of the working tree -> build/gen/GenConfig.v (+ the instance theorems).
Reflection (importing the working-tree modules) is used wherever the object can be read; fail-closed: anything that is
not recognised is reported as a broken obligation, never guessed."""
import os, struct, json, ast
from tools import common

GEN_DIR = os.path.join(common.BUILD, 'gen')

FMT = {'B': ('TUInt', 1), 'H': ('TUInt', 2), 'I': ('TUInt', 4), 'Q': ('TUInt', 8),
       'b': ('TInt', 1), 'h': ('TInt', 2), 'i': ('TInt', 4), 'q': ('TInt', 8),
       'f': ('TF32', None), 'd': ('TF64', None), 'ff': ('TVec', 8), 'fff': ('TVec', 12), 'ffff': ('TVec', 16)}
LEAF_CLASS = {'Blob': 'TBlob', 'String': 'TString', 'Python': 'TPython', 'Mailbox': 'TMailbox'}
COMPOSITE = {'FixedDict', 'Array', 'UserType'}


def coq_str(s):
    assert all(32 <= ord(c) < 127 and c != '"' for c in s), 'non-printable in generated string: %r' % s
    return '"%s"' % s


def reflect_config():
    """returns (dict of facts, list of problems)"""
    problems = []
    from replay_unpack.core.entity_def.data_types import Alias
    from replay_unpack.core.entity_def.data_types.constants import INFINITY
    from replay_unpack.core.entity_def import entity_description
    from replay_unpack.core.entity_def.constants import EntityFlags
    from replay_unpack.core.entity_def.data_types.numeric import _NumericType
    from replay_unpack.core.entity_def.data_types.math import _MathType
    simple = []; composites = []
    for name, cls in Alias.SIMPLE_TYPES.items():
        cn = cls.__name__
        if cn in COMPOSITE:
            composites.append((name, cn)); continue
        if cn in LEAF_CLASS:
            simple.append((name, LEAF_CLASS[cn])); continue
        if issubclass(cls, (_NumericType, _MathType)):
            fmt, size = cls.STRUCT_TYPE, cls._DATA_SIZE
            core = fmt[1:] if fmt and fmt[0] in '<=' else fmt
            if core not in FMT or (fmt and fmt[0] in '>!'):
                problems.append('%s: struct format %r not understood' % (name, fmt)); continue
            if struct.calcsize(fmt) != size:
                problems.append('%s: format %r needs %d bytes but _DATA_SIZE is %r' % (name, fmt, struct.calcsize(fmt), size)); continue
            k, w = FMT[core]
            simple.append((name, '%s %d' % (k, w) if w is not None and k != 'TVec' else ('TVec %d' % w if k == 'TVec' else k)))
            continue
        problems.append('%s: class %s not understood' % (name, cn))
    flags = [(k, v) for k, v in vars(EntityFlags).items() if not k.startswith('_') and isinstance(v, int)]
    # the four masks: read what Entity.__init__ really passes to get_properties_by_flags
    from replay_unpack.core.entity import Entity
    calls = []
    class FakeProps:
        def get_properties_by_flags(self, flags, exposed_index=False):
            calls.append((flags, exposed_index)); return []
    class FakeMethods:
        def get_exposed_index_map(self, *a, **k): return []
    class FakeSpec:
        def client(self): return FakeMethods()
        def properties(self): return FakeProps()
        def volatiles(self): return {}
        def get_name(self): return 'X'
    e = Entity(1, FakeSpec())
    if len(calls) != 4 or [c[1] for c in calls] != [True, False, False, False]:
        problems.append('Entity.__init__ no longer builds its four property lists the way the model assumes: %r' % (calls,))
        masks = [0, 0, 0, 0]
    else:
        masks = [c[0] for c in calls]
    return dict(simple=sorted(simple), composites=sorted(composites), flags=sorted(flags), masks=masks,
                infinity=INFINITY, default_header=entity_description.DEFAULT_HEADER_SIZE), problems


def reflect_tables():
    problems = []
    from replay_unpack.clients.wows.network import packets as pw
    from replay_unpack.clients.wot.network import packets as pt
    from replay_unpack.clients.wowp.network import packets as pp
    tabs = {}
    for name, m in (('wows', pw.PACKETS_MAPPING), ('wows126', pw.PACKETS_MAPPING_12_6), ('wot', pt.PACKETS_MAPPING), ('wowp', pp.PACKETS_MAPPING)):
        rows = []
        for k, cls in m.items():
            if not isinstance(k, int) or k < 0: problems.append('%s: key %r' % (name, k)); continue
            rows.append((k, cls.__name__, cls.__module__))
        tabs[name] = sorted(rows)
    return tabs, problems


PCLASSES = ['BasePlayerCreate', 'CellPlayerCreate', 'EntityControl', 'EntityEnter', 'EntityLeave', 'EntityCreate', 'EntityProperty',
            'EntityMethod', 'Position', 'Version', 'PlayerPosition', 'Map', 'NestedProperty', 'BattleStats']
# which module each dialect's class must come from (the model has one decoder per (dialect, class))
EXPECTED_MODULE = {
    'wows': {'CellPlayerCreate': 'clients.wows', 'EntityCreate': 'clients.wows', 'Map': 'clients.wows', 'PlayerPosition': 'clients.wows', 'BattleStats': 'clients.wows'},
    'wot': {'CellPlayerCreate': 'clients.wot', 'EntityCreate': 'clients.wot', 'Map': 'clients.wot'},
    'wowp': {},
}


def write_gen(which=('types', 'flags', 'tables'), tag='all'):
    os.makedirs(GEN_DIR, exist_ok=True)
    cfg, problems = reflect_config()
    tabs, p2 = reflect_tables()
    if 'types' not in which and 'flags' not in which: problems = []
    if 'tables' not in which: p2 = []
    problems += p2
    for d, rows in tabs.items():
        base = 'wows' if d.startswith('wows') else d
        for k, cn, mod in rows:
            if 'tables' not in which: continue
            if cn not in PCLASSES: problems.append('%s: packet class %s unknown to the model' % (d, cn)); continue
            want = EXPECTED_MODULE[base].get(cn, 'core.packets')
            if want not in mod: problems.append('%s: packet class %s now comes from %s (model: %s)' % (d, cn, mod, want))
    L = []
    L.append('(* GENERATED by tools/gen_const.py from the working tree of /repo - do not edit *)')
    L.append('From RU Require Import Base Types Defs World Run.')
    L.append('Open Scope N_scope. Open Scope string_scope.')
    L.append('Definition gen_config : config := {|')
    L.append('  simple_types := [%s];' % '; '.join('(%s, %s)' % (coq_str(n), t) for n, t in cfg['simple']))
    L.append('  flag_values := [%s];' % '; '.join('(%s, %d)' % (coq_str(n), v) for n, v in cfg['flags']))
    L.append('  mask_client := %d; mask_internal := %d; mask_cell := %d; mask_base := %d |}.' % tuple(cfg['masks']))
    L.append('Definition gen_composites : list (string * string) := [%s].' % '; '.join('(%s, %s)' % (coq_str(a), coq_str(b)) for a, b in cfg['composites']))
    L.append('Definition gen_infinity : N := %d.' % cfg['infinity'])
    L.append('Definition gen_default_header : Z := %d%%Z.' % cfg['default_header'])
    for d, rows in tabs.items():
        ok_rows = [(k, cn) for k, cn, _ in rows if cn in PCLASSES]
        L.append('Definition gen_table_%s : list (N * pclass) := [%s].' % (d, '; '.join('(%d, %s)' % r for r in ok_rows)))
    open(os.path.join(GEN_DIR, 'GenConfig.v'), 'w').write('\n'.join(L) + '\n')
    I = []
    I.append('(* GENERATED instance theorems: the tables of the working tree are the tables the model is built on *)')
    I.append('From RU Require Import Base Types Defs World Run InstLib.')
    I.append('From Gen Require Import GenConfig.')
    I.append('Open Scope N_scope. Open Scope string_scope.')
    if 'types' in which:
        I.append('Theorem inst_simple_types : forall k, assoc_get k (simple_types gen_config) = assoc_get k (simple_types default_config).')
        I.append('Proof. apply tables_agree. repeat constructor. Qed.')
        I.append('Theorem inst_composites : gen_composites = [("ARRAY", "Array"); ("FIXED_DICT", "FixedDict"); ("TUPLE", "Array"); ("USER_TYPE", "UserType")].')
        I.append('Proof. reflexivity. Qed.')
        I.append('Theorem inst_infinity : gen_infinity = INFINITY /\\ gen_default_header = 1%Z.')
        I.append('Proof. split; reflexivity. Qed.')
    if 'flags' in which:
        I.append('Theorem inst_flag_values : forall k, assoc_get k (flag_values gen_config) = assoc_get k (flag_values default_config).')
        I.append('Proof. apply tables_agree. repeat constructor. Qed.')
        I.append('Theorem inst_masks : (mask_client gen_config, mask_internal gen_config, mask_cell gen_config, mask_base gen_config)')
        I.append('  = (mask_client default_config, mask_internal default_config, mask_cell default_config, mask_base default_config).')
        I.append('Proof. reflexivity. Qed.')
    if 'tables' in which:
        for d in tabs:
            I.append('Theorem inst_table_%s : forall k, table_get k gen_table_%s = table_get k table_%s.' % (d, d, d))
            I.append('Proof. apply ptables_agree. repeat constructor. Qed.')
            I.append('Theorem inst_table_%s_functional : NoDup (map fst gen_table_%s).' % (d, d))
            I.append('Proof. repeat constructor; cbn; intuition discriminate. Qed.')
    open(os.path.join(GEN_DIR, 'Inst_%s.v' % tag), 'w').write('\n'.join(I) + '\n')
    return cfg, tabs, problems


_done = {}


def instance_obligations(ctx, pid, which=('types', 'flags', 'tables')):
    """regenerate GenConfig.v / InstConfig.v from the working tree and have coqc check the instance theorems"""
    with common.Lock('gen'):
        cfg, tabs, problems = write_gen(which, pid)
        ctx.obligation('translator gen_const understands the working tree', not problems, '; '.join(problems))
        ok, out = common.coqc(os.path.join(GEN_DIR, 'GenConfig.v'), extra_q=[(GEN_DIR, 'Gen')])
        ctx.obligation('GenConfig.v compiles', ok, out[-800:])
        if ok:
            ctx.coq_props(os.path.join(GEN_DIR, 'Inst_%s.v' % pid), extra_q=[(GEN_DIR, 'Gen')])
    if 'tables' in which:
        from . import gen_packets
        gen_packets.layout_obligations(ctx, pid)
    ctx.extra.setdefault('generated_tables', {})['config'] = {'simple_types': len(cfg['simple']), 'flags': len(cfg['flags']),
                                                              'masks': cfg['masks'], 'packet_tables': {k: len(v) for k, v in tabs.items()}}
    return cfg, tabs


def container_obligations(ctx):
    """keys, magic and extension whitelist of replay_reader.py -> GenContainer.v + instance theorems"""
    problems = []
    from replay_unpack import replay_reader as rr
    rows = []
    for ext, key in rr.TYPE_TO_KEY.items():
        if not isinstance(key, (bytes, bytearray)) or not (1 <= len(key) <= 56): problems.append('key for %s not understood' % ext); continue
        rows.append((ext, list(key)))
    if set(rr.ALLOWED_TYPES) != set(rr.TYPE_TO_KEY): problems.append('ALLOWED_TYPES differs from the key table')
    games = {}
    # game names by extension: read from the source of get_replay_data (constants WOWS_REPLAY etc.)
    for ext, game in ((rr.WOWS_REPLAY, 'wows'), (rr.WOT_REPLAY, 'wot'), (rr.WOWP_REPLAY, 'wowp')): games[ext] = game
    with common.Lock('gen'):
        os.makedirs(GEN_DIR, exist_ok=True)
        L = ['(* GENERATED by tools/gen_const.py from replay_unpack/replay_reader.py *)',
             'From RU Require Import Base Container.', 'Open Scope N_scope. Open Scope string_scope.',
             'Definition gen_magic : list N := [%s].' % '; '.join(str(b) for b in rr.REPLAY_SIGNATURE),
             'Definition gen_keys : list (string * (string * list N)) := [%s].' % '; '.join(
                 '(%s, (%s, [%s]))' % (coq_str(e), coq_str(games.get(e, '?')), '; '.join(map(str, k))) for e, k in sorted(rows))]
        open(os.path.join(GEN_DIR, 'GenContainer.v'), 'w').write('\n'.join(L) + '\n')
        I = ['From RU Require Import Base Container InstLib.', 'From Gen Require Import GenContainer.', 'Open Scope N_scope. Open Scope string_scope.',
             'Theorem inst_magic : gen_magic = map b2n magic.', 'Proof. reflexivity. Qed.',
             'Theorem inst_keys : forall k, assoc_get k gen_keys = assoc_get k key_table.', 'Proof. apply tables_agree. repeat constructor. Qed.']
        open(os.path.join(GEN_DIR, 'Inst_C01.v'), 'w').write('\n'.join(I) + '\n')
        ctx.obligation('translator gen_const understands replay_reader.py', not problems, '; '.join(problems))
        ok, out = common.coqc(os.path.join(GEN_DIR, 'GenContainer.v'), extra_q=[(GEN_DIR, 'Gen')])
        ctx.obligation('GenContainer.v compiles', ok, out[-800:])
        if ok: ctx.coq_props(os.path.join(GEN_DIR, 'Inst_C01.v'), extra_q=[(GEN_DIR, 'Gen')])
