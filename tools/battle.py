"""Synthetic battles: a complete minimal battle (player creation, BattleLogic and Vehicle entities, map, roster messages,
deaths, damage batches, achievements, plane kills, ribbons, mid-battle join, battle end) encoded against a bundled
version's OWN definitions and packet numbering - the index maps come from the extracted MODEL (tools/defsview.model_view),
not from the library - wrapped by the model's container writer.  Used by C09, C10 (dynamic clause), C13, C14, C19."""
import json, os, struct, json, pickle, zlib, importlib, tempfile
from tools import common, impl, gen_types, defsview, synth, c01


class ModelDefs:
    """index maps of a definitions directory as the extracted model computes them"""
    def __init__(self, d):
        self.names = []; self.ent = {}
        cur = None
        for l in defsview.model_view(d):
            p = l.split(' ')
            if p[0] == 'ENT': self.names.append(p[2])
            elif p[0] == 'MODEL': cur = dict(methods=[], client=[], internal=[], cell=[], base=[]); self.ent[p[1]] = cur
            elif p[0] == 'M':
                args = []
                for a in p[4:]:
                    n, t = a.split(':', 1); args.append((None if n == '-' else n, impl.parse_type_syntax(t)))
                cur['methods'].append(dict(name=p[1], hdr=int(p[3]), args=args))
            elif p[0] in ('PC', 'PI', 'PL', 'PB'):
                cur[{'PC': 'client', 'PI': 'internal', 'PL': 'cell', 'PB': 'base'}[p[0]]].append((p[1], impl.parse_type_syntax(p[2])))
    def idx(self, name): return self.names.index(name) + 1


def default_value(t, rng, depth=0):
    k = t[0]
    if k == 'u': return rng.randrange(0, min(2 ** (8 * t[1]), 5))
    if k == 'i': return rng.randrange(0, 5)
    if k == 'f32': return ('f', rng.choice([0, 0x3fc00000, 0xc0100000]))
    if k == 'f64': return ('d', rng.choice([0, 0x3ff8000000000000]))
    if k == 'vec': return ('v', [0x3f800000] * (t[1] // 4))
    if k == 'blob': return ('s', b'')
    if k == 'string': return ('s', b'x')
    if k == 'python': return ('s', b'')
    if k == 'mailbox': return ('m', bytes([127, 0, 0, 1]), 6000)
    if k == 'dict':
        if t[2] and rng.random() < 0.3: return None
        return {n: default_value(ft, rng, depth + 1) for n, ft in t[1]}
    if k == 'array':
        n = t[2] if t[2] is not None else (rng.randrange(0, 3) if depth < 4 else 0)
        return [default_value(t[1], rng, depth + 1) for _ in range(n)]
    if k == 'user': return default_value(t[1], rng, depth + 1)
    raise AssertionError(k)


def py2_dumps(obj):
    """a protocol-2 pickle as a Python-2 client writes it: its `str` values are SHORT_BINSTRING / BINSTRING opcodes (raw bytes, decoded by
    pickle.loads according to its `encoding` argument: ASCII by default - non-ASCII bytes then raise UnicodeDecodeError -, latin1, or kept as
    bytes), its `unicode` values BINUNICODE.  Here: bytes -> py2 str, str -> py2 unicode; None, bool, int, float, list, tuple, dict."""
    def enc(o):
        if o is None: return b'N'
        if o is True: return b'\x88'
        if o is False: return b'\x89'
        if isinstance(o, int):
            if 0 <= o < 256: return b'K' + bytes([o])
            if 0 <= o < 65536: return b'M' + struct.pack('<H', o)
            if -2 ** 31 <= o < 2 ** 31: return b'J' + struct.pack('<i', o)
            n = (o.bit_length() + 8) // 8; return b'\x8a' + bytes([n]) + o.to_bytes(n, 'little', signed=True)
        if isinstance(o, float): return b'G' + struct.pack('>d', o)
        if isinstance(o, bytes): return (b'U' + bytes([len(o)]) if len(o) < 256 else b'T' + struct.pack('<i', len(o))) + o
        if isinstance(o, str): u = o.encode('utf-8'); return b'X' + struct.pack('<I', len(u)) + u
        if isinstance(o, list): return b']' + (b'(' + b''.join(enc(x) for x in o) + b'e' if o else b'')
        if isinstance(o, tuple): return b')' if not o else b'(' + b''.join(enc(x) for x in o) + b't'
        if isinstance(o, dict): return b'}' + (b'(' + b''.join(enc(k) + enc(v) for k, v in o.items()) + b'u' if o else b'')
        raise TypeError('py2_dumps: %r' % type(o))
    return b'\x80\x02' + enc(obj) + b'.'


def to_py2(o):
    """every text value as a Python-2 `str` (UTF-8 bytes)"""
    if isinstance(o, str): return o.encode('utf-8')
    if isinstance(o, list): return [to_py2(x) for x in o]
    if isinstance(o, tuple): return tuple(to_py2(x) for x in o)
    if isinstance(o, dict): return {to_py2(k): to_py2(v) for k, v in o.items()}
    return o


def strip_user(t):
    while t[0] == 'user': t = t[1]
    return t


def field_type(t, path):
    t = strip_user(t)
    if t[0] != 'dict': return None
    for n, ft in t[1]:
        if n == path[0]: return ft if len(path) == 1 else field_type(ft, path[1:])
    return None


def set_path(v, path, newv):
    if not isinstance(v, dict) or path[0] not in v: return False
    if len(path) == 1: v[path[0]] = newv; return True
    return set_path(v[path[0]], path[1:], newv)


class Battle:
    def __init__(self, defs_dir, dialect, rng):
        self.md = ModelDefs(defs_dir); self.rng = rng; self.dialect = dialect
        self.ids = synth.TABLE_IDS[dialect]; self.out = []
        self.expect = dict(deaths=[], damage={}, achievements={}, planes={}, roster={}, ribbons={}, calls=0)

    def pkt(self, cls, payload):
        # (time stamps mostly rise and now and then step back - the stream order is the order, whatever the clocks say)
        k = len(self.out); t = struct.unpack('<I', struct.pack('<f', k * 0.5 - (4.0 if k % 5 == 3 else 0.0)))[0]
        self.out.append(synth.frame(self.ids[cls], t, payload))
    def base_player(self, eid):
        val = b''.join(gen_types.wire_of(t, default_value(t, self.rng)) for n, t in self.md.ent['Avatar']['base'])
        if self.dialect == 'wot': val = b''
        self.pkt('BasePlayerCreate', struct.pack('<ih', eid, self.md.idx('Avatar')) + synth.binstream(val))
        self.expect['player_id'] = eid
    def cell_player(self, eid, overrides=None):
        val = b''
        for n, t in self.md.ent['Avatar']['internal']:
            v = default_value(t, self.rng)
            if overrides and n in overrides: v = overrides[n](t, v)
            val += gen_types.wire_of(t, v)
        head = struct.pack('<ii', eid, 1) + (struct.pack('<h', 0) if self.dialect == 'wot' else b'') + struct.pack('<i', 0) + bytes(24)
        self.pkt('CellPlayerCreate', head + synth.binstream(val))
    def create(self, eid, name, values):
        m = self.md.ent[name]; body = bytes([len(values)])
        for pname, fn in values:
            i = [p[0] for p in m['client']].index(pname); t = m['client'][i][1]
            body += bytes([i]) + gen_types.wire_of(t, fn(t, default_value(t, self.rng)))
        head = struct.pack('<ihii', eid, self.md.idx(name), 0, 1) + bytes(24) + (struct.pack('<i', 0) if self.dialect == 'wot' else b'')
        self.pkt('EntityCreate', head + synth.binstream(body))
    def call(self, eid, ename, mname, argvals):
        ms = self.md.ent[ename]['methods']; i = [x['name'] for x in ms].index(mname); meth = ms[i]
        body = b''
        for (an, at), av in zip(meth['args'], argvals):
            body += gen_types.wire_of(at, av(at) if callable(av) else av, max(meth['hdr'], 0))
        self.pkt('EntityMethod', struct.pack('<II', eid, i) + synth.binstream(body)); self.expect['calls'] += 1
    def map(self, arena_id, name):
        nb = name.encode()
        if self.dialect == 'wot': self.pkt('Map', struct.pack('<iib', 1, arena_id, len(nb)) + nb)
        else: self.pkt('Map', struct.pack('<iqi', 1, arena_id, len(nb)) + nb + bytes(65))
        self.expect['map_raw'] = name
    def stream(self): return b''.join(self.out)
    def nested_set_field(self, eid, ename, pname, fname, value):
        """one field of a FIXED_DICT client property set by a nested packet; -> True if emitted"""
        if 'NestedProperty' not in self.ids: return False
        names = [p[0] for p in self.md.ent[ename]['client']]; t = strip_user(dict(self.md.ent[ename]['client'])[pname])
        if t[0] != 'dict': return False
        fns = [n for n, _ in t[1]]
        bits = synth.pack_bits([(1, 1), (names.index(pname), synth.bits_required(len(names))), (0, 1), (fns.index(fname), synth.bits_required(len(fns)))])
        payload = bits + gen_types.wire_of(dict(t[1])[fname], value)
        self.pkt('NestedProperty', struct.pack('<IbB', eid, 0, len(payload)) + bytes(3) + payload); return True


def wows_versions():
    base = os.path.join(common.REPO, 'replay_unpack', 'clients', 'wows', 'versions')
    return sorted(x for x in os.listdir(base) if os.path.isdir(os.path.join(base, x)) and not x.startswith('__'))


def representative_versions(step=5):
    """quick tiers: one version per DISTINCT battle_controller.py / players_info.py / constants.py source (files that differ in any byte), every
    version that has a build-specific sibling directory, and every step-th version"""
    import hashlib
    wv = wows_versions(); base = os.path.join(common.REPO, 'replay_unpack', 'clients', 'wows', 'versions'); seen = {}
    for v in wv:
        for fn in ('battle_controller.py', 'players_info.py', 'constants.py'):
            p = os.path.join(base, v, fn)
            if os.path.exists(p): seen.setdefault((fn, hashlib.md5(open(p, 'rb').read()).hexdigest()), v)
    sib = [v for v in wv if len(v.split('_')) == 4] + ['_'.join(v.split('_')[:3]) for v in wv if len(v.split('_')) == 4]
    return sorted(set(seen.values()) | set(x for x in sib if x in wv) | set(wv[::step]) | {wv[-1]})


def roster(consts, ids, extra=None):
    pm = {v: k for k, v in consts.id_property_map.items()}
    out = []
    for i in ids:
        rec = {'id': 100 + i, 'name': 'p%d' % i, 'shipId': 500 + i, 'teamId': i % 2, 'avatarId': 900 + i}
        if extra: rec.update(extra)
        out.append([(pm[k], v) for k, v in rec.items() if k in pm])
    return out


def build_wows(v, rng, join=True, battle_end=True, map_name='spaces/16_OC_bees_to_honey', n_players=3, roster_extra=None, recreate=False, dumps=None, extreme=False, reuse=False, twins=False, special_floats=False, control_points=0):
    """-> (Battle, version string for the open block).  v: a directory name under clients/wows/versions"""
    ver = v.split('_'); new = tuple(map(int, ver[:3])) >= (12, 6, 0)
    d = os.path.join(common.REPO, 'replay_unpack', 'clients', 'wows', 'versions', v)
    b = Battle(d, 'wows126' if new else 'wows', rng)
    consts = importlib.import_module('replay_unpack.clients.wows.versions.%s.constants' % v)
    A, BL, V1, V2 = 900, 10, 500, 501
    # both orders of the two player-creation packets are legal (the player handles "entity already there" in either branch)
    if 'Version' in b.ids:
        other = b'12,5,0,1' if new else b'12,6,0,1'              # the in-stream version record is logged, never acted on
        b.pkt('Version', struct.pack('<i', len(other)) + other)
    cell_first = rng.random() < 0.4
    if not cell_first:
        b.base_player(A)
        b.map(777, map_name)
    def ribbons(t, val):
        ft = field_type(t, ['ribbons'])
        if ft is not None and strip_user(ft)[0] == 'array':
            rt = strip_user(strip_user(ft)[1])
            if rt[0] == 'dict':
                set_path(val, ['ribbons'], [{n: ((3 if n == 'ribbonId' else 2) if strip_user(x)[0] in 'ui' else default_value(x, rng)) for n, x in rt[1]}])
        return val
    b.cell_player(A, {'privateVehicleState': ribbons})
    # a nested ELEMENT update with data (the list branch of the nested reader): the one ribbon record of the recording player is replaced by
    # {ribbonId 3, count 4}; where the summary takes its ribbons from that property, the count must be 4
    pvs = dict(b.md.ent['Avatar']['client']).get('privateVehicleState')
    rft = field_type(pvs, ['ribbons']) if pvs is not None else None
    if rft is not None and strip_user(rft)[0] == 'array' and strip_user(strip_user(rft)[1])[0] == 'dict' and 'NestedProperty' in b.ids:
        rt = strip_user(strip_user(rft)[1]); anames = [p[0] for p in b.md.ent['Avatar']['client']]; pf = [n for n, _ in strip_user(pvs)[1]]
        rec = {n: ((3 if n == 'ribbonId' else 4) if strip_user(x)[0] in 'ui' else default_value(x, rng)) for n, x in rt[1]}
        bits = synth.pack_bits([(1, 1), (anames.index('privateVehicleState'), synth.bits_required(len(anames))), (1, 1), (pf.index('ribbons'), synth.bits_required(len(pf))),
                                (0, 1), (0, synth.bits_required(1))])
        payload = bits + gen_types.wire_of(strip_user(rft)[1], rec)
        if len(payload) < 256:
            b.pkt('NestedProperty', struct.pack('<IbB', A, 0, len(payload)) + bytes(3) + payload); b.expect['avatar_ribbons'] = {3: 4}
            # ... and TWO more records inserted behind it by one slice packet (bounds 1:1 of a one-element list: 1 bit each)
            recs = [{n: ((k_ if n == 'ribbonId' else 1) if strip_user(x)[0] in 'ui' else default_value(x, rng)) for n, x in rt[1]} for k_ in (8, 9)]
            bits2 = synth.pack_bits([(1, 1), (anames.index('privateVehicleState'), synth.bits_required(len(anames))), (1, 1), (pf.index('ribbons'), synth.bits_required(len(pf))),
                                     (0, 1), (1, synth.bits_required(2)), (1, synth.bits_required(2))])
            payload2 = bits2 + b''.join(gen_types.wire_of(strip_user(rft)[1], r_) for r_ in recs)
            if len(payload2) < 256:
                b.pkt('NestedProperty', struct.pack('<IbB', A, 1, len(payload2)) + bytes(3) + payload2); b.expect['avatar_ribbons'] = {3: 4, 8: 1, 9: 1}
                def ribbon_slice(w, i1, i2, nrec=1):
                    """payload of a slice packet into the ribbons list (now 3 records) whose two bounds are w bits wide"""
                    bb_ = synth.pack_bits([(1, 1), (anames.index('privateVehicleState'), synth.bits_required(len(anames))), (1, 1), (pf.index('ribbons'), synth.bits_required(len(pf))), (0, 1), (i1, w), (i2, w)])
                    pl_ = bb_ + b''.join(gen_types.wire_of(strip_user(rft)[1], recs[0]) for _ in range(nrec))
                    return struct.pack('<IbB', A, 1, len(pl_)) + bytes(3) + pl_
                b.ribbon_slice = ribbon_slice
    if cell_first:
        b.base_player(A)
        b.map(777, map_name)
    def state(t, val):
        if val is None: val = default_value(('dict', strip_user(t)[1], False), rng)
        for key in ('tasks', 'controlPoints', 'missions'):
            ft = field_type(t, [key])
            if ft is not None and strip_user(ft)[0] == 'array': set_path(val, [key], [])
        cpt = field_type(t, ['controlPoints'])
        if control_points and cpt is not None and strip_user(cpt)[0] == 'array' and strip_user(strip_user(cpt)[1])[0] == 'dict':
            set_path(val, ['controlPoints'], [default_value(strip_user(strip_user(cpt)[1]), rng) for _ in range(control_points)])
        return val
    blnames = [p[0] for p in b.md.ent['BattleLogic']['client']]
    vals = [('state', state)] if 'state' in blnames else []
    if 'battleResult' in blnames:
        vals.append(('battleResult', lambda t, x: x if x is not None else default_value(('dict', strip_user(t)[1], False), rng)))
    b.create(BL, 'BattleLogic', vals)
    # a nested change below BattleLogic.state.controlPoints (an empty slice deleted from the empty list: the state stays what it is, but
    # every nested-change subscriber of that path is called - with the library's (entity, container) convention)
    if 'state' in blnames and 'NestedProperty' in b.ids:
        st_t = dict(b.md.ent['BattleLogic']['client'])['state']; cp_t = field_type(st_t, ['controlPoints'])
        if cp_t is not None and strip_user(cp_t)[0] == 'array':
            fields = [n for n, _ in strip_user(st_t)[1]]
            bits = synth.pack_bits([(1, 1), (blnames.index('state'), synth.bits_required(len(blnames))), (1, 1),
                                    (fields.index('controlPoints'), synth.bits_required(len(fields))), (0, 1)])
            b.pkt('NestedProperty', struct.pack('<IbB', BL, 1, len(bits)) + bytes(3) + bits)
    if control_points and 'state' in blnames and 'NestedProperty' in b.ids:
        st_t = dict(b.md.ent['BattleLogic']['client'])['state']; cp_t = field_type(st_t, ['controlPoints'])
        if cp_t is not None and strip_user(cp_t)[0] == 'array' and strip_user(strip_user(cp_t)[1])[0] == 'dict':
            rec_t = strip_user(strip_user(cp_t)[1]); sfields = [n for n, _ in strip_user(st_t)[1]]
            def cp_update(idx, fname, value):
                """frame payload of: BattleLogic.state.controlPoints[idx].<fname> = value (an integer member)"""
                names_ = [n for n, _ in rec_t[1]]; ft_ = dict(rec_t[1])[fname]
                bits_ = synth.pack_bits([(1, 1), (blnames.index('state'), synth.bits_required(len(blnames))), (1, 1), (sfields.index('controlPoints'), synth.bits_required(len(sfields))),
                                         (1, 1), (idx, synth.bits_required(control_points)), (0, 1), (names_.index(fname), synth.bits_required(len(names_)))])
                pl_ = bits_ + gen_types.wire_of(ft_, value)
                return struct.pack('<IbB', BL, 0, len(pl_)) + bytes(3) + pl_
            b.cp_update = cp_update; b.cp_int_fields = [n for n, x in rec_t[1] if strip_user(x)[0] in 'ui']; b.battle_logic_id = BL
    vnames = [p[0] for p in b.md.ent['Vehicle']['client']]
    def crew(t, val):
        if val is None: val = default_value(('dict', strip_user(t)[1], False), rng)
        ft = field_type(t, ['learnedSkills'])
        if extreme and ft is not None and strip_user(ft)[0] == 'u':
            # the versions that carry the learned skills as ONE unsigned bit mask: every bit set (the top bit is the sign bit of a signed read)
            set_path(val, ['learnedSkills'], 2 ** (8 * strip_user(ft)[1]) - 1)
        if ft is not None and strip_user(ft)[0] == 'array':
            et = strip_user(strip_user(ft)[1])
            skill_ids = sorted(getattr(consts, 'SKILL_TYPE_ID_TO_NAME', {}) or {1: 'a', 2: 'b', 3: 'c'})[:7]
            set_path(val, ['learnedSkills'], [(skill_ids[k % 3:] + skill_ids[:k % 3] if k < 4 else []) if et[0] == 'array' else default_value(et, rng) for k in range(6)])
        return val
    b.expect['vehicles'] = {}
    def vehicle(vid):
        def rec(t, val):
            val = crew(t, val); b.expect['vehicles'][vid] = val; return val
        b.expect['vehicles'][vid] = None
        b.create(vid, 'Vehicle', [('crewModifiersCompactParams', rec)] if 'crewModifiersCompactParams' in vnames else [])
    for vid in (V1, V2): vehicle(vid)
    if twins and 'crewModifiersCompactParams' in vnames and isinstance(b.expect['vehicles'].get(V1), dict) and 'paramsId' in b.expect['vehicles'][V1]:
        # two ships whose crew records are BYTE-IDENTICAL, then a nested update of one field of the first ship's record: the second ship keeps its own
        import copy as copy_
        twin = copy_.deepcopy(b.expect['vehicles'][V1])
        b.create(V2, 'Vehicle', [('crewModifiersCompactParams', lambda t, val: copy_.deepcopy(twin))]); b.expect['vehicles'][V2] = copy_.deepcopy(twin)
        cmt = dict(b.md.ent['Vehicle']['client'])['crewModifiersCompactParams']
        lt = field_type(cmt, ['learnedSkills']); pt = field_type(cmt, ['paramsId'])
        if lt is not None and strip_user(lt)[0] == 'u':          # the versions that report the set bits of this mask as the ship's skills
            if b.nested_set_field(V1, 'Vehicle', 'crewModifiersCompactParams', 'learnedSkills', 5): b.expect['vehicles'][V1]['learnedSkills'] = 5
        elif pt is not None and strip_user(pt)[0] in 'ui' and b.nested_set_field(V1, 'Vehicle', 'crewModifiersCompactParams', 'paramsId', 77):
            b.expect['vehicles'][V1]['paramsId'] = 77
    if recreate:
        # ids that are created, updated and created AGAIN (with another value, with a partial property set, as another type): afterwards only
        # the last creation and what followed it may be visible - through the version's own controller (create_entity / entities)
        neutral = [n for n in b.md.names if n not in ('Avatar', 'Vehicle', 'BattleLogic') and b.md.ent[n]['client']]
        if neutral:
            t1 = neutral[0]; t2 = neutral[-1]
            p1 = b.md.ent[t1]['client'][0][0]
            keep = lambda t, x: x
            b.create(700, t1, [(p1, keep)])
            i1 = 0; ty1 = b.md.ent[t1]['client'][0][1]
            b.pkt('EntityProperty', struct.pack('<II', 700, i1) + synth.binstream(gen_types.wire_of(ty1, default_value(ty1, rng))))
            b.create(700, t1, [(pn, keep) for pn, _ in b.md.ent[t1]['client'][1:2]])        # re-created WITHOUT the first property
            b.create(701, t1, [(p1, keep)])
            b.create(701, t2, [(b.md.ent[t2]['client'][-1][0], keep)])                       # re-created as another type
            b.create(702, t2, []); b.create(702, t2, [(pn, keep) for pn, _ in b.md.ent[t2]['client'][:2]])
    dumps = dumps or (lambda o: pickle.dumps(o, protocol=2))
    pk = lambda obj: (lambda t: ('s', dumps(obj)))
    am = {x['name']: x for x in b.md.ent['Avatar']['methods']}
    vm = {x['name']: x for x in b.md.ent['Vehicle']['methods']}
    r = roster(consts, range(n_players), extra=roster_extra(consts) if roster_extra else None)
    def merge(rs):
        for rec in rs:
            dct = {consts.id_property_map[k]: val for k, val in rec}
            b.expect['roster'].setdefault(dct['id'], {}).update(dct)
    args = am['onArenaStateReceived']['args']
    if len(args) == 1:
        def arena(t):
            val = default_value(('dict', strip_user(t)[1], False), rng)
            set_path(val, ['playersStates'], ('s', dumps(r)))
            return val
        b.call(A, 'Avatar', 'onArenaStateReceived', [arena])
    else:
        vals = []
        for an, at in args:
            if an == 'arenaUniqueId': vals.append(4242); b.expect['arena_id'] = 4242
            elif an == 'playersStates': vals.append(pk(r))
            elif strip_user(at)[0] == 'blob': vals.append(pk([]))
            else: vals.append(lambda t: default_value(t, rng))
        b.call(A, 'Avatar', 'onArenaStateReceived', vals)
    merge(r)
    for killed, fragger, typ in ((V1, V2, 3), (V2, V1, 1), (V1, V2, 3)):
        b.call(A, 'Avatar', 'receiveVehicleDeath', [killed, fragger, typ]); b.expect['deaths'].append((killed, fragger, typ))
    if 'receiveDamagesOnShip' in vm:
        def dmg(batch):
            def f(t):
                et = strip_user(strip_user(t)[1])
                amount_fields = [n for n, x in et[1] if 'amage' in n]
                mk = lambda att, amt: {n: (att if n == 'vehicleID' else (amt if n == amount_fields[0] else 2) if n in amount_fields else 0 if strip_user(x)[0] in 'ui' else default_value(x, rng)) for n, x in et[1]}
                b.amount_extra = 2 * (len(amount_fields) - 1)
                return [mk(a, m) for a, m in batch]
            return f
        batches = ((V1, [(V2, 100), (V2, 50)]), (V1, [(V2, 7)]), (V2, [(V1, 11)]))
        if special_floats: batches += ((V1, [(V2, ('f', 0xff800000))]), (V2, [(V1, ('f', 0x7f800000))]))      # -inf and +inf are legal FLOAT32 amounts
        for victim, batch in batches:
            b.call(victim, 'Vehicle', 'receiveDamagesOnShip', [dmg(batch)])
            for att, amt in batch:
                if not isinstance(amt, (int, float)): continue
                b.expect['damage'].setdefault(victim, {}).setdefault(att, 0); b.expect['damage'][victim][att] += amt + b.amount_extra
    if 'onAchievementEarned' in am:
        for _ in range(2):
            b.call(A, 'Avatar', 'onAchievementEarned', [100, 7])
            b.expect['achievements'][7] = b.expect['achievements'].get(7, 0) + 1
    if 'receiveDamageStat' in am:
        b.call(A, 'Avatar', 'receiveDamageStat', [pk({(1, 0): (3, 250.0), (2, 1): (1, 10.0)})])
    if 'receive_planeDeath' in am:
        pd = am['receive_planeDeath']['args']
        for _ in range(2):
            b.call(A, 'Avatar', 'receive_planeDeath', [(lambda t: [1, 2]) if strip_user(at)[0] == 'array' else (500 if i == len(pd) - 1 else 1) for i, (an, at) in enumerate(pd)])
    if 'onRibbon' in am:
        for _ in range(3): b.call(A, 'Avatar', 'onRibbon', [5])
        b.expect['ribbons'][5] = 3
    if join and 'onNewPlayerSpawnedInBattle' in am:
        sp = am['onNewPlayerSpawnedInBattle']['args']
        r2 = roster(consts, [n_players])
        b.call(A, 'Avatar', 'onNewPlayerSpawnedInBattle', [pk(r2) if i == 0 else pk([]) for i in range(len(sp))])
        merge(r2); b.expect['joined'] = True
    if 'onGameRoomStateChanged' in am:
        gr = am['onGameRoomStateChanged']['args']
        r3 = roster(consts, [0], extra={'name': 'renamed'})
        b.call(A, 'Avatar', 'onGameRoomStateChanged', [pk(r3) if i == 0 else pk([]) for i in range(len(gr))])
        merge(r3)
        # the same record, another one, the first one again - byte for byte (A, B, A): the roster is the merge of ALL messages in stream order
        for nm in ('first', 'second', 'first'):
            r4 = roster(consts, [1], extra={'name': nm})
            b.call(A, 'Avatar', 'onGameRoomStateChanged', [pk(r4) if i == 0 else pk([]) for i in range(len(gr))]); merge(r4)
    if new:
        # the post-battle statistics packet (only the renumbered table has it); 12_7_0 unpacks it into the summary, the others ignore it
        priv = [[1, 2] if nm in ('init_economics', 'common_economics', 'subtotal_economics') else i for i, nm in enumerate(getattr(consts, 'PLAYER_PRIVATE_RESULTS', ['a', 'b']))]
        pub = [{} if nm in ('interactions', 'buildingInteractions') else i for i, nm in enumerate(getattr(consts, 'CLIENT_PUBLIC_RESULTS', ['a', 'b']))]
        body = json.dumps({'commonList': list(range(len(getattr(consts, 'COMMON_RESULTS', [0, 1])))), 'privateDataList': priv, 'playersPublicInfo': {'100': pub},
                           'buildings': {'7': list(range(len(getattr(consts, 'BUILDINGS_FULL_RESULTS', [0, 1]))))}}).encode()
        b.pkt('BattleStats', struct.pack('<i', len(body)) + body); b.expect['post_battle'] = True
    if reuse:
        # ids that change owner: a third ship is created and its id is then handed to an entity of another type (it is no ship any more: no crew,
        # no skills in the summary); the id of a non-ship entity is handed to a new ship (which must appear with ITS crew)
        neutral = [n for n in b.md.names if n not in ('Avatar', 'Vehicle', 'BattleLogic')]
        if neutral:
            vehicle(502); b.create(502, neutral[0], []); del b.expect['vehicles'][502]
            b.create(503, neutral[-1], []); vehicle(503)
    if battle_end and 'onBattleEnd' in am:
        be = am['onBattleEnd']['args']
        b.call(A, 'Avatar', 'onBattleEnd', [1, 2][:len(be)]); b.expect['ended'] = True
    return b, ','.join(ver[:3] + (ver[3:] or ['1']))


def write_replay(path, ext, engine, stream, level=6):
    co = zlib.compressobj(level); z = co.compress(stream) + co.flush(); z += bytes((-len(z)) % 8)
    c01.model_write(ext, path, json.dumps(engine).encode(), [], struct.pack('<II', len(stream), len(z)), z)


def write_wows(path, v, rng, **kw):
    b, vs = build_wows(v, rng, **kw)
    write_replay(path, 'wowsreplay', {'clientVersionFromXml': vs}, b.stream())
    return b


def build_simple(game, v, rng, map_name='spaces/05_prohorovka'):
    """wot / wowp: player creation, map (wot), and - wot - tracer calls which its controller records"""
    d = os.path.join(common.REPO, 'replay_unpack', 'clients', game, 'versions', v)
    b = Battle(d, game, rng)
    A = 321
    b.base_player(A)
    if game == 'wot':
        b.cell_player(A)
        b.map(55, map_name)
        am = {x['name']: x for x in b.md.ent['Avatar']['methods']}
        b.expect['tracers'] = 0
        if 'showTracer' in am:
            for _ in range(3):
                b.call(A, 'Avatar', 'showTracer', [(lambda t: default_value(t, rng)) for _ in am['showTracer']['args']]); b.expect['tracers'] += 1
    vs = {'wot': 'World\xa0of\xa0Tanks v.%s.0 #77' % v.replace('_', '.'), 'wowp': 'World of Warplanes %s.5' % v.replace('_', '.')}[game]
    return b, vs


def write_simple(path, game, v, rng, **kw):
    b, vs = build_simple(game, v, rng, **kw)
    key = 'clientVersion' if game == 'wowp' else 'clientVersionFromXml'
    write_replay(path, {'wot': 'wotreplay', 'wowp': 'wowpreplay'}[game], {key: vs}, b.stream())
    return b
