"""C02 - packet framing: ordered, exactly once, isolated, terminating."""
import struct, subprocess, shutil, os
from tools import common, worldcheck, recordings, gen_const, synth, impl
LEVEL = 'proof'


def lib_delivery(dialect, defs_dir, stream):
    """what the play loop hands to the dialect: (type, time bits, payload) per packet, through the documented extension point"""
    pl = synth.make_player(dialect, defs_dir)
    seen = []
    def ds(packet):
        tb = struct.pack('<f', packet.time).hex() if packet.time == packet.time else 'nan'
        seen.append('%d:%s:%s' % (packet.type, tb, packet.raw_data.read().hex() or '-'))      # what a handler reading the stream gets
        return None                      # nothing is processed: this run only observes the framing
    pl._deserialize_packet = ds
    pl._process_packet = lambda t, p: None
    try:
        with common.time_limit(max(3.0, len(stream) / 5000.0)): pl.play(stream, True)
        tail = 'clean'
    except common.HangError: tail = 'HANG'          # the play loop did not return: the property's termination clause
    except struct.error: tail = 'headercut'
    except Exception as e: tail = 'other:' + type(e).__name__
    return ' '.join([tail] + seen)


def model_delivery(streams):
    inp = ''.join((s.hex() or '-') + '\n' for s in streams)
    p = subprocess.run(['bash', '-c', 'ulimit -s unlimited; exec "$0" frames', common.MODELRUN], input=inp, capture_output=True, text=True, timeout=180)
    if p.returncode != 0: raise RuntimeError('modelrun frames: ' + p.stderr[-500:])
    out = []
    for l in p.stdout.strip('\n').split('\n'):
        parts = l.split(' ')
        res = [parts[0]]
        for x in parts[1:]:
            t, tm, pl = x.split(':')
            b = bytes.fromhex(tm); bits = struct.unpack('<I', b)[0]
            if (bits >> 23) & 0xff == 0xff and bits & 0x7fffff: tm = 'nan'
            res.append('%s:%s:%s' % (t, tm, pl))
        out.append(' '.join(res))
    return out


def gen_streams(ctx, n):
    rng = ctx.rng; out = []
    ids = sorted(set(v for d in synth.TABLE_IDS.values() for v in d.values()))
    types = ids + [i + 1 for i in ids] + [0xffffffff, 0x7fffffff, 6, 9, 1000]
    times = [0, 0x3f800000, 0x7fc00000, 0x7f800000, 0xff800000, 1, 0x80000000, 0x7f800001]
    for k in range(n):
        pk = []
        for _ in range(rng.randrange(0, 8)):
            size = rng.choice([0, 0, 1, 2, 11, 12, 13, 100, rng.randrange(0, 300)] + ([65535, 65536, 40000] if rng.random() < 0.05 else []))
            pl = bytes([rng.randrange(256)]) * size if size > 2000 else bytes(rng.randrange(256) for _ in range(size))
            pk.append((rng.choice(types), rng.choice(times + [rng.randrange(2 ** 32)]), pl))
        st = b''.join(synth.frame(t, tb, pl) for t, tb, pl in pk)
        kind = rng.random()
        if kind < 0.3 and st: st = st[:len(st) - rng.randrange(1, min(len(st), 30) + 1)]          # cut somewhere in the last packet
        elif kind < 0.45: st += bytes(rng.randrange(256) for _ in range(rng.randrange(1, 12)))   # 1..11 stray bytes: a cut header
        elif kind < 0.5 and pk:                                                                    # a length field larger than what follows
            st = st[:-(len(pk[-1][2]) + 12)] + struct.pack('<II', 0xfffffff0, pk[-1][0]) + struct.pack('<I', pk[-1][1]) + pk[-1][2]
        out.append(st)
    # every cut offset of one stream
    base = synth.frame(8, 0x3f800000, b'abcdefghij') + synth.frame(7, 0, b'0123456789ABCDEF')
    for c in range(len(base) + 1): out.append(base[:c])
    return out


def split_stream(st):
    out = []; i = 0
    while i + 12 <= len(st):
        size, t = struct.unpack_from('<II', st, i)
        out.append(st[i:i + 12 + size]); i += 12 + size
    if i < len(st): out.append(st[i:])
    return out


def insertion_test(ctx, label, play, stream, table_ids, every):
    """inserting packets of unmapped types (and mapped-but-ignored ones) anywhere must not change the result"""
    rng = ctx.rng
    parts = split_stream(stream)
    unmapped = [t for t in [6, 9, 0x0b, 0x10, 0x20, 0x30, 0xff, 0xffffffff, 1234567] if t not in table_ids.values()]
    new = []
    n_ins = 0
    for i, p in enumerate(parts):
        if i % every == 0:
            r = rng.random()
            if r < 0.7: new.append(synth.frame(rng.choice(unmapped), rng.randrange(2 ** 32), bytes(rng.randrange(256) for _ in range(rng.choice([0, 3, 50])))))
            elif r < 0.85 or 'Version' not in table_ids: new.append(synth.frame(table_ids['EntityControl'], 0, struct.pack('<ib', 5, 1)))
            else: new.append(synth.frame(table_ids['Version'], 0, struct.pack('<i', 3) + b'1.0'))
            n_ins += 1
        new.append(p)
    a = play(stream); b = play(b''.join(new))
    ctx.case((label, len(parts), n_ins)); ctx.count('insertion:packets-inserted', n_ins)
    if a != b:
        fd = recordings.first_diff(a, b)
        ctx.violation(dict(kind='noop-insertion-changes-result', stream=label, inserted=n_ins, first_difference=dict(index=fd[0], without=fd[1][:300], with_inserted=fd[2][:300]),
                           how='tools/c02.insertion_test: the same stream with packets of unmapped types / EntityControl / Version inserted before every %d-th packet' % every))
        return False
    return True


def table_stability(ctx):
    """the dialects' packet tables are module-level objects shared by every player of the process: constructing players (with their REAL
    controllers, for versions on both sides of every special case) must leave them as the translator found them, and every player must hand
    a packet of each type id to the class the table names (probe: a packet whose payload is one byte, which every class refuses)"""
    from tools import battle
    from replay_unpack.clients import wows, wot, wowp
    from replay_unpack.core.network.net_packet import NetPacket
    import io
    tabs0, _ = gen_const.reflect_tables()
    seq = []
    wv = battle.wows_versions()
    picks = [v for v in ('13_2_0', '12_7_0', '12_6_0', '12_5_0', wv[-1], wv[0], '12_7_0') if v in wv]
    players = []
    for v in picks:
        players.append(('wows126' if tuple(map(int, v.split('_')[:3])) >= (12, 6, 0) else 'wows', 'wows ' + v, wows.ReplayPlayer(v.split('_')))); seq.append('wows ' + v)
    for game, mod, vs in (('wot', wot, ['1_10_0', '1_8_0']), ('wowp', wowp, ['2_1_17', '1_7_5'])):
        for v in vs:
            try: players.append((game, '%s %s' % (game, v), mod.ReplayPlayer(v.split('_') if game == 'wowp' else v.replace('_', '.')))); seq.append('%s %s' % (game, v))
            except Exception: pass
    tabs1, _ = gen_const.reflect_tables()
    ctx.case(('table-stability',))
    changed = [(d, sorted(set(tabs0[d]) ^ set(tabs1[d]))) for d in tabs0 if tabs0[d] != tabs1[d]]
    bad = None
    for d, label, pl in players:
        for tid, cname, _m in tabs0[d]:
            pk = NetPacket(io.BytesIO(struct.pack('<IIf', 1, tid, 0.0) + b'\x00'))
            try: obj = pl._deserialize_packet(pk); got = 'not handed to any class' if obj is None else type(obj).__name__
            except Exception: got = 'handed to a class'
            ctx.case(None); ctx.count('dispatch-probe')
            if got == 'not handed to any class' and bad is None:
                bad = dict(kind='mapped-packet-not-delivered', player=label, constructed_before=seq, packet_type=tid, table_names=cname,
                           how='construct the listed players in this order in one process; then player._deserialize_packet(NetPacket of that type, 1-byte payload): '
                               'the table names a class for this type, so the class must be constructed (and refuse the payload), not skipped as unknown')
    ctx.obligation('the packet tables survive the construction of players (same tables before and after: %s)' % ', '.join(seq), not changed, str(changed)[:600])
    if bad: ctx.violation(bad); return
    # ... and they survive a LENIENT play in which a packet of every mapped type fails (one-byte payloads): afterwards every type is still handed
    # to its class, by this player and by a player constructed later
    for d, label, pl in players[:3] + players[-2:]:
        stream = b''.join(struct.pack('<IIf', 1, tid, 0.0) + b'\x00' for tid, _c, _m in tabs0[d])
        try:
            with common.time_limit(20): pl.play(stream, False)
        except Exception: pass
    tabs2, _ = gen_const.reflect_tables()
    changed2 = [(d, sorted(set(tabs0[d]) ^ set(tabs2[d]))) for d in tabs0 if tabs0[d] != tabs2[d]]
    ctx.case(('table-stability-after-failures',))
    if changed2:
        d, diff = changed2[0]
        ctx.violation(dict(kind='mapped-packet-not-delivered', dialect=d, table_entries_changed=[list(x) for x in diff][:6],
                           how='construct the players, play (lenient) a stream with a one-byte packet of every mapped type - each fails in its class -, then read the '
                               'module-level packet tables again: a later parse in this process would not be handed those packet types any more'))


def run(ctx):
    ctx.rule = ('(a) generated byte streams (payload 0..64KiB, type ids from all tables +-1 and extremes, NaN/inf/denormal times, every cut offset, '
                'stray tail bytes, oversized length field): packets handed to the dialect vs the extracted framer; (b) generated histories incl. '
                'handlers given payloads shorter than their struct; (c) no-op insertion into synthetic and real streams; non-trivial = stream '
                'with >= 2 packets or a cut tail; distinct by stream bytes')
    ctx.coq_props('Props/C02.v')
    gen_const.instance_obligations(ctx, 'C02', which=('tables',))
    q = ctx.tier == 'quick'
    rng = ctx.rng
    table_stability(ctx)
    ds = synth.gen_defset(rng); d = synth.write_defset(ds, rng)
    try:
        streams = gen_streams(ctx, 400 if q else 6000)
        model = model_delivery(streams)
        from tools import coqeval
        coqeval.cross_check(ctx, 'C02', ['frames %s' % (st.hex() or '-') for st in streams if len(st) <= 300][::3], 'frames', limit=80)
        bad = None
        for i, (st, m) in enumerate(zip(streams, model)):
            dialect = ('wows', 'wows126', 'wot', 'wowp')[i % 4]
            got = lib_delivery(dialect, d, st)
            ctx.case(st if (m.count(' ') >= 2 or not m.startswith('clean')) else None)
            ctx.count('framing:' + m.split(' ')[0])
            if got != m and bad is None: bad = (dialect, st, got, m, False)
        # the same with the library's logging really on (every record formatted): what is delivered must not depend on the log level
        for i in range(0, len(streams), 9):
            dialect = ('wows', 'wows126', 'wot', 'wowp')[i % 4]
            with common.debug_logging(): got = lib_delivery(dialect, d, streams[i])
            ctx.case(None); ctx.count('framing:with-debug-logging')
            if got != model[i] and bad is None: bad = (dialect, streams[i], got, model[i], True)
        ctx.traces_validated += len(streams)
        ctx.sample(dict(stream=streams[3].hex()[:200], delivered=model[3][:300]))
        ctx.obligation('correspondence: packets delivered by PlayerBase.play = extracted frames on %d generated streams' % len(streams), bad is None)
        if bad:
            dialect, st, got, m, with_debug = bad
            def deliver(s):
                if not with_debug: return lib_delivery(dialect, d, s)
                with common.debug_logging(): return lib_delivery(dialect, d, s)
            # shrink: drop whole leading packets / trailing bytes while the disagreement persists
            def differs(s): return deliver(s) != model_delivery([s])[0]
            parts = split_stream(st)
            changed = True
            while changed and len(parts) > 1:
                changed = False
                for i in range(len(parts)):
                    cand = parts[:i] + parts[i + 1:]
                    if differs(b''.join(cand)): parts = cand; changed = True; break
            st = b''.join(parts)
            ctx.violation(dict(kind='framing', dialect=dialect, stream=st.hex(), implementation=deliver(st), expected=model_delivery([st])[0], logging_at_debug=with_debug,
                               how='subclass of the dialect ReplayPlayer overriding _deserialize_packet/_process_packet (the handler reads packet.raw_data), play(stream, strict)'
                                   + ('; with the root logger at DEBUG and a handler attached (tools/common.debug_logging), as with --log_level DEBUG' if with_debug else '')))
        # (c) insertion into synthetic streams
        for k in range(6 if q else 40):
            dialect = ('wows', 'wows126', 'wot', 'wowp')[k % 4]
            pl = synth.make_player(dialect, d); view = synth.LibView(pl)
            h = synth.History(rng, dialect, view).run(rng.choice([60, 200]))
            play = lambda s, dialect=dialect: [l for l in synth.run_library(dialect, d, s)[0] if not l.startswith(('L ', 'LP '))]
            insertion_test(ctx, 'synthetic-%s-%d' % (dialect, k), play, h.stream(), synth.TABLE_IDS[dialect], rng.choice([1, 3, 7]))
    finally:
        shutil.rmtree(d, ignore_errors=True)
    # (b) histories (with truncated payloads for mapped handlers) through library and model
    worldcheck.run_histories(ctx, 'C02', n_defsets=10 if q else 40, hist_per_set=4, sizes=[60, 200], fault_rate=0.15)
    # (c) insertion into real recordings
    from replay_unpack.replay_reader import ReplayReader
    for f in recordings.pick(ctx.tier, 3):
        rep = ReplayReader(f).get_replay_data()
        def play(s, rep=rep):
            pl = recordings.make_player(rep); rec = recordings.Recorder(pl)
            try:
                try:
                    with common.time_limit(max(60.0, len(s) / 5000.0)): pl.play(s, False)
                except common.HangError: return ['HANG']
                return [l for l in rec.trace if not l.startswith(('L ', 'LP '))] + recordings.dump_entities(pl._battle_controller)
            finally: rec.close()
        pl0 = recordings.make_player(rep); dialect = recordings.dialect_of(pl0)
        insertion_test(ctx, os.path.relpath(f, common.REPO), play, rep.decrypted_data, synth.TABLE_IDS[dialect], 200 if q else 20)


def replay(ctx, path):
    import json
    obj = json.load(open(path))
    if obj.get('kind') == 'framing':
        ds = synth.gen_defset(ctx.rng); d = synth.write_defset(ds, ctx.rng)
        try:
            st = bytes.fromhex(obj['stream']); got = lib_delivery(obj['dialect'], d, st); want = model_delivery([st])[0]
            print('implementation:', got[:600]); print('model         :', want[:600]); return 0 if got == want else 1
        finally: shutil.rmtree(d, ignore_errors=True)
    return worldcheck.replay(ctx, path, 'C02')
