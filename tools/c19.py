"""C19 - an installed copy is complete and behaves like the source checkout."""
import os, sys, json, shutil, subprocess, tempfile, zipfile, random, glob
from tools import common, gen_tree, battle, recordings, digest
from tools.gen_const import GEN_DIR, coq_str
LEVEL = 'other'


def model_shipped(tree, kw, tmp):
    lines = gen_tree.tree_lines(tree)
    lines.append('INCLUDE ' + ' '.join(p.encode().hex() for p in kw['include']))
    for pat in kw.get('package_data', {}).get('', []):
        lines.append('GLOB ' + ' '.join('**' if c == '**' else c.encode().hex() for c in gen_tree.glob_components(pat)))
    for s in kw.get('scripts', []): lines.append('SCRIPT ' + '/'.join(c.encode().hex() for c in s.split('/')))
    f = os.path.join(tmp, 'tree.txt'); open(f, 'w').write('\n'.join(lines) + '\n')
    p = subprocess.run(['bash', '-c', 'ulimit -s unlimited; exec "$0" shipped "$1"', common.MODELRUN, f], capture_output=True, text=True, timeout=900)
    if p.returncode != 0: raise RuntimeError('modelrun shipped: ' + p.stderr[-500:])
    shipped = set(l[2:] for l in p.stdout.split('\n') if l.startswith('S ')); missing = sorted(l[2:] for l in p.stdout.split('\n') if l.startswith('M '))
    return shipped, missing


def build_wheel(tmp):
    """pip wheel --no-deps --no-build-isolation from a scratch copy of the working tree (outside /repo and /verif)"""
    src = os.path.join(tmp, 'src')
    shutil.copytree(common.REPO, src, ignore=shutil.ignore_patterns('.git', '__pycache__', 'tests', 'docs', '*.egg-info', 'build'))
    out = os.path.join(tmp, 'whl'); os.makedirs(out)
    env = dict(os.environ, PIP_NO_INDEX='1')
    p = subprocess.run([common.PY, '-m', 'pip', 'wheel', '--no-deps', '--no-build-isolation', '-q', '-w', out, src], capture_output=True, text=True, timeout=900, env=env, cwd=tmp)
    whl = glob.glob(os.path.join(out, '*.whl'))
    if p.returncode != 0 or not whl: raise RuntimeError('wheel build failed: ' + (p.stdout + p.stderr)[-800:])
    shutil.rmtree(src, ignore_errors=True)
    return whl[0]


def build_sdist_wheel(tmp):
    """the other route of the statement: an sdist built from the tree, then a wheel built FROM THAT SDIST (what `pip install <sdist>` does)"""
    src = os.path.join(tmp, 'src2')
    shutil.copytree(common.REPO, src, ignore=shutil.ignore_patterns('.git', '__pycache__', 'tests', 'docs', '*.egg-info', 'build'))
    dist = os.path.join(tmp, 'sdist'); os.makedirs(dist)
    env = dict(os.environ, PIP_NO_INDEX='1')
    p = subprocess.run([common.PY, 'setup.py', '-q', 'sdist', '-d', dist], capture_output=True, text=True, timeout=900, env=env, cwd=src)
    sd = glob.glob(os.path.join(dist, '*.tar.gz')) + glob.glob(os.path.join(dist, '*.zip'))
    shutil.rmtree(src, ignore_errors=True)
    if p.returncode != 0 or not sd: return None, 'sdist build failed: ' + (p.stdout + p.stderr)[-600:]
    out = os.path.join(tmp, 'whl2'); os.makedirs(out)
    p = subprocess.run([common.PY, '-m', 'pip', 'wheel', '--no-deps', '--no-build-isolation', '-q', '-w', out, sd[0]], capture_output=True, text=True, timeout=900, env=env, cwd=tmp)
    whl = glob.glob(os.path.join(out, '*.whl'))
    if p.returncode != 0 or not whl: return None, 'a wheel cannot be built from the sdist (pip install <sdist> fails): ' + (p.stdout + p.stderr)[-600:]
    return whl[0], ''


WORKER = r'''
import sys, os, json, hashlib
inst = sys.argv[1]
sys.path[:] = [inst, os.path.join(inst, 'scripts')] + [p for p in sys.path if not os.path.realpath(p or '.').startswith(os.path.realpath(os.environ.get('VERIF_REPO', '/repo'))) and p != '']
for m in list(sys.modules):
    if m.split('.')[0] in ('replay_unpack', 'replay_parser'): del sys.modules[m]
import logging; logging.disable(logging.CRITICAL)
sys.path.insert(0, sys.argv[2])
from tools import digest
import replay_unpack, replay_parser
assert os.path.realpath(replay_unpack.__file__).startswith(os.path.realpath(inst)), replay_unpack.__file__
for p in sys.argv[3:]:
    print(digest.digest_of(p, False), p); sys.stdout.flush()
'''


def fixture_roster(consts):
    """player records that carry instances of the two fixture classes (real rosters of 0.8.9+ do): unpickling them in the installed copy needs
    <package>/fixtures on sys.path, wherever the command-line script itself was installed"""
    import sys
    fx = os.path.join(common.REPO, 'replay_unpack', 'fixtures')          # only to BUILD the input: the harness must be able to pickle the two classes
    sys.path.append(fx)
    try: import CamouflageInfo, PlayerModeDef
    finally: sys.path.remove(fx)
    keys = sorted(k for k in consts.id_property_map.values() if k not in ('id', 'name', 'shipId', 'teamId', 'avatarId'))
    pm = PlayerModeDef.PlayerMode(); pm.__dict__.update(playerModeType=1, observedTeamId=2)
    return {keys[0]: CamouflageInfo.CamouflageInfo(5, 6), keys[1]: pm} if len(keys) >= 2 else {}


def run(ctx):
    ctx.rule = ('static: every file of the working tree (directory trie regenerated per run) - the instance theorem says every file parsing can need that setup() '
                'does not ship is a listed finding; translation validation of the packaging model: a wheel is really built offline and its name list must equal '
                'the model\'s shipped set; dynamic: synthetic battles for bundled versions of all games and real recordings parsed from the unpacked wheel with '
                'the checkout off sys.path, digests compared with the checkout; non-trivial = every file / every parse; distinct by path')
    ctx.extra['explanation'] = ('Level "other": setuptools is abstracted (Packaging.v) and the abstraction is validated against a really built wheel on every run; the '
                                'completeness claim itself is an exhaustive generated instance theorem over the directory trie; behaviour of the installed copy is observed.')
    ctx.coq_props('Props/C19.v')
    tree = gen_tree.scan_tree(common.REPO); kw = gen_tree.setup_kwargs(common.REPO)
    ctx.obligation('translator gen_tree understands setup.py', not kw['problems'], '; '.join(kw['problems']))
    known = [k for k in ctx.known if k.get('status') == 'open']
    known_paths = sorted(set(p for k in known for p in k.get('paths', [])))
    tmp = tempfile.mkdtemp(prefix='verif-c19-', dir='/var/tmp' if os.path.isdir('/var/tmp') else None)
    try:
        # only the part of the tree setuptools packages from: replay_unpack + top-level files (tests/docs/examples are not needed for the claim)
        sub = [(n, k) for n, k in tree if n in ('replay_unpack', 'replay_parser.py', 'setup.py', 'examples')]
        shipped, missing = model_shipped(sub, kw, tmp)
        nfiles = sum(1 for _ in iter_files(sub))
        ctx.case(('tree',), n=nfiles); ctx.extra['files_in_tree'] = nfiles; ctx.extra['shipped_by_model'] = len(shipped); ctx.extra['exhaustive'] = True
        # instance theorem over the generated trie
        with common.Lock('gen'):
            os.makedirs(GEN_DIR, exist_ok=True)
            globs = kw.get('package_data', {}).get('', [])
            L = ['(* GENERATED by tools/gen_tree.py: the working tree as a directory trie, the arguments of setup() *)', 'From RU Require Import Base Packaging.', 'Open Scope string_scope.',
                 'Definition gen_tree : tree := %s.' % gen_tree.coq_tree(sub),
                 'Definition gen_include : list string := [%s].' % '; '.join(coq_str(p) for p in kw['include']),
                 'Definition gen_globs : list (list pcomp) := [%s].' % '; '.join('[' + '; '.join('PStarStar' if c == '**' else 'PGlob %s' % coq_str(c) for c in gen_tree.glob_components(g)) + ']' for g in globs),
                 'Definition gen_scripts : list path := [%s].' % '; '.join('[' + '; '.join(coq_str(c) for c in s.split('/')) + ']' for s in kw.get('scripts', [])),
                 'Definition gen_known : list path := [%s].' % '; '.join('[' + '; '.join(coq_str(c) for c in p.split('/')) + ']' for p in known_paths)]
            open(os.path.join(GEN_DIR, 'GenC19.v'), 'w').write('\n'.join(L) + '\n')
            open(os.path.join(GEN_DIR, 'Inst_C19.v'), 'w').write('From RU Require Import Base Packaging.\nFrom Gen Require Import GenC19.\n'
                 '(* every file parsing can need that the distribution does not contain is a listed finding *)\n'
                 'Theorem inst_installed_complete : forallb (fun f => mem_path f gen_known) (missing gen_tree gen_include gen_globs gen_scripts) = true.\nProof. vm_compute. reflexivity. Qed.\n')
            ok, out = common.coqc(os.path.join(GEN_DIR, 'GenC19.v'), extra_q=[(GEN_DIR, 'Gen')], timeout=600)
            ctx.obligation('GenC19.v compiles', ok, out[-600:])
            if ok: ctx.coq_props(os.path.join(GEN_DIR, 'Inst_C19.v'), extra_q=[(GEN_DIR, 'Gen')], timeout=900)
        for m in missing:
            ctx.deviation('not-shipped', {'path': m}, dict(kind='missing-file', path=m, how='tools/gen_tree + the packaging model (modelrun shipped): needed by parsing, not in the distribution'))
        # translation validation against a really built wheel
        whl = build_wheel(tmp)
        z = zipfile.ZipFile(whl)
        names = set(n for n in z.namelist() if '.dist-info/' not in n)
        actual = set()
        for n in names:
            if '.data/scripts/' in n: actual.add(n.split('.data/scripts/')[1])
            else: actual.add(n)
        model_set = set(p for p in shipped if not p.startswith('examples/') and p != 'setup.py')
        only_wheel = sorted(actual - model_set); only_model = sorted(model_set - actual)
        ctx.extra['wheel_files'] = len(actual)
        # ... and through an sdist: it must be installable and give the same files
        whl2, why = build_sdist_wheel(tmp)
        ctx.case(('sdist-route',))
        if whl2 is None:
            ctx.violation(dict(kind='sdist-not-installable', detail=why, how='python setup.py sdist; pip wheel --no-deps --no-build-isolation <the sdist>  (in a scratch copy of the tree)'))
        else:
            names2 = set(n for n in zipfile.ZipFile(whl2).namelist() if '.dist-info/' not in n)
            if names2 != names:
                ctx.violation(dict(kind='sdist-differs-from-wheel', only_in_wheel_from_tree=sorted(names - names2)[:20], only_in_wheel_from_sdist=sorted(names2 - names)[:20],
                                   how='wheel built from the tree vs wheel built from the sdist of the tree: the two distributions must install the same files'))
            os.unlink(whl2)
        ctx.obligation('translation validation: name list of the built wheel = shipped set of the packaging model (%d files)' % len(actual), not only_wheel and not only_model,
                       'only in wheel: %r; only in model: %r' % (only_wheel[:5], only_model[:5]))
        # behaviour of the installed copy
        # (a realistic install location: its path has dots and blanks-free but unusual characters, like lib/python3.12/site-packages)
        inst = os.path.join(tmp, 'venv-1.0', 'lib', 'python3.12', 'site-packages'); os.makedirs(inst); z.extractall(inst)
        scripts = glob.glob(os.path.join(inst, '*.data', 'scripts'))
        if scripts: shutil.copytree(scripts[0], os.path.join(inst, 'scripts'))
        q = ctx.tier == 'quick'; rng = ctx.rng
        files = []
        wv = battle.wows_versions(); picks = wv if not q else [wv[i] for i in range(0, len(wv), 10)]
        for v in picks:
            p = os.path.join(tmp, 'w-%s.wowsreplay' % v); battle.write_wows(p, v, random.Random(rng.randrange(10 ** 9)), join=False, roster_extra=fixture_roster); files.append(p)
        for game, v in (('wot', '1_10_0'), ('wot', '1_8_0'), ('wowp', '2_1_17'), ('wowp', '1_7_5')):
            p = os.path.join(tmp, '%s-%s.%s' % (game, v, {'wot': 'wotreplay', 'wowp': 'wowpreplay'}[game])); battle.write_simple(p, game, v, random.Random(1)); files.append(p)
        files += [f for f in recordings.list_recordings() if os.path.getsize(f) < (800000 if q else 10 ** 9)][: (4 if q else 100)]
        newest = sorted((f for f in recordings.list_recordings() if f.endswith('.wowsreplay')), key=lambda f: [int(x) if x.isdigit() else 0 for x in os.path.basename(os.path.dirname(f)).split('_')])[-1]
        if newest not in files: files.append(newest)
        env = dict(os.environ, PYTHONHASHSEED='0'); env.pop('PYTHONPATH', None)
        wk = os.path.join(tmp, 'worker.py'); open(wk, 'w').write(WORKER)
        pr = subprocess.run([common.PY, wk, inst, common.VERIF] + files, capture_output=True, text=True, timeout=1800, env=env, cwd=tmp)
        got = dict((l.split(' ', 1)[1], l.split(' ', 1)[0]) for l in pr.stdout.strip().split('\n') if ' ' in l)
        if pr.returncode != 0 and not got:
            ctx.obligation('installed copy can be imported', False, pr.stderr[-600:])
        for f in files:
            want = digest.digest_of(f, False)
            ctx.case(('installed', os.path.basename(f))); ctx.traces_validated += 1
            if got.get(f) != want:
                label = os.path.basename(f)
                game = 'wowp' if f.endswith('wowpreplay') else 'wows' if f.endswith('wowsreplay') else 'wot'
                ctx.deviation('installed-copy-differs', {'game': game}, dict(kind='installed-copy', file=label, digest_checkout=want, digest_installed=got.get(f),
                              how='unpack the wheel, put it first on sys.path with /repo removed, ReplayParser(file).get_info(); compare with the checkout'))
        # the same installed copy imported THROUGH A SYMBOLIC LINK (lib64 -> lib, as virtual environments have it): same answers
        try: os.symlink('lib', os.path.join(tmp, 'venv-1.0', 'lib64')); inst64 = os.path.join(tmp, 'venv-1.0', 'lib64', 'python3.12', 'site-packages')
        except OSError: inst64 = None
        if inst64:
            sub = [f for f in files if f.endswith('.wowsreplay')][:2] + [f for f in files if f.endswith('.wotreplay')][:1] + [f for f in files if f.endswith('.wowpreplay')][:1]
            pr = subprocess.run([common.PY, wk, inst64, common.VERIF] + sub, capture_output=True, text=True, timeout=1800, env=env, cwd=tmp)
            got64 = dict((l.split(' ', 1)[1], l.split(' ', 1)[0]) for l in pr.stdout.strip().split('\n') if ' ' in l)
            for f in sub:
                want = digest.digest_of(f, False)
                ctx.case(('installed-through-symlink', os.path.basename(f))); ctx.count('installed-through-symlink')
                if got64.get(f) != want:
                    ctx.violation(dict(kind='installed-copy', file=os.path.basename(f), digest_checkout=want, digest_installed=got64.get(f), install_location='<tmp>/venv-1.0/lib64/python3.12/site-packages with lib64 -> lib',
                                       how='unpack the wheel into <tmp>/venv-1.0/lib/python3.12/site-packages, ln -s lib <tmp>/venv-1.0/lib64, put the lib64 path first on sys.path with /repo removed, ReplayParser(file).get_info(); compare with the checkout'))
                    break
    finally:
        shutil.rmtree(tmp, ignore_errors=True)


def iter_files(nodes, prefix=''):
    for n, k in nodes:
        if k is None: yield prefix + n
        else: yield from iter_files(k, prefix + n + '/')


def replay(ctx, path):
    obj = json.load(open(path)); print(json.dumps(obj, indent=1)[:2500]); return 1
