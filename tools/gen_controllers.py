"""Translator (C09): every bundled wows battle_controller.py / players_info.py / constants.py  ->  a program of the handler language of
coq/theories/Summary.v.  Fail-closed: a statement or expression shape the translator does not know makes the handler 'untranslated'
(an obligation fails), never silently dropped.  Handlers that aggregate nothing the model covers are pinned by the hash of their
normalised source (OPAQUE) so that an edit to them is noticed too."""
import ast, os, sys, hashlib, importlib, json
from tools import common
from tools.gen_const import coq_str

WOWS = os.path.join(common.REPO, 'replay_unpack', 'clients', 'wows', 'versions')

# handlers outside the model: (method name) -> accepted sha1 of ast.unparse(body).  They write only fields the model does not report.
OPAQUE = {
    'receiveDamageStat': {'fields': ['_damage_map'], 'sha': ['dea4c33d2bdc326a']},
    'onSetConsumable': {'fields': []},
    'onPostBattleResultsReceived': {'fields': ['postBattleResult']},
    'controlPoints': {'fields': []},
}


class Untranslatable(Exception): pass


def h(src): return hashlib.sha1(src.encode()).hexdigest()[:16]


class HandlerTranslator:
    def __init__(self, fn):
        self.fn = fn
        args = [a.arg for a in fn.args.args]
        if fn.args.vararg or fn.args.kwarg or fn.args.kwonlyargs or fn.args.defaults: raise Untranslatable('signature')
        if len(args) < 2 or args[0] != 'self': raise Untranslatable('signature')
        self.ent = args[1]; self.params = args[2:]
        self.locals = set(self.params)
        self.roster = []          # (argument expression text, ptype, encoding) in call order - the harness unpickles with that encoding

    # ---- expressions
    def expr(self, n):
        if isinstance(n, ast.Name):
            if n.id in self.locals: return ('EVar', n.id)
            raise Untranslatable('name ' + n.id)
        if isinstance(n, ast.Constant):
            if isinstance(n.value, bool): raise Untranslatable('bool constant')
            if isinstance(n.value, int): return ('EIntC', n.value)
            if isinstance(n.value, str): return ('EStrC', n.value)
            raise Untranslatable('constant')
        if isinstance(n, ast.Attribute):
            if isinstance(n.value, ast.Name) and n.value.id == self.ent and n.attr == 'id': return ('EEntId',)
            if isinstance(n.value, ast.Name) and n.value.id == 'self' and n.attr.startswith('_') and n.attr != '_players': return ('EField', n.attr)
            raise Untranslatable('attribute ' + ast.unparse(n))
        if isinstance(n, ast.Subscript):
            # <entity>.properties['client']  /  self.battle_logic.properties['client']
            if (isinstance(n.slice, ast.Constant) and n.slice.value == 'client' and isinstance(n.value, ast.Attribute) and n.value.attr == 'properties'):
                base = n.value.value
                if isinstance(base, ast.Name) and base.id == self.ent: return ('EProps',)
                if isinstance(base, ast.Attribute) and isinstance(base.value, ast.Name) and base.value.id == 'self' and base.attr == 'battle_logic': return ('EBL',)
                raise Untranslatable('properties of ' + ast.unparse(base))
            return ('EIdx', self.expr(n.value), self.expr(n.slice))
        if isinstance(n, ast.BinOp) and isinstance(n.op, ast.Add): return ('EAdd', self.expr(n.left), self.expr(n.right))
        if isinstance(n, ast.Tuple): return ('ETup', [self.expr(x) for x in n.elts])
        if isinstance(n, ast.Call):
            f = n.func
            if isinstance(f, ast.Name) and f.id == 'len' and len(n.args) == 1 and not n.keywords: return ('ELen', self.expr(n.args[0]))
            if ast.unparse(n) == 'self._players.get_info()': return ('EPlayers',)
        raise Untranslatable('expression ' + ast.unparse(n))

    def field_chain(self, n):
        """self._f[k1]...[kn]  ->  (f, [k1..kn])"""
        keys = []
        while isinstance(n, ast.Subscript): keys.insert(0, self.expr(n.slice)); n = n.value
        if isinstance(n, ast.Attribute) and isinstance(n.value, ast.Name) and n.value.id == 'self' and n.attr.startswith('_'): return n.attr, keys
        raise Untranslatable('target ' + ast.unparse(n))

    # ---- statements
    def simple(self, s):
        if isinstance(s, ast.Expr) and isinstance(s.value, ast.Constant) and isinstance(s.value.value, str): return None       # docstring
        if isinstance(s, ast.Expr) and isinstance(s.value, ast.Call):
            c = s.value; f = c.func
            if isinstance(f, ast.Attribute) and f.attr == 'append' and len(c.args) == 1 and not c.keywords:
                fld, keys = self.field_chain(f.value)
                if keys: raise Untranslatable('append on a nested target')
                return ('SAppend', fld, self.expr(c.args[0]))
            if isinstance(f, ast.Attribute) and f.attr == 'setdefault':
                # self._f.setdefault(k1, {}).setdefault(k2, 0)
                keys = []; cur = c; last = True
                while isinstance(cur, ast.Call) and isinstance(cur.func, ast.Attribute) and cur.func.attr == 'setdefault':
                    if len(cur.args) != 2 or cur.keywords: raise Untranslatable('setdefault arity')
                    d = cur.args[1]
                    if last:
                        if not (isinstance(d, ast.Constant) and d.value == 0 and not isinstance(d.value, bool)): raise Untranslatable('setdefault default')
                    elif not (isinstance(d, ast.Dict) and not d.keys): raise Untranslatable('setdefault default')
                    keys.insert(0, self.expr(cur.args[0])); last = False; cur = cur.func.value
                fld, more = self.field_chain(cur)
                if more: raise Untranslatable('setdefault on a subscript')
                return ('SSetdef', fld, keys)
            if ast.unparse(f) == 'self._players.create_or_update_players':
                if not (1 <= len(c.args) <= 2) or c.keywords: raise Untranslatable('create_or_update_players arity')
                pl = c.args[0]
                if not (isinstance(pl, ast.Call) and ast.unparse(pl.func) == 'pickle.loads' and len(pl.args) == 1): raise Untranslatable('roster source')
                enc = 'ASCII'
                for kw in pl.keywords:
                    if kw.arg == 'encoding' and isinstance(kw.value, ast.Constant): enc = kw.value.value
                    else: raise Untranslatable('pickle.loads keyword')
                pt = 1
                if len(c.args) == 2:
                    t = ast.unparse(c.args[1])
                    if t not in ('PlayerType.PLAYER', 'PlayerType.BOT', 'PlayerType.OBSERVER'): raise Untranslatable('player type')
                    pt = {'PlayerType.PLAYER': 1, 'PlayerType.BOT': 2, 'PlayerType.OBSERVER': 3}[t]
                e = self.expr(pl.args[0]); self.roster.append((ast.unparse(pl.args[0]), pt, enc))
                return ('SRoster', e, pt)
            raise Untranslatable('call ' + ast.unparse(c))
        if isinstance(s, ast.AugAssign) and isinstance(s.op, ast.Add):
            fld, keys = self.field_chain(s.target)
            if not keys: raise Untranslatable('augmented assignment to a field')
            return ('SAugAdd', fld, keys, self.expr(s.value))
        if isinstance(s, ast.Assign) and len(s.targets) == 1:
            t = s.targets[0]
            if isinstance(t, ast.Name):
                e = self.expr(s.value); self.locals.add(t.id); return ('SLet', t.id, e)
            if isinstance(t, ast.Attribute) and isinstance(t.value, ast.Name) and t.value.id == 'self' and t.attr.startswith('_'):
                v = s.value
                if isinstance(v, ast.Call) and isinstance(v.func, ast.Name) and v.func.id == 'dict' and not v.args:
                    return ('SAssignDict', t.attr, [(kw.arg, self.expr(kw.value)) for kw in v.keywords])
                if t.attr == '_map' and isinstance(v, ast.Call) and isinstance(v.func, ast.Attribute) and v.func.attr == 'lstrip' and len(v.args) == 1 \
                        and isinstance(v.args[0], ast.Constant) and v.args[0].value == 'spaces/':
                    return ('SMapStrip', self.expr(v.func.value))
                # self._map = value[len('spaces/'):] if value.startswith('spaces/') else value
                if t.attr == '_map' and isinstance(v, ast.IfExp) and ast.unparse(v.test).endswith(".startswith('spaces/')") and isinstance(v.test, ast.Call) \
                        and ast.unparse(v.body) == ast.unparse(v.test.func.value) + "[len('spaces/'):]" and ast.unparse(v.orelse) == ast.unparse(v.test.func.value):
                    return ('SMapPrefix', self.expr(v.orelse))
                return ('SAssign', t.attr, self.expr(v))
        raise Untranslatable('statement ' + ast.unparse(s)[:80])

    def body(self):
        out = []
        for s in self.fn.body:
            if isinstance(s, ast.For):
                if s.orelse or not isinstance(s.target, ast.Name): raise Untranslatable('for shape')
                it = self.expr(s.iter); self.locals.add(s.target.id)
                inner = [x for x in (self.simple(b) for b in s.body) if x is not None]
                out.append(('SFor', s.target.id, it, inner))
            else:
                x = self.simple(s)
                if x is not None: out.append(('Simple', x))
        return out


def init_value(n):
    if isinstance(n, ast.Dict) and not n.keys: return ('PDict', [])
    if isinstance(n, ast.List) and not n.elts: return ('PList', [])
    if isinstance(n, ast.Constant) and n.value is None: return ('PNone',)
    return None


PLAYERS_INFO_KINDS = {}     # normalised class source hash -> (typed maps?, unicodize?)   filled from the known shapes below


def players_info_kind(path):
    """-> (typed, unicodize) after checking that the class is one of the shapes Summary.merge_records models"""
    t = ast.parse(open(path, encoding='utf-8').read())
    cls = [n for n in t.body if isinstance(n, ast.ClassDef) and n.name == 'PlayersInfo']
    if not cls: raise Untranslatable('no PlayersInfo class')
    cls = cls[0]
    m = {n.name: n for n in cls.body if isinstance(n, ast.FunctionDef)}
    conv = ast.unparse(m['_convert_to_dict']); cu = ast.unparse(m['create_or_update_players']); gi = ast.unparse(m['get_info'])
    uni = 'unicodize(' in conv
    typed = 'player_type' in conv
    # exact shapes
    want_conv_untyped = ("def _convert_to_dict(self, player_info):\n    player_dict = dict()\n    for key, value in player_info:\n"
                         "        player_dict[id_property_map[key]] = value\n    return player_dict")
    want_conv_typed = ("def _convert_to_dict(self, player_info, player_type):\n    if player_type == PlayerType.PLAYER:\n        property_map = id_property_map\n"
                       "    elif player_type == PlayerType.BOT:\n        property_map = id_property_map_bots\n    elif player_type == PlayerType.OBSERVER:\n"
                       "        property_map = id_property_map_observer\n    else:\n        raise RuntimeError('Unknown player')\n    player_dict = dict()\n"
                       "    for key, value in player_info:\n%s        player_dict[property_map[key]] = value\n    return player_dict")
    ok_conv = conv == want_conv_untyped or conv == want_conv_typed % '' or conv == want_conv_typed % '        value = unicodize(value)\n'
    want_cu_untyped = ("def create_or_update_players(self, players_info):\n    for player_info in players_info:\n        player_dict = self._convert_to_dict(player_info)\n"
                       "        self._players.setdefault(player_dict['id'], {}).update(player_dict)")
    want_cu_typed = ("def create_or_update_players(self, players_info, players_type=PlayerType.PLAYER):\n    for player_info in players_info:\n"
                     "        player_dict = self._convert_to_dict(player_info, players_type)\n        self._players.setdefault(player_dict['id'], {}).update(player_dict)")
    ok_cu = cu in (want_cu_untyped, want_cu_typed) and (('players_type' in cu) == typed)
    ok_gi = gi == 'def get_info(self):\n    return self._players'
    if not (ok_conv and ok_cu and ok_gi): raise Untranslatable('players_info.py shape: convert=%s merge=%s get_info=%s' % (ok_conv, ok_cu, ok_gi))
    return typed, uni


def translate_version(v):
    """-> dict(init, handlers, untranslated, opaque, maps, unicodize, info, roster)"""
    d = os.path.join(WOWS, v)
    tree = ast.parse(open(os.path.join(d, 'battle_controller.py'), encoding='utf-8').read())
    cls = [n for n in tree.body if isinstance(n, ast.ClassDef) and n.name == 'BattleController'][0]
    methods = {n.name: n for n in cls.body if isinstance(n, ast.FunctionDef)}
    out = dict(version=v, init=[], handlers={}, untranslated={}, opaque={}, info=[], roster={}, problems=[])
    # __init__: fields and subscriptions
    for s in methods['__init__'].body:
        if isinstance(s, ast.Assign) and len(s.targets) == 1 and isinstance(s.targets[0], ast.Attribute) and ast.unparse(s.targets[0].value) == 'self':
            f = s.targets[0].attr
            if f == '_players':
                if ast.unparse(s.value) != 'PlayersInfo()': out['problems'].append('_players = ' + ast.unparse(s.value))
                continue
            iv = init_value(s.value)
            out['init'].append((f, iv if iv is not None else ('POpaque', ast.unparse(s.value))))
        elif isinstance(s, ast.Expr) and isinstance(s.value, ast.Call) and ast.unparse(s.value.func).startswith('Entity.subscribe_'):
            c = s.value; kind = c.func.attr
            if kind != 'subscribe_method_call':
                out['opaque']['%s:%s' % (kind, ast.unparse(c.args[1]))] = ast.unparse(c.args[2]); continue
            en, mn, cb = c.args
            if not (isinstance(en, ast.Constant) and isinstance(mn, ast.Constant) and isinstance(cb, ast.Attribute) and ast.unparse(cb.value) == 'self'):
                out['problems'].append('subscription ' + ast.unparse(c)); continue
            key = '%s_%s' % (en.value, mn.value); name = cb.attr
            fn = methods.get(name)
            if fn is None: out['problems'].append('subscribed method %s missing' % name); continue
            if name in OPAQUE:
                out['opaque'][key] = h(ast.unparse(fn)); continue
            try:
                tr = HandlerTranslator(fn); body = tr.body()
                out['handlers'][key] = dict(name=name, params=tr.params, body=body)
                if tr.roster: out['roster'][key] = tr.roster
            except Untranslatable as e:
                out['untranslated'][key] = '%s: %s' % (name, e)
        elif isinstance(s, ast.Expr) and isinstance(s.value, ast.Constant): pass
        else:
            out['problems'].append('__init__ statement ' + ast.unparse(s)[:80])
    # the map setter (a property setter, called by the player for Map packets)
    for n in cls.body:
        if isinstance(n, ast.FunctionDef) and n.name == 'map' and any(ast.unparse(dc) == 'map.setter' for dc in n.decorator_list):
            try:
                tr = HandlerTranslator(ast.FunctionDef(name='map', args=ast.arguments(posonlyargs=[], args=[ast.arg('self'), ast.arg('__ent'), ast.arg(n.args.args[1].arg)],
                                       kwonlyargs=[], kw_defaults=[], defaults=[]), body=n.body, decorator_list=[]))
                out['handlers']['<map>'] = dict(name='map.setter', params=tr.params, body=tr.body())
            except Untranslatable as e: out['untranslated']['<map>'] = str(e)
    # on_player_enter_world
    opw = methods.get('on_player_enter_world')
    if opw is None or ast.unparse(opw) != 'def on_player_enter_world(self, entity_id: int):\n    self._player_id = entity_id':
        out['untranslated']['<player>'] = 'on_player_enter_world'
    else:
        out['handlers']['<player>'] = dict(name='on_player_enter_world', params=['entity_id'], body=[('Simple', ('SAssign', '_player_id', ('EVar', 'entity_id')))])
    # get_info: the plain  key=self._field  entries of the returned dict(...)
    gi = methods['get_info']; ret = [s for s in gi.body if isinstance(s, ast.Return)]
    if len(ret) == 1 and isinstance(ret[0].value, ast.Call) and ast.unparse(ret[0].value.func) == 'dict':
        for kw in ret[0].value.keywords:
            if isinstance(kw.value, ast.Attribute) and ast.unparse(kw.value.value) == 'self' and kw.value.attr.startswith('_'):
                out['info'].append((kw.arg, kw.value.attr))
        out['get_info_adds_planes'] = "player['planesCount']" in ast.unparse(gi)
        out['get_info_rebuilds_avatar_ribbons'] = 'self._ribbons[avatar.id] = {}' in ast.unparse(gi)
    else:
        out['problems'].append('get_info shape')
    # players_info.py and constants.py
    try: typed, uni = players_info_kind(os.path.join(d, 'players_info.py'))
    except Untranslatable as e:
        out['problems'].append(str(e)); typed, uni = False, False
    out['unicodize'] = uni; out['typed'] = typed
    consts = importlib.import_module('replay_unpack.clients.wows.versions.%s.constants' % v)
    maps = {1: sorted(consts.id_property_map.items())}
    if typed:
        maps[2] = sorted(consts.id_property_map_bots.items()); maps[3] = sorted(consts.id_property_map_observer.items())
    out['maps'] = maps
    return out


# ---- Gallina text
def ex(e):
    k = e[0]
    if k in ('EEntId', 'EProps', 'EBL', 'EPlayers'): return k
    if k in ('EVar', 'EField', 'EStrC'): return '(%s %s)' % (k, coq_str(e[1]))
    if k == 'EIntC': return '(EIntC (%d))' % e[1]
    if k in ('EIdx', 'EAdd'): return '(%s %s %s)' % (k, ex(e[1]), ex(e[2]))
    if k == 'ELen': return '(ELen %s)' % ex(e[1])
    if k == 'ETup': return '(ETup [%s])' % '; '.join(ex(x) for x in e[1])
    raise AssertionError(e)


def ss(s):
    k = s[0]
    if k == 'SAppend': return '(SAppend %s %s)' % (coq_str(s[1]), ex(s[2]))
    if k == 'SSetdef': return '(SSetdef %s [%s])' % (coq_str(s[1]), '; '.join(ex(x) for x in s[2]))
    if k == 'SAugAdd': return '(SAugAdd %s [%s] %s)' % (coq_str(s[1]), '; '.join(ex(x) for x in s[2]), ex(s[3]))
    if k == 'SAssign': return '(SAssign %s %s)' % (coq_str(s[1]), ex(s[2]))
    if k == 'SAssignDict': return '(SAssignDict %s [%s])' % (coq_str(s[1]), '; '.join('(%s, %s)' % (coq_str(a), ex(b)) for a, b in s[2]))
    if k == 'SLet': return '(SLet %s %s)' % (coq_str(s[1]), ex(s[2]))
    if k == 'SRoster': return '(SRoster %s %d%%N)' % (ex(s[1]), s[2])
    if k == 'SMapStrip': return '(SMapStrip %s)' % ex(s[1])
    if k == 'SMapPrefix': return '(SMapPrefix %s)' % ex(s[1])
    raise AssertionError(s)


def st(s):
    if s[0] == 'Simple': return '(Simple %s)' % ss(s[1])
    return '(SFor %s %s [%s])' % (coq_str(s[1]), ex(s[2]), '; '.join(ss(x) for x in s[3]))


def pv(v):
    if v[0] == 'PDict': return '(PDict [])'
    if v[0] == 'PList': return '(PList [])'
    if v[0] == 'PNone': return 'PNone'
    return '(POpaque %s)' % coq_str(v[1])


def controller_text(t):
    hs = '; '.join('(%s, {| h_params := [%s]; h_body := [%s] |})' % (coq_str(k), '; '.join(coq_str(p) for p in hd['params']), '; '.join(st(s) for s in hd['body']))
                   for k, hd in sorted(t['handlers'].items()))
    maps = '; '.join('(%d%%N, [%s])' % (pt, '; '.join('((%d)%%Z, %s)' % (k, coq_str(n)) for k, n in m)) for pt, m in sorted(t['maps'].items()))
    return ('{| c_init := [%s];\n     c_handlers := [%s];\n     c_maps := [%s];\n     c_unicodize := %s;\n     c_info := [%s] |}' % (
        '; '.join('(%s, %s)' % (coq_str(f), pv(v)) for f, v in t['init']), hs, maps, 'true' if t['unicodize'] else 'false',
        '; '.join('(%s, %s)' % (coq_str(a), coq_str(b)) for a, b in t['info'])))


def clean(x): return ''.join(c if 32 <= ord(c) < 127 and c != '"' else ' ' for c in x)[:200]


def ctl_digest(t):
    return h(json.dumps([t['init'], sorted(t['handlers'].items()), sorted(t['maps'].items()), t['unicodize'], t['info']], sort_keys=True, default=str))


def versions():
    return sorted(x for x in os.listdir(WOWS) if os.path.isfile(os.path.join(WOWS, x, 'battle_controller.py')))


def translate_all():
    return [translate_version(v) for v in versions()]


def driver_text(t):
    """the same program in the line format of `modelrun summary` (see ocaml/driver.ml): one token per line group"""
    return json.dumps(dict(init=t['init'], handlers=t['handlers'], maps={str(k): m for k, m in t['maps'].items()}, unicodize=t['unicodize'], info=t['info']))


if __name__ == '__main__':
    ts = translate_all()
    import collections
    print(len(ts), 'versions;', len(set(ctl_digest(t) for t in ts)), 'distinct programs')
    for t in ts:
        if t['untranslated'] or t['problems']: print(t['version'], t['untranslated'], t['problems'])
    print(collections.Counter(k for t in ts for k in t['opaque']))
    print(controller_text(ts[-1])[:3000])


# ---- generated Coq: the programs and their instance theorems
def shape_count_for(hd):
    """[SFor x (EVar p) [SSetdef f keys; SAugAdd f keys amt]] with params [p]  ->  (p, x, f, keys, amt)"""
    b = hd['body']
    if len(hd['params']) == 1 and len(b) == 1 and b[0][0] == 'SFor' and b[0][2] == ('EVar', hd['params'][0]) and len(b[0][3]) == 2:
        s1, s2 = b[0][3]
        if s1[0] == 'SSetdef' and s2[0] == 'SAugAdd' and s1[1] == s2[1] and s1[2] == s2[2]:
            return hd['params'][0], b[0][1], s1[1], s1[2], s2[3]
    return None


def shape_append(hd):
    b = hd['body']
    if len(b) == 1 and b[0][0] == 'Simple' and b[0][1][0] == 'SAppend': return hd['params'], b[0][1][1], b[0][1][2]
    return None


def shape_count_stmt(hd):
    """lets ++ [SSetdef f keys; SAugAdd f keys amt], all simple  ->  (params, lets, f, keys, amt)"""
    b = hd['body']
    if len(b) >= 2 and all(s[0] == 'Simple' for s in b):
        ss_ = [s[1] for s in b]; s1, s2 = ss_[-2], ss_[-1]
        if s1[0] == 'SSetdef' and s2[0] == 'SAugAdd' and s1[1] == s2[1] and s1[2] == s2[2] and all(x[0] == 'SLet' for x in ss_[:-2]):
            return hd['params'], ss_[:-2], s1[1], s1[2], s2[3]
    return None


ROSTER_KEYS = ['Avatar_onArenaStateReceived', 'Avatar_onGameRoomStateChanged', 'Avatar_onNewPlayerSpawnedInBattle']


def coq_files(ts):
    """-> (GenC09.v text, Inst_C09.v text, list of (digest, what) shapes that could not be claimed)"""
    progs = {}
    for t in ts: progs.setdefault(ctl_digest(t), t)
    g = ['From RU Require Import Base Summary.', 'Local Open Scope string_scope.', '']
    for d, t in sorted(progs.items()):
        g.append('(* %s *)' % ', '.join(x['version'] for x in ts if ctl_digest(x) == d))
        g.append('Definition ctl_%s : controller :=\n  %s.\n' % (d, controller_text(t)))
    g.append('Definition gen_version_programs : list (string * string) := [%s].' % '; '.join('(%s, %s)' % (coq_str(t['version']), coq_str(ctl_digest(t))) for t in ts))
    g.append('Definition gen_untranslated : list (string * string) := [%s].' % '; '.join('(%s, %s)' % (coq_str(t['version']), coq_str(clean(k + ': ' + v))) for t in ts for k, v in sorted(t['untranslated'].items())))
    g.append('Definition gen_problems : list (string * string) := [%s].' % '; '.join('(%s, %s)' % (coq_str(t['version']), coq_str(clean(p))) for t in ts for p in t['problems']))
    i = ['From RU Require Import Base Summary SummaryProofs SummaryProofs2.', 'From Gen Require Import GenC09.', 'Local Open Scope string_scope.', '',
         '(* every subscribed handler of every bundled controller was translated *)',
         'Theorem inst_all_translated : gen_untranslated = [] /\\ gen_problems = [].', 'Proof. split; reflexivity. Qed.', '']
    missing = []
    for d, t in sorted(progs.items()):
        hs = t['handlers']
        c = shape_count_for(hs['Vehicle_receiveDamagesOnShip']) if 'Vehicle_receiveDamagesOnShip' in hs else None
        if c and all(pure_py(k) for k in c[3]) and pure_py(c[4]):
            p, x, f, keys, amt = c
            i.append('(* damage totals: any history strict play accepts; the field is the count over exactly the entries of the damage calls *)')
            i.append('Theorem inst_shots_%s : forall evs st st\' d, get_dict_field st %s = Ok d -> run_events_strict ctl_%s st evs = (st\', None) ->\n'
                     '  exists es d\', history_entries "Vehicle_receiveDamagesOnShip" %s %s [%s] %s st evs = Ok es /\\ count_all d es = Ok d\' /\\ get_dict_field st\' %s = Ok d\'.' % (
                         d, coq_str(f), d, coq_str(p), coq_str(x), '; '.join(ex(k) for k in keys), ex(amt), coq_str(f)))
            i.append('Proof. exact (count_history ctl_%s "Vehicle_receiveDamagesOnShip" %s %s %s [%s] %s eq_refl eq_refl eq_refl (others_dont_write_sound ctl_%s "Vehicle_receiveDamagesOnShip" %s eq_refl)). Qed.' % (
                d, coq_str(p), coq_str(x), coq_str(f), '; '.join(ex(k) for k in keys), ex(amt), d, coq_str(f)))
        else: missing.append((d, 'Vehicle_receiveDamagesOnShip is not the counting loop'))
        a = shape_append(hs['Avatar_receiveVehicleDeath']) if 'Avatar_receiveVehicleDeath' in hs else None
        if a and pure_t_py(a[2]):
            ps, f, e = a
            i.append('Theorem inst_deaths_%s : forall evs st st\' l0, assoc_get %s (st_fields st) = Some (PList l0) -> run_events_strict ctl_%s st evs = (st\', None) ->\n'
                     '  exists vs, history_values "Avatar_receiveVehicleDeath" [%s] %s st evs = Ok vs /\\ assoc_get %s (st_fields st\') = Some (PList (l0 ++ vs)%%list).' % (
                         d, coq_str(f), d, '; '.join(coq_str(p) for p in ps), ex(e), coq_str(f)))
            i.append('Proof. exact (append_history ctl_%s "Avatar_receiveVehicleDeath" %s [%s] %s eq_refl eq_refl (others_dont_write_sound ctl_%s "Avatar_receiveVehicleDeath" %s eq_refl)). Qed.' % (
                d, coq_str(f), '; '.join(coq_str(p) for p in ps), ex(e), d, coq_str(f)))
        else: missing.append((d, 'Avatar_receiveVehicleDeath is not a single append'))
        for key in ('Avatar_receive_planeDeath', 'Avatar_onAchievementEarned', 'Avatar_onRibbon', 'Vehicle_onRibbon'):
            if key not in hs: continue
            cs_ = shape_count_stmt(hs[key]); ap = shape_append(hs[key])
            nm = key.split('_', 1)[1].replace('_', '')
            if cs_ and all(pure_py(k) for k in cs_[3]) and pure_py(cs_[4]):
                ps, lets, f, keys, amt = cs_
                i.append('Theorem inst_%s_%s : forall evs st st\' d, get_dict_field st %s = Ok d -> run_events_strict ctl_%s st evs = (st\', None) ->\n'
                         '  exists es d\', dyn_entries ctl_%s %s [%s] [%s] [%s] %s st evs = Ok es /\\ count_all d es = Ok d\' /\\ get_dict_field st\' %s = Ok d\'.' % (
                             nm, d, coq_str(f), d, d, coq_str(key), '; '.join(coq_str(p) for p in ps), '; '.join(ss(x) for x in lets), '; '.join(ex(k) for k in keys), ex(amt), coq_str(f)))
                i.append('Proof. exact (count_stmt_history ctl_%s %s %s [%s] [%s] [%s] %s eq_refl eq_refl eq_refl eq_refl (others_dont_write_sound ctl_%s %s %s eq_refl)). Qed.' % (
                    d, coq_str(key), coq_str(f), '; '.join(coq_str(p) for p in ps), '; '.join(ss(x) for x in lets), '; '.join(ex(k) for k in keys), ex(amt), d, coq_str(key), coq_str(f)))
            elif ap and pure_t_py(ap[2]):
                ps, f, e = ap
                i.append('Theorem inst_%s_%s : forall evs st st\' l0, assoc_get %s (st_fields st) = Some (PList l0) -> run_events_strict ctl_%s st evs = (st\', None) ->\n'
                         '  exists vs, history_values %s [%s] %s st evs = Ok vs /\\ assoc_get %s (st_fields st\') = Some (PList (l0 ++ vs)%%list).' % (
                             nm, d, coq_str(f), d, coq_str(key), '; '.join(coq_str(p) for p in ps), ex(e), coq_str(f)))
                i.append('Proof. exact (append_history ctl_%s %s %s [%s] %s eq_refl eq_refl (others_dont_write_sound ctl_%s %s %s eq_refl)). Qed.' % (
                    d, coq_str(key), coq_str(f), '; '.join(coq_str(p) for p in ps), ex(e), d, coq_str(key), coq_str(f)))
            else: missing.append((d, key + ' is neither the counting idiom nor a single append'))
        i.append('(* the roster after any accepted history is the fold of the roster calls\' merges *)')
        i.append('Theorem inst_roster_%s : forall evs st st\', run_events_strict ctl_%s st evs = (st\', None) -> players_fold ctl_%s (st_players st) evs = (st_players st\', None).' % (d, d, d))
        i.append('Proof. exact (roster_history ctl_%s eq_refl). Qed.' % d)
        i.append('(* the map setter removes the prefix (not a character set) *)')
        i.append('Theorem inst_map_%s : assoc_get "<map>" (c_handlers ctl_%s) = Some {| h_params := ["value"]; h_body := [Simple (SMapPrefix (EVar "value"))] |}.\nProof. reflexivity. Qed.' % (d, d))
        i.append('(* only the three roster calls can change the roster; no handler but the map setter writes _map, none but the player hook writes _player_id *)')
        i.append('Theorem inst_frames_%s : only_these_merge_rosters ctl_%s [%s] = true /\\ others_dont_write ctl_%s "<map>" "_map" = true /\\ others_dont_write ctl_%s "<player>" "_player_id" = true.' % (
            d, d, '; '.join(coq_str(k) for k in ROSTER_KEYS), d, d))
        i.append('Proof. repeat split; vm_compute; reflexivity. Qed.')
        i.append('Print Assumptions inst_shots_%s.\nPrint Assumptions inst_deaths_%s.\nPrint Assumptions inst_frames_%s.' % (d, d, d) if c and a else '')
        i.append('')
    return '\n'.join(g) + '\n', '\n'.join(i) + '\n', missing


def pure_py(e):
    k = e[0]
    if k in ('EVar', 'EEntId', 'EProps', 'EBL', 'EStrC', 'EIntC'): return True
    if k in ('EIdx', 'EAdd'): return pure_py(e[1]) and pure_py(e[2])
    if k == 'ELen': return pure_py(e[1])
    return False


def pure_t_py(e): return all(pure_py(x) for x in e[1]) if e[0] == 'ETup' else pure_py(e)
