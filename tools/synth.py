"""Synthetic worlds: generated definition sets (written as real .def/.xml files), generated packet histories encoded against
them, a SPEC state kept with ordinary Python lists/dicts (last-writer-wins, list/dict semantics, poses), and runners
for the library and for the extracted model.  Used by C02, C04-C08 and C12."""
import os, io, struct, shutil, tempfile, subprocess, collections, copy
from tools import common, impl, gen_types, rawdefs, recordings

FLAGS = ['CELL_PRIVATE', 'CELL_PUBLIC', 'OTHER_CLIENTS', 'OWN_CLIENT', 'BASE', 'BASE_AND_CLIENT', 'CELL_PUBLIC_AND_OWN', 'ALL_CLIENTS', 'EDITOR_ONLY']
CLIENT_FLAGS = ['OTHER_CLIENTS', 'OWN_CLIENT', 'BASE_AND_CLIENT', 'CELL_PUBLIC_AND_OWN', 'ALL_CLIENTS']
PROP_NAMES = ['hp', 'state', 'name', 'items', 'owner', 'team', 'p0', 'p1', 'p2', 'cfg', 'flags', 'ammo', 'crew', 'stats']
METHOD_NAMES = ['onHit', 'onKill', 'update', 'sync', 'notify', 'm0', 'm1', 'm2', 'setFlag', 'receiveBlob', 'ping', 'onChat']
ARG_NAMES = ['arg0', 'arg1', 'who', 'what', 'data', 'n']
ENTITY_NAMES = ['Vehicle', 'BattleLogic', 'Building', 'SmokeScreen', 'Zone']
SMALL_LEAVES = [('u', 1), ('u', 2), ('u', 4), ('i', 1), ('i', 2), ('i', 4), ('i', 8), ('u', 8), ('f32',), ('f64',), ('vec', 12), ('vec', 8),
                ('string',), ('blob',), ('python',), ('mailbox',)]


# ------------------------------------------------------------------ definition sets
def gen_type_small(rng, depth):
    return gen_types.gen_type(rng, depth, 3, SMALL_LEAVES)


def gen_nested_type(rng):
    """types with lists and dicts in them, so that nested-property packets have somewhere to go"""
    leaf = lambda: rng.choice([('u', 1), ('u', 2), ('i', 4), ('f32',), ('string',), ('vec', 12), ('blob',)])
    def go(d):
        if d == 0: return leaf()
        k = rng.choice(['list', 'dict', 'dict', 'list', 'leaf'])
        if k == 'leaf': return leaf()
        if k == 'list': return ('array', go(d - 1), None)
        n = rng.randrange(1, 5)
        return ('dict', tuple((nm, go(d - 1)) for nm in rng.sample(gen_types.FIELD_NAMES, n)), rng.random() < 0.2)
    return go(rng.randrange(1, 4))


def gen_section(rng, aliases, ifaces_before, nested_bias=0.3, must_have_props=False):
    sec = {'implements': [], 'props': [], 'volatile': [], 'client_methods': [], 'cell_methods': [], 'base_methods': []}
    if ifaces_before and rng.random() < 0.6:
        sec['implements'] = rng.sample(ifaces_before, rng.randrange(1, min(3, len(ifaces_before)) + 1))
    nprops = rng.randrange(1 if must_have_props else 0, 6)
    for _ in range(nprops):
        t = gen_nested_type(rng) if rng.random() < nested_bias else gen_type_small(rng, rng.randrange(0, 3))
        flag = rng.choice(CLIENT_FLAGS * 3 + FLAGS)
        sec['props'].append((rng.choice(PROP_NAMES), t, flag))
    if rng.random() < 0.7:
        tags = [x for x in ['position', 'yaw', 'pitch', 'roll'] if rng.random() < 0.8]
        if rng.random() < 0.2: tags.insert(rng.randrange(len(tags) + 1), 'junk')
        rng.shuffle(tags)
        sec['volatile'] = tags
    for bucket, n in (('client_methods', rng.randrange(0, 6)), ('cell_methods', rng.randrange(0, 2)), ('base_methods', rng.randrange(0, 2))):
        for _ in range(n):
            nargs = rng.randrange(0, 4)
            named = rng.random() < 0.4
            args = []
            for i in range(nargs):
                t = gen_type_small(rng, rng.randrange(0, 2))
                args.append(((rng.choice(ARG_NAMES) if rng.random() < 0.2 else 'a%d' % i) if named else None, t))
            hdr = rng.choice([None, None, None, '1', '2', ' 2 ', 'abc', '', '3', '0'])
            sec[bucket].append((rng.choice(METHOD_NAMES), args, hdr, named))
    return sec


def gen_defset(rng, n_entities=None, tie_heavy=False):
    aliases = collections.OrderedDict()
    for i in range(rng.randrange(0, 6)):
        aliases['AL%d' % i] = gen_type_small(rng, rng.randrange(0, 3))
    alias_ext = collections.OrderedDict()
    if rng.random() < 0.4:
        if aliases and rng.random() < 0.7: alias_ext[rng.choice(list(aliases))] = gen_type_small(rng, 1)
        alias_ext['EXT0'] = gen_type_small(rng, 1)
    ifaces = collections.OrderedDict()
    for i in range(rng.randrange(0, 5)):
        ifaces['I%d' % i] = gen_section(rng, aliases, list(ifaces), nested_bias=0.2)
    ents = collections.OrderedDict()
    names = ['Avatar'] + rng.sample(ENTITY_NAMES, n_entities if n_entities is not None else rng.randrange(1, 4))
    rng.shuffle(names)
    for n in names:
        ents[n] = gen_section(rng, aliases, list(ifaces), nested_bias=0.4, must_have_props=True)
    if rng.random() < 0.5:
        # two FIXED_DICT layouts with IDENTICAL field names and different field types/sizes, as properties of one entity and of another:
        # anything keyed on the field names alone mixes them up
        names3 = rng.sample(gen_types.FIELD_NAMES, 3)
        small = ('dict', tuple((n, ('u', 1)) for n in names3), False)
        big = ('dict', ((names3[0], ('u', 4)), (names3[1], ('f64',)), (names3[2], ('array', ('u', 2), None))), False)
        ks = list(ents)
        ents[ks[0]]['props'].append(('twinSmall', small, 'ALL_CLIENTS')); ents[ks[0]]['props'].append(('twinBig', ('array', big, None), 'ALL_CLIENTS'))
        ents[ks[-1]]['props'].append(('twinBig2', big, 'OWN_CLIENT'))
    chain = None
    if rng.random() < 0.5:
        # aliases that refer to ANOTHER alias by name (directly, as array element, as dict member) while alias_ext.xml redefines that other alias with
        # a type of a different size: ids (sorted by size) and decoding of every member that uses such an alias depend on how references are resolved
        b0, b1 = rng.sample(['UINT8', 'UINT16', 'UINT32', 'UINT64', 'FLOAT32', 'VECTOR3', 'STRING'], 2)
        chain = dict(alias='<CHB> %s </CHB>\n<CHA> CHB </CHA>\n<CHARR> ARRAY <of> CHB </of> <size> 3 </size> </CHARR>\n'
                           '<CHDICT> FIXED_DICT <Properties><x><Type> CHB </Type></x><y><Type> UINT16 </Type></y></Properties> </CHDICT>\n' % b0,
                     ext='<CHB> %s </CHB>\n' % b1)
        ks = list(ents); k0 = ks[rng.randrange(len(ks))]
        ents[k0]['raw_client_methods'] = ''.join('<chm%d><Arg> %s </Arg></chm%d>' % (i, t, i) for i, t in enumerate(rng.sample(['CHA', 'UINT16', 'CHARR', 'CHB', 'CHDICT', 'UINT32', 'UINT8'], 6)))
        ents[k0]['raw_props'] = ''.join('<chp%d><Type> %s </Type><Flags> ALL_CLIENTS </Flags></chp%d>' % (i, t, i) for i, t in enumerate(rng.sample(['CHA', 'UINT16', 'CHARR', 'CHB', 'CHDICT', 'UINT32', 'UINT8'], 5)))
    if tie_heavy:
        # many same-sized members so that only stability decides the order
        for sec in list(ents.values()) + list(ifaces.values()):
            for i in range(len(sec['props'])):
                nm, t, fl = sec['props'][i]; sec['props'][i] = (nm, rng.choice([('u', 4), ('i', 4), ('f32',), ('string',), ('blob',)]), fl)
            for i in range(len(sec['client_methods'])):
                nm, args, hdr, named = sec['client_methods'][i]
                sec['client_methods'][i] = (nm, [(a, rng.choice([('u', 4), ('f32',), ('string',)])) for a, _ in args], hdr, named)
    return dict(aliases=aliases, alias_ext=alias_ext, ifaces=ifaces, ents=ents, wrapped=rng.random() < 0.5, chain=chain)


def section_xml(sec, rng, aliases):
    chunks = []          # one chunk per top-level section; the file may list them in ANY order (sections are looked up by name)
    if sec['implements']:
        chunks.append('<Implements>' + ''.join('<Interface> %s </Interface>' % i for i in sec['implements']) + '</Implements>')
    if sec['props'] or sec.get('raw_props') or rng.random() < 0.5:
        out = ['<Properties>']
        for nm, t, fl in sec['props']:
            out.append('<%s>%s<Flags> %s </Flags></%s>' % (nm, impl.type_xml(t, 'Type', rng, aliases), fl, nm))
        out.append(sec.get('raw_props', ''))
        out.append('</Properties>')
        chunks.append('\n'.join(out))
    if sec['volatile']:
        chunks.append('<Volatile>' + ''.join('<%s/>' % t for t in sec['volatile']) + '</Volatile>')
    for bucket, tag in (('client_methods', 'ClientMethods'), ('cell_methods', 'CellMethods'), ('base_methods', 'BaseMethods')):
        if not sec[bucket] and rng.random() < 0.5 and not (bucket == 'client_methods' and sec.get('raw_client_methods')): continue
        out = ['<%s>' % tag]
        if bucket == 'client_methods': out.append(sec.get('raw_client_methods', ''))
        for nm, args, hdr, named in sec[bucket]:
            body = ''
            if named: body += '<Args>' + ''.join(impl.type_xml(t, a, rng, aliases) for a, t in args) + '</Args>'
            else: body += ''.join(impl.type_xml(t, 'Arg', rng, aliases) for a, t in args)
            if hdr is not None: body += '<VariableLengthHeaderSize>%s<WarnLevel>none</WarnLevel></VariableLengthHeaderSize>' % hdr
            if rng.random() < 0.2: body += '<Exposed/>'
            out.append('<%s>%s</%s>' % (nm, body, nm))
        out.append('</%s>' % tag)
        chunks.append('\n'.join(out))
    if rng.random() < 0.4: rng.shuffle(chunks)
    return '\n'.join(['<root>'] + chunks + ['</root>'])


def write_defset(ds, rng, base=None):
    base = base or tempfile.mkdtemp(prefix='verif-defs-')
    d = os.path.join(base, 'scripts', 'entity_defs'); os.makedirs(os.path.join(d, 'interfaces'))
    done = {}
    body = ''
    for n, t in ds['aliases'].items():
        body += impl.type_xml(t, n, rng, done) + '\n'; done[n] = t
    chain = ds.get('chain')
    open(os.path.join(d, 'alias.xml'), 'w').write('<root>\n<!-- generated -->\n' + body + (chain['alias'] if chain else '') + '</root>\n')
    eff = dict(done)
    if ds['alias_ext'] or chain:
        body = chain['ext'] if chain else ''
        for n, t in ds['alias_ext'].items():
            body += impl.type_xml(t, n, rng, None) + '\n'; eff[n] = t
        open(os.path.join(d, 'alias_ext.xml'), 'w').write('<root>\n' + body + '</root>\n')
    for n, sec in ds['ifaces'].items():
        open(os.path.join(d, 'interfaces', n + '.def'), 'w').write(section_xml(sec, rng, eff))
    for n, sec in ds['ents'].items():
        open(os.path.join(d, n + '.def'), 'w').write(section_xml(sec, rng, eff))
    lst = ''.join('<%s/>' % n for n in ds['ents'])
    if ds['wrapped']: xml = '<root><ClientServerEntities>%s</ClientServerEntities><ServerOnly><Foo/></ServerOnly></root>' % lst
    else: xml = '<root>%s</root>' % lst
    open(os.path.join(base, 'scripts', 'entities.xml'), 'w').write(xml)
    return base


# ------------------------------------------------------------------ library side
def tree_of(lt):
    """library type object -> type tree (generator only: which values to produce for a member)"""
    from replay_unpack.core.entity_def.data_types import other, numeric, math
    if isinstance(lt, other.UserType): return ('user', tree_of(lt.type))
    if isinstance(lt, other.FixedDict): return ('dict', tuple((k, tree_of(v)) for k, v in lt.attributes.items()), bool(lt.allow_none))
    if isinstance(lt, other.Array): return ('array', tree_of(lt.type), lt.array_size)
    if isinstance(lt, other.Blob): return ('blob',)
    if isinstance(lt, other.String): return ('string',)
    if isinstance(lt, other.Python): return ('python',)
    if isinstance(lt, other.Mailbox): return ('mailbox',)
    if isinstance(lt, numeric.Float32): return ('f32',)
    if isinstance(lt, numeric.Float64): return ('f64',)
    if isinstance(lt, math._MathType): return ('vec', lt._DATA_SIZE)
    if isinstance(lt, numeric._NumericType):
        return ('i' if lt.STRUCT_TYPE.strip('<=').islower() else 'u', lt._DATA_SIZE)
    raise AssertionError(lt)


class SynthController:
    """a minimal battle controller (the documented extension point): keeps entities, player id and the raw map name"""
    def __init__(self):
        self._entities = {}; self._player_id = None; self._raw_map = None
    @property
    def entities(self): return self._entities
    def create_entity(self, entity): self._entities[entity.id] = entity
    def destroy_entity(self, entity): self._entities.pop(entity.id)
    def on_player_enter_world(self, entity_id): self._player_id = entity_id
    @property
    def map(self): return self._raw_map
    @map.setter
    def map(self, value): self._raw_map = value
    def get_info(self): return dict(player_id=self._player_id, map=self._raw_map)


# the two wows versions sit exactly on the two sides of the packet-table switch (>= 12.6.0 uses the renumbered table)
VERSIONS = {'wows': ['12', '5', '9'], 'wows126': ['12', '6', '0'], 'wot': '1.10.0', 'wowp': ['2', '1', '17']}


def make_player(dialect, defs_dir):
    from replay_unpack.clients import wows, wot, wowp
    from replay_unpack.core.entity_def.definitions import Definitions
    base = {'wows': wows.ReplayPlayer, 'wows126': wows.ReplayPlayer, 'wot': wot.ReplayPlayer, 'wowp': wowp.ReplayPlayer}[dialect]
    class P(base):
        def _get_definitions(self, version): return Definitions(defs_dir)
        def _get_controller(self, version): return SynthController()
    pl = P(VERSIONS[dialect])        # (if the library picks another packet table for this version the histories below show it as a concrete difference)
    return pl


class LibView:
    """index maps as the library computes them - used by the generator to build mostly-valid packets"""
    def __init__(self, pl):
        from replay_unpack.core.entity import Entity
        self.defs = pl._definitions
        self.names = list(self.defs._entity_defs_by_name)          # insertion order = entities.xml order
        self.ent = {n: Entity(0, self.defs.get_entity_def_by_name(n)) for n in self.names}
    def type_index(self, name): return self.names.index(name) + 1
    def exposed(self, name): return [(p.get_name(), tree_of(p._type)) for p in self.ent[name].client_properties]
    def internal(self, name): return [(p.get_name(), tree_of(p._type)) for p in self.ent[name].client_properties_internal]
    def base(self, name): return [(p.get_name(), tree_of(p._type)) for p in self.ent[name].base_properties]
    def methods(self, name):
        return [(m.get_name(), [(a.name, tree_of(a.type)) for a in m._arguments], m._variable_header_size) for m in self.ent[name]._methods]
    def volatiles(self, name): return dict(self.defs.get_entity_def_by_name(name).volatiles())


# ------------------------------------------------------------------ packets
TABLE_IDS = {
    'wows': {'BasePlayerCreate': 0, 'CellPlayerCreate': 1, 'EntityControl': 2, 'EntityEnter': 3, 'EntityLeave': 4, 'EntityCreate': 5,
             'EntityProperty': 7, 'EntityMethod': 8, 'Position': 0x0a, 'Version': 0x16, 'PlayerPosition': 0x2b, 'Map': 0x27, 'NestedProperty': 0x22},
    'wows126': {'BasePlayerCreate': 0, 'CellPlayerCreate': 1, 'EntityControl': 2, 'EntityEnter': 3, 'EntityLeave': 4, 'EntityCreate': 5,
                'EntityProperty': 7, 'EntityMethod': 8, 'Position': 0x0a, 'Version': 0x16, 'PlayerPosition': 0x2b, 'Map': 0x28,
                'NestedProperty': 0x23, 'BattleStats': 0x22},
    'wot': {'BasePlayerCreate': 0, 'CellPlayerCreate': 1, 'EntityControl': 2, 'EntityEnter': 3, 'EntityLeave': 4, 'EntityCreate': 5,
            'EntityProperty': 7, 'EntityMethod': 8, 'Map': 0x0f, 'NestedProperty': 0x24, 'Position': 0x0a},
    'wowp': {'BasePlayerCreate': 0, 'EntityControl': 2, 'EntityEnter': 3, 'EntityLeave': 4, 'EntityProperty': 7, 'EntityMethod': 8,
             'NestedProperty': 0x22, 'Position': 0x0a, 'Version': 0x16},
}


def binstream(b): return struct.pack('<I', len(b)) + b
def f32b(bits): return struct.pack('<I', bits)


def frame(ptype, time_bits, payload):
    return struct.pack('<II', len(payload), ptype) + struct.pack('<I', time_bits) + payload


def bits_required(n):
    if n <= 1: return 0
    return (n - 1).bit_length()


def pack_bits(fields):
    """fields: list of (value, width) MSB first; padded with zero bits to a whole byte"""
    acc = 0; n = 0
    for v, w in fields:
        acc = (acc << w) | (v & ((1 << w) - 1)); n += w
    pad = (-n) % 8
    acc <<= pad; n += pad
    return acc.to_bytes(n // 8, 'big') if n else b''


def truthy(v):
    if v is None: return False
    if isinstance(v, (list, dict)): return len(v) > 0
    if isinstance(v, int): return v != 0
    if isinstance(v, tuple) and v[0] == 's': return len(v[1]) > 0
    return True


class History:
    """generates packets and keeps the SPEC state: plain Python dicts/lists, last writer wins"""
    def __init__(self, rng, dialect, view, fault_rate=0.08, values_in_range=True, garbage_w=2):
        self.garbage_w = garbage_w
        self.rng = rng; self.dialect = dialect; self.view = view; self.ids = TABLE_IDS[dialect]
        self.packets = []          # (type id, time bits, payload, label)
        self.ents = collections.OrderedDict()     # id -> dict(type, client, base, pose)
        self.player = None
        self.map = None
        self.fault_rate = fault_rate
        self.vg = gen_types.ValueGen(rng, allow_big=False)
        self.next_id = 100
        self.labels = collections.Counter()
        self.unknown_types = [t for t in [6, 9, 0x0b, 0x10, 0x20, 0x30, 0xff, 0xffffffff, 1234567] if t not in self.ids.values()]

    # ---- helpers
    def val(self, t):
        # every so often the SAME value (hence the same bytes) is sent again - to another entity, to another property of that type, to the
        # same property: state kept per value object or cached by its bytes would show as one update leaking into another place
        import copy
        pool = self.__dict__.setdefault('_valpool', {}); key = repr(t)
        if pool.get(key) and self.rng.random() < 0.3: return copy.deepcopy(self.rng.choice(pool[key]))
        v = self.vg.struct(t); self.twin_records(v); pool.setdefault(key, []).append(copy.deepcopy(v)); pool[key] = pool[key][-6:]
        return v
    def twin_records(self, v):
        """inside a list value, make some records BYTE-IDENTICAL copies of a sibling (equal but separate): a nested update of one of them changes that one only"""
        import copy
        if isinstance(v, list):
            if len(v) >= 2 and isinstance(v[0], (list, dict)) and self.rng.random() < 0.5:
                i = self.rng.randrange(len(v)); j = self.rng.randrange(len(v)); v[j] = copy.deepcopy(v[i])
            for x in v: self.twin_records(x)
        elif isinstance(v, dict):
            for x in v.values(): self.twin_records(x)
    def emit(self, cls, payload, label, time_bits=None):
        tb = self.rng.choice([0, 0x3f800000, 0x7fc00000, 0x7f800000, 0x00000001, self.rng.randrange(2 ** 32)]) if time_bits is None else time_bits
        tid = self.ids[cls] if isinstance(cls, str) else cls
        self.packets.append((tid, tb, payload, label)); self.labels[label] += 1
    def new_id(self):
        if self.rng.random() < 0.12:       # boundary ids; negative ones separate signed from unsigned id fields (creation / position vs update / call)
            return self.rng.choice([0, 1, -5, -1, -2 ** 31, -77, 2 ** 31 - 1, 1154822, 255, 65536])
        self.next_id += self.rng.randrange(1, 4); return self.next_id
    def some_id(self):
        if self.ents and self.rng.random() < 0.9: return self.rng.choice(list(self.ents))
        return self.new_id()
    def pose0(self, tname):
        return {k: None for k in self.view.volatiles(tname)}     # None = the definition's default
    def ensure_entity(self, eid, tname):
        self.ents[eid] = dict(type=tname, client=collections.OrderedDict(), base=collections.OrderedDict(), pose=self.pose0(tname))

    # ---- creation packets
    def base_player(self, eid=None):
        eid = eid if eid is not None else (self.rng.choice(list(self.ents)) if self.ents and self.rng.random() < 0.3 else self.new_id())
        tname = self.ents[eid]['type'] if eid in self.ents else 'Avatar'      # an existing entity is reused as it is
        vals = [(n, t, self.val(t)) for n, t in self.view.base(tname)] if self.dialect != 'wot' else []
        data = b''.join(gen_types.wire_of(t, v) for n, t, v in vals)
        if self.dialect == 'wot': data = bytes(self.rng.randrange(256) for _ in range(self.rng.randrange(0, 5)))
        payload = struct.pack('<ih', eid, self.view.type_index('Avatar')) + binstream(data)
        self.emit('BasePlayerCreate', payload, 'base-player')
        if eid not in self.ents: self.ensure_entity(eid, 'Avatar')
        # an existing entity keeps its type: the library reuses the object
        for n, t, v in vals: self.ents[eid]['base'][n] = (t, v)
        self.player = eid

    def cell_player(self, eid=None):
        if 'CellPlayerCreate' not in self.ids: return
        eid = eid if eid is not None else (self.rng.choice(list(self.ents)) if self.ents and self.rng.random() < 0.5 else self.new_id())
        tname = self.ents[eid]['type'] if eid in self.ents else 'Avatar'
        vals = [(n, t, self.val(t)) for n, t in self.view.internal(tname)]
        data = b''.join(gen_types.wire_of(t, v) for n, t, v in vals)
        head = struct.pack('<ii', eid, 7)
        if self.dialect == 'wot': head += struct.pack('<h', 1)
        head += struct.pack('<i', 9) + bytes(24)
        self.emit('CellPlayerCreate', head + binstream(data), 'cell-player')
        if eid not in self.ents: self.ensure_entity(eid, 'Avatar')
        for n, t, v in vals: self.ents[eid]['client'][n] = (t, v)

    def create_entity_at(self, eid, time_bits):
        n0 = len(self.packets); self.create_entity(eid)
        if len(self.packets) == n0 + 1:
            t_, _tb, pl_, lb_ = self.packets[-1]; self.packets[-1] = (t_, time_bits, pl_, lb_)

    def create_entity(self, eid=None, tname=None):
        if 'EntityCreate' not in self.ids: return
        tname = tname or self.rng.choice(self.view.names)
        eid = eid if eid is not None else (self.rng.choice(list(self.ents)) if self.ents and self.rng.random() < 0.15 else self.new_id())
        props = self.view.exposed(tname)
        k = self.rng.randrange(0, len(props) + 1) if props else 0
        idxs = [self.rng.randrange(len(props)) for _ in range(k)] if self.rng.random() < 0.3 else self.rng.sample(range(len(props)), k)
        vals = [(i, props[i][0], props[i][1], self.val(props[i][1])) for i in idxs]
        state = bytes([len(vals)]) + b''.join(bytes([i]) + gen_types.wire_of(t, v) for i, n, t, v in vals)
        head = struct.pack('<ihii', eid, self.view.type_index(tname), 3, 4) + bytes(24)
        if self.dialect == 'wot': head += struct.pack('<i', 0)
        self.emit('EntityCreate', head + binstream(state), 'create')
        self.ensure_entity(eid, tname)                  # re-creation starts from empty
        for i, n, t, v in vals: self.ents[eid]['client'][n] = (t, v)

    # ---- updates
    def update_prop(self):
        cands = [e for e, s in self.ents.items() if e >= 0 and self.view.exposed(s['type'])]
        if not cands: return self.create_entity()
        eid = self.rng.choice(cands); props = self.view.exposed(self.ents[eid]['type'])
        i = self.rng.randrange(len(props)); n, t = props[i]; v = self.val(t)
        extra = bytes(self.rng.randrange(256) for _ in range(self.rng.choice([0, 0, 0, 2])))     # trailing bytes are ignored
        self.emit('EntityProperty', struct.pack('<II', eid, i) + binstream(gen_types.wire_of(t, v) + extra), 'update')
        if self.dialect != 'wowp': self.ents[eid]['client'][n] = (t, v)

    def call_method(self, garbage=False):
        cands = [e for e, s in self.ents.items() if e >= 0 and self.view.methods(s['type'])]
        if not cands: return self.create_entity()
        eid = self.rng.choice(cands); ms = self.view.methods(self.ents[eid]['type'])
        i = self.rng.randrange(len(ms)); name, args, hdr = ms[i]
        if garbage:
            data = bytes(self.rng.randrange(256) for _ in range(self.rng.randrange(0, 6)))
            self.emit('EntityMethod', struct.pack('<II', eid, i) + binstream(data), 'call-garbage'); return
        data = b''.join(gen_types.wire_of(t, self.val(t), max(hdr, 0)) for a, t in args)
        self.emit('EntityMethod', struct.pack('<II', eid, i) + binstream(data), 'call')

    # ---- nested
    def nested(self, fault_cut=False, only=None):
        if 'NestedProperty' not in self.ids or self.dialect == 'wowp': return None if fault_cut else self.update_prop()
        cands = []
        for e, s in self.ents.items():
            if e < 0: continue
            props = self.view.exposed(s['type'])
            for i, (n, t) in enumerate(props):
                if n in s['client'] and isinstance(s['client'][n][1], (list, dict)) and s['client'][n][0] == t:
                    cands.append((e, i, n, t))
        if only is not None: cands = [c for c in cands if (c[0], c[1]) == only]
        if not cands: return self.update_prop()
        eid, pi, pname, ptype = self.rng.choice(cands)
        s = self.ents[eid]; props = self.view.exposed(s['type'])
        fields = [(1, 1), (pi, bits_required(len(props)))]
        t = ptype; v = s['client'][pname][1]
        while t[0] == 'user': t = t[1]
        # walk down while the child is a non-empty container and the dice say so
        while True:
            if isinstance(v, list) and v and self.rng.random() < 0.5:
                j = self.rng.randrange(len(v)); ct = t[1]
                while ct[0] == 'user': ct = ct[1]
                if isinstance(v[j], (list, dict)) and truthy(v):
                    fields += [(1, 1), (j, bits_required(len(v)))]; v = v[j]; t = ct; continue
            if isinstance(v, dict) and v and self.rng.random() < 0.6:
                keys = [k for k, _ in t[1]]; j = self.rng.randrange(len(keys)); ct = t[1][j][1]
                while ct[0] == 'user': ct = ct[1]
                if isinstance(v[keys[j]], (list, dict)) and truthy(v):
                    fields += [(1, 1), (j, bits_required(len(v)))]; v = v[keys[j]]; t = ct; continue
            break
        fields.append((0, 1))
        is_slice = False; data = b''
        if isinstance(v, dict):
            if not v: return self.update_prop()
            keys = [k for k, _ in t[1]]; j = self.rng.randrange(len(keys)); ft = t[1][j][1]
            nv = self.val(ft)
            fields.append((j, bits_required(len(v)))); data = gen_types.wire_of(ft, nv)
            effect = ('setfield', v, keys[j], nv)
        else:
            et = t[1]
            if self.rng.random() < 0.55:
                is_slice = True; n = len(v); w = bits_required(n + 1); top = (1 << w) - 1 if w else 0
                i = self.rng.choice([0, n, self.rng.randrange(0, n + 1), min(top, n + 1)]); j = self.rng.choice([i, n, self.rng.randrange(0, n + 1), 0, min(top, n + 1)])
                i = min(i, top); j = min(j, top)
                k = self.rng.choice([0, 0, 1, 2, 3])
                new = [self.val(et) for _ in range(k)]
                fields += [(i, w), (j, w)]; data = b''.join(gen_types.wire_of(et, x) for x in new)
                effect = ('slice', v, i, j, new)
            else:
                if not v: return self.update_prop()
                i = self.rng.randrange(len(v)); w = bits_required(len(v))
                fields.append((i, w))
                if self.rng.random() < 0.15: effect = ('setitem', v, i, None)
                else:
                    nv = self.val(et); data = gen_types.wire_of(et, nv); effect = ('setitem', v, i, nv)
                if effect[3] is not None and not data: return self.update_prop()    # zero-size element: "empty rest" would be taken
        if fault_cut:
            # the LAST element of the payload is cut by one byte (the size byte of the packet stays consistent): the elements before it decode, the
            # last one does not - the packet fails and must leave the list exactly as it was (no element removed, none inserted)
            fixed = et[0] in ('u', 'i') and et[1] >= 2 or et[0] in ('f32', 'f64', 'vec') if not isinstance(v, dict) else False
            if isinstance(v, dict) or not fixed or not data: return None
            payload = pack_bits(fields) + data[:-1]
            if len(payload) > 255: return None
            self.emit('NestedProperty', struct.pack('<IbB', eid, 1 if is_slice else 0, len(payload)) + bytes(3) + payload, 'fault-nested-cut-element')
            return True
        payload = pack_bits(fields) + data
        if len(payload) > 255: return self.update_prop()
        if effect[0] == 'slice' and effect[4] and not data: return self.update_prop()
        self.emit('NestedProperty', struct.pack('<IbB', eid, 1 if is_slice else 0, len(payload)) + bytes(3) + payload,
                  'nested-slice' if is_slice else 'nested-set')
        # SPEC effect: ordinary list / dict operations
        if effect[0] == 'setfield': effect[1][effect[2]] = effect[3]
        elif effect[0] == 'setitem': effect[1][effect[2]] = effect[3]
        else: effect[1][effect[2]:effect[3]] = effect[4]

    def player_nested(self):
        """a property that the BASE-player packet delivers (BASE_AND_CLIENT: it sits in the base table) and that is then sent again as an ordinary
        update and addressed by a nested packet: the nested change belongs to the client value, whatever else still holds an older copy"""
        if 'NestedProperty' not in self.ids or self.dialect in ('wowp', 'wot') or 'BasePlayerCreate' not in self.ids: return self.nested()
        order = [e for e in self.ents if 0 <= e < 2 ** 31]; self.rng.shuffle(order)
        for eid in order:
            tname = self.ents[eid]['type']; basen = set(n for n, _ in self.view.base(tname)); props = self.view.exposed(tname)
            for i, (n, t) in enumerate(props):
                tt = t
                while tt[0] == 'user': tt = tt[1]
                if n in basen and tt[0] in ('array', 'dict'):
                    self.base_player(eid)
                    for _ in range(4):
                        v = self.val(t)
                        if v: break
                    self.emit('EntityProperty', struct.pack('<II', eid, i) + binstream(gen_types.wire_of(t, v)), 'update')
                    self.ents[eid]['client'][n] = (t, v)
                    return self.nested(only=(eid, i))
        return self.nested()

    # ---- poses
    def fbits(self): return self.rng.choice(gen_types.F32_BITS + [self.rng.randrange(2 ** 32)] * 2)
    def position(self, eid=None):
        if 'Position' not in self.ids: return
        eid = self.some_id() if eid is None else eid
        pos = [self.fbits() for _ in range(3)]; ypr = [self.fbits() for _ in range(3)]
        payload = struct.pack('<ii', eid, 5) + b''.join(map(f32b, pos)) + bytes(12) + b''.join(map(f32b, ypr)) + b'\x00'
        if self.dialect != 'wowp' and self.rng.random() < 0.25:
            # bytes behind the 45 bytes of fields belong to nothing: the fields are where they are whatever the payload length (49, 50, 53, 64 ...)
            payload += bytes(self.rng.randrange(1, 256) for _ in range(self.rng.choice([1, 4, 5, 8, 19])))
        self.emit('Position', payload, 'position')
        if eid in self.ents and self.dialect != 'wowp':
            p = self.ents[eid]['pose']; p['position'] = ('v', pos); p['yaw'] = ('f', ypr[0]); p['pitch'] = ('f', ypr[1]); p['roll'] = ('f', ypr[2])

    def pose_recreate_pose(self):
        """Position(E); EntityCreate(E) again; Position(E) - back to back, no packet for another entity in between: anything that remembers the
        entity OBJECT of the last position packet (instead of looking the id up) moves the orphaned old object"""
        cands = [e for e in self.ents if e >= 0]
        if not cands or 'EntityCreate' not in self.ids: return self.position()
        eid = self.rng.choice(cands); tname = self.ents[eid]['type']
        self.position(eid); self.create_entity(eid, tname if self.rng.random() < 0.7 else None); self.position(eid)

    def player_position(self):
        if 'PlayerPosition' not in self.ids: return self.position()
        e1 = self.rng.choice([0, self.some_id(), self.some_id()]); e2 = self.rng.choice([0, 0, self.some_id(), e1, self.new_id()])
        pos = [self.fbits() for _ in range(3)]; ypr = [self.fbits() for _ in range(3)]
        payload = struct.pack('<ii', e1, e2) + b''.join(map(f32b, pos)) + b''.join(map(f32b, ypr))
        tb_ = self.rng.choice([0, 0x3f800000, 0x41200000])
        self.emit('PlayerPosition', payload, 'player-position-%s' % ('second' if e2 else 'self'), time_bits=tb_)
        late_create = e2 != 0 and e2 not in self.ents and -2 ** 31 <= e2 < 2 ** 31 and 'EntityCreate' in self.ids and self.rng.random() < 0.7
        # SPEC (C08): no second entity -> set the first from the packet; second entity -> copy its current pose;
        # an entity that does not exist -> ignored
        if e2 == 0:
            if e1 != 0 and e1 in self.ents:
                p = self.ents[e1]['pose']; p['position'] = ('v', pos); p['yaw'] = ('f', ypr[0]); p['pitch'] = ('f', ypr[1]); p['roll'] = ('f', ypr[2])
        elif e1 in self.ents and e2 in self.ents:
            src = self.ents[e2]['pose']; dst = self.ents[e1]['pose']
            if all(k in src for k in ('position', 'yaw', 'pitch', 'roll')):
                for k in ('position', 'yaw', 'pitch', 'roll'): dst[k] = src[k]
            else:
                self.spec_unsure = True        # copying from an entity without that volatile: outside the statement
        if late_create:
            # the named second entity is created right AFTER the packet, with the same time stamp: the packet came first and was ignored
            self.create_entity_at(e2, tb_)

    # ---- packets the player only logs / ignores, and unmapped ones
    def noise(self):
        r = self.rng.random()
        if r < 0.25: self.emit(self.rng.choice(self.unknown_types), bytes(self.rng.randrange(256) for _ in range(self.rng.choice([0, 1, 5, 40, 300]))), 'unmapped')
        elif r < 0.4 and self.ents: self.emit('EntityEnter', struct.pack('<iii', self.rng.choice(list(self.ents)), 1, 2), 'enter')
        elif r < 0.55 and self.ents: self.emit('EntityLeave', struct.pack('<i', self.rng.choice(list(self.ents))), 'leave')
        elif r < 0.7: self.emit('EntityControl', struct.pack('<ib', self.some_id(), 1), 'control')
        elif r < 0.8 and 'Version' in self.ids: self.emit('Version', struct.pack('<i', 5) + b'1.2.3', 'version')
        elif r < 0.9 and 'Map' in self.ids: self.map_packet()
        elif 'BattleStats' in self.ids: self.emit('BattleStats', struct.pack('<i', 7) + b'{"a":1}', 'battlestats')
        else: self.emit(self.rng.choice(self.unknown_types), b'', 'unmapped')

    def map_packet(self):
        name = self.rng.choice(['spaces/s07_Advance', 'spaces/01_solomon', 'x', 'spaces/Привет'])
        nb = name.encode('utf-8')
        if self.dialect == 'wot': payload = struct.pack('<iib', 1, 77, len(nb)) + nb
        else: payload = struct.pack('<iqi', 1, 77, len(nb)) + nb + bytes(65)
        self.emit('Map', payload, 'map'); self.map = nb

    # ---- faults (C12): packets that must fail and leave no trace
    def fault(self):
        r = self.rng.random()
        unk = 10 ** 6 + self.rng.randrange(1000)
        if r < 0.06 and 'EntityCreate' in self.ids:
            # an entity TYPE id that names nothing: 0, negative (the field is a signed 16-bit number), just past the end of the list, the extremes -
            # for a new id and for an id that exists (which must stay what it is)
            n = len(self.view.names)
            et = self.rng.choice([0, -1, -2, -n, n + 1, n + 2, 0x7fff, -0x8000])
            eid = self.rng.choice([e for e in self.ents if -2 ** 31 <= e < 2 ** 31] + [unk]) if self.rng.random() < 0.6 else unk
            head = struct.pack('<ihii', eid, et, 3, 4) + bytes(24) + (struct.pack('<i', 0) if self.dialect in ('wot', 'wowp') else b'')
            self.emit('EntityCreate', head + binstream(b'\x00'), 'fault-entity-type'); return
        if r < 0.16 and 'EntityCreate' in self.ids and self.rng.random() < 0.6:
            # an update (or a call) for an id that does not exist YET, and right behind it the packet that creates that id with a value for the very
            # same property: the early packet fails on its own and is gone - the entity starts with what its creation packet carries
            tname = self.rng.choice(self.view.names); props = self.view.exposed(tname)
            eid = self.next_id = self.next_id + self.rng.randrange(1, 4)
            if props and eid not in self.ents:
                i = self.rng.randrange(len(props)); n_, t_ = props[i]
                self.emit('EntityProperty', struct.pack('<II', eid, i) + binstream(gen_types.wire_of(t_, self.val(t_))), 'fault-unknown-entity')
                v2 = self.val(t_)
                state = bytes([1, i]) + gen_types.wire_of(t_, v2)
                head = struct.pack('<ihii', eid, self.view.type_index(tname), 3, 4) + bytes(24) + (struct.pack('<i', 0) if self.dialect == 'wot' else b'')
                self.emit('EntityCreate', head + binstream(state), 'create')
                self.ensure_entity(eid, tname)
                if self.dialect != 'wowp': self.ents[eid]['client'][n_] = (t_, v2)
                return
        if r < 0.2 and self.rng.random() < 0.5 and self.ents:
            # a packet for a KNOWN entity, then a run of packets for one and the same unknown id: each of them fails on its own, none may land on the
            # entity that was addressed last
            self.update_prop()
            for _ in range(self.rng.randrange(2, 4)):
                if self.rng.random() < 0.5: self.emit('EntityProperty', struct.pack('<II', unk, 0) + binstream(bytes([self.rng.randrange(256)]) * 4), 'fault-unknown-entity')
                elif 'Position' in self.ids: self.emit('Position', struct.pack('<ii', unk, 0) + bytes(self.rng.randrange(256) for _ in range(36)) + b'\x00', 'fault-unknown-entity')
                else: self.emit('EntityMethod', struct.pack('<II', unk, 0) + binstream(b''), 'fault-unknown-entity')
            return
        if r < 0.2: self.emit('EntityProperty', struct.pack('<II', unk, 0) + binstream(b'\x00'), 'fault-unknown-entity')
        elif r < 0.35: self.emit('EntityMethod', struct.pack('<II', unk, 0) + binstream(b''), 'fault-unknown-entity')
        elif r < 0.5 and self.ents:
            # an id past the end of the table: just past it, far past it, and ids that a signed or truncated read would fold back into
            # the table (2^32-k, 2^31, 2^16+i), carrying bytes that DO decode for the member such a fold would pick
            eid = self.rng.choice([e for e in self.ents if e >= 0] or [unk])
            props = self.view.exposed(self.ents[eid]['type']) if eid in self.ents else []
            n = len(props); k = self.rng.randrange(1, n + 1) if n else 1
            idx = self.rng.choice([n, n + 1, 200 + self.rng.randrange(50), 0x7fffffff, 0x80000000, 2 ** 32 - 1, 2 ** 32 - k, 2 ** 32 - k, 2 ** 16 + n - k, 2 ** 8 + n - k])
            data = b'\x01\x02'
            if n and self.rng.random() < 0.7:
                pn, pt = props[n - k]; data = gen_types.wire_of(pt, self.val(pt))
            self.emit('EntityProperty', struct.pack('<II', eid, idx) + binstream(data), 'fault-index')
        elif r < 0.6 and self.ents:
            eid = self.rng.choice([e for e in self.ents if e >= 0] or [unk])
            ms = self.view.methods(self.ents[eid]['type']) if eid in self.ents else []
            n = len(ms); k = self.rng.randrange(1, n + 1) if n else 1
            idx = self.rng.choice([n, n + 1, 250, 0x7fffffff, 0x80000000, 2 ** 32 - 1, 2 ** 32 - k, 2 ** 32 - k, 2 ** 16 + n - k, 2 ** 8 + n - k])
            data = b'\x01\x02'
            if n and self.rng.random() < 0.7:
                name, args, hdr = ms[n - k]; data = b''.join(gen_types.wire_of(t, self.val(t), max(hdr, 0)) for a, t in args)
            self.emit('EntityMethod', struct.pack('<II', eid, idx) + binstream(data), 'fault-index')
        elif r < 0.68 and self.dialect != 'wowp':
            # a creation packet whose header is fine and whose state block is cut or undecodable - for a NEW id (must not appear) and for an
            # EXISTING id (the old entity must stay as it was): the failure happens after the entity object has been built
            tname = self.rng.choice(self.view.names); props = self.view.exposed(tname)
            eid = self.rng.choice([e for e in self.ents if e >= 0] or [unk]) if self.rng.random() < 0.5 else 10 ** 5 + self.rng.randrange(1000)
            head = struct.pack('<ihii', eid, self.view.type_index(tname), 3, 4) + bytes(24) + (bytes(4) if self.dialect == 'wot' else b'')
            if props:
                i = self.rng.randrange(len(props)); n_, t_ = props[i]
                good = bytes([i]) + gen_types.wire_of(t_, self.val(t_))
                kind = self.rng.randrange(4)
                state = [bytes([2]) + good,                       # announces two values, carries one: the second index cannot be read
                         bytes([1, 250]) + b'\x00',                # property index out of range
                         bytes([1]) + good[:max(1, len(good) - 1)],   # value cut short (a variable-length value may still decode, shorter)
                         bytes([1]) + good + b'\x99'][kind]         # trailing byte after the last value (refused only where the dialect checks it)
                if kind >= 2: self.spec_unsure = True               # may legitimately succeed: library and model are still compared, the SPEC state is not
            else: state = bytes([1, 0, 0])
            self.emit('EntityCreate', head + binstream(state), 'fault-create-bad-state')
        elif r < 0.75:
            cls = self.rng.choice(['EntityProperty', 'EntityMethod', 'Position', 'EntityCreate', 'BasePlayerCreate', 'NestedProperty'])
            if cls in self.ids: self.emit(cls, bytes(self.rng.randrange(256) for _ in range(self.rng.randrange(0, 7))), 'fault-truncated')
        elif r < 0.9 and self.ents:
            # undecodable value: a payload that is too short for the property's type
            cands = [(e, i, t) for e, s in self.ents.items() if e >= 0 for i, (n, t) in enumerate(self.view.exposed(s['type']))
                     if t[0] in ('u', 'i', 'f32', 'f64', 'vec', 'mailbox')]
            if cands:
                e, i, t = self.rng.choice(cands)
                self.emit('EntityProperty', struct.pack('<II', e, i) + binstream(b''), 'fault-undecodable')
        elif 'NestedProperty' in self.ids and self.ents:
            if self.rng.random() < 0.7 and any(self.nested(fault_cut=True) for _ in range(8)): return
            eid = self.rng.choice([e for e in self.ents if e >= 0] or [unk])
            self.emit('NestedProperty', struct.pack('<Ibb', eid, 0, 5) + bytes(3) + b'\x01', 'fault-size-mismatch')

    def run(self, n):
        self.spec_unsure = False
        self.base_player()
        if self.rng.random() < 0.7: self.cell_player(self.player if self.rng.random() < 0.7 else None)
        for _ in range(self.rng.randrange(1, 5)): self.create_entity()
        if self.dialect == 'wowp':
            ops = [(self.update_prop, 10), (self.call_method, 10), (self.position, 5), (self.noise, 10), (self.base_player, 3), (lambda: self.call_method(True), self.garbage_w)]
        else: ops = [(self.create_entity, 6), (self.update_prop, 22), (self.call_method, 18), (self.nested, 22), (self.player_nested, 4), (self.position, 8),
               (self.player_position, 6), (self.pose_recreate_pose, 3), (self.noise, 8), (self.base_player, 1), (self.cell_player, 1), (lambda: self.call_method(True), self.garbage_w)]
        tot = sum(w for _, w in ops)
        while len(self.packets) < n:
            if self.rng.random() < self.fault_rate: self.fault(); continue
            r = self.rng.random() * tot
            for f, w in ops:
                r -= w
                if r < 0: f(); break
        return self

    def stream(self, packets=None):
        return b''.join(frame(t, tb, pl) for t, tb, pl, _ in (packets if packets is not None else self.packets))

    # ---- the SPEC state in the common dump format
    def spec_dump(self, poses=True):
        out = ['PLAYER %s' % ('none' if self.player is None else self.player)]
        for eid, s in self.ents.items():
            out.append('E %d %s' % (eid, s['type']))
            for b in ('client', 'base'):
                for n, (t, v) in s[b].items(): out.append('P %s %s %s' % (b, n, canon_struct(t, v)))
            if poses:
                for k in sorted(s['pose']):
                    v = s['pose'][k]
                    if v is None: out.append('V %s %s' % (k, 'v(00000000,00000000,00000000)' if k == 'position' else 'f00000000'))
                    elif v[0] == 'v': out.append('V %s v(%s)' % (k, ','.join(gen_types.f32canon(b) for b in v[1])))
                    else: out.append('V %s f%s' % (k, gen_types.f32canon(v[1])))
        return out


def canon_struct(t, v):
    """canonical text of a SPEC value; nested updates may have put None into list cells"""
    k = t[0]
    if v is None: return 'n'
    if k == 'user': return canon_struct(t[1], v)
    if k == 'array': return '[' + ','.join(canon_struct(t[1], x) for x in v) + ']'
    if k == 'dict': return '{' + ','.join('%s=%s' % (nm, canon_struct(ft, v[nm])) for nm, ft in t[1] if nm in v) + '}'
    return gen_types.canon_of(t, v)


# ------------------------------------------------------------------ running both sides
def sort_dump(lines):
    """dict iteration order of entities and properties is an implementation detail: compare as sorted blocks"""
    blocks = []; cur = None; head = []
    for l in lines:
        if l.startswith('E '):
            cur = [l]; blocks.append(cur)
        elif cur is not None and (l.startswith('P ') or l.startswith('V ')): cur.append(l)
        else: head.append(l)
    out = sorted(head)
    for b in sorted(blocks, key=lambda b: int(b[0].split(' ')[1])):
        out.append(b[0]); out += sorted(b[1:])
    return out


def run_library(dialect, defs_dir, stream, strict=False, regs=None, snap_eid=None, snaps_out=None):
    """regs: (method regs, property regs, nested regs) as lists of (entity, member); None = subscribe to everything once"""
    pl = make_player(dialect, defs_dir)
    rec = recordings.Recorder(pl) if regs is None else RegRecorder(pl, regs)
    rec.snap_eid = snap_eid
    raised = None
    try:
        try:
            with common.time_limit(max(6.0, len(stream) / 5000.0)): pl.play(stream, strict)
        except common.HangError: raised = 'HANG'
        except Exception as e: raised = impl.err_name(e)
        lib = list(rec.trace); lib.append('RAISED ' + raised if raised else 'DONE')
        c = pl._battle_controller
        lib.append('MAP %s' % ('none' if c._raw_map is None else c._raw_map.encode('utf-8').hex()))
        lib += recordings.dump_entities(c)
        subs = rec.subs()
        if snaps_out is not None: snaps_out.update(rec.snaps)
    finally:
        rec.close()
    return lib, subs


class _Sink:
    """a subscriber object that only the subscription itself refers to"""
    def __init__(self, f): self.f = f
    def call(self, *a, **kw): return self.f(*a, **kw)
    def __call__(self, *a, **kw): return self.f(*a, **kw)


def callable_variant(cb, n):
    """the kinds of callable a user may register: plain function, bound method of a throwaway object, partial, callable object"""
    import functools
    k = (n + 1) % 4
    if k == 0: return cb
    if k == 1: return _Sink(cb).call
    if k == 2: return functools.partial(cb)
    return _Sink(cb)


class RegRecorder(recordings.Recorder):
    """like Recorder but registers exactly the given subscriptions, in order, several per key if asked (C07)"""
    def __init__(self, pl, regs):
        from replay_unpack.core.entity import Entity
        self.Entity = Entity; self.pl = pl; self.trace = []
        self.saved = [dict(Entity._methods_subscriptions), dict(Entity._properties_subscriptions), dict(Entity._nested_properties_subscription)]
        for t in (Entity._methods_subscriptions, Entity._properties_subscriptions, Entity._nested_properties_subscription): t.clear()
        trace = self.trace; defs = pl._definitions
        self.mkeys, self.pkeys, self.nkeys = [list(r) for r in regs]
        def find_method(en, mn):
            for m in defs.get_entity_def_by_name(en).client().get_exposed_index_map():
                if m.get_name() == mn: return m
        def find_prop(en, pn):
            for p in defs.get_entity_def_by_name(en).properties()._internal_index:
                if p.get_name() == pn: return p
        for n, (en, mn) in enumerate(self.mkeys):
            m = find_method(en, mn)
            def mk(en, m, n):
                def cb(entity, *a, **kw):
                    pos = [x for x in m._arguments if x.name is None]; named = {x.name: x for x in m._arguments if x.name}
                    trace.append('C %s_%s %d (%s) {%s}' % (en, m.get_name(), entity.id,
                        ','.join(impl.canon_t(v, t.type) for v, t in zip(a, pos)),
                        ','.join(sorted('%s=%s' % (k, impl.canon_t(kw[k], named[k].type)) for k in kw))))
                return cb
            Entity.subscribe_method_call(en, mn, callable_variant(mk(en, m, n), n))
        for n, (en, pn) in enumerate(self.pkeys):
            p = find_prop(en, pn)
            def mkp(en, p):
                def cb(entity, value): trace.append('CP %s_%s %d %s' % (en, p.get_name(), entity.id, impl.canon_t(value, p._type)))
                return cb
            Entity.subscribe_property_change(en, pn, callable_variant(mkp(en, p), n))
        for n, (en, path) in enumerate(self.nkeys):
            def mkn(key):
                def cb(entity, obj): trace.append('CN %s %d %s' % (key, entity.id, impl.canon(obj)))
                return cb
            Entity.subscribe_nested_property_change(en, path, callable_variant(mkn(en + '_' + path), n))
        import gc; gc.collect()
        self.cur = [None]
        self.orig_call = Entity.call_client_method; self.orig_set = Entity.set_client_property
        self.install_pp()


def run_model(dialect, defs_dir, stream, subs, mode='stream'):
    rd = rawdefs.load_raw(defs_dir)
    mod = recordings.model_stream(dialect, rd, subs, stream, mode)
    return [recordings.norm_final(recordings.strip_cn_path(l)) for l in mod]


def split(lines):
    """-> (trace lines, outcome, final dump sorted)"""
    trace = [l for l in lines if l.split(' ')[0] in ('C', 'CP', 'CN')]
    outcome = [l for l in lines if l.startswith(('DONE', 'RAISED'))]
    final = sort_dump([l for l in lines if l.split(' ')[0] in ('PLAYER', 'MAP', 'E', 'P', 'V')])
    return trace, outcome, final


# ------------------------------------------------------------------ targeted nested-property sweeps (C06)
def sweep_defset(elem=('u', 2), nfields=5, shape='A'):
    """one entity type whose client properties are a list, a dict of lists and a list of dicts"""
    # (f2 is a FIXED-SIZE array of 4: element updates need 2 index bits, slice bounds 3 - on the same list object, in both orders)
    fields = tuple(('f%d' % i, ('array', elem, 4 if i == 2 else None) if i % 2 == 0 else ('u', 1)) for i in range(nfields))
    sec = {'implements': [], 'volatile': ['position', 'yaw', 'pitch', 'roll'], 'client_methods': [], 'cell_methods': [], 'base_methods': [],
           'props': [('lst', ('array', elem, None), 'ALL_CLIENTS'), ('dct', ('dict', fields, False), 'ALL_CLIENTS'),
                     ('lod', ('array', ('dict', (('a', elem), ('b', ('array', ('u', 1), None))), False), None), 'OWN_CLIENT'),
                     ('pad', ('u', 4), 'ALL_CLIENTS')]}
    if shape == 'B':
        # five exposed properties of which one is BASE_AND_CLIENT (the own-client table has four): the entity step of a path takes
        # bits_required(5) = 3 bits, not bits_required(4) = 2; with a four-field dict the fields below a dict field again start after 8 header bits
        sec['props'].append(('bc', ('u', 2), 'BASE_AND_CLIENT'))
        sec['props'][1] = ('dct', ('dict', fields[:4], False), 'ALL_CLIENTS')
    av = {'implements': [], 'volatile': [], 'client_methods': [], 'cell_methods': [], 'base_methods': [], 'props': [('x', ('u', 1), 'ALL_CLIENTS')]}
    return dict(aliases=collections.OrderedDict(), alias_ext=collections.OrderedDict(), ifaces=collections.OrderedDict(),
                ents=collections.OrderedDict([('Avatar', av), ('Thing', sec)]), wrapped=False)


class SweepHistory(History):
    """list sizes 0..maxn: every index set once, every (i, j) slice pair for small lists (exhaustive), inserts at the end,
    deletes, empty lists; at depth 1 (property), 2 (dict field) and 3 (list in dict in list)"""
    def val(self, t): return self.vg.struct(t, nested=True)      # small elements: the payload must stay below 128 bytes
    def build(self, maxn=40, exhaustive_upto=5):
        self.spec_unsure = False
        self.base_player()
        eid = 500
        tname = 'Thing'
        props = self.view.exposed(tname)
        names = [n for n, _ in props]
        def setprop(n, v):
            self.flush_snaps()
            i = names.index(n); t = props[i][1]
            self.emit('EntityProperty', struct.pack('<II', eid, i) + binstream(gen_types.wire_of(t, v)), 'update')
            self.ents[eid]['client'][n] = (t, v)
        head = struct.pack('<ihii', eid, self.view.type_index(tname), 3, 4) + bytes(24)
        if self.dialect == 'wot': head += struct.pack('<i', 0)
        self.emit('EntityCreate', head + binstream(b'\x00'), 'create'); self.ensure_entity(eid, tname)
        li = names.index('lst'); lt = props[li][1]; et = lt[1]
        self.snap_eid = eid; self.spec_snaps = {}; self.pending = []
        def nested(fields, data, is_slice, label):
            payload = pack_bits(fields) + data
            assert len(payload) <= 255
            self.flush_snaps()
            self.emit('NestedProperty', struct.pack('<IbB', eid, 1 if is_slice else 0, len(payload)) + bytes(3) + payload, label)
            self.pending.append(len(self.packets) - 1)     # the SPEC effect is applied by the caller right after this call
        root = [(1, 1), (li, bits_required(len(props)))]
        for n in range(0, maxn + 1):
            lst = [self.val(et) for _ in range(n)]
            setprop('lst', lst)
            w = bits_required(n)
            for i in (range(n) if n <= 12 else sorted(set([0, 1, n // 2, n - 2, n - 1]))):
                nv = self.val(et)
                nested(root + [(0, 1), (i, w)], gen_types.wire_of(et, nv), False, 'nested-set'); lst[i] = nv
            ws = bits_required(n + 1); top = (1 << ws) - 1 if ws else 0
            pairs = [(i, j) for i in range(top + 1) for j in range(top + 1)] if n <= exhaustive_upto else \
                    sorted(set([(0, 0), (n, n), (0, n), (n // 2, n), (n, 0), (min(top, n + 1), min(top, n + 1)), (1, max(n - 1, 0)), (top, 0), (0, top)]))
            for (i, j) in pairs:
                for k in ((0, 1, 2) if n <= exhaustive_upto else (self.rng.choice([0, 1, 2]),)):
                    # every slice operation starts from a fresh list of exactly n elements, so the widths are those of n
                    lst = [self.val(et) for _ in range(n)]
                    setprop('lst', lst)
                    new = [self.val(et) for _ in range(k)]
                    nested(root + [(0, 1), (i, ws), (j, ws)], b''.join(gen_types.wire_of(et, x) for x in new), True, 'nested-slice')
                    lst[i:j] = new
        # lists that have GROWN past 256 elements (a property value arrives with at most 254; slice packets can make it longer): index and slice
        # bounds then need 9 bits and more
        if et in (('u', 1), ('u', 2)):
            lst = [self.val(et) for _ in range(254)]
            setprop('lst', lst)
            for _ in range(7 if et == ('u', 1) else 2):
                n = len(lst); ws = bits_required(n + 1); new = [self.val(et) for _ in range(40 if et != ('u', 1) else (40 if n + 40 <= 511 or n >= 512 else 511 - n if n < 511 else 1))]
                nested(root + [(0, 1), (n, ws), (n, ws)], b''.join(gen_types.wire_of(et, x) for x in new), True, 'nested-slice-grow'); lst[n:n] = new
                if len(lst) in (511, 512):
                    # exactly 511 / 512 elements: the widths at the power of two itself (9 bits for an index into 512, 10 for a bound of 513)
                    n = len(lst)
                    for i in (200, n - 1):
                        nv = self.val(et); nested(root + [(0, 1), (i, bits_required(n))], gen_types.wire_of(et, nv), False, 'nested-set-big'); lst[i] = nv
                    ws = bits_required(n + 1); new2 = [self.val(et)]
                    nested(root + [(0, 1), (100, ws), (102, ws)], b''.join(gen_types.wire_of(et, x) for x in new2), True, 'nested-slice-big'); lst[100:102] = new2
            for i in (0, 255, 256, 257, 300, len(lst) - 1):
                n = len(lst); nv = self.val(et)
                nested(root + [(0, 1), (i, bits_required(n))], gen_types.wire_of(et, nv), False, 'nested-set-big'); lst[i] = nv
            for (i, j, k) in ((256, 258, 1), (255, 257, 0), (300, 300, 2), (0, 1, 0), (257, 400, 3)):
                n = len(lst); ws = bits_required(n + 1); new = [self.val(et) for _ in range(k)]
                if max(i, j) >= (1 << ws): continue
                nested(root + [(0, 1), (i, ws), (j, ws)], b''.join(gen_types.wire_of(et, x) for x in new), True, 'nested-slice-big'); lst[i:j] = new
        # depth 2 and 3
        di = names.index('dct'); dt = props[di][1]
        dv = {nm: ([self.val(ft[1]) for _ in range(ft[2] or 3)] if ft[0] == 'array' else self.val(ft)) for nm, ft in dt[1]}
        setprop('dct', dv)
        for fi, (nm, ft) in enumerate(dt[1]):
            fw = bits_required(len(dt[1]))
            if ft[0] == 'array' and ft[2]:
                # fixed-size array: element update, equal-length slice replacement, element update, slice again (the length never changes)
                n = ft[2]; pre_f = [(1, 1), (di, bits_required(len(props))), (1, 1), (fi, fw), (0, 1)]
                for step in range(2):
                    i = (n - 1) if step == 0 else 0; nv = self.val(ft[1])
                    nested(pre_f + [(i, bits_required(n))], gen_types.wire_of(ft[1], nv), False, 'nested-set-fixed'); dv[nm][i] = nv
                    ws = bits_required(n + 1); new = [self.val(ft[1]) for _ in range(2)]
                    nested(pre_f + [(1, ws), (3, ws)], b''.join(gen_types.wire_of(ft[1], x) for x in new), True, 'nested-slice-fixed'); dv[nm][1:3] = new
            elif ft[0] == 'array':
                for i in range(3):
                    nv = self.val(ft[1])
                    nested([(1, 1), (di, bits_required(len(props))), (1, 1), (fi, fw), (0, 1), (i, bits_required(len(dv[nm])))],
                           gen_types.wire_of(ft[1], nv), False, 'nested-set'); dv[nm][i] = nv
                nested([(1, 1), (di, bits_required(len(props))), (1, 1), (fi, fw), (0, 1), (3, 2), (3, 2)], gen_types.wire_of(ft[1], self.val(ft[1])) * 0 + b''.join([]), True, 'nested-slice')
            else:
                nv = self.val(ft)
                nested([(1, 1), (di, bits_required(len(props))), (0, 1), (fi, fw)], gen_types.wire_of(ft, nv), False, 'nested-set'); dv[nm] = nv
        # LONG lists below a dict field and below a list of dicts: the wide (8/9-bit) index and slice fields then start at other bit offsets
        # than at depth 1 (after 4, 8 and 9+ header bits) - a reader that mis-handles a field beginning or ending on a byte boundary shows here
        fi0, (nm0, ft0) = next((i, f) for i, f in enumerate(dt[1]) if f[1][0] == 'array')
        fw = bits_required(len(dt[1])); pre = [(1, 1), (di, bits_required(len(props))), (1, 1), (fi0, fw), (0, 1)]
        for L in (129, 200, 254):        # (a property value arrives with at most 254 elements: known finding C03-c)
            self.flush_snaps(); dv[nm0] = [self.val(ft0[1]) for _ in range(L)]
            setprop('dct', dv)
            for i in sorted(set([0, 127, 128, L // 2, L - 1])):
                nv = self.val(ft0[1])
                nested(pre + [(i, bits_required(L))], gen_types.wire_of(ft0[1], nv), False, 'nested-set-long-d2'); dv[nm0][i] = nv
            for (i, j, k) in ((128, 130, 1), (L, L, 2), (0, 1, 0)):
                n = len(dv[nm0]); ws = bits_required(n + 1); new = [self.val(ft0[1]) for _ in range(k)]
                nested(pre + [(i, ws), (j, ws)], b''.join(gen_types.wire_of(ft0[1], x) for x in new), True, 'nested-slice-long-d2'); dv[nm0][i:j] = new
        if ft0[1] in (('u', 1), ('u', 2)):
            for _ in range(2):               # grown past 256 by slice packets: 9-bit fields after 8 header bits
                n = len(dv[nm0]); ws = bits_required(n + 1); new = [self.val(ft0[1]) for _ in range(40)]
                nested(pre + [(n, ws), (n, ws)], b''.join(gen_types.wire_of(ft0[1], x) for x in new), True, 'nested-slice-grow-d2'); dv[nm0][n:n] = new
            for i in (0, 255, 256, 300, len(dv[nm0]) - 1):
                nv = self.val(ft0[1])
                nested(pre + [(i, bits_required(len(dv[nm0])))], gen_types.wire_of(ft0[1], nv), False, 'nested-set-big-d2'); dv[nm0][i] = nv
        self.flush_snaps(); dv[nm0] = [self.val(ft0[1]) for _ in range(3)]; setprop('dct', dv)
        oi = names.index('lod'); ot = props[oi][1]; odt = ot[1]
        ov = [{'a': self.val(odt[1][0][1]), 'b': [1, 2, 3]} for _ in range(3)]
        setprop('lod', ov)
        for i in range(3):
            for bi in range(3):
                nested([(1, 1), (oi, bits_required(len(props))), (1, 1), (i, 2), (1, 1), (1, 1), (0, 1), (bi, 2)], bytes([9 + bi]), False, 'nested-set')
                ov[i]['b'][bi] = 9 + bi
            nested([(1, 1), (oi, bits_required(len(props))), (1, 1), (i, 2), (1, 1), (1, 1), (0, 1), (1, 2), (2, 2)], b'', True, 'nested-slice')
            del ov[i]['b'][1:2]
        self.flush_snaps()
        return self

    def flush_snaps(self):
        """record the SPEC state of the swept entity as it is after the previously emitted nested packet"""
        for k in self.pending:
            self.spec_snaps[k] = sorted('%s=%s' % (n, canon_struct(t, v)) for n, (t, v) in self.ents[self.snap_eid]['client'].items())
        self.pending = []
