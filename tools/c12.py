"""C12 - strict mode fails fast, lenient mode skips exactly the failing packets."""
import shutil
from tools import common, worldcheck, recordings, gen_const, synth, impl
LEVEL = 'proof'


def survivors_test(ctx, n_sets, per_set):
    """metamorphic test of the statement on the implementation alone: lenient(stream) == strict(stream without the packets
    that failed), for histories whose failures are of the trace-free classes"""
    rng = ctx.rng; bad = 0
    for k in range(n_sets):
        ds = synth.gen_defset(rng); d = synth.write_defset(ds, rng)
        try:
            for hh in range(per_set):
                dialect = ('wows', 'wot', 'wows126')[(k + hh) % 3]
                pl = synth.make_player(dialect, d); view = synth.LibView(pl)
                h = synth.History(rng, dialect, view, fault_rate=0.2).run(rng.choice([60, 150]))
                # which packets fail: observe the extension point
                pl2 = synth.make_player(dialect, d); failed = set(); idx = [-1]
                ods, opp = pl2._deserialize_packet, pl2._process_packet
                def ds_(p):
                    idx[0] += 1
                    try: return ods(p)
                    except Exception: failed.add(idx[0]); raise
                def pp_(t, p):
                    try: return opp(t, p)
                    except Exception: failed.add(idx[0]); raise
                pl2._deserialize_packet = ds_; pl2._process_packet = pp_
                rec = recordings.Recorder(pl2)
                try: pl2.play(h.stream(), False)
                finally: rec.close()
                # creation packets may fail half-way (not trace-free): such histories are outside this clause
                if any(h.packets[i][3] in ('base-player', 'cell-player') or 'player-position' in h.packets[i][3] for i in failed if i < len(h.packets)):
                    continue
                # an entity-creation packet that fails in its state block has already notified the subscribers of the values before the bad one
                # (not trace-free), but it must not leave the entity behind: for such histories the final STATE is compared, not the trace
                state_only = any(h.packets[i][3] in ('create', 'fault-create-bad-state') for i in failed if i < len(h.packets))
                surv = [p for i, p in enumerate(h.packets) if i not in failed]
                lib_l, _ = synth.run_library(dialect, d, h.stream(), strict=False)
                lib_s, _ = synth.run_library(dialect, d, h.stream(surv), strict=True)
                ctx.case(('survivors', dialect, hash(h.stream())))
                ctx.count('survivors:failed-packets', len(failed))
                a, b = synth.split(lib_l), synth.split(lib_s)
                if state_only: a, b = a[1:], b[1:]; ctx.count('survivors:state-only')
                if a != b and bad == 0:
                    bad += 1
                    ctx.violation(dict(kind='lenient-vs-strict-on-survivors', dialect=dialect, defs=worldcheck.read_defs_dir(d),
                                       packets=[dict(type=t, time_bits=tb, payload=pl_.hex(), label=lb) for t, tb, pl_, lb in h.packets],
                                       failed_indices=sorted(failed), lenient=a[1], strict_on_survivors=b[1],
                                       first_difference=recordings.first_diff(a[0] + a[2], b[0] + b[2])))
        finally:
            shutil.rmtree(d, ignore_errors=True)


def get_info_modes(ctx):
    """top level: lenient returns a result object (error string iff RuntimeError), strict raises"""
    import os, tempfile
    from replay_parser import ReplayParser
    f = recordings.pick('quick', 1)[0]
    data = bytearray(open(f, 'rb').read())
    tmp = tempfile.mkdtemp(prefix='verif-c12-')
    try:
        # an unsupported version: the engine block is JSON text; patch the version digits
        i = data.find(b'clientVersionFromXml')
        j = data.find(b'"', i + 23)
        patched = bytes(data[:j + 1]) + b'9' + bytes(data[j + 2:])
        p = os.path.join(tmp, 'x.wowsreplay'); open(p, 'wb').write(patched)
        r = ReplayParser(p, strict=False).get_info()
        ok1 = r['hidden'] is None and isinstance(r['error'], str) and 'not supported' in r['error']
        try:
            ReplayParser(p, strict=True).get_info(); ok2 = False
        except RuntimeError: ok2 = True
        except Exception: ok2 = False
        ctx.case(('get_info',), n=2)
        if not (ok1 and ok2):
            ctx.violation(dict(kind='get_info-modes', lenient_result={k: (v if k != 'open' else '...') for k, v in r.items()}, strict_raised_runtime_error=ok2,
                               how='a recording whose version string is patched to an unbundled version; ReplayParser(strict=False/True).get_info()'))
        # a well-formed container whose stream holds ONE faulty packet of each failure class, in the middle of a real battle:
        # strict get_info() must raise exactly that packet's exception, lenient get_info() must return a summary
        import struct, random
        from tools import battle, c15
        b, vs = battle.build_wows('13_2_0', random.Random(7))
        frames = list(b.out)
        faults = [('unknown-entity-method', struct.pack('<III', len(struct.pack('<III', 0x7ffffff0, 0, 0)), 8, 0) + struct.pack('<III', 0x7ffffff0, 0, 0), KeyError),
                  ('unknown-entity-property', struct.pack('<III', 12, 7, 0) + struct.pack('<III', 0x7ffffff0, 0, 0), KeyError),
                  ('method-id-out-of-range', struct.pack('<III', 12, 8, 0) + struct.pack('<III', 900, 4000, 0), IndexError),
                  ('truncated-position', struct.pack('<III', 3, 0x0a, 0) + b'\x01\x02\x03', struct.error)]
        # ... and a call that fails INSIDE THE CONTROLLER with StopIteration (onBattleEnd before any BattleLogic entity exists: the controller's
        # `next(e for e in entities ...)` finds nothing) - an exception class that loops and generators treat specially
        ms_ = [x['name'] for x in b.md.ent['Avatar']['methods']]
        if 'onBattleEnd' in ms_ and not b.md.ent['Avatar']['methods'][ms_.index('onBattleEnd')]['args']:
            body_ = struct.pack('<II', 900, ms_.index('onBattleEnd')) + struct.pack('<I', 0)
            faults.append(('controller-raises-StopIteration', struct.pack('<III', len(body_), 8, 0) + body_, StopIteration))
        from tools import digest as digest_
        pref = os.path.join(tmp, 'reference.wowsreplay'); battle.write_replay(pref, 'wowsreplay', {'clientVersionFromXml': vs}, b''.join(frames))
        ref_hidden = digest_.canon(ReplayParser(pref, strict=True).get_info()['hidden'])
        for name, pkt, exc in faults:
            # (the controller fault goes right behind the packet that creates the own avatar, before any BattleLogic entity exists)
            bpc = next(i for i, f in enumerate(frames) if struct.unpack_from('<I', f, 4)[0] == b.ids['BasePlayerCreate']) + 1
            mid = len(frames) // 2 if name != 'controller-raises-StopIteration' else bpc
            stream = b''.join(frames[:mid]) + pkt + b''.join(frames[mid:])
            p = os.path.join(tmp, name + '.wowsreplay'); battle.write_replay(p, 'wowsreplay', {'clientVersionFromXml': vs}, stream)
            ctx.case(('get_info-fault', name), n=2)
            r = ReplayParser(p, strict=False).get_info()
            try:
                ReplayParser(p, strict=True).get_info(); raised = None
            except Exception as ex: raised = type(ex)
            if r.get('hidden') is not None and digest_.canon(r['hidden']) != ref_hidden:
                ctx.violation(dict(kind='get_info-modes', fault=name, packet=pkt.hex(), problem='lenient summary differs from the summary of the same battle without the failing packet',
                                   how='a synthetic 13.2.0 battle with that packet spliced in (it fails before changing anything); ReplayParser(path, strict=False).get_info()["hidden"] vs the battle without it'))
            if r.get('hidden') is None or raised is None or not issubclass(raised, exc):
                ctx.violation(dict(kind='get_info-modes', fault=name, packet=pkt.hex(), lenient_hidden_present=r.get('hidden') is not None, lenient_error=r.get('error'),
                                   strict_raised=(raised.__name__ if raised else None), expected_exception=exc.__name__,
                                   how='a synthetic 13.2.0 battle with that packet spliced into the middle; ReplayParser(path, strict=False/True).get_info()'))
    finally:
        shutil.rmtree(tmp, ignore_errors=True)


def run(ctx):
    ctx.rule = ('fault placement: generated histories with 8-20% faulty packets of every class (unknown entity, id out of range, truncated, '
                'undecodable, size mismatch) at random positions, played in BOTH modes by the library and the extracted model (outcome, '
                'exception class, callback trace, final state); plus the statement itself on the library: lenient(stream) = '
                'strict(stream minus failed packets); non-trivial = every history with >= 1 failing packet (all have); distinct by stream')
    ctx.coq_props('Props/C12.v')
    gen_const.instance_obligations(ctx, 'C12', which=('tables',))
    q = ctx.tier == 'quick'
    worldcheck.run_histories(ctx, 'C12', n_defsets=14 if q else 60, hist_per_set=4, sizes=[40, 120, 300], fault_rate=0.15, strict_too=True)
    survivors_test(ctx, 5 if q else 40, 3)
    get_info_modes(ctx)


def replay(ctx, path): return worldcheck.replay(ctx, path, 'C12')
