"""C12 - strict mode fails fast, lenient mode skips exactly the failing packets."""
import shutil
from tools import common, worldcheck, recordings, gen_const, synth, impl
LEVEL = 'proof'


def survivors_test(ctx, n_sets, per_set):
    """metamorphic test of the statement on the implementation alone: lenient(stream) == strict(stream without the packets
    that failed), for histories whose failures are of the trace-free classes"""
    rng = ctx.rng; bad = 0
    for k in range(n_sets):
        ds = synth.gen_defset(rng); d = synth.write_defset(ds, rng)
        try:
            for hh in range(per_set):
                dialect = ('wows', 'wot', 'wows126')[(k + hh) % 3]
                pl = synth.make_player(dialect, d); view = synth.LibView(pl)
                h = synth.History(rng, dialect, view, fault_rate=0.2).run(rng.choice([60, 150]))
                # which packets fail: observe the extension point
                pl2 = synth.make_player(dialect, d); failed = set(); idx = [-1]
                ods, opp = pl2._deserialize_packet, pl2._process_packet
                def ds_(p):
                    idx[0] += 1
                    try: return ods(p)
                    except Exception: failed.add(idx[0]); raise
                def pp_(t, p):
                    try: return opp(t, p)
                    except Exception: failed.add(idx[0]); raise
                pl2._deserialize_packet = ds_; pl2._process_packet = pp_
                rec = recordings.Recorder(pl2)
                try: pl2.play(h.stream(), False)
                finally: rec.close()
                # creation packets may fail half-way (not trace-free): such histories are outside this clause
                if any(h.packets[i][3] in ('create', 'base-player', 'cell-player') or 'player-position' in h.packets[i][3] for i in failed if i < len(h.packets)):
                    continue
                surv = [p for i, p in enumerate(h.packets) if i not in failed]
                lib_l, _ = synth.run_library(dialect, d, h.stream(), strict=False)
                lib_s, _ = synth.run_library(dialect, d, h.stream(surv), strict=True)
                ctx.case(('survivors', dialect, hash(h.stream())))
                ctx.count('survivors:failed-packets', len(failed))
                a, b = synth.split(lib_l), synth.split(lib_s)
                if a != b and bad == 0:
                    bad += 1
                    ctx.violation(dict(kind='lenient-vs-strict-on-survivors', dialect=dialect, defs=worldcheck.read_defs_dir(d),
                                       packets=[dict(type=t, time_bits=tb, payload=pl_.hex(), label=lb) for t, tb, pl_, lb in h.packets],
                                       failed_indices=sorted(failed), lenient=a[1], strict_on_survivors=b[1],
                                       first_difference=recordings.first_diff(a[0] + a[2], b[0] + b[2])))
        finally:
            shutil.rmtree(d, ignore_errors=True)


def get_info_modes(ctx):
    """top level: lenient returns a result object (error string iff RuntimeError), strict raises"""
    import os, tempfile
    from replay_parser import ReplayParser
    f = recordings.pick('quick', 1)[0]
    data = bytearray(open(f, 'rb').read())
    tmp = tempfile.mkdtemp(prefix='verif-c12-')
    try:
        # an unsupported version: the engine block is JSON text; patch the version digits
        i = data.find(b'clientVersionFromXml')
        j = data.find(b'"', i + 23)
        patched = bytes(data[:j + 1]) + b'9' + bytes(data[j + 2:])
        p = os.path.join(tmp, 'x.wowsreplay'); open(p, 'wb').write(patched)
        r = ReplayParser(p, strict=False).get_info()
        ok1 = r['hidden'] is None and isinstance(r['error'], str) and 'not supported' in r['error']
        try:
            ReplayParser(p, strict=True).get_info(); ok2 = False
        except RuntimeError: ok2 = True
        except Exception: ok2 = False
        ctx.case(('get_info',), n=2)
        if not (ok1 and ok2):
            ctx.violation(dict(kind='get_info-modes', lenient_result={k: (v if k != 'open' else '...') for k, v in r.items()}, strict_raised_runtime_error=ok2,
                               how='a recording whose version string is patched to an unbundled version; ReplayParser(strict=False/True).get_info()'))
    finally:
        shutil.rmtree(tmp, ignore_errors=True)


def run(ctx):
    ctx.rule = ('fault placement: generated histories with 8-20% faulty packets of every class (unknown entity, id out of range, truncated, '
                'undecodable, size mismatch) at random positions, played in BOTH modes by the library and the extracted model (outcome, '
                'exception class, callback trace, final state); plus the statement itself on the library: lenient(stream) = '
                'strict(stream minus failed packets); non-trivial = every history with >= 1 failing packet (all have); distinct by stream')
    ctx.coq_props('Props/C12.v')
    gen_const.instance_obligations(ctx, 'C12', which=('tables',))
    q = ctx.tier == 'quick'
    worldcheck.run_histories(ctx, 'C12', n_defsets=8 if q else 60, hist_per_set=4, sizes=[40, 120, 300], fault_rate=0.15, strict_too=True)
    survivors_test(ctx, 5 if q else 40, 3)
    get_info_modes(ctx)


def replay(ctx, path): return worldcheck.replay(ctx, path, 'C12')
