"""C07 - subscribers are called exactly once per matching event with the right arguments."""
import shutil, struct
from tools import common, worldcheck, recordings, gen_const, synth, gen_types, impl
LEVEL = 'proof'


def direct_tests(ctx):
    """the clauses of the statement tested on the implementation through the public Entity.subscribe_* API;
    each deviation is a listed finding (C07-a/b/c/d) or a violation"""
    from replay_unpack.core.entity import Entity
    rng = ctx.rng
    ds = synth.sweep_defset(elem=('u', 1)); d = synth.write_defset(ds, rng)
    # give Avatar a client-visible property so that cell-player creation delivers a value
    try:
        pl = synth.make_player('wows', d); view = synth.LibView(pl)
        saved = [dict(t) for t in (Entity._methods_subscriptions, Entity._properties_subscriptions, Entity._nested_properties_subscription)]
        for t in (Entity._methods_subscriptions, Entity._properties_subscriptions, Entity._nested_properties_subscription): t.clear()
        calls = []
        try:
            Entity.subscribe_property_change('Thing', 'pad', lambda e, v: calls.append(('first', v)))
            Entity.subscribe_property_change('Thing', 'pad', lambda e, v: calls.append(('second', v)))
            Entity.subscribe_property_change('Avatar', 'x', lambda e, v: calls.append(('avatar-x', v)))
            Entity.subscribe_nested_property_change('Thing', 'lst', lambda e, o: calls.append(('nested-lst', list(o))))
            Entity.subscribe_nested_property_change('Thing', 'ls', lambda e, o: calls.append(('nested-ls-prefix', list(o))))
            h = synth.History(rng, 'wows', view)
            h.base_player(); h.cell_player(h.player)
            eid = 500; props = view.exposed('Thing'); names = [n for n, _ in props]
            head = struct.pack('<ihii', eid, view.type_index('Thing'), 3, 4) + bytes(24)
            li = names.index('lst'); pi = names.index('pad')
            state = bytes([1, li]) + gen_types.wire_of(props[li][1], [1, 2, 3])
            h.emit('EntityCreate', head + synth.binstream(state), 'create')
            h.emit('EntityProperty', struct.pack('<II', eid, pi) + synth.binstream(struct.pack('<I', 77)), 'update')
            root = [(1, 1), (li, synth.bits_required(len(props))), (0, 1)]
            def nested(fields, data, sl):
                payload = synth.pack_bits(root + fields) + data
                h.emit('NestedProperty', struct.pack('<Ibb', eid, 1 if sl else 0, len(payload)) + bytes(3) + payload, 'nested')
            nested([(1, 2)], b'\x09', False)             # lst[1] = 9           -> notified
            nested([(0, 2), (1, 2)], b'', True)          # del lst[0:1]         -> a nested change
            nested([(0, 2)], b'', False)                 # lst[0] = None (empty rest) -> a nested change
            pl.play(h.stream(), True)
        finally:
            for t, s in zip((Entity._methods_subscriptions, Entity._properties_subscriptions, Entity._nested_properties_subscription), saved):
                t.clear(); t.update(s)
        ctx.case(('direct',), n=5)
        kinds = [c[0] for c in calls]
        if kinds.count('first') != 1 or kinds.count('second') != 1:
            ctx.deviation('second-subscriber-replaces-first', {'class': 'second-subscriber-replaces-first'},
                          dict(kind='direct', clause='every callback registered for a key is invoked, not only the last one',
                               observed=[c for c in calls if c[0] in ('first', 'second')],
                               how='Entity.subscribe_property_change(Thing, pad, f); ...(Thing, pad, g); one EntityProperty packet'))
        if kinds.count('avatar-x') != 1:
            ctx.deviation('cell-player-no-notify', {'class': 'cell-player-no-notify'},
                          dict(kind='direct', clause='property-change subscribers receive every value delivered by a creation packet',
                               observed=kinds.count('avatar-x'), how='CellPlayerCreate carrying Avatar.x with a subscriber on Avatar_x'))
        if kinds.count('nested-lst') != 3:
            ctx.deviation('nested-delete-no-notify', {'class': 'nested-delete-no-notify'},
                          dict(kind='direct', clause='nested-change subscribers are called for every nested change under their path',
                               observed=[c for c in calls if c[0] == 'nested-lst'],
                               how='three nested changes of Thing.lst (set, slice delete, set-to-None with empty rest)'))
        if kinds.count('nested-ls-prefix') != 0:
            ctx.deviation('nested-substring-match', {'class': 'nested-substring-match'},
                          dict(kind='direct', clause='nested-change subscribers are called for changes under THEIR path',
                               observed=kinds.count('nested-ls-prefix'), how='a subscription on path "ls" fires for changes of "lst" (substring test)'))
    finally:
        shutil.rmtree(d, ignore_errors=True)


def surviving_subscribers(ctx):
    """a subscription made through the public API stays in force while players for OTHER versions and games are constructed (each constructs its own
    controller, which subscribes its own keys): every later packet with a subscriber still invokes it exactly once"""
    from replay_unpack.core.entity import Entity
    from replay_unpack.clients import wows, wot
    from tools import battle
    rng = ctx.rng
    ds = synth.sweep_defset(elem=('u', 1))
    ds['ents']['Thing']['client_methods'] = [('named', [('amount', ('u', 2)), ('who', ('u', 1))], None, True)]
    d = synth.write_defset(ds, rng)
    tabs = (Entity._methods_subscriptions, Entity._properties_subscriptions, Entity._nested_properties_subscription)
    saved = [dict(t) for t in tabs]
    try:
        pl = synth.make_player('wows', d); view = synth.LibView(pl)
        calls = []
        Entity.subscribe_method_call('Thing', 'named', lambda e, *a, **kw: calls.append(('named', a, tuple(sorted(kw.items())))))
        Entity.subscribe_property_change('Thing', 'pad', lambda e, v: calls.append(('pad', v)))
        wv = battle.wows_versions(); built = []
        for v in ('12_6_0', '0_10_0', '12_6_0', '13_2_0'):
            if v in wv: wows.ReplayPlayer(v.split('_')); built.append('wows ' + v)
        try: wot.ReplayPlayer('1.8.0'); built.append('wot 1.8.0')
        except Exception: pass
        import gc; gc.collect()
        h = synth.History(rng, 'wows', view); h.base_player()
        eid = 500; names = [n for n, _ in view.exposed('Thing')]; ms = [m[0] for m in view.methods('Thing')]
        h.emit('EntityCreate', struct.pack('<ihii', eid, view.type_index('Thing'), 3, 4) + bytes(24) + synth.binstream(b'\x00'), 'create')
        for k in range(3):
            h.emit('EntityMethod', struct.pack('<II', eid, ms.index('named')) + synth.binstream(struct.pack('<HB', 100 + k, k)), 'call')
            h.emit('EntityProperty', struct.pack('<II', eid, names.index('pad')) + synth.binstream(struct.pack('<I', k)), 'update')
        with common.time_limit(20): pl.play(h.stream(), True)
        want = []
        for k in range(3): want += [('named', (), (('amount', 100 + k), ('who', k))), ('pad', k)]
        ctx.case(('surviving-subscriber',), n=6); ctx.count('surviving-subscriber-packets', 6)
        if calls != want:
            ctx.violation(dict(kind='direct', clause='every packet with a subscriber invokes it exactly once (a subscription made earlier in the process stays in force)',
                               players_constructed_between_subscribe_and_play=built, expected_calls=repr(want)[:400], got_calls=repr(calls)[:400],
                               how='Entity.subscribe_method_call / subscribe_property_change for a synthetic entity type; construct the listed real players; then play three calls and three updates on a player built BEFORE them'))
    finally:
        for t, sv in zip(tabs, saved): t.clear(); t.update(sv)
        shutil.rmtree(d, ignore_errors=True)


def raising_subscribers(ctx):
    """subscribers that ACCEPT the call and then fail inside their own body (TypeError, KeyError, ValueError): however the library treats the
    failure (lenient mode goes on with the next packet), each packet still invokes each subscriber exactly once"""
    from replay_unpack.core.entity import Entity
    rng = ctx.rng
    ds = synth.sweep_defset(elem=('u', 1))
    ds['ents']['Thing']['client_methods'] = [('named', [('amount', ('u', 2)), ('who', ('u', 1))], None, True), ('plain', [(None, ('u', 2)), (None, ('u', 1))], None, False)]
    d = synth.write_defset(ds, rng)
    try:
        for exc in (TypeError, KeyError, ValueError):
            pl = synth.make_player('wows', d); view = synth.LibView(pl)
            saved = [dict(t) for t in (Entity._methods_subscriptions, Entity._properties_subscriptions, Entity._nested_properties_subscription)]
            for t in (Entity._methods_subscriptions, Entity._properties_subscriptions, Entity._nested_properties_subscription): t.clear()
            calls = []
            def boom(tag):
                def cb(entity, *a, **kw):
                    calls.append((tag, a, tuple(sorted(kw.items()))))
                    if exc is TypeError: None['x']
                    raise exc('inside the subscriber')
                return cb
            try:
                Entity.subscribe_method_call('Thing', 'named', boom('named'))
                Entity.subscribe_method_call('Thing', 'plain', boom('plain'))
                Entity.subscribe_property_change('Thing', 'pad', boom('pad'))
                h = synth.History(rng, 'wows', view)
                h.base_player()
                eid = 500; props = view.exposed('Thing'); names = [n for n, _ in props]; ms = [m[0] for m in view.methods('Thing')]
                h.emit('EntityCreate', struct.pack('<ihii', eid, view.type_index('Thing'), 3, 4) + bytes(24) + synth.binstream(b'\x00'), 'create')
                for k in range(5):
                    h.emit('EntityMethod', struct.pack('<II', eid, ms.index('named')) + synth.binstream(struct.pack('<HB', 100 + k, k)), 'call')
                    h.emit('EntityMethod', struct.pack('<II', eid, ms.index('plain')) + synth.binstream(struct.pack('<HB', 200 + k, k)), 'call')
                    h.emit('EntityProperty', struct.pack('<II', eid, names.index('pad')) + synth.binstream(struct.pack('<I', k)), 'update')
                with common.time_limit(20): pl.play(h.stream(), False)
            finally:
                for t, sv in zip((Entity._methods_subscriptions, Entity._properties_subscriptions, Entity._nested_properties_subscription), saved):
                    t.clear(); t.update(sv)
            ctx.case(('raising-subscriber', exc.__name__), n=15)
            want = []
            for k in range(5): want += [('named', (), (('amount', 100 + k), ('who', k))), ('plain', (200 + k, k), ()), ('pad', (k,), ())]
            stored = None
            try: stored = pl._battle_controller.entities[eid].properties['client'].get('pad')
            except Exception: pass
            if stored != 4:
                ctx.violation(dict(kind='direct', clause='client property values equal the most recent value sent (also when a subscriber of that property fails)', subscriber_raises=exc.__name__,
                                   expected=4, stored=repr(stored), how='five updates of Thing.pad (0..4) with a subscriber that raises, lenient play: the entity must hold the last value'))
                return
            if calls != want:
                ctx.violation(dict(kind='direct', clause='a subscriber is invoked exactly once per matching packet (also when it fails inside its own body)', subscriber_raises=exc.__name__,
                                   expected=[repr(x) for x in want[:6]], observed=[repr(x) for x in calls[:8]], expected_calls=len(want), observed_calls=len(calls),
                                   how='subscribers on Thing.named (named arguments), Thing.plain (positional) and Thing.pad that record the call and then raise; 5 packets each, lenient play'))
                return
    finally:
        shutil.rmtree(d, ignore_errors=True)


def late_subscription(ctx):
    """the public API allows subscribing at any time: play the first part of a stream (entities get created), subscribe, play the rest;
    also re-subscribe a key after the entity exists.  Each later event must reach the subscriber of that moment exactly once."""
    from replay_unpack.core.entity import Entity
    rng = ctx.rng
    ds = synth.sweep_defset(elem=('u', 1))
    ds['ents']['Thing']['client_methods'] = [('onHit', [(None, ('u', 2)), (None, ('string',))], None, False), ('ping', [], None, False)]
    d = synth.write_defset(ds, rng)
    try:
        for dialect in ('wows', 'wows126', 'wot'):
            pl = synth.make_player(dialect, d); view = synth.LibView(pl)
            saved = [dict(t) for t in (Entity._methods_subscriptions, Entity._properties_subscriptions, Entity._nested_properties_subscription)]
            for t in (Entity._methods_subscriptions, Entity._properties_subscriptions, Entity._nested_properties_subscription): t.clear()
            calls = []
            try:
                h = synth.History(rng, dialect, view, fault_rate=0.0)
                h.base_player(); eid = 600
                props = view.exposed('Thing'); names = [n for n, _ in props]; pi = names.index('pad')
                ms = view.methods('Thing')
                head = struct.pack('<ihii', eid, view.type_index('Thing'), 3, 4) + bytes(24) + (bytes(4) if dialect == 'wot' else b'')
                h.emit('EntityCreate', head + synth.binstream(b'\x00'), 'create')
                part1 = h.stream(); n1 = len(h.packets)
                h.emit('EntityProperty', struct.pack('<II', eid, pi) + synth.binstream(struct.pack('<I', 5)), 'update')
                if ms:
                    mname, margs, mhdr = ms[0]
                    data = b''.join(gen_types.wire_of(t, gen_types.ValueGen(rng, allow_big=False).struct(t), max(mhdr, 0)) for a, t in margs)
                    h.emit('EntityMethod', struct.pack('<II', eid, 0) + synth.binstream(data), 'call')
                part2 = h.stream(h.packets[n1:]); n2 = len(h.packets)
                h.emit('EntityProperty', struct.pack('<II', eid, pi) + synth.binstream(struct.pack('<I', 6)), 'update')
                part3 = h.stream(h.packets[n2:])
                pl.play(part1, True)
                Entity.subscribe_property_change('Thing', 'pad', lambda e, v: calls.append(('p-late', v)))
                if ms: Entity.subscribe_method_call('Thing', ms[0][0], lambda e, *a, **kw: calls.append(('m-late',)))
                pl.play(part2, True)
                Entity.subscribe_property_change('Thing', 'pad', lambda e, v: calls.append(('p-later', v)))
                pl.play(part3, True)
            finally:
                for t, sv in zip((Entity._methods_subscriptions, Entity._properties_subscriptions, Entity._nested_properties_subscription), saved):
                    t.clear(); t.update(sv)
            ctx.case(('late-subscription', dialect), n=3)
            want = [('p-late', 5)] + ([('m-late',)] if ms else []) + [('p-later', 6)]
            got = [c for c in calls if c[0] != 'p-late' or c[1] != 6]       # (the first subscriber is REPLACED by the second: listed finding C07-a)
            if got != want:
                ctx.violation(dict(kind='late-subscription', dialect=dialect, expected=want, implementation=calls,
                                   how='play(create packets); Entity.subscribe_*(...); play(update + call); re-subscribe; play(update): tools/c07.late_subscription'))
    finally:
        shutil.rmtree(d, ignore_errors=True)


def run(ctx):
    ctx.rule = ('generated histories x generated registrations (all subsets of keys, 1..3 registrations per key, nested paths) through the '
                'public subscribe API; callback traces (key, entity id, positional and keyword values) compared entry by entry with the '
                'extracted model; garbage payloads on unsubscribed methods; non-trivial = every history; distinct by (dialect, stream, registrations)')
    ctx.coq_props('Props/C07.v')
    gen_const.instance_obligations(ctx, 'C07', which=('tables',))
    q = ctx.tier == 'quick'
    worldcheck.run_histories(ctx, 'C07', n_defsets=12 if q else 50, hist_per_set=3, sizes=[80, 250], dialects=('wows', 'wows126', 'wot'), regs_mode='single')
    worldcheck.run_histories(ctx, 'C07', n_defsets=10 if q else 40, hist_per_set=3, sizes=[80, 250], dialects=('wows', 'wot', 'wows126'), regs_mode='multi')
    # strict mode, no other faults: a garbage payload on a method nobody subscribed to (even when another entity type has a subscribed
    # method of the same name) must not stop the parse, one on a subscribed method must
    worldcheck.run_histories(ctx, 'C07', n_defsets=10 if q else 40, hist_per_set=3, sizes=[60, 150], dialects=('wows', 'wot', 'wows126'), regs_mode='single',
                             fault_rate=0.0, strict_too=True, garbage_w=12)
    direct_tests(ctx)
    raising_subscribers(ctx)
    surviving_subscribers(ctx)
    late_subscription(ctx)
    recordings.payload_check(ctx, 'C07', quick_n=3)


def replay(ctx, path): return worldcheck.replay(ctx, path, 'C07')
