"""Translator gen_defs: a definitions directory (bundled or generated) -> raw syntax tree -> case file for modelrun.
Only the XML -> tree step uses lxml (with the library's own parser options); everything after it is model."""
import os
from lxml import etree


def raw(el):
    """element -> (tag, stripped text or None, [children])"""
    return (el.tag, (el.text or '').strip() if el.text is not None else None, [raw(c) for c in el])


def child(node, tag):
    for c in node[2]:
        if c[0] == tag: return c
    return None


def load_raw(base):
    p = lambda *a: os.path.join(base, *a)
    def parse(path, recover=False):
        if recover:
            return etree.parse(path, parser=etree.XMLParser(remove_comments=True, recover=True)).getroot()
        return etree.parse(path, parser=etree.XMLParser(remove_comments=True)).getroot()
    alias = []
    with open(p('scripts/entity_defs/alias.xml'), 'rb') as f:
        alias += [raw(c) for c in etree.parse(f, parser=etree.XMLParser(encoding='utf8', remove_comments=True)).getroot()]
    if os.path.exists(p('scripts/entity_defs/alias_ext.xml')):
        with open(p('scripts/entity_defs/alias_ext.xml'), 'rb') as f:
            alias += [raw(c) for c in etree.parse(f, parser=etree.XMLParser(encoding='utf8', remove_comments=True)).getroot()]
    root = raw(parse(p('scripts/entities.xml')))
    cse = child(root, 'ClientServerEntities')
    ents = [c[0] for c in (cse if cse is not None else root)[2]]
    defs = {}
    for e in ents:
        defs[e] = raw(parse(p('scripts/entity_defs', e + '.def')))
    ifaces = {}
    def need(node):
        imp = child(node, 'Implements')
        if imp is None: return
        for it in imp[2]:
            n = it[1]
            if n not in ifaces:
                ifaces[n] = raw(parse(p('scripts/entity_defs/interfaces', n + '.def'), recover=True))
                need(ifaces[n])
    for d in defs.values(): need(d)
    return dict(alias=alias, entities=ents, defs=defs, ifaces=ifaces)


def hx(s): return s.encode('utf-8').hex() if s else ''


def emit_node(n, out):
    tag, text, kids = n
    out.append('N %s %s %d' % (hx(tag) or '-', '-' if text is None else (hx(text) if text else '='), len(kids)))
    for k in kids: emit_node(k, out)


def case_lines(dialect, rd, subs=(), psubs=(), nsubs=()):
    out = [dialect, str(len(rd['alias']))]
    for a in rd['alias']: emit_node(a, out)
    out.append(str(len(rd['ifaces'])))
    for name, nd in rd['ifaces'].items(): out.append(hx(name)); emit_node(nd, out)
    out.append(str(len(rd['entities'])))
    for name in rd['entities']: out.append(hx(name)); emit_node(rd['defs'][name], out)
    for ss in (subs, psubs, nsubs):
        out.append(str(len(ss)))
        for e, k in ss: out.append('%s %s' % (hx(e), hx(k)))
    return out


def write_case(path, dialect, rd, subs=(), psubs=(), nsubs=()):
    with open(path, 'w') as f: f.write('\n'.join(case_lines(dialect, rd, subs, psubs, nsubs)) + '\n')
