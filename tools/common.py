"""Shared machinery of the checks: paths, builds, Coq obligations, evidence, violations, known findings."""
import os, sys, json, time, subprocess, re, random, fcntl, hashlib, shutil, tempfile, glob

VERIF = os.path.dirname(os.path.dirname(os.path.abspath(__file__)))
REPO = os.environ.get('VERIF_REPO', '/repo')
THEORIES = os.path.join(VERIF, 'coq', 'theories')
BUILD = os.path.join(VERIF, 'build')
MODELRUN = os.path.join(VERIF, 'ocaml', 'modelrun')
PY = '/venv/bin/python'
RECORDINGS = os.path.join(REPO, 'tests', 'data', 'random_replays')

LEVELS = {'C14': 'other', 'C15': 'other', 'C18': 'other', 'C19': 'other'}

FORBIDDEN = re.compile(r'\b(Admitted|admit|Axiom|Parameter|Conjecture|Unset Guard|bypass_check|Admit Obligations|type-in-type|impredicative-set)\b')


class HangError(BaseException):
    """raised by the watchdog (SIGALRM) inside library code that does not return; a BaseException so that the library's own
    `except Exception` clauses (lenient play) cannot swallow it"""


def _on_alarm(signum, frame): raise HangError('no progress within the time limit')


class time_limit:
    """with time_limit(seconds): <call into the library>  - HangError if it does not return in time; afterwards the general per-case
    watchdog (armed by Ctx.case) is re-armed"""
    GENERAL = 900
    def __init__(self, seconds): self.seconds = seconds
    def __enter__(self):
        import signal
        try:
            signal.signal(signal.SIGALRM, _on_alarm); signal.setitimer(signal.ITIMER_REAL, self.seconds)
        except ValueError: pass          # not the main thread
        return self
    def __exit__(self, *a):
        import signal
        try: signal.setitimer(signal.ITIMER_REAL, time_limit.GENERAL)
        except ValueError: pass
        return False


class debug_logging:
    """with debug_logging(): every log record of the library is really formatted (root logger at DEBUG with a handler that renders the message
    into a buffer), as with `--log_level DEBUG`; the checks otherwise run with logging disabled.  Logging must not change what is parsed."""
    def __enter__(self):
        import logging, io
        self.buf = io.StringIO(); self.h = logging.StreamHandler(self.buf); self.h.setLevel(logging.DEBUG)
        self.root = logging.getLogger(); self.old_level = self.root.level; self.old_disable = logging.root.manager.disable
        logging.disable(logging.NOTSET); self.root.setLevel(logging.DEBUG); self.root.addHandler(self.h)
        return self
    def __exit__(self, *a):
        import logging
        self.root.removeHandler(self.h); self.root.setLevel(self.old_level); logging.disable(self.old_disable)
        return False


def sh(cmd, timeout=600, cwd=None, env=None, input=None):
    """run a shell command; returns (rc, stdout+stderr)"""
    e = dict(os.environ)
    if env: e.update(env)
    try:
        p = subprocess.run(cmd, shell=isinstance(cmd, str), cwd=cwd, env=e, input=input,
                           stdout=subprocess.PIPE, stderr=subprocess.STDOUT, timeout=timeout, text=True)
        return p.returncode, p.stdout
    except subprocess.TimeoutExpired as ex:
        out = ex.stdout or ''
        if isinstance(out, bytes): out = out.decode('utf-8', 'replace')
        return 124, out + '\nTIMEOUT after %ss' % timeout


class Lock:
    def __init__(self, name):
        os.makedirs(BUILD, exist_ok=True)
        self.path = os.path.join(BUILD, name + '.lock')
    def __enter__(self):
        self.f = open(self.path, 'w'); fcntl.flock(self.f, fcntl.LOCK_EX); return self
    def __exit__(self, *a):
        fcntl.flock(self.f, fcntl.LOCK_UN); self.f.close()


def ensure_built():
    """static part: full .vo build of the Coq development, extraction, modelrun. Incremental (make)."""
    with Lock('static'):
        rc, out = sh(os.path.join(VERIF, 'setup.sh') + ' --incremental', timeout=1800, cwd=VERIF)
        if rc != 0:
            raise RuntimeError('static build failed:\n' + out[-4000:])


def source_hygiene():
    """grep the development for anything that would declare an axiom or switch off a kernel check"""
    bad = []
    for f in sorted(glob.glob(os.path.join(THEORIES, '**', '*.v'), recursive=True)):
        txt = open(f).read()
        txt = re.sub(r'\(\*.*?\*\)', '', txt, flags=re.S)
        for m in FORBIDDEN.finditer(txt):
            bad.append('%s: %s' % (os.path.relpath(f, VERIF), m.group(0)))
    return bad


THEOREM_RE = re.compile(r'^(Theorem|Example|Corollary)\s+([A-Za-z0-9_\']+)', re.M)


def coqc(vfile, extra_q=(), timeout=900, outdir=None):
    """compile one .v file against the static development; returns (ok, output)"""
    args = ['-Q', THEORIES, 'RU']
    for d, name in extra_q: args += ['-Q', d, name]
    if outdir:
        os.makedirs(outdir, exist_ok=True)
        args += ['-o', os.path.join(outdir, os.path.basename(vfile) + 'o')]
    cmd = 'ulimit -s unlimited; exec timeout %d coqc %s %s' % (timeout, ' '.join("'%s'" % a for a in args), "'%s'" % vfile)
    rc, out = sh(['bash', '-c', cmd], timeout=timeout + 30, cwd=os.path.dirname(vfile))
    return rc == 0, out


def parse_assumptions(out):
    """split coqc output into the answers of the Print Assumptions commands"""
    res = []
    cur = None
    for line in out.split('\n'):
        if line.startswith('Closed under the global context'):
            res.append('closed'); cur = None
        elif line.startswith('Axioms:'):
            cur = []; res.append(cur)
        elif cur is not None:
            if line.startswith(' ') or ':' in line: cur.append(line.strip())
            else: cur = None
    return res


ALLOWED_AXIOMS = (
    # axioms the standard library itself declares; each is named in DESIGN.md section 7
    'ClassicalDedekindReals.sig_forall_dec', 'ClassicalDedekindReals.sig_not_dec',
    'FunctionalExtensionality.functional_extensionality_dep',
)


class Ctx:
    def __init__(self, pid, tier, seed, level):
        self.pid, self.tier, self.seed, self.level = pid, tier, seed, level
        self.rng = random.Random(seed)
        self.t0 = time.time()
        self.obligations = []          # (name, ok, detail)
        self.assumption_reports = []
        self.evaluations = 0
        self.nontrivial = set()
        self.samples = []
        self.violations = []           # (replay path, extra words)
        self.known_hits = []
        self.notes = []
        self.extra = {}
        self.assumptions = []
        self.traces_validated = 0
        self.rule = ''
        self.trusted = []
        self.checker_cmds = []
        self.known = load_known(pid)
        self.input_dist = {}
        os.makedirs(os.path.join(VERIF, 'evidence', 'replays'), exist_ok=True)
        # replay files of an earlier run of THIS check describe an earlier tree: remove them, so that what is there belongs to this run
        import glob as _g
        for f in _g.glob(os.path.join(VERIF, 'evidence', 'replays', '%s-*' % pid)):
            try: os.unlink(f)
            except OSError: pass

    # ---- counting ----
    def count(self, key, n=1):
        self.input_dist[key] = self.input_dist.get(key, 0) + n
    def case(self, nontrivial_key=None, n=1):
        try:       # the general watchdog: a check that makes no progress for GENERAL seconds is interrupted (HangError) instead of hanging
            import signal
            signal.signal(signal.SIGALRM, _on_alarm); signal.setitimer(signal.ITIMER_REAL, time_limit.GENERAL)
        except ValueError: pass
        self.evaluations += n
        if nontrivial_key is not None: self.nontrivial.add(nontrivial_key)
    def sample(self, s, limit=6):
        if len(self.samples) < limit: self.samples.append(s)

    # ---- Coq obligations ----
    def coq_props(self, relpath, extra_q=(), timeout=900):
        """re-check a Props file: every Theorem/Example in it is an obligation of this run"""
        vfile = relpath if os.path.isabs(relpath) else os.path.join(THEORIES, relpath)
        src = open(vfile).read()
        names = [m.group(2) for m in THEOREM_RE.finditer(re.sub(r'\(\*.*?\*\)', '', src, flags=re.S))]
        outdir = os.path.join(BUILD, 'props', self.pid)
        ok, out = coqc(vfile, extra_q=extra_q, timeout=timeout, outdir=outdir)
        self.checker_cmds.append('coqc -Q coq/theories RU %s' % os.path.relpath(vfile, VERIF))
        failed_at = None
        if not ok:
            m = re.search(r'line (\d+), characters', out)
            line = int(m.group(1)) if m else 0
            # the failing theorem is the last one that starts at or before that line
            pos = 0; failed_at = names[0] if names else '?'
            for mm in THEOREM_RE.finditer(src):
                ln = src.count('\n', 0, mm.start()) + 1
                if ln <= line: failed_at = mm.group(2)
        seen_fail = False
        for n in names:
            if failed_at is not None and n == failed_at: seen_fail = True
            self.obligations.append((os.path.basename(vfile) + ':' + n, not seen_fail, '' if not seen_fail else out[-600:]))
        reps = parse_assumptions(out)
        for r in reps:
            if r == 'closed': continue
            for ax in r:
                name = ax.split(':')[0].strip()
                if name and not any(name.endswith(a) or a.endswith(name) for a in ALLOWED_AXIOMS):
                    self.obligations.append(('assumptions:' + name, False, 'axiom not in the allow-list'))
        self.assumption_reports.append({'file': os.path.relpath(vfile, VERIF),
                                        'print_assumptions': ['Closed under the global context' if r == 'closed' else r for r in reps]})
        return ok, out

    def obligation(self, name, ok, detail=''):
        self.obligations.append((name, bool(ok), detail))

    def broken_obligations(self):
        return [(n, d) for n, ok, d in self.obligations if not ok]

    # ---- violations ----
    def violation(self, replay_obj, tag=None, no_input=False):
        """write a replay file and remember the violation"""
        if len(self.violations) >= 8:
            # enough replays to act on: further violations of this run are counted, not written out one by one
            self.count('violations-beyond-the-first-8'); return self.violations[-1][0]
        n = len(self.violations) + 1
        path = os.path.join(VERIF, 'evidence', 'replays', '%s-%d.json' % (self.pid, n))
        replay_obj = dict(replay_obj)
        replay_obj.setdefault('property', self.pid)
        replay_obj.setdefault('seed', self.seed)
        replay_obj.setdefault('replay_cmd', './check %s --replay %s' % (self.pid, os.path.relpath(path, VERIF)))
        with open(path, 'w') as f: json.dump(replay_obj, f, indent=1, default=str)
        self.violations.append((path, no_input))
        return path

    def deviation(self, finding_class, witness, replay_obj):
        """a concrete deviation from the property: known finding (listed) or violation (not listed)"""
        for k in self.known:
            if k.get('status') == 'open' and k['class'] == finding_class and known_matches(k, witness):
                key = k['id']
                if key not in [h[0] for h in self.known_hits]:
                    self.known_hits.append((key, k['what']))
                return 'known'
        self.violation(dict(replay_obj, finding_class=finding_class, witness=witness))
        return 'violation'

    # ---- finish ----
    def finish(self):
        try:
            import signal; signal.setitimer(signal.ITIMER_REAL, 0)
        except ValueError: pass
        wall = time.time() - self.t0
        broken = self.broken_obligations()
        if broken and not self.violations:
            # the tie or a theorem no longer checks and the search found no failing input
            self.violation({'kind': 'broken-obligation', 'no_failing_input_found': True,
                            'broken': [{'name': n, 'detail': d} for n, d in broken],
                            'note': 'a theorem / instance theorem / translator / correspondence no longer checks; the search '
                                    'of this tier found no input on which the property itself fails'}, no_input=True)
        cov = {
            'obligations': len(self.obligations),
            'discharged': sum(1 for _, ok, _ in self.obligations if ok),
            'obligation_names': [n for n, _, _ in self.obligations],
            'checker_cmd': '; '.join(self.checker_cmds) or 'coqc (see setup.sh)',
            'trusted_base': TRUSTED_BASE + self.trusted,
            'evaluations': self.evaluations,
            'distinct_nontrivial': len(self.nontrivial),
            'rule': self.rule,
            'samples': self.samples or ['(none)'],
            'traces_validated_against_impl': self.traces_validated,
            'input_distribution': self.input_dist,
            'print_assumptions': self.assumption_reports,
            'known_findings_reproduced': [k for k, _ in self.known_hits],
            'explanation': self.extra.pop('explanation', ''),
        }
        cov.update(self.extra)
        if not cov['explanation']: del cov['explanation']
        ev = {'property_id': self.pid, 'tier': self.tier, 'seed': self.seed, 'level': self.level,
              'coverage': cov, 'assumptions': self.assumptions, 'wall_s': round(wall, 2),
              'violations': len(self.violations), 'notes': self.notes}
        os.makedirs(os.path.join(VERIF, 'evidence'), exist_ok=True)
        with open(os.path.join(VERIF, 'evidence', self.pid + '.json'), 'w') as f:
            json.dump(ev, f, indent=1, default=str)
        for key, what in self.known_hits:
            print('KNOWN-FINDING: property=%s %s [%s]' % (self.pid, what, key))
        for path, no_input in self.violations:
            print('VIOLATION property=%s replay=%s%s' % (self.pid, path, ' no-failing-input-found' if no_input else ''))
        sys.stdout.flush()
        return 1 if self.violations else 0


TRUSTED_BASE = [
    'Coq 8.16.1 kernel (coqc; vm_compute used, native_compute not used)',
    'hand-written Gallina model tied to /repo by generated-table instance theorems and by the differential run against the implementation',
    'extraction: ExtrOcamlBasic only (bool, option, unit, list, prod, sumbool, sumor mapped to OCaml; N/Z/positive/nat/byte/string stay inductive); OCaml 4.13.1',
    'ocaml/driver.ml (line protocol around the extracted code)',
    'tools/*.py (translators, generators, canonicaliser, classifier predicates of known findings)',
    'CPython 3.12, struct, io.BytesIO, zlib, json, lxml, pickle as oracles on the implementation side',
]


def load_known(pid):
    p = os.path.join(VERIF, 'known_findings.json')
    if not os.path.exists(p): return []
    data = json.load(open(p))
    return [k for k in data.get('findings', []) if k['property'] == pid]


def known_matches(k, witness):
    """a listed finding is identified by its class plus the witness keys it pins down"""
    w = k.get('witness', {})
    for key, val in w.items():
        if key not in witness: return False
        if isinstance(val, list):
            if witness[key] not in val: return False
        elif witness[key] != val: return False
    return True


def hexs(b): return bytes(b).hex()
