def pi_hex_words(nwords):
    bits = nwords*32 + 64
    one = 1 << bits
    def arctan_inv(x):
        total = term = one // x
        x2 = x*x; n = 1; sign = -1
        while term:
            term //= x2
            n += 2
            total += sign * (term // n)
            sign = -sign
        return total
    pi = 4*(4*arctan_inv(5) - arctan_inv(239))
    frac = pi - 3*one
    words=[]
    for i in range(nwords):
        frac <<= 32
        words.append(frac >> bits); frac &= (one-1)
    return words
