"""Three-way check on synthetic worlds: library vs extracted model (correspondence) and library vs SPEC state (property).
Shared by C02, C05, C06, C07, C08, C12; each property looks at its own slice of the observations."""
import os, json, shutil, random, tempfile
from tools import common, synth, recordings, impl

FOCUS = {
    'C04': dict(final=('E ', 'P client', 'P base'), trace=(), spec=True),
    'C05': dict(final=('E ', 'P client', 'P base', 'PLAYER'), trace=(), spec=True),
    'C06': dict(final=('E ', 'P client'), trace=('CN',), spec=True),
    'C07': dict(final=(), trace=('C', 'CP', 'CN'), spec=False),
    'C08': dict(final=('E ', 'V '), trace=(), spec=True),
    'C12': dict(final=('E ', 'P ', 'V ', 'PLAYER', 'MAP'), trace=('C', 'CP', 'CN'), spec=False),
    'C02': dict(final=('E ', 'P ', 'V ', 'PLAYER', 'MAP'), trace=('C', 'CP', 'CN'), spec=False),
}


def read_defs_dir(d):
    out = {}
    for root, _, files in os.walk(d):
        for f in files:
            p = os.path.join(root, f); out[os.path.relpath(p, d)] = open(p).read()
    return out


def write_defs_dir(files, base=None):
    base = base or tempfile.mkdtemp(prefix='verif-defs-')
    for rel, txt in files.items():
        p = os.path.join(base, rel); os.makedirs(os.path.dirname(p), exist_ok=True)
        open(p, 'w').write(txt)
    return base


def observe(dialect, d, stream, regs=None, strict=False):
    lib, subs = synth.run_library(dialect, d, stream, strict=strict, regs=regs)
    mod = synth.run_model(dialect, d, stream, subs, 'strict' if strict else 'stream')
    return lib, mod


def select(lines, focus):
    tr, out, fin = synth.split(lines)
    tr = [l for l in tr if l.split(' ')[0] in focus['trace']]
    fin = [l for l in fin if l.startswith(focus['final'])] if focus['final'] else []
    return tr, out, fin


def differs(dialect, d, packets, focus, regs=None, strict=False):
    st = b''.join(synth.frame(t, tb, pl) for t, tb, pl, _ in packets)
    lib, mod = observe(dialect, d, st, regs, strict)
    return select(lib, focus) != select(mod, focus)


def shrink(dialect, d, packets, focus, regs=None, strict=False, budget=80):
    """delta debugging over the packet list, keeping 'library and model disagree on the focus'"""
    cur = list(packets); n = 2; used = 0
    while len(cur) >= 2 and used < budget:
        chunk = max(1, len(cur) // n); removed = False
        for i in range(0, len(cur), chunk):
            cand = cur[:i] + cur[i + chunk:]
            used += 1
            if cand and differs(dialect, d, cand, focus, regs, strict):
                cur = cand; n = max(n - 1, 2); removed = True; break
            if used >= budget: break
        if not removed:
            if chunk == 1: break
            n = min(len(cur), n * 2)
    return cur


def report(ctx, pid, kind, dialect, d, packets, focus, regs, strict, lib_sel, other_sel, other_name, shrinkable=True):
    if shrinkable:
        # (a play that does not return costs its whole time limit per attempt: shrink with a small budget then)
        hang = any('HANG' in l for l in (lib_sel[1] if lib_sel and len(lib_sel) > 1 else []))
        try: packets = shrink(dialect, d, packets, focus, regs, strict, budget=10 if hang else 80)
        except Exception: pass
    st = b''.join(synth.frame(t, tb, pl) for t, tb, pl, _ in packets)
    lib, mod = observe(dialect, d, st, regs, strict)
    ls, ms = select(lib, focus), select(mod, focus)
    diff = None
    for a, b, nm in zip(ls, ms, ('trace', 'outcome', 'final')):
        fd = recordings.first_diff(a, b)
        if fd: diff = dict(part=nm, index=fd[0], implementation=fd[1][:400], expected=fd[2][:400]); break
    return ctx.violation(dict(kind=kind, dialect=dialect, strict=strict, defs=read_defs_dir(d),
                              packets=[dict(type=t, time_bits=tb, payload=pl.hex(), label=lb) for t, tb, pl, lb in packets],
                              registrations=regs, first_difference=diff, compared_with=other_name,
                              how='./check %s --replay <this file>: writes the definitions to a scratch directory, plays the packets through '
                                  'the dialect player (tools/synth.run_library) and through the extracted model, prints both observations' % pid))


def gen_regs(rng, view, mode):
    """C07: subsets of keys, 1..3 subscribers per key, nested paths"""
    m, p, n = [], [], []
    for en in view.names:
        for name, args, hdr in view.methods(en):
            r = rng.random()
            if r < 0.55: m.append((en, name))
        for name, t in view.exposed(en):
            if rng.random() < 0.6: p.append((en, name))
            if rng.random() < 0.5: n.append((en, name))
            if t[0] == 'dict' and rng.random() < 0.5 and t[1]: n.append((en, name + '.' + t[1][0][0]))
            if t[0] == 'array' and rng.random() < 0.6: n.append((en, name + '.' + str(rng.randrange(0, 3))))          # a path THROUGH a list index
            if t[0] == 'array' and t[1][0] == 'dict' and t[1][1] and rng.random() < 0.6: n.append((en, '%s.%d.%s' % (name, rng.randrange(0, 2), t[1][1][0][0])))
    rng.shuffle(m); rng.shuffle(p); rng.shuffle(n)
    if mode == 'multi':
        # register some keys two or three times (the property: EVERY callback registered for a key is invoked)
        for lst in (m, p, n):
            for k in list(lst):
                if rng.random() < 0.3: lst.insert(rng.randrange(len(lst) + 1), k)
                if rng.random() < 0.1: lst.append(k)
    return m, p, n


def run_histories(ctx, pid, n_defsets, hist_per_set, sizes, dialects=('wows', 'wows126', 'wot', 'wowp'), fault_rate=0.08,
                  regs_mode=None, strict_too=False, garbage_w=2):
    focus = FOCUS[pid]
    rng = ctx.rng
    corr_bad = None; spec_bad = 0
    for k in range(n_defsets):
        ds = synth.gen_defset(rng, tie_heavy=(k % 5 == 4))
        d = synth.write_defset(ds, rng)
        try:
            for hh in range(hist_per_set):
                dialect = dialects[(k * hist_per_set + hh) % len(dialects)]
                pl = synth.make_player(dialect, d)
                view = synth.LibView(pl)
                h = synth.History(rng, dialect, view, fault_rate=fault_rate, garbage_w=garbage_w).run(rng.choice(sizes))
                regs = gen_regs(rng, view, regs_mode) if regs_mode else None
                st = h.stream()
                for strict in ([False, True] if strict_too else [False]):
                    lib, mod = observe(dialect, d, st, regs, strict)
                    ls, ms = select(lib, focus), select(mod, focus)
                    ctx.case((dialect, len(h.packets), hash(st), strict))
                    ctx.traces_validated += 1
                    for lb, c in h.labels.items(): ctx.count('packet:' + lb, c)
                    ctx.count('dialect:' + dialect)
                    if len(ctx.samples) < 2:
                        ctx.sample(dict(dialect=dialect, packets=[(t, lb, pl.hex()[:60]) for t, tb, pl, lb in h.packets[:6]],
                                        observed=(ls[0][:3] + ls[2][:6])))
                    if ls != ms:
                        if corr_bad is None:
                            corr_bad = report(ctx, pid, 'library-vs-model', dialect, d, h.packets, focus, regs, strict, ls, ms, 'extracted model')
                        continue
                    if focus['spec'] and not strict and not h.spec_unsure:
                        spec = synth.sort_dump(h.spec_dump())
                        spec = [l for l in spec if l.startswith(focus['final'])]
                        if ls[2] != spec and spec_bad < 2:
                            spec_bad += 1
                            fd = recordings.first_diff(ls[2], spec)
                            ctx.violation(dict(kind='library-vs-spec', dialect=dialect, defs=read_defs_dir(d),
                                               packets=[dict(type=t, time_bits=tb, payload=pl.hex(), label=lb) for t, tb, pl, lb in h.packets],
                                               first_difference=dict(index=fd[0], implementation=fd[1][:400], expected=fd[2][:400]),
                                               compared_with='SPEC state (last writer wins / Python list and dict operations / pose rule)'))
        finally:
            shutil.rmtree(d, ignore_errors=True)
    ctx.obligation('correspondence: library = extracted model on generated histories (%s)' % pid, corr_bad is None,
                   '' if corr_bad is None else 'see ' + corr_bad)
    return corr_bad


def replay(ctx, path, pid):
    obj = json.load(open(path))
    if 'defs' not in obj:
        print(json.dumps(obj, indent=1)[:3000]); return 1
    d = write_defs_dir(obj['defs'])
    try:
        packets = [(p['type'], p['time_bits'], bytes.fromhex(p['payload']), p.get('label', '')) for p in obj['packets']]
        st = b''.join(synth.frame(t, tb, pl) for t, tb, pl, _ in packets)
        regs = obj.get('registrations')
        if regs is not None: regs = tuple([tuple(x) for x in r] for r in regs)
        lib, mod = observe(obj['dialect'], d, st, regs, obj.get('strict', False))
        focus = FOCUS[pid]
        ls, ms = select(lib, focus), select(mod, focus)
        same = ls == ms
        for a, b, nm in zip(ls, ms, ('trace', 'outcome', 'final')):
            fd = recordings.first_diff(a, b)
            if fd: print('%s differs at %d:\n  implementation: %s\n  model         : %s' % (nm, fd[0], fd[1][:300], fd[2][:300]))
        print('library and model agree' if same else 'library and model DISAGREE')
        return 0 if same else 1
    finally:
        shutil.rmtree(d, ignore_errors=True)


def logging_independence(ctx, pid):
    """what a parse returns must not depend on the log level: synthetic battles of the three games (creation packets that carry SEVERAL values
    in one stream, cell-player packets, nested updates, calls) parsed in strict mode with logging off and with every record really formatted"""
    import tempfile, random
    from tools import battle, digest
    tmp = tempfile.mkdtemp(prefix='verif-log-')
    try:
        wv = battle.wows_versions()
        files = []
        for v in (wv[-1], '13_2_0', wv[0]):
            if v in wv:
                p = os.path.join(tmp, 'w-%s.wowsreplay' % v); battle.write_wows(p, v, random.Random(11)); files.append(p)
        for game, v in (('wot', '1_10_0'), ('wowp', '2_1_17')):
            p = os.path.join(tmp, '%s.%s' % (v, {'wot': 'wotreplay', 'wowp': 'wowpreplay'}[game])); battle.write_simple(p, game, v, random.Random(12)); files.append(p)
        for f in files:
            for strict in (True, False):
                quiet = digest.digest_of(f, strict)
                with common.debug_logging(): loud = digest.digest_of(f, strict)
                ctx.case(('logging-independence', os.path.basename(f), strict)); ctx.count('logging:off-vs-debug')
                if quiet != loud:
                    keep = os.path.join(common.VERIF, 'evidence', 'replays', '%s-logging-%s' % (pid, os.path.basename(f))); shutil.copy(f, keep)
                    ctx.violation(dict(kind='result-depends-on-log-level', file=keep, strict=strict, digest_logging_off=quiet, digest_logging_debug=loud,
                                       how='tools.digest.digest_of(file, strict) with logging disabled and inside tools.common.debug_logging() (root logger at DEBUG with a formatting handler, as --log_level DEBUG sets up)'))
                    return
    finally:
        shutil.rmtree(tmp, ignore_errors=True)
