"""Translator gen_tree: the working tree (names only) as a directory trie + the keyword arguments of setup() (AST)."""
import os, ast
from tools import common
from tools.gen_const import GEN_DIR, coq_str

SKIP_DIRS = {'.git', '__pycache__', 'build', 'dist', '.pytest_cache'}


def scan_tree(root):
    """-> nested (name, None | [children]) sorted by name; only what setuptools can see from the project root"""
    def walk(d):
        out = []
        for n in sorted(os.listdir(d)):
            p = os.path.join(d, n)
            if os.path.isdir(p):
                if n in SKIP_DIRS or n.endswith('.egg-info'): continue
                out.append((n, walk(p)))
            elif os.path.isfile(p):
                if n.endswith(('.pyc', '.pyo')): continue
                out.append((n, None))
        return out
    return walk(root)


def setup_kwargs(root):
    """evaluate the literal keyword arguments of setup(); find_packages(include=...) is returned as the RAW include value"""
    tree = ast.parse(open(os.path.join(root, 'setup.py'), encoding='utf-8').read())
    res = dict(problems=[])
    calls = [n for n in ast.walk(tree) if isinstance(n, ast.Call) and isinstance(n.func, ast.Name) and n.func.id == 'setup']
    if len(calls) != 1: res['problems'].append('setup() call not found'); return res
    for kw in calls[0].keywords:
        if kw.arg == 'packages':
            v = kw.value
            if isinstance(v, ast.Call) and isinstance(v.func, ast.Name) and v.func.id == 'find_packages':
                inc = ('*',); exc = ()
                for k2 in v.keywords:
                    val = ast.literal_eval(k2.value)
                    if k2.arg == 'include': inc = tuple(val) if not isinstance(val, str) else tuple(val)      # a str is iterated character by character
                    elif k2.arg == 'exclude': exc = tuple(val)
                    else: res['problems'].append('find_packages(%s=...) not modelled' % k2.arg)
                if v.args: res['problems'].append('find_packages positional argument not modelled')
                if exc: res['problems'].append('find_packages(exclude=...) not modelled')
                res['include'] = list(inc)
            else: res['problems'].append('packages= is not a find_packages() call')
        elif kw.arg in ('package_data', 'scripts', 'include_package_data', 'py_modules', 'data_files'):
            try: res[kw.arg] = ast.literal_eval(kw.value)
            except Exception: res['problems'].append('%s is not a literal' % kw.arg)
    pd = res.get('package_data', {})
    if set(pd) - {''}: res['problems'].append('package_data for specific packages not modelled: %r' % sorted(pd))
    if res.get('py_modules') or res.get('data_files'): res['problems'].append('py_modules / data_files not modelled')
    return res


def tree_lines(t):
    out = []
    def go(nodes):
        for n, k in nodes:
            if k is None: out.append('F ' + n.encode().hex())
            else: out.append('D ' + n.encode().hex()); go(k); out.append('E')
    go(t); out.append('E')
    return out


def glob_components(pat): return pat.split('/')


def coq_tree(t):
    def go(nodes): return '[' + '; '.join('(%s, %s)' % (coq_str(n), 'File' if k is None else 'Dir ' + go(k)) for n, k in nodes) + ']'
    return 'Dir ' + go(t)
