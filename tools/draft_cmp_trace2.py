"""Subscribe recorders to every client method, every client property and a set of nested paths; compare traces (lenient)."""
import sys, os, glob, logging, time, subprocess, tempfile
sys.path.insert(0,'/repo'); sys.path.insert(0,'/root/scratch/proto'); sys.path.insert(0,'/root/scratch/draft')
logging.disable(logging.CRITICAL)
import defs_proto as P
import cmp_coq_lib as L
from replay_unpack.replay_reader import ReplayReader
from replay_unpack.core.entity import Entity
from replay_unpack.core.entity_def.data_types.nested_types import PyFixedDict, PyFixedList

def canon_obj(o):
    """canonical form of a live PyFixedDict/PyFixedList without a declared type: use the types they carry"""
    if isinstance(o, PyFixedDict): return '{' + ','.join('%s=%s' % (k, L.canon_t(o[k], t)) for k, t in o._attributes.items() if k in o) + '}'
    if isinstance(o, PyFixedList): return '[' + ','.join(L.canon_t(x, o._element_type) for x in o) + ']'
    return L.canon(o)

only = sys.argv[1:]
files = sorted(glob.glob('/repo/tests/data/random_replays/*/*replay'))
tmp = tempfile.mkdtemp(prefix='cmptr'); tot = bad = 0
for f in files:
    if os.path.getsize(f) == 0: continue
    if only and not any(o in f for o in only): continue
    rep = ReplayReader(f).get_replay_data()
    pl, vd, dialect = L.make_player(rep)
    if dialect == 'wowp': continue
    defs = pl._definitions
    for t in (Entity._methods_subscriptions, Entity._properties_subscriptions, Entity._nested_properties_subscription): t.clear()
    trace = []; mkeys = []; pkeys = []; nkeys = []
    for en, ed in defs._entity_defs_by_name.items():
        for m in ed.client().get_exposed_index_map():
            def mk(en, m):
                def cb(entity, *a, **kw):
                    pos = [x for x in m._arguments if x.name is None]; named = {x.name: x for x in m._arguments if x.name}
                    trace.append('C %s_%s %d (%s) {%s}' % (en, m.get_name(), entity.id,
                        ','.join(L.canon_t(v, t.type) for v, t in zip(a, pos)),
                        ','.join(sorted('%s=%s' % (k, L.canon_t(kw[k], named[k].type)) for k in kw))))
                return cb
            Entity.subscribe_method_call(en, m.get_name(), mk(en, m)); mkeys.append(en + '_' + m.get_name())
        for p in ed.properties()._internal_index:
            def mkp(en, p):
                def cb(entity, value): trace.append('CP %s_%s %d %s' % (en, p.get_name(), entity.id, L.canon_t(value, p._type)))
                return cb
            Entity.subscribe_property_change(en, p.get_name(), mkp(en, p)); pkeys.append(en + '_' + p.get_name())
            # nested: subscribe to the bare property path (fires for everything beneath it, by substring)
            def mkn(en, p):
                key = en + '_' + p.get_name()
                def cb(entity, obj): trace.append('CN %s %d %s' % (key, entity.id, canon_obj(obj)))
                return cb
            Entity.subscribe_nested_property_change(en, p.get_name(), mkn(en, p)); nkeys.append(en + '_' + p.get_name())
    t0 = time.time(); pl.play(rep.decrypted_data, False); t1 = time.time()
    case = os.path.join(tmp, 'case.txt'); stream = os.path.join(tmp, 'stream.bin')
    # the library keeps only the LAST subscriber per key and iterates the nested table in insertion order
    uniq = lambda ks: [(k, 1) for k in dict.fromkeys(ks)]
    L.write_case(case, dialect, P.load_raw('/repo/replay_unpack/clients/' + vd), uniq(mkeys), uniq(pkeys), uniq(nkeys))
    open(stream, 'wb').write(rep.decrypted_data)
    r = subprocess.run(['bash', '-c', 'ulimit -s unlimited; export OCAMLRUNPARAM=s=4M; exec /root/scratch/draft/ocaml/mrun_s "$0" "$1" stream', case, stream], capture_output=True, text=True)
    t2 = time.time()
    def strip_path(l):   # model prints "CN key id path value"; library side has no path
        if l.startswith('CN '):
            a = l.split(' ', 4); return ' '.join([a[0], a[1], a[2], a[4]])
        return l
    mod = [strip_path(l) for l in r.stdout.split('\n') if l[:2] in ('C ', 'CP', 'CN')]
    tot += 1
    if mod != trace:
        bad += 1; print(f.split('/')[-2], 'TRACE DIFF', len(mod), len(trace), r.stderr[:100])
        for a, b in zip(mod, trace):
            if a != b: print('   model:', a[:220]); print('   lib  :', b[:220]); break
    else:
        import collections
        c = collections.Counter(l.split(' ')[0] for l in trace)
        print(f.split('/')[-2], dialect, 'trace ok', dict(c), 'lib %.1fs model %.1fs' % (t1 - t0, t2 - t1))
    for t in (Entity._methods_subscriptions, Entity._properties_subscriptions, Entity._nested_properties_subscription): t.clear()
print('files', tot, 'with diffs', bad)

