"""Shared engine: play a packet stream through the library (with recording subscribers on EVERY client method, property
and one nested subscription per property) and through the extracted model; return both observation traces.
Line kinds:  C key id (args) {kwargs} | CP key id value | CN key id value | L key rest | LP key rest |
             DONE/RAISED | PLAYER | MAP | E id type | P bucket name value | V name value"""
import os, sys, glob, struct, subprocess, tempfile, shutil, collections
from tools import common, impl, rawdefs


def list_recordings():
    fs = sorted(glob.glob(os.path.join(common.RECORDINGS, '*', '*replay')))
    return [f for f in fs if os.path.getsize(f) > 0]


def pick(tier, n):
    """a fixed, diverse subset for the quick tier: old and new wows numbering, wot, wowp"""
    fs = list_recordings()
    if tier != 'quick': return fs
    want = ['13_2_0', 'wot_1_10_0', '0_8_1', 'wowp', '0_11_11', '0_10_6', '0_9_4', 'wot_1_8_0', '12_11_1']
    out = []
    for w in want:
        for f in fs:
            if ('/%s' % w) in f and f not in out:
                out.append(f); break
    return out[:n]


def make_player(rep):
    """construct the dialect's player exactly as ReplayParser._get_hidden_data does"""
    from replay_unpack.clients import wows, wot, wowp
    if rep.game == 'wows':
        pl = wows.ReplayPlayer(rep.engine_data.get('clientVersionFromXml').replace(' ', '').split(','))
    elif rep.game == 'wot':
        ver = '.'.join(rep.engine_data.get('clientVersionFromXml').replace('World\xa0of\xa0Tanks v.', '').replace(' ', '.').replace('#', '').split('.')[:3])
        pl = wot.ReplayPlayer(ver)
    else:
        pl = wowp.ReplayPlayer(rep.engine_data.get('clientVersion')[len('World of Warplanes '):].replace(' ', '').split('.'))
    return pl


def dialect_of(pl):
    from replay_unpack.clients.wows.network import packets as pw
    from replay_unpack.clients.wot.network import packets as pt
    from replay_unpack.clients.wowp.network import packets as pp
    m = pl._mapping
    if m is pw.PACKETS_MAPPING_12_6: return 'wows126'
    if m is pw.PACKETS_MAPPING: return 'wows'
    if m is pt.PACKETS_MAPPING: return 'wot'
    if m is pp.PACKETS_MAPPING: return 'wowp'
    raise RuntimeError('player uses a packet table the model does not know')


def defs_dir_of(pl):
    return pl._definitions.get_entity_def_by_name('Avatar')._base_dir


def dump_entities(ctrl):
    from replay_unpack.core.network.types.vector_3 import Vector3
    out = []
    out.append('PLAYER %s' % ('none' if getattr(ctrl, '_player_id', None) is None else ctrl._player_id))
    for i, e in ctrl.entities.items():
        out.append('E %d %s' % (i, e.get_name()))
        types = {p.get_name(): p._type for p in e._spec.properties()._internal_index}
        for b in ('client', 'base', 'cell'):
            for k, v in e.properties[b].items(): out.append('P %s %s %s' % (b, k, impl.canon_t(v, types[k])))
        for k in sorted(e.volatiles):
            v = e.volatiles[k]
            if isinstance(v, Vector3): s = 'v(%s,%s,%s)' % (impl.f32c(v.x), impl.f32c(v.y), impl.f32c(v.z))
            elif isinstance(v, tuple): s = 'v(%s)' % ','.join(impl.f32c(float(x)) for x in v)
            else: s = 'f' + impl.f32c(v)
            out.append('V %s %s' % (k, s))
    return out


class Recorder:
    """installs recording subscribers for every key of the definitions and observation wrappers; restores on close"""
    def __init__(self, pl, subscribe='all', counts=None):
        from replay_unpack.core.entity import Entity
        self.Entity = Entity
        self.pl = pl
        self.trace = []
        self.saved = [dict(Entity._methods_subscriptions), dict(Entity._properties_subscriptions), dict(Entity._nested_properties_subscription)]
        for t in (Entity._methods_subscriptions, Entity._properties_subscriptions, Entity._nested_properties_subscription): t.clear()
        self.mkeys = []; self.pkeys = []; self.nkeys = []
        trace = self.trace
        defs = pl._definitions
        for en, ed in defs._entity_defs_by_name.items():
            for m in ed.client().get_exposed_index_map():
                def mk(en, m):
                    def cb(entity, *a, **kw):
                        pos = [x for x in m._arguments if x.name is None]; named = {x.name: x for x in m._arguments if x.name}
                        trace.append('C %s_%s %d (%s) {%s}' % (en, m.get_name(), entity.id,
                            ','.join(impl.canon_t(v, t.type) for v, t in zip(a, pos)),
                            ','.join(sorted('%s=%s' % (k, impl.canon_t(kw[k], named[k].type)) for k in kw))))
                    return cb
                Entity.subscribe_method_call(en, m.get_name(), mk(en, m)); self.mkeys.append((en, m.get_name()))
            for p in ed.properties()._internal_index:
                def mkp(en, p):
                    def cb(entity, value): trace.append('CP %s_%s %d %s' % (en, p.get_name(), entity.id, impl.canon_t(value, p._type)))
                    return cb
                Entity.subscribe_property_change(en, p.get_name(), mkp(en, p)); self.pkeys.append((en, p.get_name()))
                def mkn(en, p):
                    key = en + '_' + p.get_name()
                    def cb(entity, obj): trace.append('CN %s %d %s' % (key, entity.id, impl.canon(obj)))
                    return cb
                Entity.subscribe_nested_property_change(en, p.get_name(), mkn(en, p)); self.nkeys.append((en, p.get_name()))
        # payload consumption: observe the stream the library hands to the decoder
        self.cur = [None]
        cur = self.cur
        self.orig_call = Entity.call_client_method; self.orig_set = Entity.set_client_property
        orig_call, orig_set = self.orig_call, self.orig_set
        def call(ent, idx, payload):
            ok = False
            try:
                r = orig_call(ent, idx, payload); ok = True; return r
            finally:
                try: name = ent._methods[idx].get_name()
                except Exception: name = None
                if name is not None:
                    trace.append('L %s_%s %s' % (ent.get_name(), name, (len(payload.getvalue()) - payload.tell()) if ok else 'ERR'))
        def setp(ent, idx, payload):
            ok = False
            try:
                r = orig_set(ent, idx, payload); ok = True; return r
            finally:
                if cur[0] == 'EntityProperty':
                    try: name = ent.client_properties[idx].get_name()
                    except Exception: name = None
                    if name is not None:
                        trace.append('LP %s_%s %s' % (ent.get_name(), name, (len(payload.getvalue()) - payload.tell()) if ok else 'ERR'))
        Entity.call_client_method = call; Entity.set_client_property = setp
        self.install_pp()

    def install_pp(self):
        """wrap the extension point: remember the class of the packet being processed; optional per-packet snapshots"""
        pl = self.pl; cur = self.cur
        self.snap_eid = None; self.snaps = {}; self.pkt_index = [-1]
        orig_ds = pl._deserialize_packet
        def ds(packet):
            self.pkt_index[0] += 1
            return orig_ds(packet)
        pl._deserialize_packet = ds
        orig_pp = pl._process_packet
        def pp(time, packet):
            cur[0] = type(packet).__name__
            try:
                return orig_pp(time, packet)
            finally:
                if self.snap_eid is not None:
                    e = pl._battle_controller.entities.get(self.snap_eid)
                    if e is not None:
                        types = {p.get_name(): p._type for p in e._spec.properties()._internal_index}
                        self.snaps[self.pkt_index[0]] = sorted('%s=%s' % (k, impl.canon_t(v, types[k])) for k, v in e.properties['client'].items())
        pl._process_packet = pp

    def subs(self):
        return list(self.mkeys), list(self.pkeys), list(self.nkeys)

    def close(self):
        E = self.Entity
        E.call_client_method = self.orig_call; E.set_client_property = self.orig_set
        for t, s in zip((E._methods_subscriptions, E._properties_subscriptions, E._nested_properties_subscription), self.saved):
            t.clear(); t.update(s)


def model_stream(dialect, rd, subs, stream, mode='stream', workdir=None):
    d = workdir or tempfile.mkdtemp(prefix='verif-rec-')
    try:
        case = os.path.join(d, 'case.txt'); sf = os.path.join(d, 'stream.bin')
        rawdefs.write_case(case, dialect, rd, *subs)
        with open(sf, 'wb') as f: f.write(stream)
        p = subprocess.run(['bash', '-c', 'ulimit -s unlimited; exec "$0" world "$1" "$2" "$3"', common.MODELRUN, case, sf, mode],
                           capture_output=True, text=True, timeout=900)
        if p.returncode != 0: raise RuntimeError('modelrun world failed: ' + p.stderr[-800:])
        return [l for l in p.stdout.split('\n') if l]
    finally:
        if workdir is None: shutil.rmtree(d, ignore_errors=True)


def strip_cn_path(l):
    # the model prints "CN key id path value"; the library's callback does not receive the path
    if l.startswith('CN '):
        a = l.split(' ', 4); return ' '.join([a[0], a[1], a[2], a[4]])
    return l


def norm_final(l):
    if l.startswith('V '):
        k, v = l.split(' ')[1:3]
        if v == 'D': return 'V %s %s' % (k, 'v(00000000,00000000,00000000)' if k == 'position' else 'f00000000')
    return l


def run_pair(path=None, rep=None, strict=False):
    """returns dict(impl=[...], model=[...], dialect, version_dir, raised)"""
    from replay_unpack.replay_reader import ReplayReader
    if rep is None: rep = ReplayReader(path).get_replay_data()
    pl = make_player(rep)
    dialect = dialect_of(pl); vdir = defs_dir_of(pl)
    rec = Recorder(pl)
    raised = None
    try:
        try:
            with common.time_limit(max(120.0, len(rep.decrypted_data) / 5000.0)): pl.play(rep.decrypted_data, strict)
        except common.HangError: raised = 'HANG'
        except Exception as e:
            raised = impl.err_name(e)
        lib = list(rec.trace)
        lib.append('RAISED ' + raised if raised else 'DONE')
        lib += dump_entities(pl._battle_controller)
        subs = rec.subs()
    finally:
        rec.close()
    rd = rawdefs.load_raw(vdir)
    mod = model_stream(dialect, rd, subs, rep.decrypted_data, 'stream')
    mod = [norm_final(strip_cn_path(l)) for l in mod if not l.startswith('MAP ')]
    return dict(impl=lib, model=mod, dialect=dialect, version_dir=os.path.basename(vdir), rep=rep)


KINDS = {'C03': ('C ', 'CP ', 'L ', 'LP '), 'C05': ('E ', 'P ', 'PLAYER', 'DONE', 'RAISED'), 'C06': ('CN ', 'P '),
         'C07': ('C ', 'CP ', 'CN '), 'C08': ('V ', 'E ')}


def first_diff(a, b):
    for i, (x, y) in enumerate(zip(a, b)):
        if x != y: return i, x, y
    if len(a) != len(b):
        i = min(len(a), len(b))
        return i, (a[i] if i < len(a) else '<end>'), (b[i] if i < len(b) else '<end>')
    return None


def payload_check(ctx, pid, quick_n=3):
    """real recordings: every observation of the kinds relevant to `pid` must agree between library and model;
    for C03 additionally every L/LP line must report 0 left-over bytes (listed findings excepted)"""
    files = pick(ctx.tier, quick_n)
    kinds = KINDS[pid]
    total = collections.Counter()
    bad = None
    for f in files:
        r = run_pair(f)
        a = [l for l in r['impl'] if l.startswith(kinds)]; b = [l for l in r['model'] if l.startswith(kinds)]
        for l in a: total[l.split(' ')[0]] += 1
        d = first_diff(a, b)
        ctx.case(('rec', os.path.basename(f)))
        ctx.traces_validated += 1
        if d is not None and bad is None:
            bad = dict(file=os.path.relpath(f, common.REPO), index=d[0], implementation=d[1][:300], model=d[2][:300])
        if pid == 'C03':
            seen = set()
            for l in a:
                if l[0] == 'L' and not l.endswith(' 0'):
                    kind, key, rest = l.split(' ')
                    if (key, rest) in seen: continue
                    seen.add((key, rest))
                    ctx.deviation('payload-not-consumed', {'version': r['version_dir'], 'key': key},
                                  dict(kind='payload', file=os.path.relpath(f, common.REPO), key=key, left_over=rest,
                                       how='play the recording with every client method subscribed; observe len(payload)-tell() after EntityMethod.create_from_stream'))
    ctx.extra.setdefault('recordings', {})[pid] = dict(files=len(files), observations=dict(total))
    ctx.obligation('correspondence: library = extracted model on %d real recordings (%s)' % (len(files), ','.join(k.strip() for k in kinds)),
                   bad is None, '' if bad is None else str(bad))
    if bad is not None and pid != 'C03':
        ctx.violation(dict(kind='recording-divergence', **bad,
                           how='tools/recordings.run_pair(file): first line on which the library and the independent decoder disagree'))
    return bad
