"""C10 - every bundled version is internally consistent."""
import json, inspect
from tools import common, gen_versions
LEVEL = 'proof'


def py_bind(sig, npos, names):
    """the verdict of CPython itself: inspect.Signature.bind on a callback with that signature"""
    params = []
    for n, k, d in sig:
        kind = {'PosOrKw': inspect.Parameter.POSITIONAL_OR_KEYWORD, 'VarPos': inspect.Parameter.VAR_POSITIONAL, 'KwOnly': inspect.Parameter.KEYWORD_ONLY, 'VarKw': inspect.Parameter.VAR_KEYWORD}[k]
        params.append(inspect.Parameter(n, kind, default=0 if d else inspect.Parameter.empty))
    try:
        inspect.Signature(params).bind(*([None] * (npos + 1)), **{n: None for n in names}); return True
    except TypeError: return False


def run(ctx):
    ctx.rule = ('exhaustive: every bundled version directory of the three games x every subscription its controller registers during construction '
                '(recorded through the subscribe API) x the signature the SAME version declares for the target (computed by the extracted model from '
                'the raw definition files); non-trivial = every (version, subscription) pair; distinct by (game, version, key)')
    ctx.coq_props('Props/C10.v')
    facts = gen_versions.version_facts()
    known_pairs = []
    for k in ctx.known:
        if k.get('status') == 'open':
            for p in k.get('pairs', []): known_pairs.append((p[0], p[1]))
    gen_versions.c10_obligations(ctx, facts, known_pairs)
    ctx.extra['exhaustive'] = True; ctx.extra['versions'] = len(facts); ctx.extra['subscriptions'] = sum(len(f['subs']) for f in facts)
    bind_disagree = None
    for f in facts:
        label = f['game'] + '/' + f['name']
        ctx.case(('version', label)); ctx.count('game:' + f['game'])
        if not (f['defs_load'] and f['has_controller'] and f['constructs']):
            ctx.deviation('version-inconsistent', {'pair': [label, '']},
                          dict(kind='version', version=label, defs_load=f['defs_load'], has_controller=f['has_controller'], constructs=f['constructs'],
                               how='helper.get_definitions / helper.get_controller for that directory'))
        for s in f['subs']:
            ctx.case(('sub', label, s['key'])); ctx.count('subscription-kind:%d' % s['kind'])
            ok_py = s['exists'] and py_bind(s['sig'], s['npos'], s['names'])
            # the real bound method, too: bind with placeholder values
            try:
                inspect.signature(s['func']).bind(*([None] * (s['npos'] + 1)), **{n: None for n in s['names']}); ok_real = True
            except TypeError: ok_real = False
            if s['exists'] and ok_real != py_bind(s['sig'], s['npos'], s['names']) and bind_disagree is None: bind_disagree = (label, s['key'])
            if len(ctx.samples) < 3: ctx.sample(dict(version=label, key=s['key'], declared=dict(positional=s['npos'], named=s['names']), callback=[p[0] for p in s['sig']], ok=ok_py))
            if not ok_py:
                ctx.deviation('version-inconsistent', {'pair': [label, s['key']]},
                              dict(kind='subscription', version=label, key=s['key'], target_exists=s['exists'], declared=dict(positional=s['npos'], named=s['names']),
                                   callback_signature=s['sig'], how='construct the controller, inspect.signature(callback).bind(entity, *declared positional, **declared named)'))
    ctx.obligation('translator: extracted signatures reproduce inspect.signature(callback).bind on every pair', bind_disagree is None, str(bind_disagree))
    dynamic_clause(ctx)


def dynamic_clause(ctx):
    """a complete minimal battle encoded against each version parses in strict mode and yields a summary"""
    import os, random, tempfile, shutil
    from tools import battle
    from replay_parser import ReplayParser
    tmp = tempfile.mkdtemp(prefix='verif-c10-')
    try:
        jobs = [('wows', v) for v in battle.wows_versions()] + [('wot', '1_8_0'), ('wot', '1_10_0'), ('wowp', '1_7_5'), ('wowp', '2_1_17'), ('wowp', '2_1_20'), ('wowp', '0_3_3')]
        # two laps: every version is parsed again after all the others were parsed in between (and in another order), so a controller or
        # definitions object that survives from the first lap, or callbacks left registered by another version, meet this version's events
        lap2 = list(jobs); ctx.rng.shuffle(lap2)
        for lap, (game, v) in [(1, j) for j in jobs] + [(2, j) for j in (lap2 if ctx.tier != 'quick' else lap2[::3])]:
            label = game + '/' + v
            ext = {'wows': 'wowsreplay', 'wot': 'wotreplay', 'wowp': 'wowpreplay'}[game]
            p = os.path.join(tmp, v + '.' + ext)
            rng = random.Random(ctx.rng.randrange(10 ** 9))
            b_ = None
            if game == 'wows':
                b_, vs_ = battle.build_wows(v, rng)
                # lap 1 names the version by its directory components only (no build number), lap 2 with a build number: both select this directory
                if lap == 1 or v.count('_') == 3: vs_ = ','.join(v.split('_'))
                battle.write_replay(p, 'wowsreplay', {'clientVersionFromXml': vs_}, b_.stream())
            else: battle.write_simple(p, game, v, rng)
            ctx.case(('battle', label, lap)); ctx.count('battle:' + game); ctx.count('lap:%d' % lap)
            try:
                h = ReplayParser(p, strict=True).get_info()['hidden']; ok = h is not None; why = 'hidden is None'
            except Exception as ex:
                ok = False; why = '%s: %s' % (type(ex).__name__, str(ex)[:160])
            if ok and b_ is not None:
                from tools import c09
                diffs = c09.compare(b_, h, v)
                if diffs:
                    field, want, got = diffs[0]
                    ctx.violation(dict(kind='battle-summary', version=label, lap=lap, field=field, expected=json.loads(json.dumps(want, default=str)), implementation=json.loads(json.dumps(got, default=str)),
                                       how='a battle encoded against that version directory (its own definitions and constants), ReplayParser(path, strict=True).get_info()["hidden"]: the summary must report the events written'))
            if not ok:
                key = ''
                for cand in ('onNewPlayerSpawnedInBattle', 'onBattleEnd'):
                    if cand in why: key = 'Avatar_' + cand
                ctx.deviation('version-inconsistent', {'pair': [label, key]},
                              dict(kind='battle', version=label, lap=lap, outcome=why, how='(lap 2 = parsed again after every other version had been parsed in the same process) tools/battle.write_wows / write_simple for that version; ReplayParser(path, strict=True).get_info()'))
            os.unlink(p)
    finally:
        shutil.rmtree(tmp, ignore_errors=True)


def replay(ctx, path):
    obj = json.load(open(path)); print(json.dumps(obj, indent=1)[:2000])
    facts = [f for f in gen_versions.version_facts() if f['game'] + '/' + f['name'] == obj.get('version')]
    for f in facts:
        for s in f['subs']:
            if s['key'] == obj.get('key'):
                ok = s['exists'] and py_bind(s['sig'], s['npos'], s['names']); print('now consistent:', ok); return 0 if ok else 1
    return 1
