"""The benign stand-in for 'code chosen by the file': a hostile pickle names this function; if the parser calls it, the
file decided which code ran.  Nothing destructive is ever executed by the checks."""
CALLS = []
def mark(*a):
    CALLS.append(a); return 0
