"""C15 - damaged input never hangs or crashes the parser."""
import hashlib, os, sys, json, struct, zlib, random, shutil, subprocess, tempfile, resource, glob
from tools import common, battle, recordings, c01, rawdefs
LEVEL = 'other'


def zero_size_scan(ctx):
    """instance: no array element type of any bundled definition set can decode from zero bytes (so the element loop of a nested
    update always makes progress)"""
    from tools.c04 import bundled_dirs
    total = 0; zeros = []
    for d in bundled_dirs():
        rd = rawdefs.load_raw(d)
        tmp = tempfile.mkdtemp(prefix='verif-c15-case-')
        try:
            case = os.path.join(tmp, 'case.txt'); rawdefs.write_case(case, 'wows', rd)
            p = subprocess.run(['bash', '-c', 'ulimit -s unlimited; exec "$0" zerosize "$1"', common.MODELRUN, case], capture_output=True, text=True, timeout=300)
            for l in p.stdout.split('\n'):
                if l.startswith('ZERO '): zeros.append(os.path.relpath(d, common.REPO) + ' ' + l)
                elif l.startswith('ARRAYS '): total += int(l.split(' ')[1])
        finally: shutil.rmtree(tmp, ignore_errors=True)
    ctx.extra['array_types_checked'] = total
    ctx.obligation('instance: min_size > 0 for every array element type of all bundled definition sets (%d array types)' % total, not zeros and total > 0, '; '.join(zeros[:5]))
    ctx.case(('zero-size-scan',), n=total)
    return zeros


def corrupt(rng, data, region):
    """region: (lo, hi) byte range to damage; returns (kind, damaged bytes)"""
    b = bytearray(data); lo, hi = region; hi = max(hi, lo + 1)
    kind = rng.choice(['bitflip', 'bitflip', 'truncate', 'delete', 'insert', 'length', 'zero', 'ff'])
    if kind == 'bitflip':
        for _ in range(rng.choice([1, 1, 2, 5])): b[rng.randrange(lo, hi)] ^= 1 << rng.randrange(8)
    elif kind == 'truncate': b = b[:rng.randrange(lo, hi)]
    elif kind == 'delete':
        i = rng.randrange(lo, hi); n = rng.choice([1, 3, 8, 64, 1000]); del b[i:i + n]
    elif kind == 'insert':
        i = rng.randrange(lo, hi); b[i:i] = bytes(rng.randrange(256) for _ in range(rng.choice([1, 4, 8, 100])))
    elif kind == 'length':
        i = rng.randrange(lo, max(lo + 1, hi - 4)); b[i:i + 4] = struct.pack('<I', rng.choice([0, 1, 0x7fffffff, 0xffffffff, 0x80000000, 0xfffffff0, 65536]))
    elif kind == 'zero':
        i = rng.randrange(lo, hi); n = rng.choice([4, 16, 256]); b[i:i + n] = bytes(len(b[i:i + n]))
    else:
        i = rng.randrange(lo, hi); n = rng.choice([4, 16, 256]); b[i:i + n] = b'\xff' * len(b[i:i + n])
    return kind, bytes(b)


def packet_damage(rng, stream):
    """structure-aware damage: the 12-byte packet headers stay consistent, the PAYLOADS of whole packets are cut, grown or garbled -
    so the damage reaches the per-packet decoders (bit reader, type codecs) instead of de-synchronising the framing at once"""
    frames = []; off = 0
    while off + 12 <= len(stream):
        size, ptype, tb = struct.unpack_from('<III', stream, off)
        if off + 12 + size > len(stream): break
        frames.append([ptype, tb, stream[off + 12:off + 12 + size]]); off += 12 + size
    if not frames: return 'packet-none', stream
    types = sorted(set(f[0] for f in frames))
    def cut_inner(pl):
        """shorten the variable part of a payload and FIX UP the length field inside the payload that covers it (the signed size byte of a
        nested-property packet, a 32-bit length prefix of an embedded byte stream), so that the damage gets past the packet class's own
        size checks and reaches the bit reader / type codecs with too few bytes"""
        if len(pl) >= 9 and pl[4] in (0, 1) and pl[5] == (len(pl) - 9) & 0xff and len(pl) > 9:
            k = rng.randrange(0, min(len(pl) - 9, 4)); return pl[:5] + bytes([k]) + pl[6:9] + pl[9:9 + k]
        for o in range(0, min(len(pl) - 4, 64) + 1, 2):
            if len(pl) - o - 4 > 0 and struct.unpack_from('<I', pl, o)[0] == len(pl) - o - 4:
                k = rng.randrange(0, len(pl) - o - 4); return pl[:o] + struct.pack('<I', k) + pl[o + 4:o + 4 + k]
        return pl
    mode = rng.choice(['cut-type', 'cut-some', 'grow-some', 'garble-type', 'cut-type-fixed', 'cut-inner-type', 'cut-inner-type', 'cut-inner-some', 'cut-inner-all', 'cut-sized-all', 'cut-sized-all', 'ff-inner', 'ff-inner'])
    sized = lambda pl: len(pl) > 9 and pl[4] in (0, 1) and pl[5] == (len(pl) - 9) & 0xff
    t = rng.choice(types)
    # prefer the types with variable-length bit/typed payloads
    weighted = [x for x in types if x in (0x22, 0x23, 0x24, 0x7, 0x8, 0x5)] or types
    if rng.random() < 0.7: t = rng.choice(weighted)
    k_fixed = rng.choice([0, 1, 4, 8, 9, 10, 11, 12, 13])
    for f in frames:
        pl = f[2]
        if mode == 'cut-type' and f[0] == t and pl: f[2] = pl[:rng.randrange(0, len(pl))]
        elif mode == 'cut-type-fixed' and f[0] == t: f[2] = pl[:k_fixed]
        elif mode == 'cut-inner-type' and f[0] == t: f[2] = cut_inner(pl)
        elif mode == 'cut-inner-some' and rng.random() < 0.05: f[2] = cut_inner(pl)
        elif mode == 'cut-inner-all' and rng.random() < 0.3: f[2] = cut_inner(pl)
        elif mode == 'cut-sized-all' and sized(pl): f[2] = cut_inner(pl)
        elif mode == 'cut-some' and rng.random() < 0.02 and pl: f[2] = pl[:rng.randrange(0, len(pl))]
        elif mode == 'ff-inner' and f[0] in (0x7, 0x8) and len(pl) >= 12 and rng.random() < 0.4:
            # the value / argument bytes of an update or call replaced by 0xff bytes (a count / length escape with nothing behind it), length prefix fixed up
            k = rng.choice([1, 2, 3, 4, 4, 5, 8]); f[2] = pl[:8] + struct.pack('<I', k) + b'\xff' * k
        elif mode == 'grow-some' and rng.random() < 0.02: f[2] = pl + bytes(rng.randrange(256) for _ in range(rng.choice([1, 3, 200])))
        elif mode == 'garble-type' and f[0] == t and len(pl) > 8:
            h = rng.randrange(8, len(pl)); f[2] = pl[:h] + bytes(rng.randrange(256) for _ in range(len(pl) - h))
    return 'packet-%s' % mode, b''.join(struct.pack('<III', len(pl), pt, tb) + pl for pt, tb, pl in frames) + stream[off:]


def frame_damage(stream, which, value_kind):
    """the SIZE field of one packet header set to a value that a signed read, a wrapped addition or an offset-walking loop mishandles:
    -12 (no progress), -13, -1, the most negative number, and 2^32 minus the distance back to an EARLIER packet boundary (a cycle)"""
    offs = []; off = 0
    while off + 12 <= len(stream):
        size = struct.unpack_from('<I', stream, off)[0]
        if off + 12 + size > len(stream): break
        offs.append(off); off += 12 + size
    if len(offs) < 4: return None
    k = {'first': 0, 'mid': len(offs) // 2, 'last': len(offs) - 1}[which]
    o = offs[k]
    back = o - offs[max(0, k - 3)]
    val = {'minus12': 2 ** 32 - 12, 'minus13': 2 ** 32 - 13, 'minus1': 2 ** 32 - 1, 'minint': 2 ** 31, 'cycle': (2 ** 32 - 12 - back) % 2 ** 32,
           'cycle1': (2 ** 32 - 12 - (o - offs[max(0, k - 1)])) % 2 ** 32}[value_kind]
    b = bytearray(stream); struct.pack_into('<I', b, o, val)
    return bytes(b)


def fast_source(path):
    """(engine block bytes, decoded packet stream) of an undamaged file - only a SOURCE of inputs to damage, obtained with the library's reader
    (the extracted model reads 30 kB/s; C01 is where reader and model are compared)"""
    from replay_unpack.replay_reader import ReplayReader
    r = ReplayReader(path).get_replay_data()
    return json.dumps(r.engine_data).encode(), r.decrypted_data


def fast_write(path, ext, b0, stream, level=6):
    """the container writer of the model (write_container / chain_enc) transcribed to Python with Cryptodome's Blowfish, for volume"""
    from Cryptodome.Cipher import Blowfish
    from replay_unpack.replay_reader import TYPE_TO_KEY
    co = zlib.compressobj(level); z = co.compress(stream) + co.flush(); z += bytes((-len(z)) % 8)
    E = Blowfish.new(TYPE_TO_KEY[ext], Blowfish.MODE_ECB); prev = 0; out = []
    for i in range(0, len(z), 8):
        v = int.from_bytes(z[i:i + 8], 'little'); out.append(E.encrypt((v ^ prev).to_bytes(8, 'little'))); prev = v
    open(path, 'wb').write(b'\x12\x32\x34\x11' + struct.pack('<i', 1) + struct.pack('<i', len(b0)) + b0 + struct.pack('<II', len(stream), len(z)) + b''.join(out))


def header_end(data):
    n = struct.unpack_from('<i', data, 4)[0]; off = 8
    for _ in range(n): off += 4 + struct.unpack_from('<i', data, off)[0]
    return off


def run_worker(path, limit_s):
    env = dict(os.environ, PYTHONPATH=common.REPO, PYTHONHASHSEED='0')
    def lim():
        resource.setrlimit(resource.RLIMIT_AS, (12 * 2 ** 30, 12 * 2 ** 30))        # only a stop for a runaway; memory is judged by peak RSS
    try:
        p = subprocess.run([common.PY, os.path.join(common.VERIF, 'tools', 'c15_worker.py'), path], capture_output=True, text=True, timeout=limit_s, env=env, preexec_fn=lim)
    except subprocess.TimeoutExpired:
        return dict(outcome='HANG (no answer within %.0f s)' % limit_s, wall=limit_s, maxrss_kb=0)
    if p.returncode != 0 or not p.stdout.strip():
        return dict(outcome='CRASH exit=%s %s' % (p.returncode, p.stderr[-200:]), wall=0, maxrss_kb=0)
    return json.loads(p.stdout.strip().split('\n')[-1])


def run(ctx):
    ctx.rule = ('fault injection: single and multiple corruptions (bit flips, truncation, deleted/inserted ranges, tampered 32-bit length fields, zero/0xFF runs) '
                'placed separately in header/blocks, ciphertext, the DECODED packet stream, and the payloads of whole packets with consistent framing (cut / grown / garbled per packet type) (re-wrapped by the model writer) of real recordings and synthetic '
                'battles; each damaged file parsed leniently in a fresh interpreter under a wall-clock limit proportional to the undamaged parse; outcome must be '
                'a result or an ordinary exception, container-intact cases must return a result object; non-trivial = every damaged file; distinct by bytes')
    ctx.extra['explanation'] = ('Level "other": proved (Coq, closed) that every loop of the model is bounded by the bytes present (frames, blocks, element loop, bit path; a '
                                'decoder never runs out of budget) plus the instance check that no bundled array element type is zero-sized; time and resident memory of CPython/zlib/lxml '
                                'are observed by fault injection, memory by peak RSS (an address-space limit would misjudge f.read(0x7fffffff), which reserves but never touches memory).')
    ctx.coq_props('Props/C15.v')
    zero_size_scan(ctx)
    q = ctx.tier == 'quick'; rng = ctx.rng
    tmp = tempfile.mkdtemp(prefix='verif-c15-')
    try:
        srcs = []
        for f in recordings.list_recordings():
            if os.path.getsize(f) < (900000 if q else 10 ** 9): srcs.append(f)
        srcs = srcs[: (3 if q else 8)]
        syn = os.path.join(tmp, 'syn.wowsreplay'); battle.write_wows(syn, '13_2_0', random.Random(1)); srcs.append(syn)
        syn2 = os.path.join(tmp, 'syn.wotreplay'); battle.write_simple(syn2, 'wot', '1_10_0', random.Random(1)); srcs.append(syn2)
        # an old-format battle whose unsigned bit-mask fields have every bit set (what one flipped top bit makes of them): the undamaged parse of
        # THIS file must already terminate (run_worker below measures it under its limit)
        wv = battle.wows_versions()
        syn3 = os.path.join(tmp, 'syn-old.wowsreplay'); battle.write_wows(syn3, [v for v in wv if v.startswith('0_8_')][0], random.Random(2), extreme=True); srcs.append(syn3)
        syn4 = os.path.join(tmp, 'syn-09.wowsreplay'); battle.write_wows(syn4, [v for v in wv if v.startswith('0_9_')][0], random.Random(2), extreme=True); srcs.append(syn4)
        n_per = 24 if q else 120
        worst = dict(wall=0, rss=0)
        for src in srcs:
            data = open(src, 'rb').read(); ext = src.rsplit('.', 1)[-1]
            base = run_worker(src, 120)
            synthetic = src in (syn, syn2, syn3, syn4)
            if base['outcome'].startswith(('HANG', 'CRASH')) or base['outcome'] in ('exception MemoryError', 'exception RecursionError') \
               or (synthetic and (base['wall'] > 30 or base['maxrss_kb'] > 1500000 or not base['outcome'].startswith('result hidden=yes'))):
                base['outcome'] += ' after %.1f s with %d kB peak resident size (a synthetic battle of a few kB)' % (base['wall'], base['maxrss_kb'])
                keep = os.path.join(common.VERIF, 'evidence', 'replays', 'C15-damaged-%d.%s' % (len(ctx.violations) + 1, src.rsplit('.', 1)[-1])); shutil.copy(src, keep)
                ctx.violation(dict(kind='damaged-input', source=os.path.basename(src), where='(the source itself: a synthetic battle with every bit of its unsigned mask fields set)', corruption='none',
                                   problem=base['outcome'], file=keep, wall_s=base['wall'], limit_s=120, how='python tools/c15_worker.py <file>'))
                continue
            limit = max(20.0, base['wall'] * 10 + 10); rss_limit = max(base['maxrss_kb'] * 4, 600000)
            if synthetic: limit = max(8.0, base['wall'] * 10 + 3); rss_limit = max(base['maxrss_kb'] * 4, 200000)      # a few kB of input: seconds and 100s of MB are not proportional
            he = header_end(data)
            try: raw = fast_source(src)
            except Exception: raw = None
            for i in range(8 if src in (syn3, syn4) else n_per):
                where = ('header', 'cipher', 'stream', 'packet')[i % 4]
                if where in ('stream', 'packet') and raw is None: where = 'cipher'
                if where == 'header': kind, dmg = corrupt(rng, data, (0, he + 8))
                elif where == 'cipher': kind, dmg = corrupt(rng, data, (he + 8, len(data)))
                else:
                    stream = raw[1]
                    if where == 'packet': kind, ds = packet_damage(rng, stream)
                    else: kind, ds = corrupt(rng, stream, (0, len(stream)))
                    if rng.random() < 0.3: kind2, ds = corrupt(rng, ds, (0, max(1, len(ds)))); kind += '+' + kind2
                    p = os.path.join(tmp, 'd.' + ext); fast_write(p, ext, raw[0], ds); dmg = open(p, 'rb').read()
                p = os.path.join(tmp, 'damaged-%d.%s' % (i, ext)); open(p, 'wb').write(dmg)
                r = run_worker(p, limit)
                ctx.case(hashlib.sha1(dmg).hexdigest()); ctx.count('where:' + where); ctx.count('kind:' + kind.split('+')[0]); ctx.count('outcome:' + r['outcome'].split(' ')[0] + ':' + r['outcome'].split(' ')[1][:24])
                worst['wall'] = max(worst['wall'], r['wall']); worst['rss'] = max(worst['rss'], r['maxrss_kb'])
                bad = None
                if r['outcome'].startswith(('HANG', 'CRASH')): bad = r['outcome']
                elif r['outcome'] in ('exception MemoryError', 'exception RecursionError'): bad = r['outcome'] + ' (not an ordinary outcome for a damaged file)'
                elif r['maxrss_kb'] > rss_limit: bad = 'peak resident size %d kB (undamaged: %d kB)' % (r['maxrss_kb'], base['maxrss_kb'])
                elif where in ('stream', 'packet') and not r['outcome'].startswith('result'): bad = 'container intact but lenient mode raised: ' + r['outcome']
                if bad:
                    keep = os.path.join(common.VERIF, 'evidence', 'replays', 'C15-damaged-%d.%s' % (len(ctx.violations) + 1, ext)); shutil.copy(p, keep)
                    ctx.violation(dict(kind='damaged-input', source=os.path.basename(src), where=where, corruption=kind, problem=bad, file=keep, wall_s=r['wall'], limit_s=limit,
                                       how='python tools/c15_worker.py <file>  (ReplayParser(file, strict=False).get_info() in a fresh interpreter)'))
                os.unlink(p)
        # framing-targeted damage (consistent stream, ONE size field tampered) on the synthetic battles and the smallest recording
        fsrcs = [syn, syn2] + sorted((x for x in srcs if x not in (syn, syn2)), key=os.path.getsize)[: (1 if q else 4)]
        for src in fsrcs:
            ext = src.rsplit('.', 1)[-1]
            try: raw = fast_source(src)
            except Exception: continue
            base = run_worker(src, 120); limit = max(20.0, base['wall'] * 10 + 10)
            combos = [('mid', 'minus12'), ('mid', 'cycle'), ('last', 'minus12'), ('first', 'minus13'), ('mid', 'minint'), ('mid', 'cycle1'), ('last', 'minus1')]
            if not q: combos += [(w, v) for w in ('first', 'mid', 'last') for v in ('minus12', 'minus13', 'minus1', 'minint', 'cycle', 'cycle1')]
            for which, vk in combos:
                ds = frame_damage(raw[1], which, vk)
                if ds is None: continue
                p = os.path.join(tmp, 'frame.' + ext); fast_write(p, ext, raw[0], ds)
                r = run_worker(p, limit)
                ctx.case(('frame', os.path.basename(src), which, vk)); ctx.count('where:frame-size-field'); ctx.count('kind:size=' + vk)
                bad = None
                if r['outcome'].startswith(('HANG', 'CRASH')): bad = r['outcome']
                elif r['outcome'] in ('exception MemoryError', 'exception RecursionError'): bad = r['outcome'] + ' (not an ordinary outcome for a damaged file)'
                elif not r['outcome'].startswith('result'): bad = 'container intact but lenient mode raised: ' + r['outcome']
                if bad:
                    keep = os.path.join(common.VERIF, 'evidence', 'replays', 'C15-damaged-%d.%s' % (len(ctx.violations) + 1, ext)); shutil.copy(p, keep)
                    ctx.violation(dict(kind='damaged-input', source=os.path.basename(src), where='size field of the %s packet header' % which, corruption='size=' + vk, problem=bad, file=keep,
                                       wall_s=r['wall'], limit_s=limit, how='python tools/c15_worker.py <file>  (ReplayParser(file, strict=False).get_info() in a fresh interpreter)'))
                    break
        # pickled player records that CONTAIN THEMSELVES (legal for pickle; a hostile or damaged record): the walk over the unpickled value ends
        # (an exception that lenient mode logs, or a result) within the limits, for versions on both sides of every players_info variant
        from tools import c14
        for v in [x for x in (wv[-1], '13_2_0', '12_6_0', '0_11_6', '0_10_0') if x in wv][:4]:
            p = os.path.join(tmp, 'cyclic-%s.wowsreplay' % v)
            try: bb, vs = battle.build_wows(v, random.Random(6), join=True, roster_extra=c14.cyclic_roster); battle.write_replay(p, 'wowsreplay', {'clientVersionFromXml': vs}, bb.stream())
            except Exception: continue
            r = run_worker(p, 25)
            ctx.case(('cyclic-record', v)); ctx.count('where:self-containing-pickled-record')
            bad = None
            if r['outcome'].startswith(('HANG', 'CRASH')) or r['outcome'] == 'exception MemoryError': bad = r['outcome']
            elif r['maxrss_kb'] > 400000: bad = 'peak resident size %d kB for a %d-byte recording' % (r['maxrss_kb'], os.path.getsize(p))
            if bad:
                keep = os.path.join(common.VERIF, 'evidence', 'replays', 'C15-damaged-%d.wowsreplay' % (len(ctx.violations) + 1)); shutil.copy(p, keep)
                ctx.violation(dict(kind='damaged-input', source='synthetic %s battle' % v, where='pickled player record', corruption='a list and a dict that contain themselves', problem=bad, file=keep,
                                   wall_s=r['wall'], limit_s=25, how='python tools/c15_worker.py <file>  (ReplayParser(file, strict=False).get_info() in a fresh interpreter)'))
                break
        # own-player position packets whose two entity ids link entities IN A CIRCLE (avatar -> vehicle, vehicle -> avatar, avatar -> vehicle again,
        # each to itself): four-byte changes in an intact recording; every packet is one small step
        for v in [x for x in (wv[-1], '12_5_0', '0_10_0') if x in wv][:2]:
            bb, vs = battle.build_wows(v, random.Random(9), join=True)
            for e1, e2 in ((900, 500), (500, 900), (900, 500), (500, 500), (900, 900), (500, 501), (501, 900), (900, 501), (500, 0), (900, 500), (500, 900), (501, 500), (900, 500)):
                bb.pkt('PlayerPosition', struct.pack('<ii', e1, e2) + struct.pack('<6f', 1.0, 2.0, 3.0, 0.1, 0.2, 0.3))
            p = os.path.join(tmp, 'circle-%s.wowsreplay' % v); battle.write_replay(p, 'wowsreplay', {'clientVersionFromXml': vs}, bb.stream())
            r = run_worker(p, 25)
            ctx.case(('position-links-in-a-circle', v)); ctx.count('where:own-player-position-links-in-a-circle')
            bad = None
            if r['outcome'].startswith(('HANG', 'CRASH')) or r['outcome'] in ('exception MemoryError', 'exception RecursionError'): bad = r['outcome']
            elif not r['outcome'].startswith('result'): bad = 'container intact but lenient mode raised: ' + r['outcome']
            if bad:
                keep = os.path.join(common.VERIF, 'evidence', 'replays', 'C15-damaged-%d.wowsreplay' % (len(ctx.violations) + 1)); shutil.copy(p, keep)
                ctx.violation(dict(kind='damaged-input', source='synthetic %s battle' % v, where='the two entity ids of thirteen own-player position packets', corruption='avatar 900 and vehicles 500 / 501 named as each other\'s second entity in a circle and as their own',
                                   problem=bad, file=keep, wall_s=r['wall'], limit_s=25, how='python tools/c15_worker.py <file>  (ReplayParser(file, strict=False).get_info() in a fresh interpreter)'))
                break
        # a run of tiny slice packets whose bounds have ALL BITS SET, each one bit wider than the one before (what a list that doubled on every
        # packet would ask for): a bound past the end of the list is clamped (or the packet fails) - forty such packets stay forty small steps
        for v in [x for x in (wv[-1], '13_2_0', '12_6_0') if x in wv][:2]:
            bb, vs = battle.build_wows(v, random.Random(8), join=True)
            if not hasattr(bb, 'ribbon_slice'): continue
            p = os.path.join(tmp, 'slices-%s.wowsreplay' % v)
            base_p = os.path.join(tmp, 'slices-base-%s.wowsreplay' % v); battle.write_replay(base_p, 'wowsreplay', {'clientVersionFromXml': vs}, bb.stream())
            base = run_worker(base_p, 120)
            bb.pkt('NestedProperty', bb.ribbon_slice(2, 3, 3))                      # 3 records -> 4 (bounds 3:3 of 2 bits: plain append)
            for k in range(40):
                w_ = 3 + k
                if w_ > 60: break
                bb.pkt('NestedProperty', bb.ribbon_slice(w_, 2 ** w_ - 1, 2 ** w_ - 1))
            battle.write_replay(p, 'wowsreplay', {'clientVersionFromXml': vs}, bb.stream())
            r = run_worker(p, max(10.0, base['wall'] * 10 + 3))
            ctx.case(('slice-bounds-all-ones', v)); ctx.count('where:slice-bounds-all-ones')
            bad = None
            if r['outcome'].startswith(('HANG', 'CRASH')) or r['outcome'] in ('exception MemoryError', 'exception RecursionError'): bad = r['outcome']
            elif r['maxrss_kb'] > max(base['maxrss_kb'] * 3, 150000): bad = 'peak resident size %d kB (without the run of slice packets: %d kB)' % (r['maxrss_kb'], base['maxrss_kb'])
            elif not r['outcome'].startswith('result'): bad = 'container intact but lenient mode raised: ' + r['outcome']
            if bad:
                keep = os.path.join(common.VERIF, 'evidence', 'replays', 'C15-damaged-%d.wowsreplay' % (len(ctx.violations) + 1)); shutil.copy(p, keep)
                ctx.violation(dict(kind='damaged-input', source='synthetic %s battle' % v, where='bounds of 41 nested slice packets into Avatar.privateVehicleState.ribbons', corruption='both bounds all ones, 2, 3, 4, ... 42 bits wide',
                                   problem=bad, file=keep, wall_s=r['wall'], how='python tools/c15_worker.py <file>  (ReplayParser(file, strict=False).get_info() in a fresh interpreter)'))
                break
        # the value bytes of EVERY property update and method call replaced by 0xff bytes (count / length escapes with nothing behind them): each packet
        # fails or decodes to something tiny; a few kB of input stay a matter of milliseconds and megabytes
        for src in (syn, syn2, syn3, syn4):
            ext = src.rsplit('.', 1)[-1]
            try: raw = fast_source(src)
            except Exception: continue
            base = run_worker(src, 120)
            for k in (4, 3, 8):
                frames = []; off = 0; st = raw[1]
                while off + 12 <= len(st):
                    size, ptype, tb = struct.unpack_from('<III', st, off)
                    if off + 12 + size > len(st): break
                    pl = st[off + 12:off + 12 + size]
                    if ptype in (0x7, 0x8) and len(pl) >= 12: pl = pl[:8] + struct.pack('<I', k) + b'\xff' * k
                    frames.append(struct.pack('<III', len(pl), ptype, tb) + pl); off += 12 + size
                p = os.path.join(tmp, 'ffvals.' + ext); fast_write(p, ext, raw[0], b''.join(frames) + st[off:])
                r = run_worker(p, max(8.0, base['wall'] * 10 + 3))
                ctx.case(('ff-values', os.path.basename(src), k)); ctx.count('where:all-values-0xff')
                bad = None
                if r['outcome'].startswith(('HANG', 'CRASH')): bad = r['outcome']
                elif r['outcome'] in ('exception MemoryError', 'exception RecursionError'): bad = r['outcome']
                elif r['maxrss_kb'] > max(base['maxrss_kb'] * 3, 150000): bad = 'peak resident size %d kB (undamaged: %d kB)' % (r['maxrss_kb'], base['maxrss_kb'])
                elif not r['outcome'].startswith('result'): bad = 'container intact but lenient mode raised: ' + r['outcome']
                if bad:
                    keep = os.path.join(common.VERIF, 'evidence', 'replays', 'C15-damaged-%d.%s' % (len(ctx.violations) + 1, ext)); shutil.copy(p, keep)
                    ctx.violation(dict(kind='damaged-input', source=os.path.basename(src), where='the value bytes of every property update and method call', corruption='%d x 0xff' % k, problem=bad, file=keep,
                                       wall_s=r['wall'], how='python tools/c15_worker.py <file>  (ReplayParser(file, strict=False).get_info() in a fresh interpreter)'))
                    break
        # ... and every ARRAY-typed client property of the ships, the recording player and the battle logic of a synthetic battle updated with a
        # value that is nothing but 0xff bytes (what is left of a value when its length escape survives and the rest is cut off)
        for v_ in ('13_2_0', [x for x in wv if x.startswith('0_9_')][0]):
            b_, vs_ = battle.build_wows(v_, random.Random(3))
            for ename, eid in (('Avatar', 900), ('Vehicle', 500), ('Vehicle', 501), ('BattleLogic', 10)):
                for i, (pn, pt) in enumerate(b_.md.ent[ename]['client']):
                    tt = pt
                    while tt[0] == 'user': tt = tt[1]
                    if tt[0] == 'array':
                        for k in (4, 3): b_.pkt('EntityProperty', struct.pack('<II', eid, i) + struct.pack('<I', k) + b'\xff' * k)
            p = os.path.join(tmp, 'ffarrays.wowsreplay'); fast_write(p, 'wowsreplay', json.dumps({'clientVersionFromXml': vs_}).encode(), b_.stream())
            r = run_worker(p, 10.0)
            ctx.case(('ff-arrays', v_)); ctx.count('where:array-values-0xff')
            bad = None
            if r['outcome'].startswith(('HANG', 'CRASH')): bad = r['outcome']
            elif r['outcome'] in ('exception MemoryError', 'exception RecursionError'): bad = r['outcome']
            elif r['maxrss_kb'] > 150000: bad = 'peak resident size %d kB for a synthetic battle of %d bytes' % (r['maxrss_kb'], os.path.getsize(p))
            elif not r['outcome'].startswith('result'): bad = 'container intact but lenient mode raised: ' + r['outcome']
            if bad:
                keep = os.path.join(common.VERIF, 'evidence', 'replays', 'C15-damaged-%d.wowsreplay' % (len(ctx.violations) + 1)); shutil.copy(p, keep)
                ctx.violation(dict(kind='damaged-input', source='synthetic battle ' + v_, where='ARRAY-typed client properties', corruption='updates whose value is 3 or 4 bytes of 0xff', problem=bad, file=keep,
                                   wall_s=r['wall'], how='python tools/c15_worker.py <file>  (ReplayParser(file, strict=False).get_info() in a fresh interpreter)'))
        # container-level: the BLOCK COUNT tampered to a huge value while the file ends (or only empty blocks follow) behind the first block -
        # two damages that only together keep every single read "successful"; time and memory must stay proportional to the ~150 bytes
        data = open(syn, 'rb').read(); size0 = struct.unpack_from('<i', data, 8)[0]; first = data[:12 + size0]
        for count in (2 ** 22 + 1, 2 ** 24 + 1, 0x7fffffff, 0x80000000, 0xffffffff):
            for tail in (b'', bytes(4) * 3, bytes(4) * 3 + data[12 + size0:12 + size0 + 40]):
                p = os.path.join(tmp, 'count.wowsreplay'); open(p, 'wb').write(first[:4] + struct.pack('<I', count) + first[8:] + tail)
                r = run_worker(p, 20)
                ctx.case(('block-count', count, len(tail))); ctx.count('where:block-count+cut'); ctx.count('outcome:' + r['outcome'].split(' ')[0])
                bad = None
                if r['outcome'].startswith(('HANG', 'CRASH')): bad = r['outcome']
                elif r['outcome'] in ('exception MemoryError', 'exception RecursionError'): bad = r['outcome'] + ' (not an ordinary outcome for a damaged file)'
                elif r['wall'] > 5 or r['maxrss_kb'] > 400000: bad = '%.1f s and %d kB peak resident size for a file of %d bytes' % (r['wall'], r['maxrss_kb'], len(first) + len(tail))
                if bad:
                    keep = os.path.join(common.VERIF, 'evidence', 'replays', 'C15-damaged-%d.wowsreplay' % (len(ctx.violations) + 1)); shutil.copy(p, keep)
                    ctx.violation(dict(kind='damaged-input', source='synthetic battle', where='container: block count', corruption='count=%#x, file cut behind the first block (+%d bytes)' % (count, len(tail)),
                                       problem=bad, file=keep, wall_s=r['wall'], limit_s=20, how='python tools/c15_worker.py <file>'))
                    break
            else: continue
            break
        ctx.extra['worst_wall_s'] = worst['wall']; ctx.extra['worst_maxrss_kb'] = worst['rss']
        ctx.sample(dict(sources=[os.path.basename(s) for s in srcs], per_source=n_per))
    finally:
        shutil.rmtree(tmp, ignore_errors=True)


def replay(ctx, path):
    obj = json.load(open(path)); print(json.dumps(obj, indent=1)[:2000])
    if obj.get('file') and os.path.exists(obj['file']):
        r = run_worker(obj['file'], obj.get('limit_s', 60)); print(r); return 1 if r['outcome'].startswith(('HANG', 'CRASH')) else 0
    return 1
