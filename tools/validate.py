#!/usr/bin/env python3-vt
import json, jsonschema, glob, sys, os
H = os.path.dirname(os.path.dirname(os.path.abspath(__file__)))
jsonschema.validate(json.load(open(H + '/MANIFEST.json')), json.load(open('/root/.vp/MANIFEST.schema.json')))
s = json.load(open('/root/.vp/EVIDENCE.schema.json'))
for f in sorted(glob.glob(H + '/evidence/*.json')):
    jsonschema.validate(json.load(open(f)), s); print('ok', os.path.basename(f))
