"""C08 - entity pose follows the position packets addressed to it."""
from tools import common, worldcheck, recordings, gen_const
LEVEL = 'proof'


def run(ctx):
    ctx.rule = ('generated histories with creation, position and own-player-position packets over several entities of equal and different '
                'types (ids equal/unequal/zero/unknown, arbitrary float bits incl. NaN/inf); three-way: library vs model vs SPEC poses; '
                'non-trivial = every history; distinct by (dialect, stream)')
    ctx.coq_props('Props/C08.v')
    gen_const.instance_obligations(ctx, 'C08', which=('tables',))
    q = ctx.tier == 'quick'
    worldcheck.run_histories(ctx, 'C08', n_defsets=16 if q else 60, hist_per_set=4, sizes=[60, 200] if q else [60, 200, 600],
                             dialects=('wows', 'wows126', 'wot', 'wows'))
    recordings.payload_check(ctx, 'C08', quick_n=4)
    ctx.notes.append('fixed: C08-a (own-player packets without a second entity were discarded) - repaired in /repo, see known_findings.json')


def replay(ctx, path): return worldcheck.replay(ctx, path, 'C08')
