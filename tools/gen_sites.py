"""Translator gen_sites: inventory of call sites in the package that can reach a stdout / code-executing / process / file primitive."""
import os, ast, glob
from tools import common
from tools.gen_const import GEN_DIR, coq_str


def py_files():
    out = [os.path.join(common.REPO, 'replay_parser.py')]
    out += sorted(glob.glob(os.path.join(common.REPO, 'replay_unpack', '**', '*.py'), recursive=True))
    return out


class Scan(ast.NodeVisitor):
    def __init__(self, rel): self.rel = rel; self.stack = []; self.sites = []; self.ints = set()
    def visit_FunctionDef(self, n): self.stack.append(n.name); self.generic_visit(n); self.stack.pop()
    visit_AsyncFunctionDef = visit_FunctionDef
    def visit_ClassDef(self, n): self.stack.append(n.name); self.generic_visit(n); self.stack.pop()
    def visit_Constant(self, n):
        if isinstance(n.value, int) and not isinstance(n.value, bool): self.ints.add(n.value)
    def visit_Call(self, n):
        name = None
        f = n.func
        if isinstance(f, ast.Name): name = f.id
        elif isinstance(f, ast.Attribute):
            parts = []
            while isinstance(f, ast.Attribute): parts.append(f.attr); f = f.value
            if isinstance(f, ast.Name): parts.append(f.id); name = '.'.join(reversed(parts))
            else: name = '?.' + '.'.join(reversed(parts))
        if name:
            kind = None
            if name == 'print' or name.endswith('stdout.write'): kind = 'stdout'
            elif name in ('eval', 'exec', 'compile', '__import__') or name.endswith('import_module'): kind = 'code'
            elif name.endswith('pickle.loads') or name.endswith('pickle.load') or name in ('loads', 'load') and False: kind = 'pickle'
            elif name.startswith('os.system') or name.startswith('subprocess.') or name.startswith('os.popen') or name.startswith('os.exec') or name.startswith('os.spawn'): kind = 'process'
            elif name == 'open' or name.endswith('.open') and name.split('.')[0] in ('io', 'os', 'codecs'): kind = 'file'
            elif name.startswith('sys.path.') or name.startswith('os.remove') or name.startswith('os.unlink') or name.startswith('shutil.'): kind = 'fs-or-path'
            if kind: self.sites.append((kind, self.rel, '.'.join(self.stack) or '<module>', name, n.lineno))
        self.generic_visit(n)


def scan():
    sites = []; ints = set(); problems = []
    for f in py_files():
        rel = os.path.relpath(f, common.REPO)
        try: tree = ast.parse(open(f, encoding='utf-8').read())
        except SyntaxError as e: problems.append('%s: %s' % (rel, e)); continue
        s = Scan(rel); s.visit(tree); sites += s.sites; ints |= s.ints
    return sites, ints, problems
