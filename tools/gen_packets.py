"""Translator: the __init__ of every packet class that a dialect's PACKETS_MAPPING names -> Coq layout terms (Layout.fkind) in
build/gen/GenLayouts.v, plus instance theorems `class_layout <game> <class> = Some <translated layout>` (reflexivity).  Together with
LayoutProofs.step_class_is_layout (the model's step function IS the table-driven one) this ties the byte layout of every packet class
to the working tree on every run.  Fail-closed: a statement outside the small language below leaves the class untranslated and the
obligation fails.  The class objects are found by reflection (so a re-export or a subclass is followed), their source by inspect."""
import ast, inspect, os, struct, sys, textwrap, hashlib
from . import common
from .gen_const import GEN_DIR, PCLASSES

GAME_OF = {'wows': 'Wows', 'wows126': 'Wows', 'wot': 'Wot', 'wowp': 'Wowp'}
INT_CODES = {'b': ('KS', 1), 'B': ('KU', 1), 'h': ('KS', 2), 'H': ('KU', 2), 'i': ('KS', 4), 'I': ('KU', 4), 'l': ('KS', 4), 'L': ('KU', 4),
             'q': ('KS', 8), 'Q': ('KU', 8)}
RAW_CODES = {'f': 4, 'd': 8}
# classes whose reader has control flow and is modelled by hand (World.decode_map): pinned by the shape of their __init__
PINNED = {('Wows', 'Map'): 'ac4903be9d37375f'}


class Untranslatable(Exception): pass


def _is_stream_read(n):
    return (isinstance(n, ast.Call) and isinstance(n.func, ast.Attribute) and n.func.attr == 'read'
            and isinstance(n.func.value, ast.Name) and n.func.value.id == 'stream')


def _find(node, pred):
    return [n for n in ast.walk(node) if pred(n)]


def _target_names(t):
    """names assigned by a target: self.x -> 'x', x -> 'x', tuples flattened"""
    if isinstance(t, (ast.Tuple, ast.List)): return [n for e in t.elts for n in _target_names(e)]
    if isinstance(t, ast.Attribute) and isinstance(t.value, ast.Name) and t.value.id == 'self': return [t.attr]
    if isinstance(t, ast.Name): return [t.id]
    raise Untranslatable('assignment target %s' % ast.dump(t))


def _fmt_fields(fmt, nbytes):
    order = ''
    if fmt and fmt[0] in '<=@': order, fmt = fmt[0], fmt[1:]
    elif fmt and fmt[0] in '>!': raise Untranslatable('big-endian format %r' % fmt)
    out = []
    i = 0
    while i < len(fmt):
        j = i
        while j < len(fmt) and fmt[j].isdigit(): j += 1
        rep = int(fmt[i:j]) if j > i else 1
        if j >= len(fmt): raise Untranslatable('format %r' % fmt)
        c = fmt[j]
        if c in INT_CODES: out += [INT_CODES[c]] * rep
        elif c in RAW_CODES: out += [('KRaw', RAW_CODES[c])] * rep
        else: raise Untranslatable('format code %r in %r' % (c, fmt))
        i = j + 1
    total = sum(w for _, w in out)
    if struct.calcsize(order + fmt) != total: raise Untranslatable('format %r has padding (%d != %d)' % (fmt, struct.calcsize(order + fmt), total))
    if nbytes != total: raise Untranslatable('format %r wants %d bytes, read(%d)' % (fmt, total, nbytes))
    return out


def translate_init(cls, seen=()):
    """-> (fields: list of (kind, width-or-None), asserts: list)"""
    if cls in seen: raise Untranslatable('recursive class %s' % cls.__name__)
    try: src = textwrap.dedent(inspect.getsource(cls))
    except (OSError, TypeError) as e: raise Untranslatable('no source for %s: %s' % (cls.__name__, e))
    tree = ast.parse(src)
    cdef = next((n for n in tree.body if isinstance(n, ast.ClassDef)), None)
    if cdef is None: raise Untranslatable('no class statement for %s' % cls.__name__)
    init = next((n for n in cdef.body if isinstance(n, ast.FunctionDef) and n.name == '__init__'), None)
    if init is None:
        # inherited reader: follow the MRO
        for b in cls.__mro__[1:]:
            if '__init__' in vars(b) and b is not object: return translate_init(b, seen + (cls,))
        raise Untranslatable('%s has no __init__' % cls.__name__)
    args = [a.arg for a in init.args.args]
    if args != ['self', 'stream'] or init.args.vararg or init.args.kwarg or init.args.kwonlyargs:
        raise Untranslatable('%s.__init__ signature %r' % (cls.__name__, args))
    mod = sys.modules[cls.__module__]
    fields = []          # (kind, n, name)
    asserts = []
    for st in init.body:
        if isinstance(st, ast.Pass): continue
        if isinstance(st, ast.Expr) and isinstance(st.value, ast.Constant) and isinstance(st.value.value, str): continue
        if isinstance(st, ast.Assert):
            t = st.test
            ok = (isinstance(t, ast.Compare) and len(t.ops) == 1 and isinstance(t.ops[0], ast.Eq)
                  and isinstance(t.left, ast.Call) and isinstance(t.left.func, ast.Name) and t.left.func.id == 'len' and len(t.left.args) == 1)
            if not ok: raise Untranslatable('assert %s' % ast.unparse(st))
            a, b = _target_names(t.left.args[0]), _target_names(t.comparators[0])
            ia = [i for i, f in enumerate(fields) if f[2] == a[0]]; ib = [i for i, f in enumerate(fields) if f[2] == b[0]]
            if len(ia) != 1 or len(ib) != 1 or fields[ia[0]][0] != 'KRest' or fields[ib[0]][0] not in ('KU', 'KS'):
                raise Untranslatable('assert %s does not relate the rest to a size field' % ast.unparse(st))
            asserts.append((ia[0], ib[0]))
            continue
        if isinstance(st, ast.AnnAssign) and st.value is not None: targets, value = [st.target], st.value
        elif isinstance(st, ast.Assign): targets, value = st.targets, st.value
        else: raise Untranslatable('statement %s' % ast.unparse(st).split('\n')[0])
        if len(targets) != 1: raise Untranslatable('chained assignment')
        names = _target_names(targets[0])
        reads = _find(value, _is_stream_read)
        unpacks = _find(value, lambda n: isinstance(n, ast.Call) and isinstance(n.func, ast.Attribute) and n.func.attr == 'unpack'
                        and isinstance(n.func.value, ast.Name) and n.func.value.id == 'struct')
        ctor = value if (isinstance(value, ast.Call) and isinstance(value.func, ast.Name) and len(value.args) == 1
                         and isinstance(value.args[0], ast.Name) and value.args[0].id == 'stream' and not value.keywords) else None
        if ctor is not None:
            sub = getattr(mod, ctor.func.id, None)
            if not inspect.isclass(sub): raise Untranslatable('%s(stream): not a class' % ctor.func.id)
            sf, sa = translate_init(sub, seen + (cls,))
            if sa: raise Untranslatable('nested class with asserts')
            kinds = [(k, n) for k, n, _ in sf]
            if kinds and all(k == 'KRaw' for k, _ in kinds): fields.append(('KRaw', sum(n for _, n in kinds), names[0]))     # Vector3 and the like
            elif kinds == [('KBin', None)]: fields.append(('KBin', None, names[0]))
            else: raise Untranslatable('%s(stream) has layout %r' % (ctor.func.id, kinds))
            continue
        if len(unpacks) == 1 and len(reads) == 1:
            u = unpacks[0]
            if len(u.args) != 2 or u.args[1] is not reads[0] or not (isinstance(u.args[0], ast.Constant) and isinstance(u.args[0].value, str)):
                raise Untranslatable('unpack shape %s' % ast.unparse(u))
            r = reads[0]
            if len(r.args) != 1 or not (isinstance(r.args[0], ast.Constant) and isinstance(r.args[0].value, int)):
                raise Untranslatable('read size %s' % ast.unparse(r))
            fs = _fmt_fields(u.args[0].value, r.args[0].value)
            # wrappers allowed around the unpack:  x, = ... | x, y = ... | x = ...[0] == 1
            if value is u:
                if not isinstance(targets[0], (ast.Tuple, ast.List)) or len(names) != len(fs): raise Untranslatable('unpack of %d into %d names' % (len(fs), len(names)))
                fields += [(k, n, nm) for (k, n), nm in zip(fs, names)]
            elif (len(fs) == 1 and len(names) == 1 and isinstance(value, ast.Compare) and isinstance(value.left, ast.Subscript) and value.left.value is u):
                fields.append((fs[0][0], fs[0][1], names[0]))
            elif len(fs) == 1 and len(names) == 1 and isinstance(value, ast.Subscript) and value.value is u:
                fields.append((fs[0][0], fs[0][1], names[0]))
            else: raise Untranslatable('unpack wrapped in %s' % ast.unparse(value))
            continue
        if not unpacks and len(reads) == 1:
            r = reads[0]
            if r.keywords or len(r.args) > 1: raise Untranslatable('read %s' % ast.unparse(r))
            if not r.args:
                if value is not r: raise Untranslatable('read() wrapped: %s' % ast.unparse(value))
                fields.append(('KRest', None, names[0])); continue
            a = r.args[0]
            if isinstance(a, ast.Constant) and isinstance(a.value, int) and value is r:
                fields.append(('KSkip', a.value, names[0])); continue
            if isinstance(a, (ast.Attribute, ast.Name)):
                ln = _target_names(a)[0]
                if not fields or fields[-1][2] != ln: raise Untranslatable('read(%s): not the field read just before' % ln)
                k, n, _ = fields[-1]
                if k == 'KS': fields[-1] = ('KLenS', n, names[0])
                elif k == 'KU' and n == 4 and value is r: fields[-1] = ('KBin', None, names[0])
                else: raise Untranslatable('read(%s) after a %s %s field' % (ln, k, n))
                continue
            raise Untranslatable('read argument %s' % ast.unparse(a))
        raise Untranslatable('statement %s' % ast.unparse(st).split('\n')[0])
    return fields, asserts


def coq_layout(fields):
    return '[%s]' % '; '.join(k if n is None else '%s %d' % (k, n) for k, n, _ in fields)


def init_pin(cls):
    src = textwrap.dedent(inspect.getsource(cls)); tree = ast.parse(src)
    cdef = next(n for n in tree.body if isinstance(n, ast.ClassDef))
    init = next(n for n in cdef.body if isinstance(n, ast.FunctionDef) and n.name == '__init__')
    return hashlib.sha256(ast.unparse(init).encode()).hexdigest()[:16]


def reflect_layouts():
    from replay_unpack.clients.wows.network import packets as pw
    from replay_unpack.clients.wot.network import packets as pt
    from replay_unpack.clients.wowp.network import packets as pp
    rows, problems = {}, []
    for d, m in (('wows', pw.PACKETS_MAPPING), ('wows126', pw.PACKETS_MAPPING_12_6), ('wot', pt.PACKETS_MAPPING), ('wowp', pp.PACKETS_MAPPING)):
        g = GAME_OF[d]
        for k, cls in sorted(m.items(), key=lambda kv: kv[0]):
            cn = cls.__name__
            if cn not in PCLASSES: problems.append('%s: packet class %s unknown to the model' % (d, cn)); continue
            try:
                fields, asserts = translate_init(cls)
                row = ('Some ' + coq_layout(fields), asserts)
            except Untranslatable as e:
                pin = PINNED.get((g, cn))
                try: now = init_pin(cls)
                except Exception as e2: now = 'unreadable: %s' % e2
                if pin is not None and now == pin: row = ('None', [])
                else:
                    problems.append('%s/%s: %s%s' % (d, cn, e, '' if pin is None else ' (hand-modelled reader changed: pin %s, now %s)' % (pin, now)))
                    row = ('None (* untranslated *)', [])
            if (g, cn) in rows and rows[(g, cn)] != row: problems.append('%s/%s: two different readers for one game' % (d, cn))
            rows[(g, cn)] = row
    return rows, problems


def write_gen(tag):
    os.makedirs(GEN_DIR, exist_ok=True)
    rows, problems = reflect_layouts()
    L = ['(* GENERATED by tools/gen_packets.py from the packet classes of the working tree of /repo - do not edit *)',
         'From RU Require Import Base Types Defs World Layout.', 'Open Scope N_scope.']
    I = ['(* GENERATED instance theorems: the layout translated from every packet class is the layout the model decodes by *)',
         'From RU Require Import Base Types Defs World Layout.', 'From Gen Require Import GenLayouts_%s.' % tag, 'Open Scope N_scope.']
    for (g, cn), (term, asserts) in sorted(rows.items()):
        L.append('Definition gen_layout_%s_%s : option (list fkind) := %s.' % (g, cn, term))
        L.append('Definition gen_asserts_%s_%s : list (nat * nat) := [%s].' % (g, cn, '; '.join('(%d, %d)%%nat' % a for a in asserts)))
        I.append('Theorem inst_layout_%s_%s : class_layout %s %s = gen_layout_%s_%s /\\ gen_asserts_%s_%s = %s.' % (
            g, cn, g, cn, g, cn, g, cn, '[(4, 2)%nat]' if cn == 'NestedProperty' else '[]'))
        I.append('Proof. split; reflexivity. Qed.')
    open(os.path.join(GEN_DIR, 'GenLayouts_%s.v' % tag), 'w').write('\n'.join(L) + '\n')
    open(os.path.join(GEN_DIR, 'Inst_layouts_%s.v' % tag), 'w').write('\n'.join(I) + '\n')
    return rows, problems


def layout_obligations(ctx, pid):
    """translate the packet classes of the working tree and have coqc check that they are the model's layouts"""
    with common.Lock('gen'):
        rows, problems = write_gen(pid)
        ctx.obligation('translator gen_packets understands every mapped packet class', not problems, '; '.join(problems))
        ok, out = common.coqc(os.path.join(GEN_DIR, 'GenLayouts_%s.v' % pid), extra_q=[(GEN_DIR, 'Gen')])
        ctx.obligation('GenLayouts.v compiles', ok, out[-800:])
        if ok: ctx.coq_props(os.path.join(GEN_DIR, 'Inst_layouts_%s.v' % pid), extra_q=[(GEN_DIR, 'Gen')])
    ctx.extra.setdefault('generated_tables', {})['packet_layouts'] = {'%s/%s' % k: v[0] for k, v in sorted(rows.items())}
    return rows


if __name__ == '__main__':
    sys.path.insert(0, os.environ.get('VERIF_REPO', '/repo'))
    rows, problems = reflect_layouts()
    for k, v in sorted(rows.items()): print(k, v)
    print('problems:', problems)
    from replay_unpack.clients.wows.network.packets import Map
    print('pin wows Map', init_pin(Map))
