"""C06 - nested (path-addressed) updates and slices follow list/dict semantics."""
import shutil, struct, json
from tools import common, worldcheck, recordings, gen_const, synth, gen_types
LEVEL = 'proof'


def sweep(ctx, dialect, maxn, exh, elem=None, shape='A', debug_log=False):
    rng = ctx.rng
    ds = synth.sweep_defset(elem=elem or rng.choice([('u', 2), ('u', 1), ('i', 4), ('string',), ('vec', 12)]), shape=shape)
    d = synth.write_defset(ds, rng)
    try:
        pl = synth.make_player(dialect, d); view = synth.LibView(pl)
        h = synth.SweepHistory(rng, dialect, view).build(maxn, exh)
        st = h.stream(); snaps = {}
        if debug_log:
            with common.debug_logging(): lib, subs = synth.run_library(dialect, d, st, snap_eid=h.snap_eid, snaps_out=snaps)      # the log level must not change what is applied
        else: lib, subs = synth.run_library(dialect, d, st, snap_eid=h.snap_eid, snaps_out=snaps)
        mod = synth.run_model(dialect, d, st, subs)
        focus = worldcheck.FOCUS['C06']
        a, b = worldcheck.select(lib, focus), worldcheck.select(mod, focus)
        ctx.case(('sweep', dialect, maxn, hash(st)), n=len(h.packets))
        for k in h.spec_snaps: ctx.nontrivial.add(('op', dialect, k, hash(st)))
        ctx.count('sweep:nested-ops', len(h.spec_snaps))
        ok_model = a == b
        if not ok_model:
            worldcheck.report(ctx, 'C06', 'library-vs-model', dialect, d, h.packets, focus, None, False, a, b, 'extracted model')
        bad = [k for k in sorted(h.spec_snaps) if snaps.get(k) != h.spec_snaps[k]]
        if bad:
            k = bad[0]
            ctx.violation(dict(kind='library-vs-spec', dialect=dialect, defs=worldcheck.read_defs_dir(d),
                               packets=[dict(type=t, time_bits=tb, payload=pl_.hex(), label=lb) for t, tb, pl_, lb in h.packets[:k + 1]],
                               first_difference=dict(after_packet=k, implementation=snaps.get(k), expected=h.spec_snaps[k]),
                               compared_with='the same operation on an ordinary Python list/dict'))
        return ok_model
    finally:
        shutil.rmtree(d, ignore_errors=True)


def big_payload(ctx, n):
    """elements that make the payload 128..255 bytes long (the size byte is unsigned since the repair fixed: C06-a; a regression is a violation)"""
    rng = ctx.rng
    ds = synth.sweep_defset(elem=('string',)); d = synth.write_defset(ds, rng)
    try:
        pl = synth.make_player('wows', d); view = synth.LibView(pl)
        h = synth.History(rng, 'wows', view)
        h.base_player(); eid = 500
        props = view.exposed('Thing'); names = [n for n, _ in props]; li = names.index('lst')
        head = struct.pack('<ihii', eid, view.type_index('Thing'), 3, 4) + bytes(24)
        lt = props[li][1]; old = [('s', b'a'), ('s', b'b')]
        state = bytes([1, li]) + gen_types.wire_of(lt, old)
        h.emit('EntityCreate', head + synth.binstream(state), 'create'); h.ensure_entity(eid, 'Thing'); h.ents[eid]['client']['lst'] = (lt, old)
        new = ('s', b'x' * n)
        payload = synth.pack_bits([(1, 1), (li, synth.bits_required(len(props))), (0, 1), (1, 1)]) + gen_types.wire_of(('string',), new)
        h.emit('NestedProperty', struct.pack('<IbB', eid, 0, len(payload)) + bytes(3) + payload, 'nested-set')
        old[1] = new
        lib, subs = synth.run_library('wows', d, h.stream())
        fin = [l for l in synth.split(lib)[2] if l.startswith('P client lst')]
        want = 'P client lst ' + synth.canon_struct(lt, old)
        ctx.case(('big-payload', n))
        if fin != [want]:
            ctx.deviation('nested-payload>=128', {'class': 'nested-payload>=128'},
                          dict(kind='nested-big-payload', implementation=fin, expected=want, payload_len=len(payload),
                               how='NestedProperty packet whose payload (bit path + one long STRING element) is %d bytes long' % len(payload)))
    finally:
        shutil.rmtree(d, ignore_errors=True)


def run(ctx):
    ctx.rule = ('(a) sweep: list sizes 0..40 at depth 1-3 and lists grown by slice packets to 334 elements (9-bit indices and bounds), every index, EVERY (i,j,k) slice triple for lists up to 5 (exhaustive), the state after '
                'each single operation compared with plain Python list/dict semantics; (b) generated histories with nested operations over '
                'generated definitions; non-trivial = each nested operation; distinct by (stream, packet index)')
    ctx.coq_props('Props/C06.v')
    gen_const.instance_obligations(ctx, 'C06', which=('tables',))
    q = ctx.tier == 'quick'
    ok = True
    for k, dialect in enumerate(('wows', 'wot') if q else ('wows', 'wows126', 'wot')):
        ok &= sweep(ctx, dialect, 40, 4 if q else 6, elem=(('u', 1), ('u', 2))[k % 2] if k < 2 else None)     # one-/two-byte elements: the grown-list phase runs
    ok &= sweep(ctx, 'wows', 10, 3, elem=('u', 2), debug_log=True)
    ok &= sweep(ctx, 'wows', 12, 3, elem=('u', 2), shape='B')      # an entity with a BASE_AND_CLIENT property: 5 exposed / 4 own-client properties
    ctx.obligation('correspondence: library = extracted model on the nested sweeps', ok)
    for n in (122, 123, 124, 125, 130, 200, 249, 250): big_payload(ctx, n)     # payload lengths 126..254 around the signed-byte boundary
    worldcheck.run_histories(ctx, 'C06', n_defsets=14 if q else 60, hist_per_set=3, sizes=[80, 250] if q else [80, 250, 700],
                             dialects=('wows', 'wows126', 'wot'))
    recordings.payload_check(ctx, 'C06', quick_n=3)


def replay(ctx, path): return worldcheck.replay(ctx, path, 'C06')
