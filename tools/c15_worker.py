"""Runs ONE lenient parse of a (damaged) file in a fresh interpreter and reports outcome, wall time and peak resident size."""
import sys, time, resource, json
sys.setrecursionlimit(1000)
import logging; logging.disable(logging.CRITICAL)
path = sys.argv[1]
t0 = time.time()
try:
    from replay_parser import ReplayParser
    r = ReplayParser(path, strict=False).get_info()
    out = 'result hidden=%s error=%s' % ('yes' if r.get('hidden') is not None else 'none', 'yes' if r.get('error') else 'none')
except MemoryError: out = 'exception MemoryError'
except RecursionError: out = 'exception RecursionError'
except Exception as e: out = 'exception ' + type(e).__name__
print(json.dumps(dict(outcome=out, wall=round(time.time() - t0, 3), maxrss_kb=resource.getrusage(resource.RUSAGE_SELF).ru_maxrss)))
