"""Generators of .def type trees and of typed values (in canonical text form), with boundary values enumerated."""
import struct

LEAVES = [('u', 1), ('u', 2), ('u', 4), ('u', 8), ('i', 1), ('i', 2), ('i', 4), ('i', 8), ('f32',), ('f64',),
          ('vec', 8), ('vec', 12), ('vec', 16), ('string',), ('blob',), ('python',), ('mailbox',)]
FIELD_NAMES = ['a', 'b', 'c', 'id', 'name', 'pos', 'fld1', 'fld2', 'x_y', 'Zed', 'q', 'w9']


def gen_type(rng, depth, width=4, leaves=LEAVES):
    if depth <= 0 or rng.random() < 0.35:
        return rng.choice(leaves)
    k = rng.choice(['array', 'array', 'farray', 'dict', 'dict', 'dictn', 'user'])
    if k == 'array': return ('array', gen_type(rng, depth - 1, width, leaves), None)
    if k == 'farray': return ('array', gen_type(rng, depth - 1, width, leaves), rng.choice([0, 1, 2, 3, 5]))
    if k in ('dict', 'dictn'):
        n = rng.randrange(0 if rng.random() < 0.1 else 1, width + 1)
        names = rng.sample(FIELD_NAMES, n)
        return ('dict', tuple((nm, gen_type(rng, depth - 1, width, leaves)) for nm in names), k == 'dictn')
    inner = gen_type(rng, depth - 1, width, leaves) if rng.random() < 0.7 else ('blob',)
    return ('user', inner)


def depth_of(t):
    if t[0] == 'array' or t[0] == 'user': return 1 + depth_of(t[1])
    if t[0] == 'dict': return 1 + max([depth_of(ft) for _, ft in t[1]] or [0])
    return 0


INT_BOUNDS = lambda w: [0, 1, 2, 127, 128, 255, 256, 2 ** (8 * w - 1) - 1, 2 ** (8 * w - 1), 2 ** (8 * w) - 1]
F32_BITS = [0x00000000, 0x80000000, 0x3f800000, 0xbf800000, 0x7f800000, 0xff800000, 0x7fc00000, 0x7f800001,
            0x00000001, 0x007fffff, 0x00800000, 0x7f7fffff, 0x40490fdb, 0xc2f6e979]
F64_BITS = [0, 1 << 63, 0x3ff0000000000000, 0x7ff0000000000000, 0xfff0000000000000, 0x7ff8000000000000,
            1, 0x000fffffffffffff, 0x0010000000000000, 0x7fefffffffffffff, 0x400921fb54442d18]
TEXTS = ['', 'a', 'hello', '\ufeffbom first', '\ufeff', 'mid\ufeffdle', 'Привет', '日本語', 'a\x00b', ' ', '\U0001f600', 'x' * 254, 'x' * 255, 'x' * 256, 'é' * 127, 'é' * 128]
BAD_UTF8 = [b'\xff', b'\x80abc', b'\xc3', b'\xed\xa0\x80', b'\xf4\x90\x80\x80', b'\xc0\xaf', b'\x80\x04\x95']
LENS = [0, 1, 2, 7, 127, 128, 253, 254]
BIG_LENS = [255, 256, 300, 65535]
HUGE_LENS = [65536, 70000]


def f32canon(bits):
    exp = (bits >> 23) & 0xff; man = bits & 0x7fffff
    if exp == 255 and man: return 'nan'
    return struct.pack('<I', bits).hex()


def f64canon(bits):
    exp = (bits >> 52) & 0x7ff; man = bits & ((1 << 52) - 1)
    if exp == 0x7ff and man: return 'nan'
    return struct.pack('<Q', bits).hex()


def utf8_ok(b):
    try:
        b.decode('utf-8'); return True
    except UnicodeDecodeError:
        return False


def packed(n):
    return bytes([n]) if n < 255 else b'\xff' + n.to_bytes(3, 'little')


# ---- structured values ----
# int | ('f', bits32) | ('d', bits64) | ('v', [bits32...]) | ('s', bytes) | ('m', ip4, port) | list | dict | None
def canon_of(t, v):
    k = t[0]
    if k == 'user': return canon_of(t[1], v)
    if k in ('u', 'i'): return 'i%d' % v
    if k == 'f32': return 'f' + f32canon(v[1])
    if k == 'f64': return 'd' + f64canon(v[1])
    if k == 'vec': return 'v(' + ','.join(f32canon(b) for b in v[1]) + ')'
    if k == 'string': return ('s' if utf8_ok(v[1]) else 'b') + v[1].hex()
    if k in ('blob', 'python'): return 'b' + v[1].hex()
    if k == 'mailbox': return 'm%s:%d' % (v[1].hex(), v[2])
    if k == 'array': return '[' + ','.join(canon_of(t[1], x) for x in v) + ']'
    if k == 'dict':
        if v is None: return 'n'
        return '{' + ','.join('%s=%s' % (nm, canon_of(ft, v[nm])) for nm, ft in t[1]) + '}'
    raise AssertionError(t)


def enc_of(t, v):
    """text for the model's spec encoder: like canon_of but with the real NaN bit patterns"""
    k = t[0]
    if k == 'user': return enc_of(t[1], v)
    if k == 'f32': return 'f' + struct.pack('<I', v[1]).hex()
    if k == 'f64': return 'd' + struct.pack('<Q', v[1]).hex()
    if k == 'vec': return 'v(' + ','.join(struct.pack('<I', b).hex() for b in v[1]) + ')'
    if k == 'array': return '[' + ','.join(enc_of(t[1], x) for x in v) + ']'
    if k == 'dict':
        if v is None: return 'n'
        return '{' + ','.join('%s=%s' % (nm, enc_of(ft, v[nm])) for nm, ft in t[1]) + '}'
    return canon_of(t, v)


def wire_of(t, v, hdr=1):
    """the wire encoding as property C03 states it (harness-side copy used only to BUILD inputs; never an oracle)"""
    k = t[0]
    if k == 'u': return v.to_bytes(t[1], 'little')
    if k == 'i': return (v % (1 << (8 * t[1]))).to_bytes(t[1], 'little')
    if k == 'f32': return struct.pack('<f', v) if isinstance(v, (int, float)) else struct.pack('<I', v[1])
    if k == 'f64': return struct.pack('<d', v) if isinstance(v, (int, float)) else struct.pack('<Q', v[1])
    if k == 'vec': return b''.join(struct.pack('<I', b) for b in v[1])
    if k in ('string', 'blob', 'python'): return packed(len(v[1])) + v[1]
    if k == 'mailbox': return v[1] + struct.pack('>H', v[2])
    if k == 'array':
        body = b''.join(wire_of(t[1], x, hdr) for x in v)
        return body if t[2] is not None else packed(len(v)) + body
    if k == 'dict':
        if v is None: return b'\x00'
        body = b''.join(wire_of(ft, v[nm], hdr) for nm, ft in t[1])
        return (b'\x01' if t[2] else b'') + body
    if k == 'user':
        if t[1] == ('blob',): return wire_of(t[1], v, hdr)
        body = wire_of(t[1], v, hdr)
        return (len(body) % (256 ** hdr)).to_bytes(hdr, 'little') + body if hdr else body
    raise AssertionError(t)


class ValueGen:
    """generates structured values with boundary values enumerated; flags record which code-range limits are exceeded"""
    def __init__(self, rng, allow_big=True, allow_huge=False):
        self.rng = rng; self.allow_big = allow_big; self.allow_huge = allow_huge
        self.flags = set()

    def length(self, small_only=False):
        r = self.rng.random()
        if small_only or r < 0.8: return self.rng.choice(LENS + [self.rng.randrange(0, 40)] * 4) if not small_only else self.rng.choice([0, 1, 2, 3, 7, 12])
        if self.allow_huge and r > 0.985: return self.rng.choice(HUGE_LENS)
        if self.allow_big: return self.rng.choice(BIG_LENS)
        return self.rng.choice(LENS)

    def rbytes(self, n):
        rng = self.rng
        if n > 2000: return bytes([rng.randrange(256)]) * n
        return bytes(rng.randrange(256) for _ in range(n))

    def struct(self, t, nested=False):
        rng = self.rng; k = t[0]
        if k == 'u':
            return rng.choice([b for b in INT_BOUNDS(t[1]) if b < 2 ** (8 * t[1])] + [rng.randrange(2 ** (8 * t[1]))])
        if k == 'i':
            w = t[1]; lo, hi = -2 ** (8 * w - 1), 2 ** (8 * w - 1) - 1
            z = rng.choice([lo, lo + 1, -1, 0, 1, hi - 1, hi, -128, 127, rng.randrange(lo, hi + 1)])
            return max(lo, min(hi, z))
        if k == 'f32': return ('f', rng.choice(F32_BITS + [rng.randrange(2 ** 32)] * 3))
        if k == 'f64': return ('d', rng.choice(F64_BITS + [rng.randrange(2 ** 64)] * 3))
        if k == 'vec': return ('v', [rng.choice(F32_BITS + [rng.randrange(2 ** 32)] * 3) for _ in range(t[1] // 4)])
        if k == 'string':
            r = rng.random()
            if r < 0.55:
                s = rng.choice(TEXTS).encode('utf-8')
                if nested and len(s) > 40: s = s[:3]
            elif r < 0.7:
                s = rng.choice(BAD_UTF8) + self.rbytes(rng.randrange(0, 6))
            else:
                n = self.length(small_only=nested)
                s = (b'ab\xd0\x96' * (n // 4 + 1))[:n] if rng.random() < 0.5 else self.rbytes(n)
            if len(s) >= 65536: self.flags.add('string>=65536')
            return ('s', s)
        if k == 'blob': return ('s', self.rbytes(self.length(small_only=nested)))
        if k == 'python':
            n = self.length(small_only=nested)
            if n >= 255: self.flags.add('python>=255')
            return ('s', self.rbytes(n))
        if k == 'mailbox':
            return ('m', self.rbytes(4), rng.choice([0, 1, 255, 256, 6000, 65535, rng.randrange(65536)]))
        if k == 'array':
            if t[2] is not None: n = t[2]
            else:
                small = nested or t[1][0] in ('array', 'dict', 'user')
                n = rng.choice([0, 1, 2, 3, 4]) if small or rng.random() < 0.8 or not self.allow_big else rng.choice([254, 255, 256, 300])
                if n >= 255: self.flags.add('count>=255')
            return [self.struct(t[1], nested=True) for _ in range(n)]
        if k == 'dict':
            if t[2] and rng.random() < 0.35: return None
            return {nm: self.struct(ft, nested=True) for nm, ft in t[1]}
        if k == 'user':
            return self.struct(t[1], nested)
        raise AssertionError(t)

    def value(self, t, nested=False):
        """returns (expected canonical text, encoder input text)"""
        v = self.struct(t, nested)
        return canon_of(t, v), enc_of(t, v)
