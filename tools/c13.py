"""C13 - parsing is deterministic and independent of what was parsed before."""
import struct, os, sys, json, random, shutil, subprocess, tempfile
from tools import synth, common, gen_versions, battle, recordings, digest
LEVEL = 'proof'


def fresh_digests(paths, strict, hashseed='0', extra_env=None):
    """each file in its own fresh interpreter"""
    env = dict(os.environ, PYTHONPATH=common.REPO + os.pathsep + common.VERIF, PYTHONHASHSEED=hashseed, **(extra_env or {}))
    procs = []
    out = {}
    for i in range(0, len(paths), 1):
        procs.append((paths[i], subprocess.Popen([common.PY, '-m', 'tools.digest', 'strict' if strict else 'lenient', paths[i]], stdout=subprocess.PIPE, stderr=subprocess.DEVNULL, text=True, env=env, cwd=common.VERIF)))
        if len(procs) >= 16:
            for p, pr in procs: out[p] = pr.communicate(timeout=300)[0].split(' ')[0]
            procs = []
    for p, pr in procs: out[p] = pr.communicate(timeout=300)[0].split(' ')[0]
    return out


def run(ctx):
    ctx.rule = ('static: all ordered pairs of the bundled versions (instance theorem). dynamic: random sequences of parse calls in ONE process over a pool of '
                'synthetic battles (many versions of all three games), small real recordings and failing files (unsupported version, truncated container), '
                'mixing strict and lenient calls, with repetitions; every call\'s canonical digest is compared with the digest obtained in a fresh '
                'interpreter; non-trivial = every call after the first; distinct by (position, file, mode)')
    ctx.coq_props('Props/C13.v')
    rows = gen_versions.c13_table()
    gen_versions.c13_obligations(ctx, rows)
    ctx.extra['versions'] = len(rows); ctx.extra['distinct_registered_keys'] = len(set(k for r in rows for _, k in r['keys']))
    ctx.extra['harmless_stale_subscriptions'] = [(r['label'], r['harmless']) for r in rows if r['harmless']]
    # the same condition, evaluated directly: which (old, new, key) triples would be unsafe
    unsafe = []
    for u in rows:
        for v in rows:
            vk = set(k for _, k in v['keys'])
            for _, k in u['keys']:
                if k not in vk and k in v['hits']: unsafe.append((u['label'], v['label'], k))
    ctx.case(('pairs',), n=len(rows) * len(rows))
    if unsafe:
        ctx.violation(dict(kind='stale-subscription-reachable', triples=unsafe[:10],
                           how='parse a replay of the first version, then one of the second that contains the named event: the first controller\'s callback runs'))
    q = ctx.tier == 'quick'
    rng = ctx.rng
    tmp = tempfile.mkdtemp(prefix='verif-c13-')
    try:
        pool = []
        wv = battle.wows_versions()
        picks = list(wv) if not q else battle.representative_versions(7)
        # releases that ship a build-specific sibling directory (x_y_z_build next to x_y_z): both builds, always, plus a third build number -
        # the same release triple selects different definitions/controllers depending on the build, so a per-release cache or key would show here
        sib = [v for v in wv if len(v.split('_')) == 4 and '_'.join(v.split('_')[:3]) in wv]
        for v in sib:
            for x in (v, '_'.join(v.split('_')[:3])):
                if x not in picks: picks.append(x)
        for v in picks:
            p = os.path.join(tmp, 'w-%s.wowsreplay' % v); battle.write_wows(p, v, random.Random(rng.randrange(10 ** 9)), join=(rng.random() < 0.5)); pool.append(p)
        # battles whose summary depends on NESTED updates (a crew record changed in place after creation)
        for v in [x for x in (wv[-1], '13_2_0', '12_6_0', '0_11_6') if x in wv][:3]:
            p = os.path.join(tmp, 'w-%s-twins.wowsreplay' % v); battle.write_wows(p, v, random.Random(rng.randrange(10 ** 9)), twins=True); pool.append(p)
        for v in sib:
            base3 = '_'.join(v.split('_')[:3])
            b, vs = battle.build_wows(base3, random.Random(rng.randrange(10 ** 9)), join=False)
            p = os.path.join(tmp, 'w-%s-otherbuild.wowsreplay' % base3); battle.write_replay(p, 'wowsreplay', {'clientVersionFromXml': ','.join(base3.split('_') + ['99'])}, b.stream()); pool.append(p)
        # packets that point PAST THE END of their own version's tables (entity type index, method id, property id): in a fresh process they
        # fail and are skipped; if a table of an earlier parse (another version or game with longer lists) leaks into this one they succeed
        for v in (wv[0], wv[len(wv) // 2]):
            b, vs = battle.build_wows(v, random.Random(rng.randrange(10 ** 9)), join=False)
            N = len(b.md.names)
            for et in (N + 1, N + 2, 20, 26, 30):
                b.pkt('EntityCreate', struct.pack('<ihii', 501, et, 0, 1) + bytes(24) + synth.binstream(b'\x00'))
            b.pkt('EntityMethod', struct.pack('<II', 500, len(b.md.ent['Vehicle']['methods']) + 3) + synth.binstream(b''))
            b.pkt('EntityProperty', struct.pack('<II', 500, len(b.md.ent['Vehicle']['client']) + 2) + synth.binstream(b'\x00'))
            p = os.path.join(tmp, 'w-%s-beyond.wowsreplay' % v); battle.write_replay(p, 'wowsreplay', {'clientVersionFromXml': vs}, b.stream()); pool.append(p)
        for game, v in (('wot', '1_8_0'), ('wot', '1_10_0'), ('wowp', '2_1_17'), ('wowp', '1_7_5')):
            p = os.path.join(tmp, '%s-%s.%s' % (game, v, {'wot': 'wotreplay', 'wowp': 'wowpreplay'}[game])); battle.write_simple(p, game, v, random.Random(rng.randrange(10 ** 9))); pool.append(p)
        # versions that are NOT bundled, for every game, near bundled ones (a patch release, a release between two bundled ones): refused, and
        # refused in the same way however often and after whatever they are parsed
        for game, base, label in (('wot', '1_10_0', '1.10.1'), ('wot', '1_8_0', '1.9.1'), ('wowp', '2_1_17', '2.1.18'), ('wowp', '1_7_5', '1.7.6')):
            b, vs = battle.build_simple(game, base, random.Random(rng.randrange(10 ** 9)))
            ext = {'wot': 'wotreplay', 'wowp': 'wowpreplay'}[game]; key = 'clientVersion' if game == 'wowp' else 'clientVersionFromXml'
            vs2 = vs.replace(base.replace('_', '.'), label)
            p = os.path.join(tmp, '%s-unbundled-%s.%s' % (game, label, ext)); battle.write_replay(p, ext, {key: vs2}, b.stream()); pool += [p, p]
        pool += [f for f in recordings.list_recordings() if os.path.getsize(f) < (800000 if q else 10 ** 9)][: (3 if q else 100)]
        newest = sorted((f for f in recordings.list_recordings() if f.endswith('.wowsreplay')), key=lambda f: [int(x) if x.isdigit() else 0 for x in os.path.basename(os.path.dirname(f)).split('_')])[-1]
        if newest not in pool: pool.append(newest)
        # failing files
        bad1 = os.path.join(tmp, 'unsupported.wowsreplay')
        battle.write_replay(bad1, 'wowsreplay', {'clientVersionFromXml': '0,7,0,1'}, b'')
        bad2 = os.path.join(tmp, 'trunc.wowsreplay'); data = open(pool[0], 'rb').read(); open(bad2, 'wb').write(data[:len(data) // 2])
        pool += [bad1, bad2]
        fresh = {False: fresh_digests(pool, False), True: fresh_digests(pool, True)}
        # a fresh process is a fresh process whatever its string-hash seed: the same files under another PYTHONHASHSEED
        other = fresh_digests(pool, False, hashseed='20261001')
        for f in pool:
            ctx.case(('hashseed', os.path.basename(f)))
            if other[f] != fresh[False][f]:
                ctx.violation(dict(kind='result-depends-on-hash-seed', file=os.path.basename(f), digest_seed_0=fresh[False][f], digest_seed_20261001=other[f],
                                   how='PYTHONHASHSEED=0 python -m tools.digest lenient <file>  vs  PYTHONHASHSEED=20261001 python -m tools.digest lenient <file>')); break
        # ... and whatever its optimisation switch: the well-formed battles (strict = lenient, nothing failed) under PYTHONOPTIMIZE=1 (assert statements
        # compiled away - a parse must not DO its work inside one)
        wellformed = [f for f in pool if fresh[True][f] == fresh[False][f] and os.path.basename(f).startswith(('w-', 'wot-', 'wowp-'))]
        wellformed = [f for f in wellformed if 'twins' in f] + [f for f in wellformed if 'twins' not in f][:8]
        opt = fresh_digests(wellformed, False, extra_env={'PYTHONOPTIMIZE': '1'})
        for f in wellformed:
            ctx.case(('optimize', os.path.basename(f))); ctx.count('call:under-PYTHONOPTIMIZE')
            if opt[f] != fresh[False][f]:
                ctx.violation(dict(kind='result-depends-on-interpreter-optimisation', file=os.path.basename(f), digest_default=fresh[False][f], digest_optimize=opt[f],
                                   how='python -m tools.digest lenient <file>  vs  PYTHONOPTIMIZE=1 python -m tools.digest lenient <file> (a synthetic battle in which no packet fails)')); break
        # two players of one version alive at the same time, the OLDER one dropped before the newer one plays: the newer one's result is the fresh one
        import gc
        from replay_unpack.clients import wows as wows_
        for v in [x for x in ('13_2_0', '12_6_0', '0_11_6', '0_10_0') if x in battle.wows_versions()][:3]:
            bb, _vs = battle.build_wows(v, random.Random(13)); stream = bb.stream()
            try:
                p0 = wows_.ReplayPlayer(v.split('_')); p0.play(stream, True); ref = digest.canon(p0.get_info()); del p0; gc.collect()
                p1 = wows_.ReplayPlayer(v.split('_')); p2 = wows_.ReplayPlayer(v.split('_')); del p1; gc.collect()
                p2.play(stream, True); got = digest.canon(p2.get_info()); del p2; gc.collect()
            except Exception as e: got = 'raises %s' % type(e).__name__; ref = locals().get('ref')
            ctx.case(('overlapping-players', v)); ctx.count('call:overlapping-players')
            if got != ref:
                ctx.violation(dict(kind='history-dependent-result', version=v, problem='a player whose elder twin (same version, constructed before it, never played) was dropped before it played returns a different summary',
                                   how='synthetic battle for that version; p1 = ReplayPlayer(v); p2 = ReplayPlayer(v); del p1; gc.collect(); p2.play(stream, True); p2.get_info() vs the same with one player')); break
        # the same PARSER OBJECT asked twice: the second answer is the first one (nothing is replayed into state the first call left behind)
        from replay_parser import ReplayParser as RP1
        for f in [x for x in pool if os.path.basename(x).startswith(('w-', 'wot-', 'wowp-'))][:4] + pool[-4:-2]:
            try:
                rp = RP1(f, strict=False); a1 = digest.canon(rp.get_info()); a2 = digest.canon(rp.get_info())
            except Exception: continue
            ctx.case(('same-parser-twice', os.path.basename(f))); ctx.count('call:same-parser-twice')
            if a1 != a2:
                ctx.violation(dict(kind='second-get_info-differs', file=os.path.basename(f), how='p = ReplayParser(file); p.get_info() twice: the two results must be equal (tools.digest.canon)')); break
        # ... and the log level: a parse under debug logging (every record formatted) equals the fresh-process result
        for f in sorted((x for x in pool if os.path.basename(x).startswith('w-1')), key=lambda x: [int(y) if y.isdigit() else 0 for y in os.path.basename(x)[2:].split('.')[0].split('_')])[-2:] + [x for x in pool if x.endswith('.wotreplay')][:1]:
            with common.debug_logging(): dl = digest.digest_of(f, False)
            ctx.case(('debug-logging', os.path.basename(f))); ctx.count('call:under-debug-logging')
            if dl != fresh[False][f]:
                ctx.violation(dict(kind='result-depends-on-log-level', file=os.path.basename(f), digest_debug_logging=dl, digest_fresh_process=fresh[False][f],
                                   how='tools.digest.digest_of(file, False) inside tools.common.debug_logging() vs `python -m tools.digest lenient <file>`')); break
        # ONE PATH, two recordings of the same byte length and the same modification time (cp -p, rsync -t, an archive unpacked twice): the second
        # parse reports the file that is there now
        import zlib as zlib_
        from tools import c01 as c01_
        vv = [x for x in ('13_2_0', wv[-1]) if x in wv][0]
        ba, vsa = battle.build_wows(vv, random.Random(101)); bb_, vsb = battle.build_wows(vv, random.Random(202), n_players=2, join=False)
        za = zlib_.compress(ba.stream(), 6); zb = zlib_.compress(bb_.stream(), 6)
        L = max(len(za), len(zb)); L += (-L) % 8
        za += bytes(L - len(za)); zb += bytes(L - len(zb))
        same_path = os.path.join(tmp, 'same-path.wowsreplay'); ref_b = os.path.join(tmp, 'same-path-second.wowsreplay')
        eng = json.dumps({'clientVersionFromXml': vsa}).encode()
        c01_.model_write('wowsreplay', same_path, eng, [], struct.pack('<II', 1, L), za)
        c01_.model_write('wowsreplay', ref_b, eng, [], struct.pack('<II', 1, L), zb)
        d_first = digest.digest_of(same_path, False); st0 = os.stat(same_path)
        shutil.copyfile(ref_b, same_path); os.utime(same_path, ns=(st0.st_atime_ns, st0.st_mtime_ns))
        d_second = digest.digest_of(same_path, False)
        want_b = fresh_digests([ref_b], False)[ref_b]
        ctx.case(('same-path-rewritten',)); ctx.count('call:same-path-same-size-same-mtime')
        ctx.obligation('the two recordings written to one path have the same size and differ in content', os.path.getsize(same_path) == st0.st_size and d_first != want_b, 'sizes %d / %d' % (os.path.getsize(same_path), st0.st_size))
        if d_second != want_b:
            ctx.violation(dict(kind='history-dependent-result', file='same-path.wowsreplay', problem='a path was parsed, then overwritten with another recording of the same byte length (modification time restored), and parsed again: the second result is not that of the file on disk',
                               second_equals_first=(d_second == d_first), digest_in_sequence=d_second, digest_fresh_process=want_b,
                               how='two synthetic %s battles in containers of equal length; parse path; copy the second over it; os.utime(path, old times); parse path again; compare with a fresh-process parse of the second file' % vv))
        # the files whose packets point past the end of their own version's tables, each parsed right AFTER a file of every other kind (newest
        # wows, oldest wows, wot, wowp): deterministic - a table of the earlier parse that leaks into the later one makes those packets succeed
        beyond = [x for x in pool if x.endswith('-beyond.wowsreplay')]
        wfiles = sorted((x for x in pool if os.path.basename(x).startswith('w-') and x.endswith('.wowsreplay') and '-' not in os.path.basename(x)[2:].split('.')[0]),
                        key=lambda x: [int(y) if y.isdigit() else 0 for y in os.path.basename(x)[2:].split('.')[0].split('_')])
        befores = ([wfiles[-1], wfiles[0]] if wfiles else []) + [x for x in pool if os.path.basename(x).startswith('wot-') and 'unbundled' not in x][:1] + [x for x in pool if os.path.basename(x).startswith('wowp-') and 'unbundled' not in x][:1]
        stop = False
        for f in beyond:
            for g in befores:
                digest.digest_of(g, False); d = digest.digest_of(f, False)
                ctx.case(('after', os.path.basename(g), os.path.basename(f))); ctx.count('call:beyond-own-tables-after-another-version')
                if d != fresh[False][f]:
                    ctx.violation(dict(kind='history-dependent-result', file=os.path.basename(f), parsed_right_after=os.path.basename(g), strict=False, digest_in_sequence=d, digest_fresh_process=fresh[False][f],
                                       how='in one interpreter: tools.digest.digest_of(<parsed_right_after>, False); tools.digest.digest_of(<file>, False); compare with `python -m tools.digest lenient <file>` (the file holds packets that point past the end of its own version\'s entity / method / property tables)'))
                    stop = True; break
            if stop: break
        ncalls = 120 if q else 2500
        bad = None; seq = []
        for i in range(ncalls):
            p = rng.choice(pool); strict = rng.random() < 0.4
            if i > 0 and rng.random() < 0.15: p = seq[-1][0]              # immediate repetition
            d = digest.digest_of(p, strict)
            seq.append((p, strict))
            ctx.case((i, os.path.basename(p), strict)); ctx.traces_validated += 1
            ctx.count('call:strict' if strict else 'call:lenient')
            if d != fresh[strict][p] and bad is None:
                bad = dict(call_index=i, file=os.path.basename(p), strict=strict, digest_in_sequence=d, digest_fresh_process=fresh[strict][p],
                           sequence=[(os.path.basename(a), b) for a, b in seq])
        ctx.sample(dict(sequence_head=[(os.path.basename(a), b) for a, b in seq[:6]], pool_size=len(pool)))
        if bad:
            # shrink: drop earlier calls while the last one still differs (each attempt needs a fresh interpreter: use a subprocess per attempt)
            ctx.violation(dict(kind='history-dependent-result', **bad,
                               how='in one interpreter call tools.digest.digest_of(file, strict) for the listed sequence; compare the last digest with `python -m tools.digest <mode> <file>`'))
    finally:
        shutil.rmtree(tmp, ignore_errors=True)


def replay(ctx, path):
    obj = json.load(open(path)); print(json.dumps(obj, indent=1)[:3000]); return 1
