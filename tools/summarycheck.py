"""C09 tie: the translated controller program (tools/gen_controllers.py -> Summary.v's handler language) run by the extracted interpreter on the
history of calls a replay delivers, against the summary the library's controller reports for the same replay.

Grammar of `modelrun summary` (whitespace-separated tokens):
  CTL INIT n (field pv)..  HANDLERS n (key np param.. ns stmt..)..  MAPS n (ptype ni (int name)..)..  UNI 0|1  INFO n (key field)..
  MODE strict|lenient  EVENTS n (key id npos pv.. nkw (name pv).. props bl)..
  pv   : i<int> | f<m>:<e> | T | F | N | b<hex> | s<hex> | o<hex> | l n pv.. | t n pv.. | d n (pv pv)..
  expr : V x | ID | PROPS | BL | PLAYERS | FIELD f | S hex | I int | IDX e e | ADD e e | LEN e | TUP n e..
  stmt : SIMPLE s | FOR x e n s.. ;  s : APPEND f e | SETDEF f n e.. | AUGADD f n e.. e | ASSIGN f e | ASSIGNDICT f n (name e).. | LET x e | ROSTER e pt | MAPSTRIP e
"""
import os, sys, json, pickle, subprocess, fractions, collections
from tools import common, gen_controllers


# ---------------------------------------------------------------- values
def dyadic(x):
    """float -> (m, e) with x == m * 2**e, m odd (or (0, 0))"""
    if x != x or x in (float('inf'), float('-inf')): return None
    n, d = x.as_integer_ratio()
    if n == 0: return (0, 0)
    e = -(d.bit_length() - 1)
    while n % 2 == 0: n //= 2; e += 1
    return (n, e)


def obj_canon(o):
    d = getattr(o, '__dict__', None)
    if isinstance(d, dict): return '%s:%s' % (type(o).__name__, show(dict(sorted(d.items(), key=lambda kv: str(kv[0])))))
    if isinstance(o, (set, frozenset)): return '%s:%s' % (type(o).__name__, show(sorted(o, key=repr)))
    return '%s:%r' % (type(o).__name__, o)


def toks(o, out):
    """Python object -> pv tokens"""
    if isinstance(o, bool): out.append('T' if o else 'F')
    elif isinstance(o, int): out.append('i%d' % o)
    elif isinstance(o, float):
        d = dyadic(o)
        out.append('f%d:%d' % d if d else 'o' + ('float:%r' % o).encode().hex())
    elif o is None: out.append('N')
    elif isinstance(o, (bytes, bytearray)): out.append('b' + bytes(o).hex())
    elif isinstance(o, str): out.append('s' + o.encode('utf-8', 'surrogatepass').hex())
    elif isinstance(o, tuple):
        out.append('t'); out.append(str(len(o))); [toks(x, out) for x in o]
    elif isinstance(o, list) or type(o).__name__ == 'PyFixedList':
        out.append('l'); out.append(str(len(o))); [toks(x, out) for x in o]
    elif isinstance(o, dict) or type(o).__name__ == 'PyFixedDict':
        items = list(o.items()); out.append('d'); out.append(str(len(items)))
        for k, v in items: toks(k, out); toks(v, out)
    else: out.append('o' + obj_canon(o).encode('utf-8', 'replace').hex())
    return out


def show(o):
    """the same canonical text the driver prints (show_pv)"""
    if isinstance(o, bool): return 'T' if o else 'F'
    if isinstance(o, int): return 'i%d' % o
    if isinstance(o, float):
        d = dyadic(o); return 'f%d:%d' % d if d else 'o' + ('float:%r' % o).encode().hex()
    if o is None: return 'N'
    if isinstance(o, (bytes, bytearray)): return 'b' + bytes(o).hex()
    if isinstance(o, str): return 's' + o.encode('utf-8', 'surrogatepass').hex()
    if isinstance(o, tuple): return 't(' + ','.join(show(x) for x in o) + ')'
    if isinstance(o, list) or type(o).__name__ == 'PyFixedList': return 'l(' + ','.join(show(x) for x in o) + ')'
    if isinstance(o, dict) or type(o).__name__ == 'PyFixedDict': return 'd(' + ','.join('%s=%s' % (show(k), show(v)) for k, v in o.items()) + ')'
    return 'o' + obj_canon(o).encode('utf-8', 'replace').hex()


def has_inexact_float_sum(events_amounts):
    return False


# ---------------------------------------------------------------- program
def e_toks(e, out):
    k = e[0]
    if k == 'EVar': out += ['V', e[1]]
    elif k == 'EEntId': out.append('ID')
    elif k == 'EProps': out.append('PROPS')
    elif k == 'EBL': out.append('BL')
    elif k == 'EPlayers': out.append('PLAYERS')
    elif k == 'EField': out += ['FIELD', e[1]]
    elif k == 'EStrC': out += ['S', e[1].encode().hex() or '-']
    elif k == 'EIntC': out += ['I', str(e[1])]
    elif k == 'EIdx': out.append('IDX'); e_toks(e[1], out); e_toks(e[2], out)
    elif k == 'EAdd': out.append('ADD'); e_toks(e[1], out); e_toks(e[2], out)
    elif k == 'ELen': out.append('LEN'); e_toks(e[1], out)
    elif k == 'ETup': out += ['TUP', str(len(e[1]))]; [e_toks(x, out) for x in e[1]]
    else: raise AssertionError(e)


def s_toks(s, out):
    k = s[0]
    if k == 'SAppend': out += ['APPEND', s[1]]; e_toks(s[2], out)
    elif k == 'SSetdef': out += ['SETDEF', s[1], str(len(s[2]))]; [e_toks(x, out) for x in s[2]]
    elif k == 'SAugAdd': out += ['AUGADD', s[1], str(len(s[2]))]; [e_toks(x, out) for x in s[2]]; e_toks(s[3], out)
    elif k == 'SAssign': out += ['ASSIGN', s[1]]; e_toks(s[2], out)
    elif k == 'SAssignDict':
        out += ['ASSIGNDICT', s[1], str(len(s[2]))]
        for a, b in s[2]: out.append(a); e_toks(b, out)
    elif k == 'SLet': out += ['LET', s[1]]; e_toks(s[2], out)
    elif k == 'SRoster': out.append('ROSTER'); e_toks(s[1], out); out.append(str(s[2]))
    elif k == 'SMapStrip': out.append('MAPSTRIP'); e_toks(s[1], out)
    elif k == 'SMapPrefix': out.append('MAPPREFIX'); e_toks(s[1], out)
    else: raise AssertionError(s)


def emit_program(t):
    out = ['CTL', 'INIT', str(len(t['init']))]
    for f, v in t['init']:
        out.append(f)
        out += {'PDict': ['d', '0'], 'PList': ['l', '0'], 'PNone': ['N']}.get(v[0]) or ['o' + v[1].encode().hex()]
    hs = sorted(t['handlers'].items())
    out += ['HANDLERS', str(len(hs))]
    for key, hd in hs:
        out += [key, str(len(hd['params']))] + list(hd['params']) + [str(len(hd['body']))]
        for st in hd['body']:
            if st[0] == 'Simple': out.append('SIMPLE'); s_toks(st[1], out)
            else:
                out += ['FOR', st[1]]; e_toks(st[2], out); out.append(str(len(st[3]))); [s_toks(x, out) for x in st[3]]
    out += ['MAPS', str(len(t['maps']))]
    for pt, m in sorted(t['maps'].items()):
        out += [str(pt), str(len(m))]
        for k, n in m: out += [str(k), n]
    out += ['UNI', '1' if t['unicodize'] else '0', 'INFO', str(len(t['info']))]
    for a, b in t['info']: out += [a, b]
    return out


def uses(e, what):
    if not isinstance(e, tuple): return False
    if e and e[0] == what: return True
    return any(uses(x, what) if isinstance(x, tuple) else (isinstance(x, list) and any(uses(y, what) for y in x)) for x in e[1:])


def handler_uses(hd, what):
    def st_uses(s): return any(uses(x, what) for x in s[1:] if isinstance(x, tuple)) or any(isinstance(x, list) and any(uses(y, what) or (isinstance(y, tuple) and len(y) == 2 and uses(y[1], what)) for y in x) for x in s[1:])
    for st in hd['body']:
        if st[0] == 'Simple' and st_uses(st[1]): return True
        if st[0] == 'SFor' and (uses(st[2], what) or any(st_uses(x) for x in st[3])): return True
    return False


# ---------------------------------------------------------------- recording the delivered calls on the library side
class CallRecorder:
    """wraps every callback in Entity's method-subscription table, the controller's map setter and on_player_enter_world; records
    (key, entity id, positional, keyword, needed property snapshots) for each delivered call, then lets the call through"""
    def __init__(self, player, t):
        from replay_unpack.core.entity import Entity
        self.Entity = Entity; self.t = t; self.events = []; self.unsure = []
        self.ctrl = player._battle_controller
        self.saved = {k: list(v) for k, v in Entity._methods_subscriptions.items()}
        rec = self
        for key, funcs in list(Entity._methods_subscriptions.items()):
            hd = t['handlers'].get(key)
            def mk(f, key=key, hd=hd):
                def w(entity, *a, **kw):
                    if hd is not None: rec.record(key, entity, a, kw, hd)
                    return f(entity, *a, **kw)
                return w
            Entity._methods_subscriptions[key] = [mk(f) for f in funcs]
        cls = type(self.ctrl)
        orig_map = cls.__dict__['map'] if 'map' in cls.__dict__ else None
        def set_map(slf, value):
            rec.events.append(('<map>', 0, [value], {}, {}, {}))
            return orig_map.fset(slf, value)
        def opw(slf, entity_id):
            rec.events.append(('<player>', 0, [entity_id], {}, {}, {}))
            return cls.on_player_enter_world(slf, entity_id)
        self.ctrl.__class__ = type('Recorded' + cls.__name__, (cls,), {'map': property(orig_map.fget, set_map), 'on_player_enter_world': opw})

    def record(self, key, entity, a, kw, hd):
        a = list(a); kw = dict(kw)
        for argtext, pt, enc in self.t['roster'].get(key, []):
            # the handler unpickles this argument itself: do the same here, with the same encoding, and hand the model the result
            name = argtext.split('[')[0]
            names = hd['params']
            def load(b):
                try: return pickle.loads(b, encoding=enc) if enc != 'ASCII' else pickle.loads(b)
                except Exception as ex:
                    self.unsure.append('unpickle %s.%s: %s' % (key, argtext, type(ex).__name__)); return None
            if '[' in argtext:
                sub = argtext.split("['")[1].split("']")[0]
                holder = kw.get(name) if name in kw else (a[names.index(name)] if name in names and names.index(name) < len(a) else None)
                if holder is not None:
                    new = dict(holder.items()); new[sub] = load(new[sub])
                    if name in kw: kw[name] = new
                    else: a[names.index(name)] = new
            elif name in kw: kw[name] = load(kw[name])
            elif name in names and names.index(name) < len(a): a[names.index(name)] = load(a[names.index(name)])
        props = dict(entity.properties['client']) if handler_uses(hd, 'EProps') else {}
        bl = {}
        if handler_uses(hd, 'EBL'):
            try: bl = dict(self.ctrl.battle_logic.properties['client'])
            except Exception: bl = {}
        self.events.append((key, entity.id, a, kw, props, bl))

    def close(self):
        t = self.Entity._methods_subscriptions; t.clear(); t.update(self.saved)


def emit_events(events, strict):
    out = ['MODE', 'strict' if strict else 'lenient', 'EVENTS', str(len(events))]
    for key, eid, a, kw, props, bl in events:
        out += [key, str(eid), str(len(a))]
        for x in a: toks(x, out)
        out.append(str(len(kw)))
        for n, v in kw.items(): out.append(n); toks(v, out)
        toks(props, out); toks(bl, out)
    return out


def run_model(t, events, strict):
    text = ' '.join(emit_program(t) + emit_events(events, strict)) + '\n'
    p = subprocess.run(['bash', '-c', 'ulimit -s unlimited; exec "$0" summary', common.MODELRUN], input=text, capture_output=True, text=True, timeout=600,
                       env=dict(os.environ, OCAMLRUNPARAM='s=4M'))
    if p.returncode != 0: raise RuntimeError('modelrun summary failed: ' + p.stderr[-400:])
    fields = collections.OrderedDict(); errs = []
    for l in p.stdout.split('\n'):
        if l.startswith('FIELD '):
            _, k, v = l.split(' ', 2); fields[k] = v
        elif l.startswith('ERRS'): errs = l.split(' ')[1:]
    return fields, [e for e in errs if e]


def inexact(events, t):
    """True if CPython's double additions in a counting handler would round on this history (the model adds dyadics exactly): such histories
    are excluded from the comparison and counted"""
    tot = {}
    for key, eid, a, kw, props, bl in events:
        hd = t['handlers'].get(key)
        if not hd: continue
        for st in hd['body']:
            if st[0] == 'SFor' and any(s[0] == 'SAugAdd' for s in st[3]):
                name = st[2][1] if st[2][0] == 'EVar' else None
                items = kw.get(name) if name in kw else (a[hd['params'].index(name)] if name in hd['params'] and hd['params'].index(name) < len(a) else [])
                for it in items or []:
                    vals = [v for v in (it.values() if hasattr(it, 'values') else []) if isinstance(v, float)]
                    for v in vals:
                        k = (key, eid); f = tot.get(k, (0.0, fractions.Fraction(0)))
                        nf = f[0] + v; nq = f[1] + fractions.Fraction(v)
                        if fractions.Fraction(nf) != nq: return True
                        tot[k] = (nf, nq)
    return False


def library_summary(ctrl, t):
    """the fields of get_info() the model reports, in the model's text"""
    info = ctrl.get_info(); out = collections.OrderedDict()
    skip = set()
    for f in (x for k, v in gen_controllers.OPAQUE.items() for x in v['fields']): skip.add(f)
    for key, field in t['info']:
        if field in skip: continue
        if key == 'ribbons' and t.get('get_info_rebuilds_avatar_ribbons'): continue
        out[key] = show(info[key])
    players = info['players']
    if t.get('get_info_adds_planes'):
        players = {pid: {k: v for k, v in rec.items() if k != 'planesCount'} for pid, rec in players.items()}
    out['players'] = show(players)
    return out


def compare(t, model_fields, lib_fields):
    diffs = []
    for k, v in lib_fields.items():
        m = model_fields.get(k)
        if m != v: diffs.append((k, (m or '')[:300], v[:300]))
    return diffs


def check_replay(path, strict=False):
    """-> dict(version, events, diffs, unsure, model_errs, lib_raised)"""
    from replay_unpack.replay_reader import ReplayReader
    from replay_unpack.clients import wows
    r = ReplayReader(path).get_replay_data()
    version = r.engine_data.get('clientVersionFromXml').replace(' ', '').split(',')
    pl = wows.ReplayPlayer(version)
    vdir = os.path.basename(os.path.dirname(sys.modules[type(pl._battle_controller).__module__].__file__))
    t = gen_controllers.translate_version(vdir)
    if t['untranslated'] or t['problems']:
        return dict(version=vdir, events=0, diffs=[], unsure=['controller not translated'], model_errs=[], lib_raised=None)
    rec = CallRecorder(pl, t); raised = None
    try:
        try: pl.play(r.decrypted_data, strict)
        except Exception as ex: raised = type(ex).__name__
        ctrl = pl._battle_controller
        try: lib = library_summary(ctrl, t)
        except Exception as ex: return dict(version=vdir, events=len(rec.events), diffs=[], unsure=rec.unsure + ['get_info raised ' + type(ex).__name__], model_errs=[], lib_raised=raised)
    finally: rec.close()
    unsure = list(rec.unsure)
    if inexact(rec.events, t): unsure.append('inexact float sum')
    mf, errs = run_model(t, rec.events, strict)
    drop = set(f for k, v in gen_controllers.OPAQUE.items() for f in v['fields'])
    mf = collections.OrderedDict((k, v) for k, v in mf.items() if dict(t['info']).get(k) not in drop)
    return dict(version=vdir, events=len(rec.events), diffs=compare(t, mf, lib) if not unsure else [], unsure=unsure, model_errs=errs, lib_raised=raised, keys=collections.Counter(e[0] for e in rec.events))


if __name__ == '__main__':
    for p in sys.argv[1:]:
        print(os.path.basename(p), json.dumps(check_replay(p), default=str)[:1500])
