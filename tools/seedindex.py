#!/venv/bin/python
"""Write seeded/INDEX.md from the meta.json files and the last seedtest results."""
import os, json, glob
HERE = os.path.dirname(os.path.dirname(os.path.abspath(__file__)))
res = {}
for f in glob.glob(os.path.join(HERE, 'seeded', 'results-*.json')): res[os.path.basename(f)[8:-5]] = json.load(open(f))
rows = []
for d in sorted(glob.glob(os.path.join(HERE, 'seeded', 'C*-*'))):
    m = json.load(open(os.path.join(d, 'meta.json'))); sid = m['id']
    caught = []
    for tier, r in sorted(res.items()):
        for c, x in r.get(sid, {}).items():
            v = x['violations'][0] if x['violations'] else ''
            how = 'no-failing-input-found' if 'no-failing-input-found' in v else 'with a failing input'
            caught.append('%s %s: %s' % (c, tier, ('VIOLATION (%s), %ds' % (how, x['seconds'])) if x['rc'] == 1 else 'MISSED (exit %d)' % x['rc']))
    first = m['breaks'].strip().split('\n')
    title = next((l.strip('# ').strip() for l in first if l.strip()), '')
    rows.append('| %s | %s | %s | %s | %s |' % (sid, title[:110].replace('|', '/'), m['needs_to_manifest'].replace('|', '/'), '<br>'.join(caught) or 'not run', m.get('strengthened', '')))
open(os.path.join(HERE, 'seeded', 'INDEX.md'), 'w').write(
    '# Seeded changes\n\nEach directory holds `patch.diff` (apply with `git -C /repo apply`), `demo.py` (exits 0 on the unchanged tree, non-zero with the change; '
    'argument: repo root), `notes.md` (the author\'s description) and `meta.json` (what was confirmed and how). All were written by independent sub-agents that saw only the '
    'property text and a scratch worktree; each was confirmed by `tools/seedconfirm.py` (patch applies to a clean tree, the 54 tests still pass, demo fails with / passes without) '
    'and run against the registered checks by `tools/seedtest.py` (apply to /repo, run, undo).\n\n'
    '| id | change | needs, to manifest | result of the registered check | check strengthened because of it |\n|---|---|---|---|---|\n' + '\n'.join(rows) + '\n')
print(len(rows), 'rows')
