"""C03 - decoding of .def-declared types is exact and consumes exactly its bytes.
Theorems: Props/C03.v.  Tie: generated numeric/flag tables (Inst) + three-way differential run:
 spec encoder (extracted wire_encode) -> bytes -> {extracted decode, library decode}; expected = the value itself."""
import os, io, json, subprocess
from tools import common, impl, gen_types, gen_const, recordings

LEVEL = 'proof'

KNOWN_CLASSES = {'string>=65536': 'C03-a', 'python>=255': 'C03-b', 'count>=255': 'C03-c'}


def modelrun_lines(cmd, lines, timeout=900):
    p = subprocess.run(['bash', '-c', 'ulimit -s unlimited; exec "$0" "$1"', common.MODELRUN, cmd],
                       input='\n'.join(lines) + '\n', capture_output=True, text=True, timeout=timeout)
    if p.returncode != 0: raise RuntimeError('modelrun %s failed: %s' % (cmd, p.stderr[-800:]))
    out = p.stdout.split('\n')
    if out and out[-1] == '': out.pop()
    if len(out) != len(lines): raise RuntimeError('modelrun %s: %d answers for %d questions' % (cmd, len(out), len(lines)))
    return out


def gen_aliases(rng):
    al = {}
    for i in range(rng.randrange(0, 7)):
        if al and rng.random() < 0.55:
            # built from an earlier alias (chains, composites over aliases): the XML then mentions the earlier alias BY NAME, so how and
            # when a name is resolved (lazily, after alias_ext.xml has been read) matters
            e = al[rng.choice(sorted(al))]
            t = rng.choice([('array', e, None), ('array', e, 2), ('dict', (('a', e), ('b', ('u', 1))), False), ('dict', (('k', ('u', 2)), ('v', e)), True),
                            ('user', e), e])
        else:
            t = gen_types.gen_type(rng, rng.randrange(0, 3), 3)
        al['AL%d' % i] = t
    return al


def make_cases(ctx, n, depth, allow_huge):
    """returns list of dicts: type tree, hdr, expected canon, encoder text, rest bytes, flags"""
    rng = ctx.rng
    cases = []
    for i in range(n):
        if i < len(gen_types.LEAVES) * 6: t = gen_types.LEAVES[i % len(gen_types.LEAVES)]
        else: t = gen_types.gen_type(rng, rng.randrange(1, depth + 1), rng.choice([1, 2, 4, 8]))
        vg = gen_types.ValueGen(rng, allow_big=True, allow_huge=allow_huge and rng.random() < 0.3)
        exp, enc = vg.value(t)
        hdr = rng.choice([1, 1, 1, 1, 2, 2, 0, 3])
        rest = bytes(rng.randrange(256) for _ in range(rng.choice([0, 0, 1, 2, 3, 9])))
        cases.append(dict(t=t, hdr=hdr, exp=exp, enc=enc, rest=rest, flags=sorted(vg.flags)))
    return cases


def corpus_cases():
    """the witnesses of the refuted theorems (known findings C03-a/b/c) and minimised past failures: always run first"""
    out = []
    s = b'A' * 65536
    out.append(dict(t=('string',), hdr=1, exp='s' + s.hex(), enc='s' + s.hex(), rest=b'B', flags=['string>=65536']))
    b = b'A' * 255
    out.append(dict(t=('python',), hdr=1, exp='b' + b.hex(), enc='b' + b.hex(), rest=b'B', flags=['python>=255']))
    l = '[' + ','.join(['i7'] * 255) + ']'
    out.append(dict(t=('array', ('u', 1), None), hdr=1, exp=l, enc=l, rest=b'', flags=['count>=255']))
    return out


def mutate(rng, data):
    if not data: return bytes([rng.randrange(256)])
    r = rng.random()
    b = bytearray(data)
    if r < 0.35: return bytes(b[:rng.randrange(0, len(b))])
    if r < 0.7:
        for _ in range(rng.randrange(1, 3)):
            b[rng.randrange(len(b))] = rng.choice([0, 1, 2, 0xff, 0xfe, rng.randrange(256)])
        return bytes(b)
    if r < 0.85:
        i = rng.randrange(len(b) + 1); return bytes(b[:i] + bytes([rng.randrange(256)]) + b[i:])
    return bytes(rng.randrange(256) for _ in range(rng.randrange(0, 12)))


def shrink_value_case(case, lib, differs):
    """greedy structural shrink of the rest bytes only (types/values are already small by construction)"""
    c = dict(case)
    while c['rest'] and differs(dict(c, rest=c['rest'][:-1])): c['rest'] = c['rest'][:-1]
    return c


def run_generated(ctx, ncases, depth, allow_huge):
    rng = ctx.rng
    batches = 12 if ctx.tier == 'quick' else 60
    per = ncases // batches
    first_corr = None; dev_seen = {}
    total_mal = 0
    for b in range(batches):
        aliases = gen_aliases(rng)
        lib = impl.LibTypes(aliases, rng)
        try:
            cases = (corpus_cases() if b == 0 else []) + make_cases(ctx, per, depth, allow_huge)
            # make sure alias trees themselves are used as case types
            for n, t in aliases.items():
                vg = gen_types.ValueGen(rng); exp, enc = vg.value(t)
                cases.append(dict(t=t, hdr=1, exp=exp, enc=enc, rest=b'', flags=sorted(vg.flags)))
            syn = [impl.type_syntax(c['t']) for c in cases]
            encs = modelrun_lines('encode', ['%d %s %s' % (c['hdr'], s, c['enc']) for c, s in zip(cases, syn)])
            datas = [bytes.fromhex('' if e == '-' else e) + c['rest'] for e, c in zip(encs, cases)]
            mdec = modelrun_lines('decode', ['%d %s %s' % (c['hdr'], s, d.hex() or '-') for c, s, d in zip(cases, syn, datas)])
            if b < 3:
                from tools import coqeval
                coqeval.cross_check(ctx, 'C03', ['decode %d %s %s' % (c['hdr'], s, d.hex() or '-') for c, s, d in zip(cases, syn, datas) if all(32 <= ch < 127 for ch in s.encode())][b::3], 'decode%d' % b, limit=70)
            for c, s, d, m in zip(cases, syn, datas, mdec):
                lt = lib.make(c['t'])
                got = impl.lib_decode(lt, d, c['hdr'])
                want = 'OK %s %d' % (c['exp'], len(c['rest']))
                nontriv = gen_types.depth_of(c['t']) >= 1 or c['t'][0] in ('string', 'blob', 'python') or c['rest']
                ctx.case((s, c['enc'][:200], c['hdr'], len(c['rest'])) if nontriv else None)
                ctx.count('type:' + c['t'][0]); ctx.count('depth:%d' % gen_types.depth_of(c['t']))
                for f in c['flags']: ctx.count('out-of-code-range:' + f)
                if len(ctx.samples) < 3 and gen_types.depth_of(c['t']) >= 2 and len(d) < 60:
                    ctx.sample({'type': s, 'hdr': c['hdr'], 'value': c['exp'], 'wire': d.hex(), 'decoded': got})
                if got != m and first_corr is None:
                    first_corr = dict(type=s, hdr=c['hdr'], wire=d.hex(), implementation=got, model=m)
                if got != want:
                    cls = None
                    for f in c['flags']:
                        if f in KNOWN_CLASSES: cls = f
                    witness = {'class': cls or 'decode-mismatch', 'type_kind': c['t'][0]}
                    key = cls or ('decode-mismatch', s)
                    if key in dev_seen: continue
                    dev_seen[key] = 1
                    if len(d) > 4096: wire = d[:64].hex() + '...(%d bytes)' % len(d)
                    else: wire = d.hex()
                    ctx.deviation(cls or 'decode-mismatch', witness,
                                  dict(kind='decode', type=s, hdr=c['hdr'], value=c['exp'][:400], wire=wire, expected=want[:400],
                                       implementation=got[:400], model=m[:400], flags=c['flags'],
                                       how='Alias(...).get_data_type_from_section(<Type>) ; create_from_stream(BytesIO(wire), hdr) ; tell()'))
            # (a) decoding is a function of the bytes: scribbling over a decoded composite value must not change what the SAME bytes decode to
            #     next time (a decoder that hands out cached/shared objects fails here)
            import io
            def scribble(o):
                if type(o).__name__ == 'PyFixedList' or isinstance(o, list):
                    for x in list(o): scribble(x)
                    try: o.append(None)
                    except Exception: pass
                elif type(o).__name__ == 'PyFixedDict' or isinstance(o, dict):
                    for k in list(o.keys()):
                        scribble(o[k])
                        try: o[k] = None
                        except Exception: pass
            pure_n = 0
            for c, s, d in zip(cases, syn, datas):
                if gen_types.depth_of(c['t']) < 1 or pure_n >= 150 or len(d) > 2000: continue
                lt = lib.make(c['t']); first = impl.lib_decode(lt, d, c['hdr'])
                if not first.startswith('OK'): continue
                pure_n += 1; ctx.case(None); ctx.count('decode-twice')
                try: scribble(lt.create_from_stream(io.BytesIO(d), c['hdr']))
                except Exception: continue
                again = impl.lib_decode(lt, d, c['hdr'])
                if again != first and 'purity' not in dev_seen:
                    dev_seen['purity'] = 1
                    ctx.violation(dict(kind='decode-not-a-function-of-the-bytes', type=s, hdr=c['hdr'], wire=d.hex()[:2000], first_decode=first[:400], decode_after_mutating_the_first_result=again[:400],
                                       how='v = t.create_from_stream(BytesIO(wire), hdr); mutate v in place; t.create_from_stream(BytesIO(wire), hdr) again'))
            # (c) ... and of nothing else: the same well-formed encodings decoded by `python -O` (assert statements compiled away - a codec must not
            #     do its reading inside one) give the same values and leave the same tails
            if b == 0:
                import subprocess, json as json_
                sel = []
                for c, s, d in zip(cases, syn, datas):
                    if len(d) > 2000 or len(sel) >= 250: continue
                    first = impl.lib_decode(lib.make(c['t']), d, c['hdr'])
                    if first.startswith('OK'): sel.append((s, c['hdr'], d.hex(), first))
                child = ("import sys, json\nfrom tools import impl\nlib = impl.LibTypes(); out = []\n"
                         "for s, hdr, hx, _ in json.load(sys.stdin):\n"
                         "    try: out.append(impl.lib_decode(lib.make(impl.parse_type_syntax(s)), bytes.fromhex(hx), hdr))\n"
                         "    except Exception as e: out.append('child error ' + type(e).__name__)\n"
                         "lib.close(); print(json.dumps(out))\n")
                pr = subprocess.run([common.PY, '-O', '-c', child], input=json_.dumps(sel), capture_output=True, text=True, timeout=300, cwd=common.VERIF,
                                    env=dict(os.environ, PYTHONPATH=common.REPO + os.pathsep + common.VERIF))
                try: res = json_.loads(pr.stdout.strip().splitlines()[-1])
                except Exception: res = None
                ctx.obligation('the python -O child for the decode cases ran', res is not None and len(res) == len(sel), pr.stderr[-400:])
                for (s, hdr, hx, first), r in zip(sel, res or []):
                    ctx.case(None); ctx.count('decode-under-python-O')
                    if r != first and 'python-O' not in dev_seen:
                        dev_seen['python-O'] = 1
                        ctx.violation(dict(kind='decode', type=s, hdr=hdr, wire=hx, interpreter='python -O', expected=first[:400], implementation=r[:400],
                                           how='python -O: Alias(...).get_data_type_from_section(<Type>) ; create_from_stream(BytesIO(wire), hdr) ; tell() - compared with the same call under the default interpreter'))
            # (b) method argument lists: EntityMethod.create_from_stream must hand every argument codec the METHOD's header size - the arguments
            #     decode like the fields of a FIXED_DICT of the same types under that header size (the model's sequence decoder)
            from replay_unpack.core.entity_def.entity_description import EntityMethod, MethodArgument
            groups = []; cur = []
            for c, s, d, e in zip(cases, syn, datas, encs):
                if c['rest'] or len(d) > 800 or e == 'ERR': continue
                if cur and (cur[0][0]['hdr'] != c['hdr'] or len(cur) >= 3): groups.append(cur); cur = []
                cur.append((c, s, d))
            if cur: groups.append(cur)
            groups = groups[:120]
            dict_types = ['{%s}' % ','.join('a%d:%s' % (i, s) for i, (c, s, d) in enumerate(g)) for g in groups]
            try: marg = modelrun_lines('decode', ['%d %s %s' % (g[0][0]['hdr'], impl.type_syntax(('dict', tuple(('a%d' % i, c['t']) for i, (c, s, d) in enumerate(g)), False)), (b''.join(d for c, s, d in g)).hex() or '-') for g in groups])
            except Exception: marg = None
            for gi, g in enumerate(groups):
                hdr = g[0][0]['hdr']; data = b''.join(d for c, s, d in g)
                meth = EntityMethod('m', True, [MethodArgument(lib.make(c['t'])) for c, s, d in g], hdr)
                st = io.BytesIO(data)
                try:
                    a, kw = meth.create_from_stream(st)
                    got = 'OK {%s} %d' % (','.join('a%d=%s' % (i, impl.canon_t(x, arg.type)) for i, (x, arg) in enumerate(zip(a, meth._arguments))), len(data) - st.tell())
                except Exception as ex: got = 'ERR ' + impl.err_name(ex)
                ctx.case(('method-args', hdr, data.hex()[:200])); ctx.count('method-args:hdr=%d' % hdr)
                if marg is not None and got != marg[gi] and first_corr is None:
                    first_corr = dict(kind='method-args', types=[s for c, s, d in g], hdr=hdr, wire=data.hex(), implementation=got[:600], model=marg[gi][:600])
                want = 'OK {%s} 0' % ','.join('a%d=%s' % (i, c['exp']) for i, (c, s, d) in enumerate(g))
                if got != want and not any(f in KNOWN_CLASSES for c, s, d in g for f in c['flags']) and 'method-args' not in dev_seen:
                    dev_seen['method-args'] = 1
                    ctx.violation(dict(kind='method-arguments', types=[s for c, s, d in g], hdr=hdr, wire=data.hex()[:2000], expected=want[:600], implementation=got[:600],
                                       how='EntityMethod(name, True, [MethodArgument(t)...], hdr).create_from_stream(BytesIO(wire)); values and tell()'))
            # malformed stream: correspondence only
            mal = []
            for c, s, d in zip(cases, syn, datas):
                if len(d) > 600 or rng.random() < 0.5: continue
                mal.append((c, s, mutate(rng, d)))
            mm = modelrun_lines('decode', ['%d %s %s' % (c['hdr'], s, d.hex() or '-') for c, s, d in mal]) if mal else []
            for (c, s, d), m in zip(mal, mm):
                got = impl.lib_decode(lib.make(c['t']), d, c['hdr'])
                ctx.case(None); total_mal += 1
                ctx.count('malformed:' + ('error' if m.startswith('ERR') else 'decodes'))
                if got != m and first_corr is None:
                    first_corr = dict(type=s, hdr=c['hdr'], wire=d.hex(), implementation=got, model=m, malformed=True)
        finally:
            lib.close()
    ctx.traces_validated += ctx.evaluations
    ctx.extra['malformed_cases'] = total_mal
    ctx.obligation('correspondence: library decode = extracted decode on generated (type, bytes) cases incl. malformed', first_corr is None,
                   json.dumps(first_corr) if first_corr else '')
    return first_corr


def long_case(kind, n, hdr=1):
    """(type tree, wire bytes, expected lib_decode answer) for a variable-length leaf of n bytes followed by three more bytes"""
    t = {'str': ('string',), 'blob': ('blob',), 'py': ('python',)}[kind]
    data = b'A' * n
    wire = b'\xff' + n.to_bytes(3, 'little') + data + b'\x01\x02\x03'
    exp = 'OK %s%s 3' % ('s' if kind == 'str' else 'b', data.hex())
    return t, wire, exp


def long_lengths(ctx):
    """the packed length at the top of its 3-byte range (sign bit of a 24-bit / shifted 32-bit read): library against the statement's
    encoding, with bytes following so that over- and under-consumption both show"""
    lens = [2 ** 23, 2 ** 24 - 1] if ctx.tier == 'quick' else [2 ** 23 - 1, 2 ** 23, 2 ** 23 + 1, 2 ** 24 - 2, 2 ** 24 - 1]
    lib = impl.LibTypes()
    try:
        for kind in ('str', 'blob', 'py'):
            for n in lens:
                t, wire, exp = long_case(kind, n)
                got = impl.lib_decode(lib.make(t), wire, 1)
                ctx.case(('long-length', kind, n)); ctx.count('long-length:%s' % kind)
                if got != exp:
                    ctx.deviation('long-length', dict(kind=kind, n=n),
                                  dict(kind='decode-long', leaf=kind, length=n, wire='ff + 3-byte little-endian length + %d x 0x41 + 010203' % n,
                                       expected='the %d bytes and 3 bytes left' % n, implementation=got[:120] + ('...' if len(got) > 120 else ''),
                                       how='decode that leaf type from that wire with the library; it must return the value and leave exactly the 3 trailing bytes'))
                    return
    finally: lib.close()


def run(ctx):
    ctx.rule = ('generated (type tree, value, header size, trailing bytes) encoded by the extracted SPEC encoder; non-trivial = composite type, '
                'variable-length leaf or trailing bytes present; distinct by (type, value, hdr, rest length); malformed mutations are counted '
                'as evaluations only')
    ctx.coq_props('Props/C03.v')
    gen_const.instance_obligations(ctx, 'C03', which=('types',))
    n = 6000 if ctx.tier == 'quick' else 60000
    first_corr = run_generated(ctx, n, 6, allow_huge=True)
    long_lengths(ctx)
    from tools import worldcheck
    worldcheck.logging_independence(ctx, 'C03')
    from tools import c04
    pbad = c04.player_definitions(ctx)        # the types a PARSE decodes with are those of the directory the version selects (sibling builds in one process)
    if pbad: ctx.violation(pbad)
    recordings.payload_check(ctx, 'C03', quick_n=3)
    if first_corr and not ctx.violations:
        # the model no longer describes the code: search was the full generator budget above
        pass


def replay(ctx, path):
    obj = json.load(open(path))
    if obj.get('kind') == 'decode' and '...' not in obj.get('wire', ''):
        t = obj['type']
        m = modelrun_lines('decode', ['%d %s %s' % (obj['hdr'], t, obj['wire'] or '-')])[0]
        lib = impl.LibTypes()
        try: got = impl.lib_decode(lib.make(impl.parse_type_syntax(t)), bytes.fromhex(obj['wire']), obj['hdr'])
        finally: lib.close()
        print('expected (spec):', obj['expected']); print('model          :', m); print('implementation :', got)
        return 0 if got == obj['expected'] else 1
    if obj.get('kind') == 'decode-long':
        t, wire, exp = long_case(obj['leaf'], obj['length'])
        lib = impl.LibTypes()
        try: got = impl.lib_decode(lib.make(t), wire, 1)
        finally: lib.close()
        print('implementation :', got[:120]); print('expected       :', exp[:120])
        return 0 if got == exp else 1
    print(json.dumps(obj, indent=1)); return 1
