"""Canonical digest of a parse result (used in-process and by fresh subprocesses: python -m tools.digest <mode> <file>...)"""
import sys, os, json, hashlib


def canon(o, depth=0):
    if depth > 60: return '<deep>'
    if isinstance(o, dict): return ['D'] + sorted(([repr(k), canon(v, depth + 1)] for k, v in o.items()), key=lambda kv: kv[0])
    if isinstance(o, (list, tuple)): return ['L'] + [canon(x, depth + 1) for x in o]
    if isinstance(o, float): return 'nan' if o != o else repr(o)
    if isinstance(o, (str, int, bool)) or o is None: return o
    if isinstance(o, bytes): return 'b' + o.hex()
    if hasattr(o, '__dict__'): return ['O', type(o).__name__, canon(vars(o), depth + 1)]
    return ['R', type(o).__name__, str(o)]


def digest_of(path, strict):
    from replay_parser import ReplayParser
    try:
        r = ReplayParser(path, strict=strict).get_info()
        body = canon(r)
    except Exception as e:
        body = ['EXC', type(e).__name__]
    return hashlib.sha256(json.dumps(body, ensure_ascii=True).encode()).hexdigest()[:24]


if __name__ == '__main__':
    import logging; logging.disable(logging.CRITICAL)
    strict = sys.argv[1] == 'strict'
    for p in sys.argv[2:]:
        print(digest_of(p, strict), p); sys.stdout.flush()
