"""Index maps of a definitions directory as the library computes them and as the extracted model computes them, in one text format."""
import os, subprocess, tempfile, shutil
from tools import common, impl, rawdefs, synth


def lib_view(defs_dir):
    from replay_unpack.core.entity_def.definitions import Definitions
    return lib_view_of(Definitions(defs_dir))


def lib_view_of(d):
    """the same view of a Definitions object obtained some other way (e.g. the one a ReplayPlayer resolved for a version)"""
    from replay_unpack.core.entity import Entity
    out = []
    names = list(d._entity_defs_by_name)
    for i in range(1, len(names) + 1):
        out.append('ENT %d %s' % (i, d.get_entity_def_by_index(i).get_name()))
    for n in names:
        spec = d.get_entity_def_by_name(n); e = Entity(0, spec)
        out.append('MODEL %s' % n)
        for m in e._methods:
            out.append(('M %s %d %d %s' % (m.get_name(), m.get_size_in_bytes(), m._variable_header_size,
                        ' '.join('%s:%s' % (a.name if a.name is not None else '-', impl.type_syntax(synth.tree_of(a.type))) for a in m._arguments))))
        for tag, lst in (('PC', e.client_properties), ('PI', e.client_properties_internal), ('PL', e.cell_properties), ('PB', e.base_properties)):
            for p in lst: out.append('%s %s %s %d' % (tag, p.get_name(), impl.type_syntax(synth.tree_of(p._type)), p._flags))
        out.append('VOL %s' % ','.join(sorted(spec.volatiles())))
    return out


def model_view(defs_dir, dialect='wows'):
    rd = rawdefs.load_raw(defs_dir)
    d = tempfile.mkdtemp(prefix='verif-defs-case-')
    try:
        case = os.path.join(d, 'case.txt'); rawdefs.write_case(case, dialect, rd)
        p = subprocess.run(['bash', '-c', 'ulimit -s unlimited; exec "$0" defs "$1"', common.MODELRUN, case], capture_output=True, text=True, timeout=300)
        if p.returncode != 0: raise RuntimeError('modelrun defs failed: ' + p.stderr[-500:])
        return [l.rstrip(' ') for l in p.stdout.split('\n') if l]
    finally:
        shutil.rmtree(d, ignore_errors=True)
