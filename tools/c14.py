"""C14 - results serialise to JSON and the CLI prints exactly one JSON document."""
import os, sys, json, random, shutil, subprocess, tempfile, struct
from tools import common, gen_sites, battle, recordings, synth
from tools.gen_const import GEN_DIR, coq_str
LEVEL = 'other'

# every stdout writer that may exist in the package: (file, enclosing function); anything else breaks the instance theorem
EXPECTED_STDOUT = [('replay_parser.py', '<module>'), ('replay_unpack/replay_reader.py', 'ReplayReader._save_decrypted_data')]


def exotic_roster(consts):
    """legal values of every kind a pickled player record may carry (the client pickles whatever its Python holds): sets, frozensets, raw bytes,
    tuples, complex, None, nested containers with bytes inside - for every mapped field except the five the summary is keyed on"""
    exo = [{1, 2}, frozenset([3]), b'\xff\xfe', (1, 'a'), 2 + 3j, None, 1.5, [b'x', {'k': b'v'}], {'s': {4}}, True,
           {1: 'A_Hull', 'engine': 'AB_Engine'}, {None: 1, 'a': 2, 3.5: 'x', True: 'y'}, {1: 'x', '1': 'y'}]       # dict keys of several JSON-legal kinds at once
    keys = [k for k in consts.id_property_map.values() if k not in ('id', 'name', 'shipId', 'teamId', 'avatarId')]
    return {k: exo[i % len(exo)] for i, k in enumerate(sorted(keys))}


def cyclic_roster(consts):
    """values that contain themselves"""
    keys = sorted(k for k in consts.id_property_map.values() if k not in ('id', 'name', 'shipId', 'teamId', 'avatarId'))
    l = [1, 2, 3]; l.append(l); d = {'n': 1}; d['self'] = d
    return {keys[0]: l, keys[-1]: d}


def py2_roster(consts):
    """what a Python-2 client really pickles: `str` values, non-ASCII names, dict-valued fields with `str` keys"""
    keys = sorted(k for k in consts.id_property_map.values() if k not in ('id', 'name', 'shipId', 'teamId', 'avatarId'))
    return {'name': 'Моряк_1', keys[0]: 'Клан', keys[-1]: {'engine': 'AB_Engine', 'hull': 1}}


def byteskey_roster(consts):
    """a Python-2 dict with str keys inside a player record: pickle.loads(..., encoding='bytes') turns the keys into bytes"""
    keys = sorted(k for k in consts.id_property_map.values() if k not in ('id', 'name', 'shipId', 'teamId', 'avatarId'))
    return {keys[0]: {b'k': 1}}


def run(ctx):
    ctx.rule = ('static: inventory of every print / sys.stdout.write in the package (AST) must be the two known, unreachable-while-parsing sites; dynamic: '
                'json.dumps(get_info(), cls=DefaultEncoder) and the command-line tool on synthetic battles for bundled versions of all three games whose '
                'entity ids are drawn from the dictionary of ALL integer literals of the source and whose pickled player records carry every kind of plain value (sets, frozensets, bytes, tuples, complex, None, nested), and on real recordings; stdout must be exactly one JSON '
                'document equal to get_info(), exit code 0; non-trivial = every run; distinct by file')
    ctx.extra['explanation'] = ('Level "other": json.dumps, the interpreter\'s stdout and the process exit code are CPython\'s and are observed, not proved. '
                                'Proved: the exact condition under which the shipped encoder refuses a finite tree (only dict keys). Exhaustive: the stdout-writer inventory.')
    ctx.coq_props('Props/C14.v')
    sites, ints, problems = gen_sites.scan()
    stdout_sites = sorted(set((f, fn) for k, f, fn, name, ln in sites if k == 'stdout'))
    # classification: the CLI's own print, the dump-error message, methods that nothing references (dead code) - anything else is reachable while parsing
    import ast
    def referenced(rel, method):
        tree = ast.parse(open(os.path.join(common.REPO, rel), encoding='utf-8').read())
        return any(isinstance(n, ast.Attribute) and n.attr == method for n in ast.walk(tree)) or any(isinstance(n, ast.Name) and n.id == method for n in ast.walk(tree))
    reachable = []
    for f, fn in stdout_sites:
        if (f, fn) in EXPECTED_STDOUT: continue
        if '.' in fn and not referenced(f, fn.split('.')[-1]): continue           # defined, never referenced (not subscribed, not called)
        reachable.append((f, fn))
    with common.Lock('gen'):
        os.makedirs(GEN_DIR, exist_ok=True)
        open(os.path.join(GEN_DIR, 'GenC14.v'), 'w').write('From RU Require Import Base.\nOpen Scope string_scope.\n'
             'Definition gen_stdout_sites_total : nat := %d.\nDefinition gen_reachable_stdout_sites : list (string * string) := [%s].\n' %
             (len(stdout_sites), '; '.join('(%s, %s)' % (coq_str(a), coq_str(b)) for a, b in reachable)))
        open(os.path.join(GEN_DIR, 'Inst_C14.v'), 'w').write('From RU Require Import Base.\nFrom Gen Require Import GenC14.\nOpen Scope string_scope.\n'
             '(* no print / sys.stdout.write is reachable while a replay is parsed *)\nTheorem inst_no_reachable_stdout_site : gen_reachable_stdout_sites = [].\nProof. reflexivity. Qed.\n')
        ctx.obligation('translator gen_sites parses every source file', not problems, '; '.join(problems))
        ok, out = common.coqc(os.path.join(GEN_DIR, 'GenC14.v'), extra_q=[(GEN_DIR, 'Gen')])
        if ok: ctx.coq_props(os.path.join(GEN_DIR, 'Inst_C14.v'), extra_q=[(GEN_DIR, 'Gen')])
    new_sites = reachable
    ctx.extra['stdout_sites'] = len(stdout_sites); ctx.extra['reachable_stdout_sites'] = reachable; ctx.extra['integer_literals'] = len(ints)
    q = ctx.tier == 'quick'; rng = ctx.rng
    from replay_parser import ReplayParser, DefaultEncoder
    tmp = tempfile.mkdtemp(prefix='verif-c14-')
    try:
        # ids: every integer literal of the source that fits an entity id, first the ones next to a new stdout site
        lits = sorted(i for i in ints if 0 < i < 2 ** 31)
        files = []
        wv = battle.wows_versions()
        picks = wv if not q else battle.representative_versions(9)
        chunks = [lits[i::len(picks)] for i in range(len(picks))]
        for v, ids in zip(picks, chunks):
            p = os.path.join(tmp, 'w-%s.wowsreplay' % v)
            b, vs = battle.build_wows(v, random.Random(rng.randrange(10 ** 9)), join=False, roster_extra=exotic_roster, special_floats=True)
            # position packets (and own-player position packets) for entities whose ids are source literals
            for eid in ids[:400]:
                other = [n for n in b.md.names if n not in ('Avatar', 'Vehicle', 'BattleLogic')][0]
                head = struct.pack('<ihii', eid, b.md.idx(other), 0, 1) + bytes(24)
                b.pkt('EntityCreate', head + synth.binstream(b'\x00'))
                b.pkt('Position', struct.pack('<ii', eid, 0) + bytes(24) + bytes(12) + b'\x00')
                b.pkt('PlayerPosition', struct.pack('<ii', eid, 0) + bytes(24))
            battle.write_replay(p, 'wowsreplay', {'clientVersionFromXml': vs}, b.stream()); files.append(p)
        for game, v in (('wot', '1_10_0'), ('wowp', '2_1_17')):
            p = os.path.join(tmp, '%s.%s' % (v, {'wot': 'wotreplay', 'wowp': 'wowpreplay'}[game])); battle.write_simple(p, game, v, random.Random(1)); files.append(p)
        # battles in which packets FAIL (calls, updates and positions for entities that were never created, a cut payload): lenient mode skips them -
        # and whatever is said about them is said on standard error
        for v in (picks[-1], picks[0]):
            b, vs = battle.build_wows(v, random.Random(rng.randrange(10 ** 9)), join=False)
            for eid in (99999, 0, -7):
                b.pkt('EntityMethod', struct.pack('<iI', eid, 0) + synth.binstream(b''))
                b.pkt('EntityProperty', struct.pack('<iI', eid, 0) + synth.binstream(b'\x00'))
                b.pkt('Position', struct.pack('<ii', eid, 0) + bytes(37))
            b.pkt('EntityMethod', b'\x01\x02\x03')
            p = os.path.join(tmp, 'w-%s-failing-packets.wowsreplay' % v); battle.write_replay(p, 'wowsreplay', {'clientVersionFromXml': vs}, b.stream()); files.append(p)
        files += [f for f in recordings.list_recordings() if os.path.getsize(f) < (800000 if q else 10 ** 9)][: (4 if q else 100)]
        env = dict(os.environ, PYTHONPATH=common.REPO, PYTHONHASHSEED='0')
        for f in files:
            ctx.case(('cli', os.path.basename(f))); ctx.traces_validated += 1
            info = ReplayParser(f, strict=False).get_info()
            if info.get('hidden') is None: ctx.count('hidden-none')
            else: ctx.count('hidden-present')
            try:
                text = json.dumps(info, indent=1, cls=DefaultEncoder, ensure_ascii=False)
            except Exception as ex:
                ctx.violation(dict(kind='not-serialisable', file=os.path.basename(f), exception='%s: %s' % (type(ex).__name__, str(ex)[:200]),
                                   how='json.dumps(ReplayParser(file).get_info(), cls=DefaultEncoder)')); continue
            prb = subprocess.run([common.PY, os.path.join(common.REPO, 'replay_parser.py'), '--replay', f], capture_output=True, env=env, timeout=600, cwd=tmp)
            class pr: returncode = prb.returncode; stdout = prb.stdout.decode('utf-8', 'backslashreplace'); stderr = prb.stderr.decode('utf-8', 'backslashreplace')
            ok = pr.returncode == 0
            try:
                doc = json.loads(prb.stdout.decode('utf-8')); same = doc == json.loads(text)       # a JSON document is UTF-8 text
            except ValueError:
                doc = None; same = False
            if not (ok and same):
                ctx.violation(dict(kind='cli-output', file=os.path.basename(f), exit_code=pr.returncode, stdout_head=pr.stdout[:300], stdout_is_one_json_document=doc is not None,
                                   equals_get_info=same, stderr_tail=pr.stderr[-300:], how='python replay_parser.py --replay <file>; json.loads(stdout)'))
        # additional header blocks that are NOT JSON text (old WoT clients stored pickled battle results there): whatever the reader makes of
        # them - refuse the file, or hand something on - a replay that parses still yields a serialisable structure
        import pickle, zlib as zlib_
        from tools import c01 as c01_
        bw, vsw = battle.build_simple('wot', '1_10_0', random.Random(2)); stw = bw.stream()
        zz = zlib_.compress(stw); zz += bytes((-len(zz)) % 8)
        blocks = [('pickle-tuple-keys', pickle.dumps((123456, {'common': {(1, 2): 'x', 'n': 1}, 'vehicles': {(7, 'a'): [1, 2]}}), 2)),
                  ('pickle-bytes', pickle.dumps({b'k': b'v', 'arena': (1, 2, 3)}, 2)), ('pickle-set', pickle.dumps((1, {'s': {1, 2}}), 2)), ('not-json', b'\x80\x02 garbage')]
        for bname, blk in blocks:
            for ext, eng in (('wotreplay', {'clientVersionFromXml': vsw}),):
                p = os.path.join(tmp, 'blk-%s.%s' % (bname, ext))
                c01_.model_write(ext, p, json.dumps(eng).encode(), [blk], struct.pack('<II', len(stw), len(zz)), zz)
                ctx.case(('non-json-block', bname)); ctx.count('non-json-header-block')
                try: info = ReplayParser(p, strict=False).get_info()
                except Exception: ctx.count('non-json-header-block:refused'); continue
                try: json.dumps(info, cls=DefaultEncoder)
                except Exception as ex:
                    ctx.violation(dict(kind='not-serialisable', file=os.path.basename(p), header_block=blk.hex(), exception='%s: %s' % (type(ex).__name__, str(ex)[:200]),
                                       how='a well-formed wot 1.10.0 container whose second header block is that byte string (a protocol-2 pickle); json.dumps(ReplayParser(file).get_info(), cls=DefaultEncoder)')); break
        # the CLI's options: every log level, strict mode, a raw dump to a writable file, to a missing directory and to a directory. Whatever
        # happens, standard output holds either nothing (the tool failed: diagnostics on stderr, non-zero exit) or exactly one JSON document
        optfiles = [f for f in files if f.endswith('.wowsreplay')][:1] + [f for f in files if not f.endswith('.wowsreplay')][:2]
        os.makedirs(os.path.join(tmp, 'adir'), exist_ok=True)
        optsets = [['--log_level', 'DEBUG'], ['--log_level', 'INFO', '--strict_mode'], ['--raw_data_output', os.path.join(tmp, 'ok.bin')],
                   ['--raw_data_output', os.path.join(tmp, 'missing-dir', 'x.bin')], ['--raw_data_output', os.path.join(tmp, 'adir')],
                   ['--strict_mode', '--raw_data_output', os.path.join(tmp, 'missing-dir', 'y.bin'), '--log_level', 'WARNING']]
        for f in optfiles:
            for opts in optsets:
                ctx.case(('cli-options', os.path.basename(f), ' '.join(o for o in opts if o.startswith('--')))); ctx.count('cli:options')
                prb = subprocess.run([common.PY, os.path.join(common.REPO, 'replay_parser.py'), '--replay', f] + opts, capture_output=True, env=env, timeout=600, cwd=tmp)
                out = prb.stdout
                try: one_doc = out.strip() == b'' or (json.loads(out.decode('utf-8')) is not None or True)
                except ValueError: one_doc = False
                if not one_doc or (out.strip() == b'' and prb.returncode == 0):
                    ctx.violation(dict(kind='cli-output', file=os.path.basename(f), options=[o.replace(tmp, '<tmp>') for o in opts], exit_code=prb.returncode,
                                       stdout_head=out[:300].decode('utf-8', 'backslashreplace'), stderr_tail=prb.stderr[-300:].decode('utf-8', 'backslashreplace'),
                                       how='python replay_parser.py --replay <file> <options>: stdout must be empty (failure, non-zero exit) or exactly one JSON document'))
                    break
        # the same tool with its standard error on a TERMINAL (a pseudo-terminal; stdout still a pipe): whatever it shows there - progress, colours -
        # standard output is still exactly one JSON document
        import pty, threading
        for f in optfiles:
            m_, s_ = pty.openpty(); sink = []
            def drain():
                try:
                    while True:
                        d_ = os.read(m_, 65536)
                        if not d_: break
                        sink.append(d_)
                except OSError: pass
            th = threading.Thread(target=drain, daemon=True); th.start()
            try: prb = subprocess.run([common.PY, os.path.join(common.REPO, 'replay_parser.py'), '--replay', f], stdout=subprocess.PIPE, stderr=s_, stdin=subprocess.DEVNULL, env=env, timeout=600, cwd=tmp)
            finally:
                os.close(s_); th.join(5)
                try: os.close(m_)
                except OSError: pass
            ctx.case(('cli-stderr-tty', os.path.basename(f))); ctx.count('cli:stderr-on-a-terminal')
            out = prb.stdout
            try: one_doc = prb.returncode == 0 and json.loads(out.decode('utf-8')) is not None and out.lstrip()[:1] in (b'{', b'[')
            except ValueError: one_doc = False
            if not one_doc:
                ctx.violation(dict(kind='cli-output', file=os.path.basename(f), stderr='a pseudo-terminal', exit_code=prb.returncode, stdout_head=out[:300].decode('utf-8', 'backslashreplace'),
                                   how='python replay_parser.py --replay <file> with standard error attached to a pty (pty.openpty) and standard output to a pipe: stdout must be exactly one JSON document'))
                break
        # pickled records whose values contain THEMSELVES (legal for pickle): the summary must stay free of cycles
        for v in picks[:1] + picks[-2:]:
            p = os.path.join(tmp, 'cyc-%s.wowsreplay' % v)
            b, vs = battle.build_wows(v, random.Random(6), join=True, roster_extra=cyclic_roster)
            battle.write_replay(p, 'wowsreplay', {'clientVersionFromXml': vs}, b.stream())
            ctx.case(('cyclic-values', v)); ctx.count('cli:cyclic')
            info = ReplayParser(p, strict=False).get_info()
            try: json.dumps(info, cls=DefaultEncoder)
            except Exception as ex:
                pi = os.path.join(common.REPO, 'replay_unpack', 'clients', 'wows', 'versions', v, 'players_info.py')
                uses_unicodize = os.path.exists(pi) and 'unicodize' in open(pi, encoding='utf-8', errors='replace').read()
                ctx.deviation('cyclic-value', {'class': 'cyclic-value', 'channel': 'pickled-player-record', 'unicodize': uses_unicodize},
                              dict(kind='not-serialisable', version='wows/' + v, exception='%s: %s' % (type(ex).__name__, str(ex)[:200]), players_info_uses_unicodize=uses_unicodize,
                                   how='a synthetic battle whose pickled player records hold a list and a dict that contain themselves; json.dumps(get_info(), cls=DefaultEncoder)'))
        # rosters pickled the way a Python-2 client pickles them (str opcodes, non-ASCII names, str-keyed dicts), every representative version:
        # whatever the version's controller makes of them (decodes, keeps bytes, skips the packet), the summary serialises
        for v in wv:          # EVERY bundled version: the handling of these pickles lives in each version's own controller / players_info
            p = os.path.join(tmp, 'py2-%s.wowsreplay' % v)
            b, vs = battle.build_wows(v, random.Random(8), join=True, roster_extra=py2_roster, dumps=lambda o: battle.py2_dumps(battle.to_py2(o)))
            battle.write_replay(p, 'wowsreplay', {'clientVersionFromXml': vs}, b.stream())
            ctx.case(('py2-pickles', v)); ctx.count('cli:py2-pickles')
            info = ReplayParser(p, strict=False).get_info()
            try: json.dumps(info, cls=DefaultEncoder)
            except Exception as ex:
                ctx.violation(dict(kind='not-serialisable', version='wows/' + v, exception='%s: %s' % (type(ex).__name__, str(ex)[:200]),
                                   how='a synthetic battle whose rosters are pickled the way a Python-2 client does (tools/battle.py2_dumps: str opcodes, the name "Моряк_1", a str-keyed dict); json.dumps(get_info(), cls=DefaultEncoder)'))
        # probe: a dict with bytes keys inside a pickled player record (what a Python-2 client's str-keyed dict becomes)
        for v in picks[:2] + picks[-1:]:
            p = os.path.join(tmp, 'bk-%s.wowsreplay' % v)
            b, vs = battle.build_wows(v, random.Random(5), join=False, roster_extra=byteskey_roster)
            battle.write_replay(p, 'wowsreplay', {'clientVersionFromXml': vs}, b.stream())
            ctx.case(('bytes-key', v))
            info = ReplayParser(p, strict=False).get_info()
            try: json.dumps(info, cls=DefaultEncoder)
            except TypeError as ex:
                ctx.deviation('unserialisable-key', {'class': 'unserialisable-key', 'key_type': 'bytes', 'channel': 'pickled-player-record'},
                              dict(kind='not-serialisable', version='wows/' + v, exception=str(ex)[:200],
                                   how='a synthetic battle whose pickled player record holds {b"k": 1} under a mapped field; json.dumps(get_info(), cls=DefaultEncoder)'))
        ctx.sample(dict(files=[os.path.basename(f) for f in files[:5]], ids_from_literals=len(lits)))
    finally:
        shutil.rmtree(tmp, ignore_errors=True)
    if new_sites and not ctx.violations:
        ctx.notes.append('new stdout writers: %r' % (new_sites,))


def replay(ctx, path):
    obj = json.load(open(path)); print(json.dumps(obj, indent=1)[:3000]); return 1
