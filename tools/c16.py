"""C16 - the library's own writers and readers are mutual inverses."""
import io, json, struct, socket, os
from tools import common, impl, gen_types, gen_const
from tools.c03 import modelrun_lines
LEVEL = 'proof'
WRITABLE_LEAVES = [t for t in gen_types.LEAVES if t[0] != 'python']


def gen_writable(rng, depth):
    def go(d):
        if d <= 0 or rng.random() < 0.4: return rng.choice(WRITABLE_LEAVES)
        k = rng.choice(['array', 'farray', 'dict', 'dictn'])
        if k == 'array': return ('array', go(d - 1), None)
        if k == 'farray': return ('array', go(d - 1), rng.choice([0, 1, 2, 3]))
        n = rng.randrange(1, 4)
        return ('dict', tuple((nm, go(d - 1)) for nm in rng.sample(gen_types.FIELD_NAMES, n)), k == 'dictn')
    return go(depth)


def to_py(t, v):
    """structured value -> the Python object a caller would hand to write_to_stream"""
    k = t[0]
    if v is None: return None
    if k in ('u', 'i'): return v
    if k == 'f32': return struct.unpack('<f', struct.pack('<I', v[1]))[0]
    if k == 'f64': return struct.unpack('<d', struct.pack('<Q', v[1]))[0]
    if k == 'vec': return tuple(struct.unpack('<f', struct.pack('<I', b))[0] for b in v[1])
    if k == 'string': return v[1].decode('utf-8') if gen_types.utf8_ok(v[1]) else v[1]
    if k == 'blob': return v[1]
    if k == 'mailbox': return (socket.inet_ntoa(v[1]), v[2])
    if k == 'array': return [to_py(t[1], x) for x in v]
    if k == 'dict': return {nm: to_py(ft, v[nm]) for nm, ft in t[1] if nm in v}
    raise AssertionError(t)


def shuffle_keys(py, rng):
    """the same value with its dict keys inserted in another order: a caller may build the dict in any order, the wire order is the declared one"""
    if isinstance(py, dict):
        ks = list(py); rng.shuffle(ks); return {k: shuffle_keys(py[k], rng) for k in ks}
    if isinstance(py, list): return [shuffle_keys(x, rng) for x in py]
    return py


def has_nan(t, v):
    k = t[0]
    if v is None: return False
    if k == 'f32': return gen_types.f32canon(v[1]) == 'nan'
    if k == 'f64': return gen_types.f64canon(v[1]) == 'nan'
    if k == 'vec': return any(gen_types.f32canon(b) == 'nan' for b in v[1])
    if k == 'array': return any(has_nan(t[1], x) for x in v)
    if k == 'dict': return any(has_nan(ft, v[nm]) for nm, ft in t[1])
    return False


def holes(t, v, flags):
    """which of the three FORMER holes (repaired: fixed C16-a/b/c) a value touches - kept as coverage labels - and whether the library's format can carry it at all"""
    k = t[0]
    if k == 'dict':
        if v is None: flags.add('none-for-allownone'); return
        for nm, ft in t[1]: holes(ft, v[nm], flags)
    elif k == 'array':
        if t[2] is not None and len(v) != t[2]: flags.add('fixed-array-length')
        if t[2] is None and len(v) >= 256: flags.add('unrepresentable')
        for x in v: holes(t[1], x, flags)
    elif k == 'string':
        if gen_types.utf8_ok(v[1]) and any(b >= 128 for b in v[1]): flags.add('non-ascii-text')
        n = len(v[1].decode('utf-8')) if gen_types.utf8_ok(v[1]) else len(v[1])
        if n >= 65536: flags.add('unrepresentable')
    elif k == 'blob':
        if len(v[1]) >= 65536: flags.add('unrepresentable')
    elif k == 'u':
        if not (0 <= v < 256 ** t[1]): flags.add('unrepresentable')
    elif k == 'i':
        if not (-2 ** (8 * t[1] - 1) <= v < 2 ** (8 * t[1] - 1)): flags.add('unrepresentable')


def perturb(rng, t, v):
    """make some values unrepresentable / hit the holes on purpose"""
    k = t[0]
    if k == 'u' and rng.random() < 0.15: return rng.choice([-1, 256 ** t[1], 256 ** t[1] + 5, -2 ** 63])
    if k == 'i' and rng.random() < 0.15: return rng.choice([2 ** (8 * t[1] - 1), -2 ** (8 * t[1] - 1) - 1])
    if k == 'array' and v is not None:
        v = [perturb(rng, t[1], x) for x in v]
        if t[2] is not None and rng.random() < 0.2 and t[1][0] in ('u', 'i', 'f32', 'string'):
            g = gen_types.ValueGen(rng, allow_big=False)
            v = v[:-1] if (v and rng.random() < 0.5) else v + [g.struct(t[1], nested=True)]
        return v
    if k == 'dict' and v is not None: return {nm: perturb(rng, ft, v[nm]) for nm, ft in t[1]}
    return v


def run(ctx):
    ctx.rule = ('generated writable type trees (no PYTHON / USER_TYPE) x generated values incl. non-ASCII text, lengths across 255/65535, None for AllowNone, '
                'empty/maximal/wrong-length arrays, out-of-range integers, argument lists of the wrong length; for each: the bytes the library writes vs the '
                'extracted writer model, then create_from_stream on the same BytesIO (value and tell()); non-trivial = composite type or variable-length '
                'leaf; distinct by (type, value, hdr)')
    ctx.coq_props('Props/C16.v')
    gen_const.instance_obligations(ctx, 'C16', which=('types',))
    rng = ctx.rng
    n = 4000 if ctx.tier == 'quick' else 60000
    lib = impl.LibTypes({}, rng)
    corr_bad = None; seen_dev = set()
    try:
        cases = []
        for i in range(n):
            t = WRITABLE_LEAVES[i % len(WRITABLE_LEAVES)] if i < 5 * len(WRITABLE_LEAVES) else gen_writable(rng, rng.randrange(1, 5))
            vg = gen_types.ValueGen(rng, allow_big=True, allow_huge=(rng.random() < 0.02))
            v = perturb(rng, t, vg.struct(t))
            if has_nan(t, v): continue
            cases.append((t, v, rng.choice([1, 1, 2])))
        # corpus: the three witnesses of the refuted examples
        cases[:0] = [(('dict', (('a', ('u', 1)),), True), None, 1), (('string',), ('s', 'é'.encode()), 1), (('array', ('u', 1), 3), [1, 2], 1)]
        # boundary corpus: every length at which the packed-length format changes shape or stops being representable, for text and bytes,
        # bare and nested; the declared field order against the order of the Python dict handed in is covered by to_py below
        for ln in (254, 255, 256, 65535, 65536, 65537, 70001, 131072):
            for leaf, mk in ((('string',), lambda n: ('s', b'a' * n)), (('blob',), lambda n: ('b', bytes((i * 7) & 255 for i in range(n))))):
                cases.append((leaf, mk(ln), 1))
                if ln in (255, 65536): cases.append((('dict', (('k', ('u', 1)), ('v', leaf)), False), {'k': 7, 'v': mk(ln)}, 1)); cases.append((('array', leaf, None), [mk(3), mk(ln)], 1))
        syn = [impl.type_syntax(t) for t, v, h in cases]
        wl_ = ['%d %s %s' % (h, s, gen_types.enc_of(t, v)) for (t, v, h), s in zip(cases, syn)]
        model = modelrun_lines('write', wl_)
        from tools import coqeval
        coqeval.cross_check(ctx, 'C16', ['write ' + l for l, s in zip(wl_, syn) if all(32 <= ch < 127 for ch in s.encode())], 'write', limit=80)
        for (t, v, h), s, m in zip(cases, syn, model):
            lt = lib.make(t); py = to_py(t, v)
            if rng.random() < 0.5: py = shuffle_keys(py, rng)
            st = io.BytesIO(); tail = b'\xaa\xbb'
            try:
                lt.write_to_stream(st, py, h); wrote = st.getvalue(); got = 'OK ' + (wrote.hex() or '-')
            except Exception as e:
                wrote = None; got = 'ERR ' + {'struct': 'struct', 'notimpl': 'notimpl', 'key': 'key'}.get(impl.err_name(e), 'type' if isinstance(e, TypeError) else 'struct' if isinstance(e, OverflowError) else 'value' if isinstance(e, ValueError) else impl.err_name(e))
            flags = set(); holes(t, v, flags)
            nontriv = gen_types.depth_of(t) >= 1 or t[0] in ('string', 'blob')
            ctx.case((s, gen_types.enc_of(t, v)[:200], h) if nontriv else None)
            ctx.count('type:' + t[0]); ctx.count('outcome:' + got.split(' ')[0]); [ctx.count('touches:' + f) for f in flags]
            if len(ctx.samples) < 3 and gen_types.depth_of(t) >= 1 and wrote and len(wrote) < 40: ctx.sample(dict(type=s, value=gen_types.canon_of(t, v), written=wrote.hex()))
            mm = m if not m.startswith('ERR') else m.replace('ERR os', 'ERR struct')
            if got != mm and corr_bad is None and not (got.startswith('ERR') and mm.startswith('ERR') and 'unrepresentable' in flags):
                corr_bad = dict(type=s, hdr=h, value=gen_types.canon_of(t, v)[:300], implementation=got[:300], model=m[:300])
            # writing IN PLACE: the same value written into a stream that already holds data, at a position in the middle - exactly the same bytes
            # must appear there, the position afterwards is right behind them, and what lies further behind is not touched
            if wrote is not None and len(wrote) < 4000 and (gen_types.depth_of(t) >= 1 or rng.random() < 0.2):
                junk = bytes((37 * k_ + 11) & 255 for k_ in range(len(wrote) + 24)); st2 = io.BytesIO(junk); st2.seek(5)
                try: lt.write_to_stream(st2, py, h); end2 = st2.tell(); buf2 = st2.getvalue()
                except Exception as e2: end2 = None; buf2 = b''
                ctx.count('write-in-place')
                if end2 != 5 + len(wrote) or buf2[5:5 + len(wrote)] != wrote or buf2[:5] != junk[:5] or buf2[5 + len(wrote):] != junk[5 + len(wrote):]:
                    if ('in-place', s) not in seen_dev:
                        seen_dev.add(('in-place', s))
                        ctx.violation(dict(kind='write-in-place', type=s, hdr=h, value=gen_types.canon_of(t, v)[:300], written_to_empty_stream=wrote.hex()[:200], position_after=end2,
                                           expected_position=5 + len(wrote), buffer_after=buf2.hex()[:300],
                                           how='the value written into BytesIO(<junk of len(encoding)+24 bytes>) after seek(5): bytes [5, 5+n) must be the encoding, tell() = 5+n, the rest unchanged'))
            # the property itself
            if wrote is not None:
                rd = io.BytesIO(wrote + tail)
                back = impl.lib_decode(lt, wrote + tail, h)
                want = 'OK %s %d' % (gen_types.canon_of(t, v), len(tail))
                ok = back == want
            else:
                ok = 'unrepresentable' in flags or 'fixed-array-length' in flags
            if not ok:
                cls = next((f for f in ('none-for-allownone', 'non-ascii-text', 'fixed-array-length') if f in flags), None)
                key = cls or ('write-read', s)
                if key in seen_dev: continue
                seen_dev.add(key)
                ctx.deviation(cls or 'write-read-mismatch', {'class': cls or 'write-read-mismatch'},
                              dict(kind='write-read', type=s, hdr=h, value=gen_types.canon_of(t, v)[:400], written=(wrote.hex()[:400] if wrote is not None else got),
                                   read_back=(back[:400] if wrote is not None else None), flags=sorted(flags),
                                   how='DataType.write_to_stream(BytesIO, value, hdr) then create_from_stream on the same bytes + 2 trailing bytes; tell()'))
        # lengths past 2^24 cannot be carried by the 3-byte packed length at all: refused, or (if ever supported) read back intact - library only,
        # the model is not run on 16 MB literals
        for leaf in (('string',), ('blob',)):
            for ln in (2 ** 24, 2 ** 24 + 3):
                lt = lib.make(leaf); py = ('a' * ln) if leaf[0] == 'string' else bytes(ln)
                st = io.BytesIO(); ctx.case((leaf[0], 'len', ln))
                try: lt.write_to_stream(st, py, 1)
                except Exception: continue
                rd = io.BytesIO(st.getvalue())
                try: back = lt.create_from_stream(rd, 1)
                except Exception as e: back = e
                if back != py or rd.tell() != len(st.getvalue()):
                    ctx.violation(dict(kind='write-read', type=leaf[0], length=ln, written_prefix=st.getvalue()[:8].hex(),
                                       read_back_length=(len(back) if isinstance(back, (str, bytes)) else repr(back)),
                                       how='DataType.write_to_stream of a value of that length, then create_from_stream'))
        # integers are written from Python ints only: a fractional or integral float, text, bytes, None or a list is NOT representable and must be
        # refused (struct.error / TypeError), never coerced and written as something else
        for leaf in [t for t in WRITABLE_LEAVES if t[0] in ('u', 'i')]:
            for bad in (2.5, 99.7, 1.0, '7', b'7', None, [1], (1,)):
                lt = lib.make(leaf); st = io.BytesIO(); ctx.case(None); ctx.count('foreign-type-for-int')
                try: lt.write_to_stream(st, bad, 1)
                except Exception: continue
                ctx.violation(dict(kind='unrepresentable-value-written', type=impl.type_syntax(leaf), value=repr(bad), written=st.getvalue().hex(),
                                   how='DataType.write_to_stream(BytesIO(), value, 1) must raise for a value that is not an int'))
                break
        # a Python float beyond the range of FLOAT32 (alone, in a vector, in an array) is not representable: refused, never written as inf
        for t, bad in ((('f32',), 1e39), (('f32',), -3.5e38), (('vec', 12), (1.0, 2.0, 1e39)), (('vec', 8), (-1e300, 0.0)), (('array', ('f32',), None), [1.0, 1e39]),
                       (('f64',), 10 ** 400)):
            try: lt = lib.make(t)
            except Exception: continue
            st = io.BytesIO(); ctx.case(None); ctx.count('float-out-of-range')
            try: lt.write_to_stream(st, bad, 1)
            except Exception: continue
            ctx.violation(dict(kind='unrepresentable-value-written', type=impl.type_syntax(t), value=repr(bad), written=st.getvalue().hex(),
                               how='DataType.write_to_stream(BytesIO(), value, 1) must raise for a float too large for the type (it was written as something else)'))
            break
        # text that has NO UTF-8 encoding (a str with an unpaired surrogate - json.loads('"\\ud83d"') produces one): refused, or - if a writer ever accepts
        # it - read back as the same str from exactly the bytes written; alone, in an array, in a dict, as a method argument
        for t, bad in ((('string',), 'Player_\ud83d'), (('string',), '\udc00'), (('array', ('string',), None), ['ok', 'x\ud800y']),
                       (('dict', (('k', ('u', 1)), ('v', ('string',))), False), {'k': 1, 'v': '\udfff!'})):
            try: lt = lib.make(t)
            except Exception: continue
            st = io.BytesIO(); ctx.case(None); ctx.count('text-without-utf8-encoding')
            try: lt.write_to_stream(st, bad, 1)
            except Exception: continue
            rd = io.BytesIO(st.getvalue())
            try: back = lt.create_from_stream(rd, 1)
            except Exception as e: back = 'read fails: ' + type(e).__name__
            norm = lambda x: [norm(y) for y in x] if isinstance(x, (list, tuple)) else {k_: norm(y) for k_, y in x.items()} if hasattr(x, 'items') else x
            if norm(back) != norm(bad) or rd.tell() != len(st.getvalue()):
                ctx.violation(dict(kind='unrepresentable-value-written', type=impl.type_syntax(t), value=ascii(bad), written=st.getvalue().hex(), read_back=ascii(back)[:200],
                                   how='DataType.write_to_stream(BytesIO(), value, 1) for text with an unpaired surrogate: it has no UTF-8 encoding, so it must be refused (or read back as the same str)'))
                break
        # MAILBOX: (dotted IPv4 text, 16-bit port) is what the four + two bytes carry; anything else - an IPv6 literal, an integer, packed bytes,
        # free text, a port outside 0..65535 - is refused, or, if the writer accepts it, must read back as the same value from exactly those bytes
        for bad in (('::1', 6000), ('fe80::1', 1), (2130706433, 80), (b'\x7f\x00\x00\x01', 80), ('not an address', 1), ('1.2.3.4', 70000), ('1.2.3.4', -1),
                    ('1.2.3.4.5', 1), ('', 0), (None, 1), ('1.2.3.4',), ('256.1.1.1', 1)):
            lt = lib.make(('mailbox',)); st = io.BytesIO(); ctx.case(None); ctx.count('mailbox-foreign-value')
            try: lt.write_to_stream(st, bad, 1)
            except Exception: continue
            rd = io.BytesIO(st.getvalue())
            try: back = lt.create_from_stream(rd, 1)
            except Exception as e: back = 'read fails: ' + type(e).__name__
            if tuple(back) != tuple(bad) if isinstance(back, (tuple, list)) else True or rd.tell() != len(st.getvalue()):
                ctx.violation(dict(kind='unrepresentable-value-written', type='mailbox', value=repr(bad), written=st.getvalue().hex(), read_back=repr(back), left_over=len(st.getvalue()) - rd.tell(),
                                   how='Mailbox.write_to_stream(BytesIO(), value, 1): the value is not (dotted IPv4 text, port 0..65535); it must be refused, or read back as the same value from exactly the bytes written'))
                break
        # argument lists
        from replay_unpack.core.entity_def.entity_description import EntityMethod, MethodArgument
        bad_args = None
        for _ in range(200 if ctx.tier == 'quick' else 3000):
            ts = [rng.choice(WRITABLE_LEAVES) for _ in range(rng.randrange(0, 4))]
            vals = [gen_types.ValueGen(rng, allow_big=False).struct(t) for t in ts]
            if any(has_nan(t, v) for t, v in zip(ts, vals)): continue
            m = EntityMethod('m', True, [MethodArgument(lib.make(t)) for t in ts], 1)
            give = [to_py(t, v) for t, v in zip(ts, vals)]
            if rng.random() < 0.3: give = give[:-1] if give and rng.random() < 0.5 else give + [0]
            st = io.BytesIO()
            ctx.case(None)
            try:
                m.write_to_stream(st, *give)
                if len(give) != len(ts): bad_args = dict(types=[impl.type_syntax(t) for t in ts], given=len(give), written=st.getvalue().hex())
                else:
                    rd = io.BytesIO(st.getvalue()); a, kw = m.create_from_stream(rd)
                    if [impl.canon_t(x, arg.type) for x, arg in zip(a, m._arguments)] != [gen_types.canon_of(t, v) for t, v in zip(ts, vals)] or rd.tell() != len(st.getvalue()):
                        flags = set(); [holes(t, v, flags) for t, v in zip(ts, vals)]
                        bad_args = dict(types=[impl.type_syntax(t) for t in ts], values=[gen_types.canon_of(t, v) for t, v in zip(ts, vals)])
            except RuntimeError:
                if len(give) == len(ts): bad_args = dict(types=[impl.type_syntax(t) for t in ts], refused_with_correct_count=True)
            except Exception:
                pass
        if bad_args: ctx.violation(dict(kind='method-args-write-read', **bad_args))
        # the refusal of a wrong argument count is a refusal under `python -O` too (assert statements compiled away)
        import subprocess, json as json_
        child = ("import io, json\nfrom tools import impl\nfrom replay_unpack.core.entity_def.entity_description import EntityMethod, MethodArgument\n"
                 "lib = impl.LibTypes(); out = []\n"
                 "for ts, give in (([('u', 2), ('f32',)], [77, 1.5, 3]), ([('u', 2), ('f32',)], [77]), ([], [1]), ([('string',)], []), ([('u', 1)], [5])):\n"
                 "    m = EntityMethod('m', True, [MethodArgument(lib.make(t)) for t in ts], 1); st = io.BytesIO()\n"
                 "    try: m.write_to_stream(st, *give); out.append(['written', st.getvalue().hex()])\n"
                 "    except Exception as e: out.append(['refused', type(e).__name__])\n"
                 "lib.close(); print(json.dumps(out))\n")
        pr = subprocess.run([common.PY, '-O', '-c', child], capture_output=True, text=True, timeout=120, cwd=common.VERIF,
                            env=dict(os.environ, PYTHONPATH=common.REPO + os.pathsep + common.VERIF))
        ctx.case(None); ctx.count('refusals-under-python-O', 5)
        try: res = json_.loads(pr.stdout.strip().splitlines()[-1])
        except Exception: res = None
        ctx.obligation('the python -O child for the argument-count refusals ran', res is not None, pr.stderr[-400:])
        if res is not None and ([r[0] for r in res[:4]] != ['refused'] * 4 or res[4] != ['written', '05']):
            ctx.violation(dict(kind='method-args-write-read', interpreter='python -O', results=res,
                               expected='refused, refused, refused, refused, written 05',
                               how='python -O: EntityMethod with arguments (u16, f32) given 3 and 1 values, () given 1, (string) given 0, (u8) given [5]: a wrong count is refused with an exception under every interpreter switch'))
        # ONE-argument methods whose argument is itself a list / tuple / text (a writer that "unwraps" a lone sequence would take its elements
        # for the argument list): written, read back through the method, compared
        for t, val in ((('array', ('string',), None), ['ab']), (('array', ('string',), None), ['ab', 'cd']), (('array', ('array', ('string',), None), None), [['ab', 'cd']]),
                       (('array', ('u', 1), None), [5]), (('array', ('u', 1), 1), [7]), (('string',), 'x'), (('blob',), b'y'), (('array', ('i', 4), None), []), (('vec', 8), (1.0, 2.0))):
            try: m = EntityMethod('one', True, [MethodArgument(lib.make(t))], 1)
            except Exception: continue
            st = io.BytesIO(); ctx.case(None); ctx.count('one-argument-method')
            try: m.write_to_stream(st, val)
            except Exception as e:
                ctx.violation(dict(kind='method-args-write-read', types=[impl.type_syntax(t)], value=repr(val), refused='%s: %s' % (type(e).__name__, str(e)[:120]),
                                   how='EntityMethod with one argument of that type: write_to_stream(stream, value) must accept the value as THE argument')); break
            rd = io.BytesIO(st.getvalue())
            try: args, kwargs = m.create_from_stream(rd); back = args[0] if args else None
            except Exception as e: back = 'read fails: ' + type(e).__name__
            norm = lambda x: [norm(y) for y in x] if isinstance(x, (list, tuple)) else x
            if norm(back) != norm(val) or rd.tell() != len(st.getvalue()):
                ctx.violation(dict(kind='method-args-write-read', types=[impl.type_syntax(t)], value=repr(val), written=st.getvalue().hex(), read_back=repr(back)[:200],
                                   how='EntityMethod with one argument of that type: write_to_stream(stream, value), then create_from_stream on the bytes written')); break
    finally:
        lib.close()
    ctx.traces_validated += len(cases)
    ctx.obligation('correspondence: bytes written by the library = extracted lib_write on generated (type, value) cases', corr_bad is None, json.dumps(corr_bad) if corr_bad else '')


def replay(ctx, path):
    obj = json.load(open(path)); print(json.dumps(obj, indent=1)[:2500]); return 1
