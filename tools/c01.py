"""C01 - container decoding is the exact inverse of the replay file format."""
import os, json, zlib, struct, subprocess, tempfile, shutil, glob
from tools import common, gen_const, recordings
LEVEL = 'proof'
EXTS = ['wowsreplay', 'wotreplay', 'wowpreplay']
GAME = {'wowsreplay': 'wows', 'wotreplay': 'wot', 'wowpreplay': 'wowp'}


def run_modelrun(args, inp=None, timeout=600):
    p = subprocess.run(['bash', '-c', 'ulimit -s unlimited; exec "$0" "$@"', common.MODELRUN] + args, input=inp, capture_output=True, text=True, timeout=timeout)
    if p.returncode != 0: raise RuntimeError('modelrun %s failed: %s' % (args[0], p.stderr[-500:]))
    return p.stdout


def model_read_many(paths):
    out = run_modelrun(['container', '-'], ''.join(p + '\n' for p in paths)).split('\n')
    results = []; res = dict(extra=[])
    for l in out:
        if l == 'END': results.append(res); res = dict(extra=[])
        elif l.startswith('GAME '): res['game'] = l[5:]
        elif l.startswith('B0 '): res['b0'] = bytes.fromhex(l[3:].replace('-', ''))
        elif l.startswith('X '): res['extra'].append(None if l[2:] == 'none' else bytes.fromhex(l[2:].replace('-', '')))
        elif l.startswith('PAYLOAD '): res['payload'] = bytes.fromhex(l[8:].replace('-', ''))
        elif l.startswith('ERR '): res['err'] = l[4:]
    assert len(results) == len(paths), (len(results), len(paths))
    return results


def model_read(path): return model_read_many([path])[0]


def model_write_many(specs):
    """specs: (ext, path, b0, extra, prefix, zpad)"""
    hx = lambda b: b.hex() or '-'
    inp = ''
    for ext, path, b0, extra, prefix, zpad in specs:
        inp += '\n'.join([ext, path, hx(b0), str(len(extra))] + [hx(b) for b in extra] + [hx(prefix), hx(zpad)]) + '\n'
    run_modelrun(['mkcontainer'], inp)


def model_write(ext, path, b0, extra, prefix, zpad): model_write_many([(ext, path, b0, extra, prefix, zpad)])


def lib_read(path):
    from replay_unpack.replay_reader import ReplayReader
    try:
        r = ReplayReader(path).get_replay_data()
        return dict(game=r.game, engine=r.engine_data, extra=r.extra_data, stream=r.decrypted_data)
    except Exception as e:
        return dict(err=err_class(e))


def err_class(e):
    if isinstance(e, struct.error): return 'struct'
    if isinstance(e, zlib.error): return 'zlib'
    if isinstance(e, ValueError): return 'value'          # incl. JSONDecodeError, UnicodeDecodeError
    if isinstance(e, MemoryError): return 'memory'
    return 'other:' + type(e).__name__


def model_result(m):
    """apply the two oracles (json, zlib) to the model's raw result at the points where the library applies them:
    each JSON block right after it has been read, inflation last"""
    try:
        if 'b0' in m: eng = json.loads(m['b0'])
        extra = [None if b is None else json.loads(b) for b in m['extra']]
    except ValueError: return dict(err='value')
    except RecursionError: return dict(err='other:RecursionError')
    if 'err' in m: return dict(err=m['err'])
    try: stream = zlib.decompress(m['payload'])
    except zlib.error: return dict(err='zlib')
    return dict(game=m['game'], engine=eng, extra=extra, stream=stream)


JSONS = [b'{"clientVersionFromXml": "0,8,0,123", "a": [1, 2, 3]}', b'{}', b'{"name": "\xd0\x9f\xd1\x80\xd0\xb8\xd0\xb2\xd0\xb5\xd1\x82 \xe6\x97\xa5\xe6\x9c\xac"}',
         b'[1, {"x": null}]', b'"str"', b'{"k": "' + b'v' * 300 + b'"}', b'7']


def gen_cases(ctx, n):
    rng = ctx.rng; cases = []
    def mk(ext, stream, extra, level, strategy, prefix, pad, zero_pad=False):
        co = zlib.compressobj(level, zlib.DEFLATED, 15, 8, strategy)
        z = co.compress(stream) + co.flush()
        if pad == 'zlib':
            # padding that is itself a complete zlib stream (or starts like one): whatever follows the end of THE stream is padding, never more payload
            tail = rng.choice([zlib.compress(b'INJECTED-BY-THE-PADDING'), zlib.compress(b''), zlib.compress(stream[:9] or b'x', 0), b'\x78\x9c', zlib.compress(b'A' * 50)[:-3]])
            zpad = z + tail; zpad += bytes((-len(zpad)) % 8)
            return dict(ext=ext, stream=stream, b0=rng.choice(JSONS), extra=extra, prefix=prefix, zpad=zpad, level=level, strategy=strategy)
        padn = (-len(z)) % 8 if pad == 'min' else ((-len(z)) % 8) + 8 * pad
        zpad = z + (bytes(padn) if zero_pad else bytes(rng.randrange(256) for _ in range(padn)))
        return dict(ext=ext, stream=stream, b0=rng.choice(JSONS), extra=extra, prefix=prefix, zpad=zpad, level=level, strategy=strategy)
    # every stream length 0..64 (every length mod 8, empty stream), each key in turn
    for ln in range(0, 65):
        stream = bytes(rng.randrange(256) for _ in range(ln))
        cases.append(mk(EXTS[ln % 3], stream, [], rng.choice([0, 1, 6, 9]), 0, bytes(8), 'min'))
    # all zlib levels x strategies
    for level in range(0, 10):
        for strategy in (zlib.Z_DEFAULT_STRATEGY, zlib.Z_FILTERED, zlib.Z_HUFFMAN_ONLY, zlib.Z_RLE, zlib.Z_FIXED):
            stream = bytes(rng.choice([0, 0, 65, rng.randrange(256)]) for _ in range(rng.randrange(0, 400)))
            cases.append(mk(rng.choice(EXTS), stream, [], level, strategy, bytes(rng.randrange(256) for _ in range(8)), rng.choice(['min', 1])))
    # stored (level 0) streams of zeros: all-zero plaintext blocks hit the `if previous_block:` shortcut
    for ln in (8, 16, 24, 64, 100):
        cases.append(mk(rng.choice(EXTS), bytes(ln), [], 0, 0, bytes(8), 'min'))
    # zero padding (what the game writes) behind a zlib stream whose LAST bytes are zero themselves (an Adler-32 ending in 00 / 0000): the end of
    # the payload must not be mistaken for padding; also the same streams with no padding at all (compressed length a multiple of 8)
    found = 0; tries = 0
    while found < 12 and tries < 200000:
        tries += 1
        stream = bytes(rng.randrange(256) for _ in range(rng.choice([3, 9, 40, 200])))
        a = zlib.adler32(stream)
        if a & 0xff == 0 and (found % 3 or a & 0xffff == 0 or tries > 60000):
            lvl = rng.choice([0, 1, 6, 9])
            cases.append(mk(EXTS[found % 3], stream, [], lvl, 0, bytes(8), rng.choice(['min', 1]), zero_pad=True)); found += 1
    for k in range(10):
        stream = bytes(rng.choice([0, 65, rng.randrange(256)]) for _ in range(rng.choice([0, 5, 64, 300])))
        cases.append(mk(EXTS[k % 3], stream, [], rng.choice([0, 6, 9]), 0, bytes(8), 'zlib'))
    while len(cases) < n:
        ln = rng.choice([0, 1, 7, 8, 9, 100, 1000, rng.randrange(0, 5000)])
        stream = bytes(rng.choice([0, 0, 65, rng.randrange(256)]) for _ in range(ln))
        extra = [rng.choice(JSONS + [b'', b'']) for _ in range(rng.randrange(0, 6))]
        cases.append(mk(rng.choice(EXTS), stream, extra, rng.randrange(0, 10), rng.choice([0, 1, 2, 3, 4]),
                        bytes(rng.randrange(256) for _ in range(8)), rng.choice(['min', 'min', 1, 2]), zero_pad=rng.random() < 0.5))
    return cases


def blowfish_blocks(ctx, n):
    """the Coq Blowfish (pi-derived tables, key schedule) against Cryptodome, block for block, per key"""
    from Cryptodome.Cipher import Blowfish
    from replay_unpack import replay_reader as rr
    ok = True
    for ext in EXTS:
        key = rr.TYPE_TO_KEY[ext]; bf = Blowfish.new(key, Blowfish.MODE_ECB)
        blocks = [bytes(8), b'\xff' * 8] + [bytes(ctx.rng.randrange(256) for _ in range(8)) for _ in range(n)]
        out = run_modelrun(['bfblock', ext], ''.join(b.hex() + '\n' for b in blocks)).strip().split('\n')
        for b, l in zip(blocks, out):
            d, e = l.split(' ')
            ctx.case(None)
            if bytes.fromhex(d) != bf.decrypt(b) or bytes.fromhex(e) != bf.encrypt(b):
                ok = False
                ctx.violation(dict(kind='blowfish-block', ext=ext, block=b.hex(), model_dec=d, model_enc=e, cryptodome_dec=bf.decrypt(b).hex(), cryptodome_enc=bf.encrypt(b).hex()))
                break
    ctx.obligation('correspondence: Coq Blowfish = Cryptodome Blowfish on %d blocks per key' % (n + 2), ok)


def run(ctx):
    ctx.rule = ('containers written by the SPEC writer (extracted write_container with the Coq Blowfish; zlib for deflate): every stream length 0..64, '
                'all levels x strategies, 0..5 extra blocks incl. empty and non-ASCII JSON, three keys, arbitrary prefix and padding, zero blocks; read by '
                'ReplayReader (must return exactly what was written) and by the extracted reader; malformed: wrong magic x garbage, bad extensions, '
                'truncations; real recordings read by both readers and re-wrapped; non-trivial = stream longer than one cipher block or >= 1 extra '
                'block; distinct by file bytes')
    ctx.coq_props('Props/C01.v')
    gen_const.container_obligations(ctx)
    q = ctx.tier == 'quick'
    tmp = tempfile.mkdtemp(prefix='verif-c01-')
    try:
        blowfish_blocks(ctx, 300 if q else 10000)
        cases = gen_cases(ctx, 160 if q else 3000)
        corr_bad = None
        paths = [os.path.join(tmp, 'c%d.%s' % (i, c['ext'])) for i, c in enumerate(cases)]
        model_write_many([(c['ext'], p, c['b0'], c['extra'], c['prefix'], c['zpad']) for c, p in zip(cases, paths)])
        model_reads = model_read_many(paths)
        for i, c in enumerate(cases):
            path = paths[i]
            got = lib_read(path)
            want = dict(game=GAME[c['ext']], engine=json.loads(c['b0']), extra=[json.loads(b) if b else None for b in c['extra']], stream=c['stream'])
            m = model_result(model_reads[i])
            nontriv = len(c['stream']) > 8 or c['extra']
            ctx.case(open(path, 'rb').read() if nontriv else None)
            ctx.count('ext:' + c['ext']); ctx.count('len%8=' + str(len(c['stream']) % 8)); ctx.count('extra=%d' % len(c['extra'])); ctx.count('level=%d' % c['level'])
            if i == 70: ctx.sample(dict(ext=c['ext'], stream=c['stream'].hex()[:80], level=c['level'], strategy=c['strategy'], file=open(path, 'rb').read().hex()[:200]))
            if got != m and corr_bad is None:
                corr_bad = dict(file=open(path, 'rb').read().hex(), ext=c['ext'], implementation=short(got), model=short(m))
            if got != want:
                ctx.violation(dict(kind='container-roundtrip', ext=c['ext'], file=open(path, 'rb').read().hex(), written=short(want), read_back=short(got),
                                   how='write the hex to <name>.<ext>; ReplayReader(path).get_replay_data()'))
                break
            os.unlink(path)
        # malformed containers: correspondence and the ValueError-before-payload clause
        rng = ctx.rng
        good = None
        for k in range(60 if q else 600):
            c = cases[rng.randrange(len(cases))]
            path = os.path.join(tmp, 'm%d.%s' % (k, c['ext']))
            model_write(c['ext'], path, c['b0'], c['extra'], c['prefix'], c['zpad'])
            data = bytearray(open(path, 'rb').read())
            kind = rng.choice(['magic', 'magic', 'trunc', 'flip', 'count', 'size', 'ext', 'ext', 'ext'])
            newpath = path
            if kind == 'magic':
                data[rng.randrange(4)] ^= 1 << rng.randrange(8)
                data = data[:4] + bytes(rng.randrange(256) for _ in range(rng.randrange(0, 40)))     # garbage that would raise something else if touched
            elif kind == 'trunc': data = data[:rng.randrange(0, len(data))]
            elif kind == 'flip': data[rng.randrange(len(data))] ^= 1 << rng.randrange(8)
            elif kind == 'count': data[4:8] = struct.pack('<i', rng.choice([0, -1, 2, 7, 2 ** 31 - 1, -2 ** 31]))
            elif kind == 'size': data[8:12] = struct.pack('<i', rng.choice([0, -1, 5, 2 ** 31 - 1, -7]))
            elif kind == 'ext': newpath = path.rsplit('.', 1)[0] + rng.choice(['.replay', '.wowsreplay.bak', '', '.WOWSREPLAY', '.zip', '.fake' + c['ext'], '.x' + c['ext'], '.not_a_' + c['ext'], '_' + c['ext']])
            open(newpath, 'wb').write(bytes(data))
            if newpath != path: os.unlink(path)
            try: got = lib_read(newpath)
            except MemoryError: got = dict(err='memory')
            m = model_result(model_read(newpath))
            ctx.case(None); ctx.count('malformed:' + kind); ctx.count('malformed-outcome:' + (got.get('err') or 'ok'))
            if kind in ('magic', 'ext') and got.get('err') != 'value':
                ctx.violation(dict(kind='not-rejected-with-ValueError', what=kind, path=os.path.basename(newpath), file=bytes(data).hex()[:400], implementation=short(got)))
            if got != m and corr_bad is None and got.get('err') != 'memory':
                corr_bad = dict(file=bytes(data).hex()[:2000], name=os.path.basename(newpath), malformed=kind, implementation=short(got), model=short(m))
            os.unlink(newpath)
        # real recordings
        # (the extracted Coq Blowfish handles ~10 kB/s: whole-file model reads and re-wraps for the smaller recordings, a 32 KiB prefix for the others;
        #  a thorough run that pushed all 45 recordings through it twice took over two hours)
        files = [f for f in recordings.list_recordings() if os.path.getsize(f) < (200000 if q else 1200000)]
        if q:
            big = [f for f in recordings.list_recordings() if 'wot_1_8_0' in f or '/0_8_0/6979' in f]
        else: big = [f for f in recordings.list_recordings() if f not in files]
        for f in files:
            got = lib_read(f); m = model_result(model_read(f))
            ctx.case(('rec', os.path.basename(f))); ctx.traces_validated += 1
            if got != m and corr_bad is None: corr_bad = dict(file=os.path.relpath(f, common.REPO), implementation=short(got), model=short(m))
            # re-wrap with the independent writer at another level, read back with the library
            ext = f.rsplit('.', 1)[-1]
            raw = model_read(f)
            co = zlib.compressobj(rng.choice([1, 6, 9])); z = co.compress(got['stream']) + co.flush(); z += bytes((-len(z)) % 8)
            p2 = os.path.join(tmp, 'rewrap.' + ext)
            model_write(ext, p2, raw['b0'], [b or b'' for b in raw['extra']], bytes(8), z)
            back = lib_read(p2)
            if back != got:
                ctx.violation(dict(kind='rewrap', file=os.path.relpath(f, common.REPO), original=short(got), rewrapped=short(back)))
            os.unlink(p2)
        for f in big:
            # a truncated copy: header/blocks + the first 32 KiB of ciphertext, decrypted by the model and inflated as far as it goes
            data = open(f, 'rb').read(); got = lib_read(f)
            ext = f.rsplit('.', 1)[-1]; p2 = os.path.join(tmp, 'trunc.' + ext)
            n_blocks = struct.unpack_from('<i', data, 4)[0]; off = 8
            for _ in range(n_blocks): off += 4 + struct.unpack_from('<i', data, off)[0]
            open(p2, 'wb').write(data[:off + 8 + 32768])
            m = model_read(p2)
            part = zlib.decompressobj().decompress(m['payload'])
            ctx.case(('rec-prefix', os.path.basename(f))); ctx.traces_validated += 1
            if not got['stream'].startswith(part) or len(part) < 30000:
                if corr_bad is None: corr_bad = dict(file=os.path.relpath(f, common.REPO), prefix_only=True, model_prefix=part[:64].hex(), implementation_prefix=got['stream'][:64].hex())
            os.unlink(p2)
        # reading is a function of the file: a second read through the SAME reader / parser object gives the same answer and does not change
        # what the first one returned (files with extra blocks, since those are accumulated in a list)
        import copy
        from replay_unpack.replay_reader import ReplayReader
        rr = [(i, c) for i, c in enumerate(cases) if c['extra']][::5][:12]
        model_write_many([(c['ext'], paths[i], c['b0'], c['extra'], c['prefix'], c['zpad']) for i, c in rr])
        for i, c in rr:
            r = ReplayReader(paths[i]); a = r.get_replay_data(); a0 = copy.deepcopy((a.game, a.engine_data, a.extra_data, a.decrypted_data))
            b = r.get_replay_data(); ctx.case(('reread', i))
            if (b.game, b.engine_data, b.extra_data, b.decrypted_data) != a0 or (a.game, a.engine_data, a.extra_data, a.decrypted_data) != a0:
                ctx.violation(dict(kind='second-read-differs', ext=c['ext'], file=open(paths[i], 'rb').read().hex(), first=json.dumps(a0[2])[:300],
                                   second=json.dumps(b.extra_data)[:300], first_after_second=json.dumps(a.extra_data)[:300],
                                   how='r = ReplayReader(path); a = r.get_replay_data(); b = r.get_replay_data(): b and a must both equal the first answer'))
                break
        # the optional raw dump contains exactly the decoded stream - also when the stream cannot be played (empty, garbage, cut inside a packet)
        from replay_parser import ReplayParser as RP
        from tools import battle as battle_
        import random as random_
        bb, vs_ = battle_.build_wows('13_2_0', random_.Random(3)); good = bb.stream()
        # ONE path is rewritten with a different container each time (a result cached per path would be stale), every container carries
        # its own marker in the open info and an extra block, and the objects a parse returned are scribbled over afterwards (a later parse
        # must not see that)
        pth = os.path.join(tmp, 'dump.wowsreplay')
        for name, stream in (('empty', b''), ('garbage', bytes(ctx.rng.randrange(256) for _ in range(301))), ('cut-in-packet', good[:len(good) // 2 + 5]), ('playable', good), ('exe-only', good[:40]), ('no-version', b'')):
            for strict in (False, True):
                dmp = os.path.join(tmp, 'dump-%s-%d.bin' % (name, strict))
                engine = {'clientVersionFromXml': vs_, 'marker': '%s-%d' % (name, strict)}; extra = [{'blk': name, 'strict': strict}]
                # (open infos WITHOUT the version key, or with the exe version only: the parser cannot play them, but what it returns as the
                #  open info is still exactly the first block - nothing added, nothing removed)
                if name == 'exe-only': engine = {'clientVersionFromExe': '0,9,4,0', 'marker': 'exe-only-%d' % strict}
                if name == 'no-version': engine = {'marker': 'no-version-%d' % strict, 'nested': {'a': [1, 2, {'b': None}]}}
                co = zlib.compressobj(6); z = co.compress(stream) + co.flush(); z += bytes((-len(z)) % 8)
                model_write('wowsreplay', pth, json.dumps(engine).encode(), [json.dumps(e).encode() for e in extra], struct.pack('<II', len(stream), len(z)), z)
                open(dmp, 'wb').write(b'STALE' * (len(stream) // 5 + 7))          # an older, longer dump is there already: it must be replaced, not overwritten in place
                info = None
                try: info = RP(pth, strict=strict, raw_data_output=dmp).get_info()
                except Exception: pass
                ctx.case(('raw-dump', name, strict))
                got_dump = open(dmp, 'rb').read() if os.path.exists(dmp) else None
                # (the dump is written once the version of the open info has selected a player: an open info without a version gets none - not judged)
                if got_dump != stream and 'clientVersionFromXml' in engine:
                    ctx.violation(dict(kind='raw-dump', stream_kind=name, strict=strict, stream=stream[:400].hex(), dump=(got_dump[:200].hex() if got_dump is not None else 'no file written'),
                                       how='a well-formed 13.2.0 container around that stream, written to a path that held another container before; ReplayParser(path, strict, raw_data_output=f).get_info(); f must hold the stream'))
                if info is not None:
                    if info.get('open') != engine or info.get('extra_data') != extra:
                        ctx.violation(dict(kind='parser-blocks', stream_kind=name, strict=strict, expected_open=engine, got_open=json.loads(json.dumps(info.get('open'), default=str)),
                                           expected_extra=extra, got_extra=json.loads(json.dumps(info.get('extra_data'), default=str)),
                                           how='containers written one after the other to the SAME path, each parsed with a new ReplayParser in one process (and the dicts a parse returned edited afterwards): get_info() must return the blocks of the file that is there now'))
                    try:
                        info['open']['marker'] = 'scribbled'; info['open']['clientVersionFromXml'] = '0,0,0,0'
                        if isinstance(info.get('extra_data'), list): info['extra_data'].append('scribbled')
                    except Exception: pass
        # ... and on a real recording
        small = [f for f in recordings.list_recordings() if os.path.getsize(f) < 30000][0]
        from replay_parser import ReplayParser
        dump = os.path.join(tmp, 'dump.bin')
        ReplayParser(small, strict=True, raw_data_output=dump).get_info()
        ctx.case(('raw-dump',))
        if open(dump, 'rb').read() != lib_read(small)['stream']:
            ctx.violation(dict(kind='raw-dump', file=os.path.relpath(small, common.REPO), how='ReplayParser(path, raw_data_output=f).get_info(); compare f with ReplayReader(path).get_replay_data().decrypted_data'))
        # the NAME THE CALLER GIVES decides (extension check, key): a container reached through a symbolic link whose own name has another
        # extension than its target is read exactly as a regular file of the link's name would be
        sd = os.path.join(tmp, 'store'); os.makedirs(sd, exist_ok=True)
        co = zlib.compressobj(6); z = co.compress(good) + co.flush(); z += bytes((-len(z)) % 8)
        engine = {'clientVersionFromXml': vs_, 'marker': 'linked'}
        for target_name, link_name in (('blob.bin', 'named.wowsreplay'), ('other.wotreplay', 'named2.wowsreplay'), ('real.wowsreplay', 'alias.txt'), ('real2.wowsreplay', 'alias.wotreplay')):
            tgt = os.path.join(sd, target_name); lnk = os.path.join(tmp, link_name); reg = os.path.join(tmp, 'regular-' + link_name)
            model_write('wowsreplay', tgt, json.dumps(engine).encode(), [], struct.pack('<II', len(good), len(z)), z)
            shutil.copy(tgt, reg)
            try: os.symlink(tgt, lnk)
            except OSError: break
            def outcome(pp):
                try:
                    i_ = RP(pp, strict=True).get_info(); return 'ok ' + digest_canon(dict(open=i_.get('open'), hidden=i_.get('hidden')))
                except Exception as e: return 'raises ' + type(e).__name__
            from tools.digest import canon as digest_canon
            a_, b_ = outcome(lnk), outcome(reg)
            ra, rb = lib_read(lnk), lib_read(reg)
            ctx.case(('symlink', target_name, link_name), n=2); ctx.count('through-symlink', 2)
            if a_ != b_ or ra != rb:
                ctx.violation(dict(kind='name-decides', target=target_name, link=link_name, through_link=a_[:80], regular_file_of_that_name=b_[:80], reader_agrees=(ra == rb),
                                   how='a well-formed 13.2.0 .wowsreplay container stored as <target>; os.symlink(target, link); ReplayParser(link, strict=True).get_info() and ReplayReader(link).get_replay_data() '
                                       'must behave exactly as for a regular file named like the link with the same bytes'))
                break
        ctx.obligation('correspondence: ReplayReader = extracted read_container (+ json/zlib oracles) on written, malformed and real containers', corr_bad is None,
                       '' if corr_bad is None else json.dumps(corr_bad)[:1500])
        if corr_bad is not None and not ctx.violations:
            ctx.violation(dict(kind='reader-divergence', **corr_bad), no_input=False)
    finally:
        shutil.rmtree(tmp, ignore_errors=True)


def short(r):
    if 'err' in r: return r
    return dict(game=r['game'], engine=json.dumps(r['engine'])[:80], extra=json.dumps(r['extra'])[:120], stream_len=len(r['stream']), stream_head=r['stream'][:32].hex())


def replay(ctx, path):
    obj = json.load(open(path))
    if 'file' in obj and 'ext' in obj and len(obj['file']) % 2 == 0:
        tmp = tempfile.mkdtemp(prefix='verif-c01-')
        try:
            p = os.path.join(tmp, 'replay.' + obj['ext']); open(p, 'wb').write(bytes.fromhex(obj['file']))
            got = lib_read(p); m = model_result(model_read(p))
            print('implementation:', short(got)); print('model         :', short(m)); return 0 if got == m else 1
        finally: shutil.rmtree(tmp, ignore_errors=True)
    print(json.dumps(obj, indent=1)[:3000]); return 1
