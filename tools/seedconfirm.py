#!/venv/bin/python
"""Confirm a candidate seeded change in its scratch worktree (outside /repo and /verif) and, if confirmed, file it under
/verif/seeded/<id>/ (patch.diff, demo.py, meta.json).   usage: tools/seedconfirm.py C05 1 [needs text]"""
import os, sys, json, shutil, subprocess
HERE = os.path.dirname(os.path.dirname(os.path.abspath(__file__)))


def sh(cmd, **kw): return subprocess.run(cmd, shell=True, capture_output=True, text=True, **kw)


def main():
    base = os.environ.get('SEED_BASE', '/tmp/wt'); prop, k = sys.argv[1], sys.argv[2]
    newk = os.environ.get('SEED_AS', k)
    wt = '%s/%s' % (base, prop); out = '%s/out/%s' % (base, prop)
    patch = os.path.join(out, 'seed%s.patch' % k); demo = os.path.join(out, 'seed%s_demo.py' % k); notes = os.path.join(out, 'seed%s_notes.md' % k)
    for f in (patch, demo):
        if not os.path.exists(f): print('missing', f); return 2
    sh('git -C %s checkout -- . && git -C %s clean -fdq' % (wt, wt))
    env = 'cd %s && PYTHONPATH=%s PYTHONDONTWRITEBYTECODE=1' % (wt, wt)
    r0 = sh('%s /venv/bin/python %s %s' % (env, demo, wt), timeout=900)
    a = sh('git -C %s apply %s' % (wt, patch))
    if a.returncode != 0: print('patch does not apply:', a.stderr[:300]); return 2
    try:
        r1 = sh('%s /venv/bin/python %s %s' % (env, demo, wt), timeout=900)
        t = sh('%s /venv/bin/python -m pytest -q -p no:cacheprovider --timeout=900 2>&1 | tail -3' % env, timeout=1800)
        diffstat = sh('git -C %s diff --stat' % wt).stdout
    finally:
        sh('git -C %s checkout -- . && git -C %s clean -fdq' % (wt, wt))
    tests_ok = '54 passed' in t.stdout and '1 failed' in t.stdout
    ok = r0.returncode == 0 and r1.returncode != 0 and tests_ok
    print('%s seed%s: demo unchanged rc=%d, demo with change rc=%d, tests: %s -> %s' % (prop, k, r0.returncode, r1.returncode, t.stdout.strip().split('\n')[-1], 'CONFIRMED' if ok else 'REJECTED'))
    if not ok:
        print(r0.stdout[-300:], r0.stderr[-300:], r1.stdout[-300:], r1.stderr[-300:]); return 1
    sid = '%s-%s' % (prop, newk)
    d = os.path.join(HERE, 'seeded', sid); os.makedirs(d, exist_ok=True)
    shutil.copy(patch, os.path.join(d, 'patch.diff')); shutil.copy(demo, os.path.join(d, 'demo.py'))
    if os.path.exists(notes): shutil.copy(notes, os.path.join(d, 'notes.md'))
    meta = dict(id=sid, property=prop, breaks=open(notes).read()[:1500] if os.path.exists(notes) else '', needs_to_manifest=' '.join(sys.argv[3:]),
                confirmed=dict(demo_on_unchanged_tree='exit 0', demo_with_change='exit %d' % r1.returncode, test_suite_with_change=t.stdout.strip().split('\n')[-1],
                               how='tools/seedconfirm.py in the scratch worktree %s (removed afterwards)' % wt, diffstat=diffstat.strip()),
                checks_to_run=[prop], origin='independent sub-agent given only the property text and a scratch worktree')
    json.dump(meta, open(os.path.join(d, 'meta.json'), 'w'), indent=1)
    return 0

if __name__ == '__main__': sys.exit(main())
