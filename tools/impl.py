"""Implementation-side helpers: canonical forms of the library's values, error classes, type trees <-> library types."""
import os, struct, socket, io, tempfile, shutil
from collections import OrderedDict

from replay_unpack.core.entity_def.data_types.other import FixedDict, Array, UserType, Mailbox, Blob, String, Python
from replay_unpack.core.entity_def.data_types.numeric import (Float32, Float64, Int8, Int16, Int32, Int64,
                                                              UInt8, UInt16, UInt32, UInt64, _NumericType)
from replay_unpack.core.entity_def.data_types.math import _MathType
from replay_unpack.core.entity_def.data_types.nested_types import PyFixedDict, PyFixedList


def err_name(e):
    if isinstance(e, struct.error): return 'struct'
    if isinstance(e, AssertionError): return 'assert'
    if isinstance(e, KeyError): return 'key'
    if isinstance(e, IndexError): return 'index'
    if isinstance(e, NotImplementedError): return 'notimpl'
    if isinstance(e, UnicodeDecodeError): return 'unicode'
    if isinstance(e, RuntimeError): return 'runtime'
    if isinstance(e, OSError): return 'os'
    if type(e) is Exception: return 'empty'
    return 'other:' + type(e).__name__


def f32c(x):
    if x != x: return 'nan'
    return struct.pack('<f', x).hex()


def f64c(x):
    if x != x: return 'nan'
    return struct.pack('<d', x).hex()


def canon(v):
    if v is None: return 'n'
    if isinstance(v, bool): return 'i%d' % int(v)
    if isinstance(v, int): return 'i%d' % v
    if isinstance(v, str): return 's' + v.encode('utf-8', 'surrogatepass').hex()
    if isinstance(v, (bytes, bytearray)): return 'b' + bytes(v).hex()
    if isinstance(v, PyFixedDict):
        return '{' + ','.join('%s=%s' % (k, canon_t(v[k], t)) for k, t in v._attributes.items() if k in v) + '}'
    if isinstance(v, PyFixedList):
        return '[' + ','.join(canon_t(x, v._element_type) for x in v) + ']'
    raise AssertionError('cannot canonicalise %r' % type(v))


def canon_t(v, t):
    """canonical form of a decoded value under its library type object; a value that does not fit the type it is stored under is rendered
    as  !ill-typed:<repr>  (and so differs from anything the model or the spec can say) instead of stopping the comparison"""
    try: return _canon_t(v, t)
    except Exception: return '!ill-typed:' + repr(v)[:80]


def _canon_t(v, t):
    while isinstance(t, UserType): t = t.type
    if v is None: return 'n'
    if isinstance(t, Float32): return 'f' + f32c(v)
    if isinstance(t, Float64): return 'd' + f64c(v)
    if isinstance(t, _MathType): return 'v(' + ','.join(f32c(x) for x in v) + ')'
    if isinstance(t, Mailbox): return 'm' + socket.inet_aton(v[0]).hex() + ':%d' % v[1]
    if isinstance(t, FixedDict): return '{' + ','.join('%s=%s' % (k, _canon_t(v[k], ft)) for k, ft in t.attributes.items() if k in v) + '}'
    if isinstance(t, Array): return '[' + ','.join(_canon_t(x, t.type) for x in v) + ']'
    return canon(v)


# the model prints NaN float32 as "nan" too; float64 NaNs are compared by "nan" on both sides
def norm_canon(s):
    return s


# ---------------- type trees ----------------
# ('u',w) ('i',w) ('f32',) ('f64',) ('vec',nbytes) ('string',) ('blob',) ('python',) ('mailbox',)
# ('array', elem, size|None) ('dict', ((name, t), ...), allow_none) ('user', inner)

def type_syntax(t):
    k = t[0]
    if k == 'u': return 'u%d' % t[1]
    if k == 'i': return 'i%d' % t[1]
    if k == 'f32': return 'f32'
    if k == 'f64': return 'f64'
    if k == 'vec': return 'vec%d' % t[1]
    if k == 'string': return 'str'
    if k == 'blob': return 'blob'
    if k == 'python': return 'py'
    if k == 'mailbox': return 'mbox'
    if k == 'array': return 'arr%s(%s)' % ('' if t[2] is None else str(t[2]), type_syntax(t[1]))
    if k == 'dict': return 'dict%d{%s}' % (1 if t[2] else 0, ';'.join('%s:%s' % (n.encode().hex(), type_syntax(ft)) for n, ft in t[1]))
    if k == 'user': return 'user(%s)' % type_syntax(t[1])
    raise AssertionError(t)


NUM_NAMES = {('u', 1): ['UINT8'], ('u', 2): ['UINT16'], ('u', 4): ['UINT32'], ('u', 8): ['UINT64'],
             ('i', 1): ['INT8'], ('i', 2): ['INT16'], ('i', 4): ['INT32'], ('i', 8): ['INT64'],
             ('f32',): ['FLOAT', 'FLOAT32'], ('f64',): ['FLOAT64'],
             ('vec', 8): ['VECTOR2'], ('vec', 12): ['VECTOR3'], ('vec', 16): ['VECTOR4'],
             ('string',): ['STRING', 'UNICODE_STRING'], ('blob',): ['BLOB'], ('python',): ['PYTHON'], ('mailbox',): ['MAILBOX']}


def type_xml(t, tag, rng=None, aliases=None):
    """XML text of a section <tag>..</tag> describing t; with aliases (dict name->tree) a matching alias name may be used"""
    pick = (lambda l: l[0]) if rng is None else rng.choice
    if aliases:
        names = [n for n, at in aliases.items() if at == t]
        if names and (rng is None or rng.random() < 0.7):
            return '<%s> %s </%s>' % (tag, pick(names), tag)
    k = t[0]
    if t[:2] in NUM_NAMES or (k,) in NUM_NAMES:
        names = NUM_NAMES.get(t[:2]) or NUM_NAMES[(k,)]
        return '<%s>%s</%s>' % (tag, pick(names), tag)
    if k == 'array':
        name = pick(['ARRAY', 'TUPLE'])
        size = '' if t[2] is None else '<size> %d </size>' % t[2]
        return '<%s>%s %s%s</%s>' % (tag, name, type_xml(t[1], 'of', rng, aliases), size, tag)
    if k == 'dict':
        props = ''.join(type_xml_prop(n, ft, rng, aliases) for n, ft in t[1])
        an = '<AllowNone> true </AllowNone>' if t[2] else pick(['', '<AllowNone>false</AllowNone>'])
        return '<%s>FIXED_DICT <Properties>%s</Properties>%s</%s>' % (tag, props, an, tag)
    if k == 'user':
        inner = '' if t[1] == ('blob',) and (rng is None or rng.random() < 0.5) else type_xml(t[1], 'Type', rng, aliases)
        return '<%s>USER_TYPE %s<implementedBy>X.y</implementedBy></%s>' % (tag, inner, tag)
    raise AssertionError(t)


def type_xml_prop(name, t, rng, aliases):
    return '<%s>%s</%s>' % (name, type_xml(t, 'Type', rng, aliases), name)


class LibTypes:
    """a scratch definitions directory with an alias.xml; builds library type objects through Alias (the real factory)"""
    def __init__(self, aliases=None, rng=None):
        from lxml import etree
        from replay_unpack.core.entity_def.data_types import Alias
        self.etree = etree
        self.dir = tempfile.mkdtemp(prefix='verif-alias-')
        d = os.path.join(self.dir, 'scripts', 'entity_defs'); os.makedirs(d)
        self.aliases = aliases or {}
        done = {}
        body = ''; ext = ''
        for n, t in self.aliases.items():
            x = type_xml(t, n, rng, done) + '\n'
            if rng is not None and rng.random() < 0.4:
                # alias.xml declares a DECOY of another size under this name and alias_ext.xml re-declares the name with the real type:
                # the later file wins for every mention, also inside composites that alias.xml itself declares (resolution is lazy)
                decoy = ('u', 8) if t != ('u', 8) else ('u', 1)
                body += type_xml(decoy, n, rng, {}) + '\n'; ext += x
            else: body += x
            done[n] = t
        with open(os.path.join(d, 'alias.xml'), 'w') as f: f.write('<root>\n' + body + '</root>\n')
        if ext:
            with open(os.path.join(d, 'alias_ext.xml'), 'w') as f: f.write('<root>\n' + ext + '</root>\n')
        self.alias = Alias(self.dir)
        self.rng = rng
    def make(self, t):
        xml = type_xml(t, 'Type', self.rng, self.aliases)
        return self.alias.get_data_type_from_section(self.etree.fromstring(xml))
    def close(self):
        shutil.rmtree(self.dir, ignore_errors=True)


def lib_decode(lt, data, hdr=1):
    """returns ('OK', canon, restlen) or ('ERR', name)"""
    s = io.BytesIO(data)
    try:
        v = lt.create_from_stream(s, hdr)
        return 'OK %s %d' % (canon_t(v, lt), len(data) - s.tell())
    except Exception as e:
        return 'ERR ' + err_name(e)


def parse_type_syntax(s):
    """inverse of type_syntax"""
    pos = [0]
    def peek(): return s[pos[0]] if pos[0] < len(s) else ''
    def eat(c):
        assert peek() == c, (s, pos[0], c); pos[0] += 1
    def take(pred):
        st = pos[0]
        while pos[0] < len(s) and pred(s[pos[0]]): pos[0] += 1
        return s[st:pos[0]]
    def ty():
        ident = take(str.isalpha)
        if ident in ('u', 'i'): return (ident, int(take(str.isdigit)))
        if ident == 'f': return ('f32',) if take(str.isdigit) == '32' else ('f64',)
        if ident == 'vec': return ('vec', int(take(str.isdigit)))
        if ident == 'str': return ('string',)
        if ident == 'blob': return ('blob',)
        if ident == 'py': return ('python',)
        if ident == 'mbox': return ('mailbox',)
        if ident == 'arr':
            n = take(str.isdigit); eat('('); e = ty(); eat(')'); return ('array', e, int(n) if n else None)
        if ident == 'user':
            eat('('); e = ty(); eat(')'); return ('user', e)
        if ident == 'dict':
            an = take(str.isdigit) == '1'; eat('{'); fs = []
            while peek() != '}':
                name = bytes.fromhex(take(lambda c: c in '0123456789abcdef')).decode(); eat(':'); fs.append((name, ty()))
                if peek() == ';': pos[0] += 1
            eat('}'); return ('dict', tuple(fs), an)
        raise AssertionError((s, ident))
    t = ty(); assert pos[0] == len(s); return t
