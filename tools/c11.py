"""C11 - the replay version selects matching definitions, controller and packet table."""
import os, json, subprocess, tempfile, shutil
from tools import common, gen_versions, recordings, c01
LEVEL = 'proof'


def model_answers(inv, queries):
    lines = []
    for g, rows in inv.items():
        for name, ctrl, alias in rows: lines.append('INV %s %s %d %d' % (g, name, 1 if ctrl else 0, 1 if alias else 0))
    for g, s in queries: lines.append('Q %s %s' % (g, s.encode('utf-8').hex() or '-'))
    p = subprocess.run([common.MODELRUN, 'version'], input='\n'.join(lines) + '\n', capture_output=True, text=True, timeout=300)
    if p.returncode != 0: raise RuntimeError('modelrun version: ' + p.stderr[-500:])
    out = []
    for l in p.stdout.strip('\n').split('\n'):
        f = l.split(' ')
        parts = [bytes.fromhex(x).decode('utf-8', 'replace') for x in f[1].split(',')] if f[1] else ['']
        out.append(dict(parts=parts, res=' '.join(f[2:])))
    return out


def lib_normalise(game, s):
    """what ReplayParser._get_hidden_data hands to the player class: observed by substituting a recording class"""
    import replay_parser
    from replay_unpack.replay_reader import ReplayInfo
    seen = []
    class Stop(Exception): pass
    class Rec:
        def __init__(self, version): seen.append(version); raise Stop()
    mod = getattr(replay_parser, game)
    orig = mod.ReplayPlayer
    mod.ReplayPlayer = Rec
    try:
        key = 'clientVersion' if game == 'wowp' else 'clientVersionFromXml'
        try: replay_parser.ReplayParser.__new__(replay_parser.ReplayParser)._get_hidden_data(ReplayInfo(game=game, engine_data={key: s}, extra_data=[], decrypted_data=b''))
        except Stop: pass
    finally:
        mod.ReplayPlayer = orig
    return seen[0]


def lib_select(game, version):
    """construct the dialect player and observe controller module, definitions directory, packet table"""
    from replay_unpack.clients import wows, wot, wowp
    cls = {'wows': wows.ReplayPlayer, 'wot': wot.ReplayPlayer, 'wowp': wowp.ReplayPlayer}[game]
    from replay_unpack.core.entity import Entity
    saved = [dict(t) for t in (Entity._methods_subscriptions, Entity._properties_subscriptions, Entity._nested_properties_subscription)]
    try:
        try: pl = cls(version)
        except RuntimeError as e: return 'ERR notsupported' if 'upported' in str(e) else 'ERR runtime:' + str(e)[:60]
        except ImportError: return 'ERR import'
        except AssertionError: return 'ERR assert'
        except ValueError: return 'ERR badnumber'
        except Exception as e: return 'ERR other:' + type(e).__name__
        ctrl = type(pl._battle_controller).__module__.split('.versions.')[1].split('.')[0]
        defs = os.path.basename(recordings.defs_dir_of(pl))
        d = recordings.dialect_of(pl)
        return 'OK %s %s %s' % (ctrl, defs, 'new' if d == 'wows126' else 'old')
    finally:
        for t, s in zip((Entity._methods_subscriptions, Entity._properties_subscriptions, Entity._nested_properties_subscription), saved):
            t.clear(); t.update(s)


def gen_queries(ctx, inv, n):
    rng = ctx.rng; qs = []
    for g, rows in inv.items():
        for name, ctrl, alias in rows:
            comps = name.split('_')
            for build in (['123'], ['0'], [str(rng.randrange(10 ** 7))], [], ['7983292'], ['2442770']):
                c = comps[:3] + (comps[3:] or build)
                if g == 'wows':
                    sep = rng.choice([', ', ',', ' , ', ',  '])
                    qs.append((g, sep.join(c)))
                elif g == 'wot':
                    qs.append((g, 'World\xa0of\xa0Tanks v.' + '.'.join(c) + ' #%d' % rng.randrange(2000)))
                    qs.append((g, 'World of Tanks v.' + '.'.join(c) + ' #1'))          # plain blanks: the prefix is NOT removed
                else:
                    qs.append((g, 'World of Warplanes ' + rng.choice(['.', '. ']).join(c)))
    # versions that are not bundled: below, between, above
    for v in (['0', '7', '0', '1'], ['0', '8', '2', '5'], ['0', '9', '13', '0'], ['12', '6', '1', '0'], ['12', '10', '1', '3'], ['15', '0', '0', '0'],
              ['99', '0', '0'], ['0', '8'], ['13'], ['12', '6'], ['0', '8', '0'], ['12', '6', '0'], ['12', '5', '0', '99']):
        qs.append(('wows', ', '.join(v))); qs.append(('wowp', 'World of Warplanes ' + '.'.join(v)))
        qs.append(('wot', 'World\xa0of\xa0Tanks v.' + '.'.join(v) + ' #5'))
    while len(qs) < n:
        g = rng.choice(['wows', 'wows', 'wot', 'wowp'])
        c = [str(rng.choice([0, 1, 8, 9, 10, 11, 12, 13, 14, rng.randrange(30)])), str(rng.randrange(0, 13)), str(rng.randrange(0, 22))] + [str(rng.randrange(10 ** 6))] * rng.randrange(0, 2)
        if g == 'wows': qs.append((g, rng.choice([', ', ',']).join(c)))
        elif g == 'wot': qs.append((g, 'World\xa0of\xa0Tanks v.' + '.'.join(c) + ' #9'))
        else: qs.append((g, 'World of Warplanes ' + '.'.join(c)))
    return qs


def get_info_cases(ctx):
    """top level: a refused version gives no summary and the loader's message in lenient mode, an exception in strict mode"""
    from replay_parser import ReplayParser
    tmp = tempfile.mkdtemp(prefix='verif-c11-')
    try:
        for ext, key, vs, want_err in (('wowsreplay', 'clientVersionFromXml', '0, 7, 0, 1', 'version 0_7_0 is not supported currently'),
                                       ('wowpreplay', 'clientVersion', 'World of Warplanes 9.9.9', 'version 9_9_9 is not supported currently'),
                                       ('wotreplay', 'clientVersionFromXml', 'World\xa0of\xa0Tanks v.9.9.9 #1', None)):
            p = os.path.join(tmp, 'v.' + ext)
            c01.model_write(ext, p, json.dumps({key: vs}).encode(), [], bytes(8), __import__('zlib').compress(b'') + bytes(0))
            # pad to a multiple of 8
            import zlib
            z = zlib.compress(b''); z += bytes((-len(z)) % 8)
            c01.model_write(ext, p, json.dumps({key: vs}).encode(), [], bytes(8), z)
            r = ReplayParser(p, strict=False).get_info()
            ctx.case(('get_info', ext))
            ok = r['hidden'] is None and (r['error'] == want_err if want_err else True)
            try:
                ReplayParser(p, strict=True).get_info(); raised = False
            except Exception: raised = True
            if not (ok and raised):
                ctx.violation(dict(kind='unsupported-version-not-refused', ext=ext, version=vs, lenient=dict(hidden=r['hidden'], error=r['error']), strict_raised=raised,
                                   how='a container whose open block names this version; ReplayParser(path, strict=False/True).get_info()'))
    finally:
        shutil.rmtree(tmp, ignore_errors=True)


def run(ctx):
    ctx.rule = ('version strings in the formats the three games write (blanks, NBSP, build suffixes) for EVERY bundled directory x several build numbers, '
                'the build-specific siblings, 2/3/4-component versions, versions below/between/above the bundled range; observed: the list handed to the '
                'player class, the module of the constructed controller, the directory of the loaded definitions, the identity of the packet table, or '
                'the exception class; non-trivial = every query; distinct by (game, string)')
    ctx.coq_props('Props/C11.v')
    inv, lit = gen_versions.obligations(ctx)
    qs = gen_queries(ctx, inv, 700 if ctx.tier == 'quick' else 20000)
    qs = list(dict.fromkeys(qs))
    ans = model_answers(inv, qs)
    bad = None
    for (g, s), a in zip(qs, ans):
        v = lib_normalise(g, s)
        lib_parts = [v] if g == 'wot' else list(v)
        sel = lib_select(g, v)
        ctx.case((g, s)); ctx.count('game:' + g); ctx.count('outcome:' + sel.split(' ')[0] + (':' + sel.split(' ')[1] if sel.startswith('ERR') else ''))
        if len(ctx.samples) < 4 and (sel.startswith('ERR') or len(ctx.samples) < 2): ctx.sample(dict(game=g, version_string=s, parts=lib_parts, selected=sel))
        if (lib_parts != a['parts'] or sel != a['res']) and bad is None:
            bad = dict(kind='version-selection', game=g, version_string=s, implementation=dict(parts=lib_parts, selected=sel), expected=dict(parts=a['parts'], selected=a['res']),
                       how='ReplayParser._get_hidden_data normalisation + <game>.ReplayPlayer(version): controller module, definitions directory, packet table')
    ctx.traces_validated += len(qs)
    ctx.obligation('correspondence: version normalisation and selection = extracted model on %d version strings' % len(qs), bad is None, json.dumps(bad)[:800] if bad else '')
    if bad: ctx.violation(bad)
    get_info_cases(ctx)
    played_with_selected(ctx)
    unmapped_is_ignored(ctx)
    from tools import c02
    c02.table_stability(ctx)          # the table a version selects is still the FULL table after other players were built and after lenient failures


def played_with_selected(ctx):
    """"is PLAYED with exactly that version's definitions and controller": a battle encoded against the build-specific directories (and against
    their release siblings under another build number) is parsed through ReplayParser and the summary must be the one THAT controller produces
    from the events - a selected controller that is not the one being fed, or definitions of the sibling, show as wrong or missing fields"""
    import random, tempfile, shutil
    from tools import battle, c09
    from replay_parser import ReplayParser
    wv = battle.wows_versions()
    four = [v for v in wv if v.count('_') == 3]
    tmp = tempfile.mkdtemp(prefix='verif-c11-')
    try:
        for v in four + ['_'.join(x.split('_')[:3]) for x in four if '_'.join(x.split('_')[:3]) in wv]:
            p = os.path.join(tmp, 'w-%s.wowsreplay' % v)
            b, vs = battle.build_wows(v, random.Random(21))
            if v.count('_') == 2: vs = ','.join(v.split('_') + ['424242'])            # the release directory, reached through an unknown build number
            battle.write_replay(p, 'wowsreplay', {'clientVersionFromXml': vs}, b.stream())
            ctx.case(('played-with-selected', v)); ctx.count('played-with-selected')
            try: h = ReplayParser(p, strict=True).get_info()['hidden']
            except Exception as ex:
                ctx.violation(dict(kind='selected-version-does-not-play', version_string=vs, encoded_against='wows/' + v, exception='%s: %s' % (type(ex).__name__, str(ex)[:200]),
                                   how='tools/battle.build_wows("%s") written with that version string; ReplayParser(path, strict=True).get_info()' % v)); continue
            diffs = c09.compare(b, h, v)
            if diffs:
                field, want, got = diffs[0]
                ctx.violation(dict(kind='played-with-other-version', version_string=vs, encoded_against='wows/' + v, field=field, expected=json.loads(json.dumps(want, default=str)),
                                   implementation=json.loads(json.dumps(got, default=str)),
                                   how='a battle encoded against wows/%s, written with that version string; ReplayParser(path, strict=True).get_info()["hidden"] compared with the events written' % v))
    finally:
        shutil.rmtree(tmp, ignore_errors=True)


def unmapped_is_ignored(ctx):
    """each side of the 12.6.0 switch uses ITS table: a record whose type id the table of the replay's version does not map is skipped, whatever its
    payload looks like (here: the byte layout of an own-player position packet naming an existing vehicle, and of a server position packet) -
    the entities of a battle are what they are without those records.  Versions next to the switch, the oldest and the newest."""
    import random, struct
    from tools import battle, synth, recordings
    from replay_unpack.clients import wows
    wv = battle.wows_versions()
    olds = sorted((v for v in wv if tuple(map(int, v.split('_')[:3])) < (12, 6, 0)), key=lambda v: tuple(map(int, v.split('_')[:3])))
    news = sorted((v for v in wv if tuple(map(int, v.split('_')[:3])) >= (12, 6, 0)), key=lambda v: tuple(map(int, v.split('_')[:3])))
    for v in [olds[0], olds[len(olds) // 2], olds[-1], news[0], news[-1]]:
        side = 'wows126' if v in news else 'wows'
        mapped = set(synth.TABLE_IDS[side].values())
        b, vs = battle.build_wows(v, random.Random(31), battle_end=False)
        base = b.stream()
        extra = b''
        for tid in range(0, 0x40):
            if tid in mapped: continue
            extra += synth.frame(tid, 0, struct.pack('<ii', 500, 0) + struct.pack('<6f', 4321.0, 12.0, -1234.0, 1.0, 0.5, 0.25))
            extra += synth.frame(tid, 0, struct.pack('<ii', 500, 0) + struct.pack('<9f', 4321.0, 12.0, -1234.0, 0, 0, 0, 1.0, 0.5, 0.25) + b'\x00')
        outs = []
        for st in (base, base + extra):
            pl = wows.ReplayPlayer(v.split('_'))
            try: pl.play(st, True); outs.append(recordings.dump_entities(pl._battle_controller))
            except Exception as e: outs.append(['raises %s: %s' % (type(e).__name__, str(e)[:100])])
        ctx.case(('unmapped-ignored', v)); ctx.count('unmapped-records-on-real-versions', 2 * (0x40 - len([t for t in mapped if t < 0x40])))
        if outs[0] != outs[1]:
            fd = recordings.first_diff(outs[0], outs[1])
            ctx.violation(dict(kind='table-of-the-other-side', version='wows/' + v, table_expected='renumbered (12.6.0 on)' if v in news else 'old (before 12.6.0)',
                               first_difference=dict(line=fd[0], without_the_records=fd[1][:200], with_the_records=fd[2][:200]) if fd else None,
                               how='tools/battle.build_wows("%s", random.Random(31), battle_end=False); wows.ReplayPlayer(version).play(stream, True) with and without two records '
                                   '(32-byte own-player-position layout and 45-byte position layout naming vehicle 500) for every type id below 0x40 that the table of this side does not map; '
                                   'tools/recordings.dump_entities(controller) must be the same' % v))
            return


def replay(ctx, path):
    obj = json.load(open(path))
    if obj.get('kind') == 'version-selection':
        inv, lit = gen_versions.obligations(ctx)
        g, s = obj['game'], obj['version_string']
        a = model_answers(inv, [(g, s)])[0]; v = lib_normalise(g, s)
        print('implementation:', [v] if g == 'wot' else list(v), lib_select(g, v)); print('model         :', a['parts'], a['res'])
        return 0 if ([v] if g == 'wot' else list(v)) == a['parts'] and lib_select(g, v) == a['res'] else 1
    print(json.dumps(obj, indent=1)); return 1
