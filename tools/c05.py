"""C05 - entity state equals a last-writer-wins replay of creation and property packets."""
from tools import common, worldcheck, recordings, gen_const
LEVEL = 'proof'


def run(ctx):
    ctx.rule = ('generated definition sets x generated packet histories (all dialects; many entities per type, re-creation, partial property '
                'sets, faults); three-way: library vs extracted model vs SPEC state kept with plain dicts; non-trivial = every history '
                '(each has >= 30 packets over >= 2 entities); distinct by (dialect, stream)')
    ctx.coq_props('Props/C05.v')
    gen_const.instance_obligations(ctx, 'C05', which=('tables', 'flags'))
    q = ctx.tier == 'quick'
    worldcheck.run_histories(ctx, 'C05', n_defsets=10 if q else 80, hist_per_set=4, sizes=[40, 120, 300] if q else [40, 120, 300, 800])
    recordings.payload_check(ctx, 'C05', quick_n=4)


def replay(ctx, path): return worldcheck.replay(ctx, path, 'C05')
