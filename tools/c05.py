"""C05 - entity state equals a last-writer-wins replay of creation and property packets."""
import os, random, shutil, tempfile
from tools import common, worldcheck, recordings, gen_const, battle
LEVEL = 'proof'


def per_version(ctx):
    """the bundled versions' OWN controllers and definitions (not the synthetic ones): a battle per version with ids that are created, updated and
    created again, played through the real dialect player; entity table, types, property values and player id against the extracted model"""
    tmp = tempfile.mkdtemp(prefix='verif-c05-'); rng = ctx.rng
    try:
        wv = battle.wows_versions()
        if ctx.tier == 'quick':
            # one version per DISTINCT controller source (files that differ in any byte), plus every fifth version
            import hashlib
            seen = {}; base = os.path.join(common.REPO, 'replay_unpack', 'clients', 'wows', 'versions')
            for v in wv: seen.setdefault(hashlib.md5(open(os.path.join(base, v, 'battle_controller.py'), 'rb').read()).hexdigest(), v)
            picks = sorted(set(seen.values()) | set(wv[::5]) | {wv[-1]})
        else: picks = wv
        bad = None
        for v in picks:
            p = os.path.join(tmp, v + '.wowsreplay')
            battle.write_wows(p, v, random.Random(rng.randrange(10 ** 9)), join=False, battle_end=False, recreate=True)
            r = recordings.run_pair(p)
            kinds = recordings.KINDS['C05']
            a = [l for l in r['impl'] if l.startswith(kinds)]; b = [l for l in r['model'] if l.startswith(kinds)]
            ctx.case(('version-battle', v)); ctx.traces_validated += 1; ctx.count('per-version-battle')
            d = recordings.first_diff(a, b)
            if d is not None and bad is None:
                bad = ctx.violation(dict(kind='version-battle-divergence', version='wows/' + v, index=d[0], implementation=d[1][:300], model=d[2][:300],
                                         how='tools/battle.write_wows(path, version, rng, recreate=True); tools/recordings.run_pair(path): entity table of the real player vs the extracted model'))
            os.unlink(p)
    finally:
        shutil.rmtree(tmp, ignore_errors=True)


def run(ctx):
    ctx.rule = ('generated definition sets x generated packet histories (all dialects; many entities per type, re-creation, partial property '
                'sets, faults); three-way: library vs extracted model vs SPEC state kept with plain dicts; non-trivial = every history '
                '(each has >= 30 packets over >= 2 entities); distinct by (dialect, stream)')
    ctx.coq_props('Props/C05.v')
    gen_const.instance_obligations(ctx, 'C05', which=('tables', 'flags'))
    q = ctx.tier == 'quick'
    worldcheck.logging_independence(ctx, 'C05')
    from tools import c04, c07
    pbad = c04.player_definitions(ctx)
    if pbad: ctx.violation(pbad)
    c07.raising_subscribers(ctx)           # a failing subscriber does not keep a delivered value from being stored
    worldcheck.run_histories(ctx, 'C05', n_defsets=16 if q else 80, hist_per_set=4, sizes=[40, 120, 300] if q else [40, 120, 300, 800])
    per_version(ctx)
    recordings.payload_check(ctx, 'C05', quick_n=4)


def replay(ctx, path): return worldcheck.replay(ctx, path, 'C05')
