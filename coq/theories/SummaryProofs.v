(* Proofs about the handler language of Summary.v: dictionaries, counting idioms, the roster merge, frame properties. *)
From RU Require Import Base Summary.
From Coq Require Import Lia.
Local Open Scope Z_scope.

(* ---- induction over nested values ---- *)
Section PyvalInd.
  Variable P : pyval -> Prop.
  Hypothesis HInt : forall z, P (PInt z).
  Hypothesis HFloat : forall m e, P (PFloat m e).
  Hypothesis HBool : forall b, P (PBool b).
  Hypothesis HNone : P PNone.
  Hypothesis HBytes : forall b, P (PBytes b).
  Hypothesis HStr : forall b, P (PStr b).
  Hypothesis HList : forall l, Forall P l -> P (PList l).
  Hypothesis HTuple : forall l, Forall P l -> P (PTuple l).
  Hypothesis HDict : forall d, Forall (fun kv => P (fst kv) /\ P (snd kv)) d -> P (PDict d).
  Hypothesis HOpaque : forall s, P (POpaque s).
  Fixpoint pyval_rect' (v : pyval) : P v :=
    match v with
    | PInt z => HInt z | PFloat m e => HFloat m e | PBool b => HBool b | PNone => HNone
    | PBytes b => HBytes b | PStr b => HStr b
    | PList l => HList l ((fix go (l : list pyval) : Forall P l := match l with [] => Forall_nil _ | x :: r => Forall_cons x (pyval_rect' x) (go r) end) l)
    | PTuple l => HTuple l ((fix go (l : list pyval) : Forall P l := match l with [] => Forall_nil _ | x :: r => Forall_cons x (pyval_rect' x) (go r) end) l)
    | PDict d => HDict d ((fix go (d : list (pyval * pyval)) : Forall (fun kv => P (fst kv) /\ P (snd kv)) d :=
                             match d with [] => Forall_nil _ | (k, x) :: r => Forall_cons (k, x) (conj (pyval_rect' k) (pyval_rect' x)) (go r) end) d)
    | POpaque s => HOpaque s
    end.
End PyvalInd.

Lemma byte_eqb_eq x y : Byte.eqb x y = true <-> x = y.
Proof. split; [apply Byte.byte_dec_bl | apply Byte.byte_dec_lb]. Qed.
Lemma bytes_eqb_eq a : forall b, bytes_eqb a b = true <-> a = b.
Proof.
  induction a as [|x a IH]; intros [|y b]; cbn; try (split; congruence).
  rewrite andb_true_iff, IH, byte_eqb_eq. split; [intros [? ?]; congruence | intros H; inversion H; auto].
Qed.

Lemma pv_eqb_eq a : forall b, pv_eqb a b = true <-> a = b.
Proof.
  induction a using pyval_rect'; intros [ ]; cbn; try (split; congruence).
  - rewrite Z.eqb_eq. split; congruence.
  - rewrite andb_true_iff, !Z.eqb_eq. split; [intros [? ?]; congruence | intros H; inversion H; auto].
  - rewrite Bool.eqb_true_iff. split; congruence.
  - rewrite bytes_eqb_eq. split; congruence.
  - rewrite bytes_eqb_eq. split; congruence.
  - (* list *)
    match goal with |- ?f l l0 = true <-> _ => set (go := f) end.
    assert (HH : forall y, go l y = true <-> l = y).
    { induction H as [|x r Hx Hr IH]; intros [|b y]; cbn; try (split; congruence).
      rewrite andb_true_iff, Hx, IH. split; [intros [? ?]; congruence | intros E; inversion E; auto]. }
    rewrite HH. split; congruence.
  - match goal with |- ?f l l0 = true <-> _ => set (go := f) end.
    assert (HH : forall y, go l y = true <-> l = y).
    { induction H as [|x r Hx Hr IH]; intros [|b y]; cbn; try (split; congruence).
      rewrite andb_true_iff, Hx, IH. split; [intros [? ?]; congruence | intros E; inversion E; auto]. }
    rewrite HH. split; congruence.
  - match goal with |- ?f d d0 = true <-> _ => set (go := f) end.
    assert (HH : forall y, go d y = true <-> d = y).
    { induction H as [|[k x] r [Hk Hx] Hr IH]; intros [|[k2 x2] y]; cbn; try (split; congruence).
      cbn in Hk, Hx. rewrite !andb_true_iff, Hk, Hx, IH. split; [intros [[? ?] ?]; congruence | intros E; inversion E; auto]. }
    rewrite HH. split; congruence.
  - rewrite String.eqb_eq. split; congruence.
Qed.

Lemma pv_eqb_refl a : pv_eqb a a = true.
Proof. apply pv_eqb_eq; reflexivity. Qed.
Lemma pv_eqb_neq a b : pv_eqb a b = false <-> a <> b.
Proof. split; [intros H E; apply pv_eqb_eq in E; congruence | intros H; destruct (pv_eqb a b) eqn:E; [apply pv_eqb_eq in E; contradiction | reflexivity]]. Qed.

(* ---- insertion-ordered dictionaries ---- *)
Lemma dget_dset_same k v d : dget k (dset k v d) = Some v.
Proof.
  induction d as [|[k' v'] r IH]; cbn; [rewrite pv_eqb_refl; reflexivity|].
  destruct (pv_eqb k k') eqn:E; cbn; rewrite E; [reflexivity | exact IH].
Qed.
Lemma dget_dset_other k k' v d : k <> k' -> dget k (dset k' v d) = dget k d.
Proof.
  intros Hne. induction d as [|[k2 v2] r IH]; cbn.
  - apply pv_eqb_neq in Hne. rewrite Hne. reflexivity.
  - destruct (pv_eqb k' k2) eqn:E; cbn.
    + apply pv_eqb_eq in E. subst k2. apply pv_eqb_neq in Hne. rewrite Hne. reflexivity.
    + destruct (pv_eqb k k2); [reflexivity | exact IH].
Qed.
(* assignment keeps the position of an existing key and appends a new one: the key order is the order of FIRST insertion *)
Lemma dset_keys k v d : map fst (dset k v d) = if existsb (pv_eqb k) (map fst d) then map fst d else (map fst d ++ [k])%list.
Proof.
  induction d as [|[k' v'] r IH]; cbn; [reflexivity|].
  destruct (pv_eqb k k') eqn:E; cbn; [reflexivity|]. rewrite IH. destruct (existsb _ _); reflexivity.
Qed.

(* ---- paths into nested dictionaries: self._f[k1]...[kn] ---- *)
Fixpoint dlookup (d : pdict) (ks : list pyval) : option pyval :=
  match ks with
  | [] => None
  | [k] => dget k d
  | k :: r => match dget k d with Some (PDict i) => dlookup i r | _ => None end
  end.
Definition dtotal (d : pdict) (ks : list pyval) : pyval := match dlookup d ks with Some v => v | None => PInt 0 end.

Lemma dlookup_cons k r d : r <> [] -> dlookup d (k :: r) = match dget k d with Some (PDict i) => dlookup i r | _ => None end.
Proof. destruct r; [congruence | reflexivity]. Qed.

(* setdefault chain: afterwards the path exists; every path of the same depth keeps its total (a fresh leaf holds 0) *)
Lemma setdef_chain_spec : forall ks d d1, ks <> [] -> setdef_chain d ks = Ok d1 ->
  dlookup d1 ks <> None /\ (forall ks', length ks' = length ks -> dtotal d1 ks' = dtotal d ks').
Proof.
  induction ks as [|k r IH]; intros d d1 Hne H; [congruence|].
  destruct r as [|k2 r'].
  - (* leaf *)
    cbn in H. destruct (dget k d) eqn:G; inversion H; subst d1; clear H.
    + split; [cbn; congruence | reflexivity].
    + split; [cbn; rewrite dget_dset_same; congruence|].
      intros [|a [|? ?]] Hl; cbn in Hl; try discriminate. unfold dtotal. cbn.
      destruct (pv_eqb a k) eqn:E.
      * apply pv_eqb_eq in E. subst a. rewrite dget_dset_same, G. reflexivity.
      * apply pv_eqb_neq in E. rewrite dget_dset_other by exact E. reflexivity.
  - (* inner level *)
    set (r := k2 :: r') in *. assert (Hr : r <> []) by (unfold r; congruence).
    change (setdef_chain d (k :: r)) with
      (match dget k d with
       | Some (PDict inner) => inner' <- setdef_chain inner r ;; Ok (dset k (PDict inner') d)
       | Some _ => Err EType
       | None => inner' <- setdef_chain [] r ;; Ok (dset k (PDict inner') d)
       end) in H.
    assert (Hcase : exists inner inner', setdef_chain inner r = Ok inner' /\ d1 = dset k (PDict inner') d /\
                    (forall ks', length ks' = length r -> dtotal inner ks' = match dget k d with Some (PDict i) => dtotal i ks' | _ => PInt 0 end) /\
                    (match dget k d with Some (PDict _) | None => True | _ => False end)).
    { destruct (dget k d) as [[ | | | | | | | |inner| ]|] eqn:G; try discriminate.
      - destruct (setdef_chain inner r) eqn:S; cbn in H; inversion H. exists inner, a. repeat split; auto.
      - destruct (setdef_chain [] r) eqn:S; cbn in H; inversion H. exists [], a. repeat split; auto.
        intros ks' Hl. unfold dtotal. destruct ks' as [|a1 [|a2 t]]; reflexivity. }
    destruct Hcase as (inner & inner' & S & -> & Hin & Hk).
    destruct (IH inner inner' Hr S) as [IH1 IH2].
    split.
    + rewrite dlookup_cons by exact Hr. rewrite dget_dset_same. exact IH1.
    + intros ks' Hl. destruct ks' as [|a t]; [discriminate|]. assert (Ht : length t = length r) by (unfold r in *; cbn in *; lia).
      assert (Htne : t <> []) by (destruct t; [unfold r in Ht; discriminate | congruence]).
      unfold dtotal. rewrite !dlookup_cons by exact Htne.
      destruct (pv_eqb a k) eqn:E.
      * apply pv_eqb_eq in E. subst a. rewrite dget_dset_same.
        specialize (IH2 t Ht). specialize (Hin t Ht). unfold dtotal in IH2, Hin.
        destruct (dget k d) as [[ | | | | | | | |i0| ]|]; try contradiction; rewrite IH2, Hin; reflexivity.
      * apply pv_eqb_neq in E. rewrite dget_dset_other by exact E. reflexivity.
Qed.

(* augmented addition along a path: the leaf must exist; it becomes old + x; every other path of that depth is untouched *)
Lemma augadd_chain_spec : forall ks d x d2, augadd_chain d ks x = Ok d2 ->
  exists old new, dlookup d ks = Some old /\ py_add old x = Ok new /\ dlookup d2 ks = Some new /\
                  (forall ks', length ks' = length ks -> ks' <> ks -> dlookup d2 ks' = dlookup d ks').
Proof.
  induction ks as [|k r IH]; intros d x d2 H; [discriminate|].
  destruct r as [|k2 r'].
  - cbn in H. destruct (dget k d) as [old|] eqn:G; [|discriminate].
    destruct (py_add old x) as [new|] eqn:A; cbn in H; inversion H; subst d2.
    exists old, new. cbn. rewrite dget_dset_same. repeat split; auto.
    intros [|a [|? ?]] Hl Hne; cbn in Hl; try discriminate. cbn.
    apply dget_dset_other. congruence.
  - set (r := k2 :: r') in *. assert (Hr : r <> []) by (unfold r; congruence).
    change (augadd_chain d (k :: r) x) with
      (match dget k d with
       | Some (PDict inner) => inner' <- augadd_chain inner r x ;; Ok (dset k (PDict inner') d)
       | Some _ => Err EType
       | None => Err EKey
       end) in H.
    destruct (dget k d) as [[ | | | | | | | |inner| ]|] eqn:G; try discriminate.
    destruct (augadd_chain inner r x) as [inner'|] eqn:S; cbn in H; inversion H; subst d2.
    destruct (IH inner x inner' S) as (old & new & L1 & A & L2 & Oth).
    exists old, new. rewrite !dlookup_cons by exact Hr. rewrite G, dget_dset_same. repeat split; auto.
    intros [|a t] Hl Hne; [discriminate|].
    assert (Ht : length t = length r) by (unfold r in *; cbn in *; lia).
    assert (Htne : t <> []) by (destruct t; [unfold r in Ht; discriminate | congruence]).
    rewrite !dlookup_cons by exact Htne.
    destruct (pv_eqb a k) eqn:E.
    + apply pv_eqb_eq in E. subst a. rewrite dget_dset_same, G. apply Oth; [exact Ht | congruence].
    + apply pv_eqb_neq in E. rewrite dget_dset_other by exact E. reflexivity.
Qed.

(* the counting idiom of the bundled handlers:  f.setdefault(k1, {})...setdefault(kn, 0);  f[k1]...[kn] += x *)
Definition count_path (d : pdict) (ks : list pyval) (x : pyval) : result pdict :=
  d1 <- setdef_chain d ks ;; augadd_chain d1 ks x.

Lemma count_path_total d ks x d2 : ks <> [] -> count_path d ks x = Ok d2 ->
  py_add (dtotal d ks) x = Ok (dtotal d2 ks) /\
  (forall ks', length ks' = length ks -> ks' <> ks -> dtotal d2 ks' = dtotal d ks').
Proof.
  intros Hne H. unfold count_path in H. destruct (setdef_chain d ks) as [d1|] eqn:S; [|discriminate]. cbn in H.
  destruct (setdef_chain_spec ks d d1 Hne S) as [Hex Htot].
  destruct (augadd_chain_spec ks d1 x d2 H) as (old & new & L1 & A & L2 & Oth).
  split.
  - rewrite <- (Htot ks eq_refl). unfold dtotal. rewrite L1, L2. exact A.
  - intros ks' Hl Hn. rewrite <- (Htot ks' Hl). unfold dtotal. rewrite (Oth ks' Hl Hn). reflexivity.
Qed.

Fixpoint count_all (d : pdict) (es : list (list pyval * pyval)) : result pdict :=
  match es with [] => Ok d | (ks, x) :: r => d' <- count_path d ks x ;; count_all d' r end.
Fixpoint add_all (start : pyval) (xs : list pyval) : result pyval :=
  match xs with [] => Ok start | x :: r => v <- py_add start x ;; add_all v r end.
Fixpoint path_eqb (a b : list pyval) : bool :=
  match a, b with [], [] => true | x :: a', y :: b' => pv_eqb x y && path_eqb a' b' | _, _ => false end.
Lemma path_eqb_eq a : forall b, path_eqb a b = true <-> a = b.
Proof.
  induction a as [|x a IH]; intros [|y b]; cbn; try (split; congruence).
  rewrite andb_true_iff, IH, pv_eqb_eq. split; [intros [? ?]; congruence | intros H; inversion H; auto].
Qed.

(* every entry is counted, each time it occurs, under its own path and under no other: the total of a path after the loop is its
   total before plus the amounts of exactly the entries with that path, added in stream order *)
Theorem count_all_total n : forall es d d', n <> O -> Forall (fun e => length (fst e) = n) es -> count_all d es = Ok d' ->
  forall ks, length ks = n ->
  add_all (dtotal d ks) (map snd (filter (fun e => path_eqb (fst e) ks) es)) = Ok (dtotal d' ks).
Proof.
  induction es as [|[p x] r IH]; intros d d' Hn HF H; cbn in *.
  - inversion H. reflexivity.
  - inversion HF as [|e0 l0 Hp HF' Heq]. clear HF. cbn in Hp.
    destruct (count_path d p x) as [d1|] eqn:C; [|discriminate]. cbn in H.
    assert (Hpne : p <> []) by (destruct p; [cbn in Hp; congruence | congruence]).
    destruct (count_path_total d p x d1 Hpne C) as [T1 T2].
    intros ks Hl.
    destruct (path_eqb p ks) eqn:E; cbn.
    + apply path_eqb_eq in E. rewrite <- E. rewrite T1. cbn. rewrite E. apply (IH d1 d' Hn HF' H ks Hl).
    + assert (ks <> p) by (intros ->; rewrite (proj2 (path_eqb_eq p p) eq_refl) in E; discriminate).
      rewrite <- (T2 ks) by (congruence || auto). apply (IH d1 d' Hn HF' H ks Hl).
Qed.

(* integers add up to the arithmetic sum *)
Lemma add_all_ints : forall zs z, add_all (PInt z) (map PInt zs) = Ok (PInt (z + fold_right Z.add 0 zs)).
Proof.
  induction zs as [|a r IH]; intros z; cbn; [f_equal; f_equal; lia|].
  rewrite IH. f_equal. f_equal. lia.
Qed.

(* ---- expressions that do not look at the controller's own state ---- *)
Fixpoint pure (e : expr) : bool :=
  match e with
  | EVar _ | EEntId | EProps | EBL | EStrC _ | EIntC _ => true
  | EIdx a b | EAdd a b => pure a && pure b
  | ELen a => pure a
  | _ => false
  end.
Definition locals_equiv (l1 l2 : list (string * pyval)) : Prop := forall y, assoc_get y l1 = assoc_get y l2.

Lemma eval_pure e : pure e = true -> forall ev l1 l2 st1 st2, locals_equiv l1 l2 ->
  eval {| cx_ev := ev; cx_locals := l1; cx_st := st1 |} e = eval {| cx_ev := ev; cx_locals := l2; cx_st := st2 |} e.
Proof.
  induction e; cbn [pure]; intros Hp ev l1 l2 st1 st2 Hl; try discriminate; cbn [eval cx_ev cx_locals cx_st]; try reflexivity.
  - rewrite (Hl x). reflexivity.
  - apply andb_true_iff in Hp. destruct Hp as [H1 H2]. rewrite (IHe1 H1 ev l1 l2 st1 st2 Hl), (IHe2 H2 ev l1 l2 st1 st2 Hl). reflexivity.
  - apply andb_true_iff in Hp. destruct Hp as [H1 H2]. rewrite (IHe1 H1 ev l1 l2 st1 st2 Hl), (IHe2 H2 ev l1 l2 st1 st2 Hl). reflexivity.
  - rewrite (IHe Hp ev l1 l2 st1 st2 Hl). reflexivity.
Qed.
Lemma eval_list_pure es : forallb pure es = true -> forall ev l1 l2 st1 st2, locals_equiv l1 l2 ->
  eval_list {| cx_ev := ev; cx_locals := l1; cx_st := st1 |} es = eval_list {| cx_ev := ev; cx_locals := l2; cx_st := st2 |} es.
Proof.
  induction es as [|e r IH]; cbn; intros Hp ev l1 l2 st1 st2 Hl; [reflexivity|].
  apply andb_true_iff in Hp. destruct Hp as [H1 H2].
  rewrite (eval_pure e H1 ev l1 l2 st1 st2 Hl), (IH H2 ev l1 l2 st1 st2 Hl). reflexivity.
Qed.

Lemma assoc_get_set_same {A} k (v : A) l : assoc_get k (assoc_set k v l) = Some v.
Proof. induction l as [|[k' v'] r IH]; cbn; [rewrite String.eqb_refl; reflexivity|]. destruct (String.eqb k k') eqn:E; cbn; [rewrite String.eqb_refl; reflexivity | rewrite E; exact IH]. Qed.
Lemma assoc_get_set_other {A} k k' (v : A) l : k <> k' -> assoc_get k (assoc_set k' v l) = assoc_get k l.
Proof.
  intros Hne. induction l as [|[k2 v2] r IH]; cbn.
  - destruct (String.eqb k k') eqn:E; [apply String.eqb_eq in E; contradiction | reflexivity].
  - destruct (String.eqb k' k2) eqn:E; cbn.
    + apply String.eqb_eq in E. subst k2. destruct (String.eqb k k') eqn:E2; [apply String.eqb_eq in E2; contradiction | reflexivity].
    + destruct (String.eqb k k2); [reflexivity | exact IH].
Qed.
Lemma assoc_set_set {A} k (v1 v2 : A) l : assoc_set k v2 (assoc_set k v1 l) = assoc_set k v2 l.
Proof.
  induction l as [|[k' v'] r IH]; cbn; [rewrite String.eqb_refl; reflexivity|].
  destruct (String.eqb k k') eqn:E; cbn; [rewrite String.eqb_refl; reflexivity | rewrite E, IH; reflexivity].
Qed.
Lemma assoc_set_same {A} k (v : A) l : assoc_get k l = Some v -> assoc_set k v l = l.
Proof.
  induction l as [|[k' v'] r IH]; cbn; [discriminate|].
  destruct (String.eqb k k') eqn:E; [apply String.eqb_eq in E; subst; intros H; inversion H; reflexivity | intros H; rewrite (IH H); reflexivity].
Qed.
Lemma locals_shadow x a b l : locals_equiv (assoc_set x a (assoc_set x b l)) (assoc_set x a l).
Proof. intros y. rewrite assoc_set_set. reflexivity. Qed.
Lemma locals_equiv_set x a l1 l2 : locals_equiv l1 l2 -> locals_equiv (assoc_set x a l1) (assoc_set x a l2).
Proof.
  intros H y. destruct (String.eqb y x) eqn:E.
  - apply String.eqb_eq in E. subst. rewrite !assoc_get_set_same. reflexivity.
  - assert (y <> x) by (intros ->; rewrite String.eqb_refl in E; discriminate). rewrite !assoc_get_set_other by assumption. apply H.
Qed.

Lemma get_dict_set st f v : get_dict_field (set_field st f (PDict v)) f = Ok v.
Proof. unfold get_dict_field, set_field; cbn. rewrite assoc_get_set_same. reflexivity. Qed.
Lemma set_field_twice st f a b : set_field (set_field st f a) f b = set_field st f b.
Proof. unfold set_field; cbn. rewrite assoc_set_set. reflexivity. Qed.

(* one round of the counting idiom, as the interpreter runs it *)
Lemma count_body_iter ctl ev loc st f keys amt d :
  forallb pure keys = true -> pure amt = true -> get_dict_field st f = Ok d ->
  forall loc' st', exec_ss ctl ev loc st [SSetdef f keys; SAugAdd f keys amt] = (loc', st', None) ->
  exists ks xv d2, eval_list {| cx_ev := ev; cx_locals := loc; cx_st := st |} keys = Ok ks /\
                   eval {| cx_ev := ev; cx_locals := loc; cx_st := st |} amt = Ok xv /\
                   count_path d ks xv = Ok d2 /\ loc' = loc /\ st' = set_field st f (PDict d2).
Proof.
  intros Hk Ha Hd loc' st'. cbn [exec_ss exec_s cx_st cx_locals].
  destruct (eval_list {| cx_ev := ev; cx_locals := loc; cx_st := st |} keys) as [ks|] eqn:EK; [|intros H; inversion H].
  rewrite Hd. destruct (setdef_chain d ks) as [d1|] eqn:S; [|intros H; inversion H].
  cbn [exec_s cx_st cx_locals].
  rewrite (eval_list_pure keys Hk ev loc loc (set_field st f (PDict d1)) st (fun y => eq_refl)), EK.
  rewrite get_dict_set.
  rewrite (eval_pure amt Ha ev loc loc (set_field st f (PDict d1)) st (fun y => eq_refl)).
  destruct (eval {| cx_ev := ev; cx_locals := loc; cx_st := st |} amt) as [xv|] eqn:EA; [|intros H; inversion H].
  destruct (augadd_chain d1 ks xv) as [d2|] eqn:A; [|intros H; inversion H].
  intros H. inversion H; subst. exists ks, xv, d2. unfold count_path. rewrite S. cbn. rewrite A, set_field_twice. auto.
Qed.

Definition entry_of (ev : event) (loc : list (string * pyval)) (x : string) (keys : list expr) (amt : expr) (st : cstate) (it : pyval)
  : result (list pyval * pyval) :=
  let c := {| cx_ev := ev; cx_locals := assoc_set x it loc; cx_st := st |} in
  ks <- eval_list c keys ;; v <- eval c amt ;; Ok (ks, v).
Fixpoint entries_of ev loc x keys amt st (items : list pyval) : result (list (list pyval * pyval)) :=
  match items with
  | [] => Ok []
  | it :: r => e <- entry_of ev loc x keys amt st it ;; es <- entries_of ev loc x keys amt st r ;; Ok (e :: es)
  end.

Lemma entries_of_state ev x keys amt : forallb pure keys = true -> pure amt = true ->
  forall items l1 l2 st1 st2, (forall it, locals_equiv (assoc_set x it l1) (assoc_set x it l2)) ->
  entries_of ev l1 x keys amt st1 items = entries_of ev l2 x keys amt st2 items.
Proof.
  intros Hk Ha. induction items as [|it r IH]; intros l1 l2 st1 st2 Hl; cbn; [reflexivity|].
  unfold entry_of. rewrite (eval_list_pure keys Hk ev _ _ st1 st2 (Hl it)), (eval_pure amt Ha ev _ _ st1 st2 (Hl it)), (IH l1 l2 st1 st2 Hl). reflexivity.
Qed.

(* for x in items: f.setdefault(keys...); f[keys...] += amt    ==    count_all over the entries the items denote *)
Theorem count_loop ctl ev x f keys amt : forallb pure keys = true -> pure amt = true ->
  forall items loc0 loc st d loc' st',
  (forall it, locals_equiv (assoc_set x it loc) (assoc_set x it loc0)) ->
  get_dict_field st f = Ok d ->
  exec_for ctl ev x loc st items [SSetdef f keys; SAugAdd f keys amt] = (loc', st', None) ->
  exists es d', entries_of ev loc0 x keys amt st items = Ok es /\ count_all d es = Ok d' /\ st' = set_field st f (PDict d').
Proof.
  intros Hk Ha. induction items as [|it r IH]; intros loc0 loc st d loc' st' Hl Hd H.
  - cbn in H. inversion H; subst loc' st'. exists [], d. cbn. repeat split; auto.
    unfold set_field. unfold get_dict_field in Hd. destruct st as [fs ps]; cbn in *.
    destruct (assoc_get f fs) as [[ | | | | | | | |dd| ]|] eqn:G; inversion Hd; subst. rewrite (assoc_set_same f (PDict d) fs G). reflexivity.
  - cbn [exec_for] in H.
    destruct (exec_ss ctl ev (assoc_set x it loc) st [SSetdef f keys; SAugAdd f keys amt]) as [[loc1 st1] er] eqn:B.
    destruct er as [e|]; [inversion H|].
    destruct (count_body_iter ctl ev (assoc_set x it loc) st f keys amt d Hk Ha Hd loc1 st1 B) as (ks & xv & d2 & EK & EA & C & -> & ->).
    assert (Hl1 : forall it', locals_equiv (assoc_set x it' (assoc_set x it loc)) (assoc_set x it' loc0)).
    { intros it' y. rewrite (locals_shadow x it' it loc y). apply Hl. }
    destruct (IH loc0 (assoc_set x it loc) (set_field st f (PDict d2)) d2 loc' st' Hl1 (get_dict_set st f d2) H) as (es & d' & E1 & E2 & ->).
    exists ((ks, xv) :: es), d'. cbn [entries_of]. unfold entry_of.
    rewrite <- (eval_list_pure keys Hk ev _ _ st st (Hl it)), EK. cbn.
    rewrite <- (eval_pure amt Ha ev _ _ st st (Hl it)), EA. cbn.
    rewrite (entries_of_state ev x keys amt Hk Ha r loc0 loc0 st (set_field st f (PDict d2)) (fun it y => eq_refl)), E1. cbn.
    rewrite C. cbn. rewrite E2, set_field_twice. auto.
Qed.

(* ---- frame: which fields a statement can write ---- *)
Definition writes_s (s : sstmt) : list string :=
  match s with
  | SAppend f _ | SSetdef f _ | SAugAdd f _ _ | SAssign f _ | SAssignDict f _ => [f]
  | SMapStrip _ | SMapPrefix _ => ["_map"%string]
  | SLet _ _ | SRoster _ _ => []
  end.
Definition roster_s (s : sstmt) : bool := match s with SRoster _ _ => true | _ => false end.
Definition writes_stmt (s : stmt) : list string :=
  match s with Simple s' => writes_s s' | SFor _ _ body => flat_map writes_s body end.
Definition roster_stmt (s : stmt) : bool :=
  match s with Simple s' => roster_s s' | SFor _ _ body => existsb roster_s body end.
Definition writes_h (h : handler) : list string := flat_map writes_stmt (h_body h).
Definition roster_h (h : handler) : bool := existsb roster_stmt (h_body h).

Lemma set_field_other st f v g : g <> f -> assoc_get g (st_fields (set_field st f v)) = assoc_get g (st_fields st).
Proof. intros H. unfold set_field; cbn. apply assoc_get_set_other. exact H. Qed.

Lemma exec_s_frame ctl c s loc' st' er g :
  exec_s ctl c s = (loc', st', er) -> ~ In g (writes_s s) -> assoc_get g (st_fields st') = assoc_get g (st_fields (cx_st c)).
Proof.
  destruct s; cbn [exec_s writes_s]; intros H Hn;
    repeat match type of H with
           | (match ?x with _ => _ end) = _ => destruct x eqn:?
           | (let '(_, _) := ?x in _) = _ => destruct x eqn:?
           end; inversion H; subst; try reflexivity; try (apply set_field_other; intros ->; apply Hn; cbn; auto).
Qed.
Lemma exec_s_players ctl c s loc' st' er :
  exec_s ctl c s = (loc', st', er) -> roster_s s = false -> st_players st' = st_players (cx_st c).
Proof.
  destruct s; cbn [exec_s roster_s]; intros H Hn; try discriminate;
    repeat match type of H with
           | (match ?x with _ => _ end) = _ => destruct x eqn:?
           end; inversion H; subst; reflexivity.
Qed.

Lemma exec_ss_frame ctl ev g : forall ss loc st loc' st' er,
  exec_ss ctl ev loc st ss = (loc', st', er) -> ~ In g (flat_map writes_s ss) -> assoc_get g (st_fields st') = assoc_get g (st_fields st).
Proof.
  induction ss as [|s r IH]; cbn; intros loc st loc' st' er H Hn; [inversion H; reflexivity|].
  destruct (exec_s ctl {| cx_ev := ev; cx_locals := loc; cx_st := st |} s) as [[l1 s1] e1] eqn:E.
  assert (F1 := exec_s_frame _ _ _ _ _ _ g E (fun Hin => Hn (in_or_app _ _ _ (or_introl Hin)))). cbn in F1.
  destruct e1; [inversion H; subst; exact F1|].
  rewrite (IH _ _ _ _ _ H (fun Hin => Hn (in_or_app _ _ _ (or_intror Hin)))). exact F1.
Qed.
Lemma exec_ss_players ctl ev : forall ss loc st loc' st' er,
  exec_ss ctl ev loc st ss = (loc', st', er) -> existsb roster_s ss = false -> st_players st' = st_players st.
Proof.
  induction ss as [|s r IH]; cbn; intros loc st loc' st' er H Hn; [inversion H; reflexivity|].
  apply orb_false_iff in Hn. destruct Hn as [H1 H2].
  destruct (exec_s ctl {| cx_ev := ev; cx_locals := loc; cx_st := st |} s) as [[l1 s1] e1] eqn:E.
  assert (F1 := exec_s_players _ _ _ _ _ _ E H1). cbn in F1.
  destruct e1; [inversion H; subst; exact F1|]. rewrite (IH _ _ _ _ _ H H2). exact F1.
Qed.
Lemma exec_for_frame ctl ev x g body : ~ In g (flat_map writes_s body) -> forall items loc st loc' st' er,
  exec_for ctl ev x loc st items body = (loc', st', er) -> assoc_get g (st_fields st') = assoc_get g (st_fields st).
Proof.
  intros Hn. induction items as [|it r IH]; cbn; intros loc st loc' st' er H; [inversion H; reflexivity|].
  destruct (exec_ss ctl ev (assoc_set x it loc) st body) as [[l1 s1] e1] eqn:E.
  assert (F1 := exec_ss_frame ctl ev g _ _ _ _ _ _ E Hn).
  destruct e1; [inversion H; subst; exact F1|]. rewrite (IH _ _ _ _ _ H). exact F1.
Qed.
Lemma exec_for_players ctl ev x body : existsb roster_s body = false -> forall items loc st loc' st' er,
  exec_for ctl ev x loc st items body = (loc', st', er) -> st_players st' = st_players st.
Proof.
  intros Hn. induction items as [|it r IH]; cbn; intros loc st loc' st' er H; [inversion H; reflexivity|].
  destruct (exec_ss ctl ev (assoc_set x it loc) st body) as [[l1 s1] e1] eqn:E.
  assert (F1 := exec_ss_players ctl ev _ _ _ _ _ _ E Hn).
  destruct e1; [inversion H; subst; exact F1|]. rewrite (IH _ _ _ _ _ H). exact F1.
Qed.
Lemma exec_stmt_frame ctl ev g s loc st loc' st' er :
  exec_stmt ctl ev loc st s = (loc', st', er) -> ~ In g (writes_stmt s) -> assoc_get g (st_fields st') = assoc_get g (st_fields st).
Proof.
  destruct s as [s'|x e body]; cbn [exec_stmt writes_stmt]; intros H Hn.
  - apply (exec_s_frame _ _ _ _ _ _ g H Hn).
  - destruct (eval _ e) as [[ | | | | | |l|l|d| ]|]; try (inversion H; subst; reflexivity);
      apply (exec_for_frame ctl ev x g body Hn _ _ _ _ _ _ H).
Qed.
Lemma exec_stmt_players ctl ev s loc st loc' st' er :
  exec_stmt ctl ev loc st s = (loc', st', er) -> roster_stmt s = false -> st_players st' = st_players st.
Proof.
  destruct s as [s'|x e body]; cbn [exec_stmt roster_stmt]; intros H Hn.
  - apply (exec_s_players _ _ _ _ _ _ H Hn).
  - destruct (eval _ e) as [[ | | | | | |l|l|d| ]|]; try (inversion H; subst; reflexivity);
      apply (exec_for_players ctl ev x body Hn _ _ _ _ _ _ H).
Qed.
Lemma exec_body_frame ctl ev g : forall b loc st loc' st' er,
  exec_body ctl ev loc st b = (loc', st', er) -> ~ In g (flat_map writes_stmt b) -> assoc_get g (st_fields st') = assoc_get g (st_fields st).
Proof.
  induction b as [|s r IH]; cbn; intros loc st loc' st' er H Hn; [inversion H; reflexivity|].
  destruct (exec_stmt ctl ev loc st s) as [[l1 s1] e1] eqn:E.
  assert (F1 := exec_stmt_frame _ _ g _ _ _ _ _ _ E (fun Hin => Hn (in_or_app _ _ _ (or_introl Hin)))).
  destruct e1; [inversion H; subst; exact F1|].
  rewrite (IH _ _ _ _ _ H (fun Hin => Hn (in_or_app _ _ _ (or_intror Hin)))). exact F1.
Qed.
Lemma exec_body_players ctl ev : forall b loc st loc' st' er,
  exec_body ctl ev loc st b = (loc', st', er) -> existsb roster_stmt b = false -> st_players st' = st_players st.
Proof.
  induction b as [|s r IH]; cbn; intros loc st loc' st' er H Hn; [inversion H; reflexivity|].
  apply orb_false_iff in Hn. destruct Hn as [H1 H2].
  destruct (exec_stmt ctl ev loc st s) as [[l1 s1] e1] eqn:E.
  assert (F1 := exec_stmt_players _ _ _ _ _ _ _ _ E H1).
  destruct e1; [inversion H; subst; exact F1|]. rewrite (IH _ _ _ _ _ H H2). exact F1.
Qed.

(* NOTHING LEAKS: a delivered call changes only the fields its own handler writes, and the roster only if that handler merges one;
   a call nobody handles changes nothing at all *)
Theorem apply_event_frame ctl st ev st' er g :
  apply_event ctl st ev = (st', er) ->
  (forall h, assoc_get (ev_key ev) (c_handlers ctl) = Some h -> ~ In g (writes_h h)) ->
  assoc_get g (st_fields st') = assoc_get g (st_fields st).
Proof.
  unfold apply_event. intros H Hn. destruct (assoc_get (ev_key ev) (c_handlers ctl)) as [h|]; [|inversion H; reflexivity].
  destruct (bind_args h ev) as [loc|]; [|inversion H; reflexivity].
  destruct (exec_body ctl ev loc st (h_body h)) as [[l1 s1] e1] eqn:E. inversion H; subst.
  apply (exec_body_frame ctl ev g _ _ _ _ _ _ E (Hn h eq_refl)).
Qed.
Theorem apply_event_players ctl st ev st' er :
  apply_event ctl st ev = (st', er) ->
  (forall h, assoc_get (ev_key ev) (c_handlers ctl) = Some h -> roster_h h = false) ->
  st_players st' = st_players st.
Proof.
  unfold apply_event. intros H Hn. destruct (assoc_get (ev_key ev) (c_handlers ctl)) as [h|]; [|inversion H; reflexivity].
  destruct (bind_args h ev) as [loc|]; [|inversion H; reflexivity].
  destruct (exec_body ctl ev loc st (h_body h)) as [[l1 s1] e1] eqn:E. inversion H; subst.
  apply (exec_body_players ctl ev _ _ _ _ _ _ E (Hn h eq_refl)).
Qed.
Theorem unhandled_event_is_noop ctl st ev : assoc_get (ev_key ev) (c_handlers ctl) = None -> apply_event ctl st ev = (st, None).
Proof. unfold apply_event. intros ->. reflexivity. Qed.

Lemma count_all_app : forall a b d d1 d2, count_all d a = Ok d1 -> count_all d1 b = Ok d2 -> count_all d (a ++ b) = Ok d2.
Proof.
  induction a as [|[ks x] r IH]; cbn; intros b d d1 d2 H1 H2; [inversion H1; subst; exact H2|].
  destruct (count_path d ks x) as [d'|]; [|discriminate]. cbn in *. apply (IH b d' d1 d2 H1 H2).
Qed.

(* ---- a whole history: the counting handler, every other handler, in any interleaving ---- *)
Section CountHistory.
  Variables (ctl : controller) (K p x f : string) (keys : list expr) (amt : expr).
  Hypothesis HK : assoc_get K (c_handlers ctl) =
                  Some {| h_params := [p]; h_body := [SFor x (EVar p) [SSetdef f keys; SAugAdd f keys amt]] |}.
  Hypothesis Hkeys : forallb pure keys = true.
  Hypothesis Hamt : pure amt = true.
  (* no other subscribed handler writes the field *)
  Hypothesis Hother : forall K' h, K' <> K -> assoc_get K' (c_handlers ctl) = Some h -> ~ In f (writes_h h).

  (* the (path, amount) entries one delivered K-call denotes: one per element of its argument, in order *)
  Definition call_entries (st : cstate) (ev : event) : result (list (list pyval * pyval)) :=
    match bind_args {| h_params := [p]; h_body := [] |} ev with
    | None => Err EType
    | Some loc =>
        match assoc_get p loc with
        | Some (PList items) | Some (PTuple items) => entries_of ev loc x keys amt st items
        | Some (PDict d) => entries_of ev loc x keys amt st (map fst d)
        | _ => Err EType
        end
    end.
  Fixpoint history_entries (st : cstate) (evs : list event) : result (list (list pyval * pyval)) :=
    match evs with
    | [] => Ok []
    | ev :: r => if String.eqb (ev_key ev) K
                 then a <- call_entries st ev ;; b <- history_entries st r ;; Ok (a ++ b)%list
                 else history_entries st r
    end.

  Lemma call_entries_state st1 st2 ev : call_entries st1 ev = call_entries st2 ev.
  Proof.
    unfold call_entries. destruct (bind_args _ ev) as [loc|]; [|reflexivity].
    destruct (assoc_get p loc) as [[ | | | | | |l|l|d| ]|]; try reflexivity;
      apply (entries_of_state ev x keys amt Hkeys Hamt _ loc loc st1 st2 (fun it y => eq_refl)).
  Qed.
  Lemma history_entries_state st1 st2 evs : history_entries st1 evs = history_entries st2 evs.
  Proof.
    induction evs as [|ev r IH]; cbn; [reflexivity|]. rewrite IH, (call_entries_state st1 st2 ev). reflexivity.
  Qed.

  Lemma count_call st ev st' d : ev_key ev = K -> get_dict_field st f = Ok d -> apply_event ctl st ev = (st', None) ->
    exists es d', call_entries st ev = Ok es /\ count_all d es = Ok d' /\ st' = set_field st f (PDict d').
  Proof.
    intros Hkey Hd. unfold apply_event, call_entries. rewrite Hkey, HK.
    change (bind_args {| h_params := [p]; h_body := [SFor x (EVar p) [SSetdef f keys; SAugAdd f keys amt]] |} ev)
      with (bind_args {| h_params := [p]; h_body := [] |} ev).
    destruct (bind_args {| h_params := [p]; h_body := [] |} ev) as [loc|]; [|intros H; inversion H].
    cbn [h_body exec_body exec_stmt eval cx_locals].
    destruct (assoc_get p loc) as [[ | | | | | |l|l|dd| ]|]; try (intros H; inversion H; fail).
    - destruct (exec_for ctl ev x loc st l _) as [[l1 s1] e1] eqn:E. destruct e1; intros H; inversion H; subst.
      apply (count_loop ctl ev x f keys amt Hkeys Hamt l loc loc st d l1 st' (fun it y => eq_refl) Hd E).
    - destruct (exec_for ctl ev x loc st l _) as [[l1 s1] e1] eqn:E. destruct e1; intros H; inversion H; subst.
      apply (count_loop ctl ev x f keys amt Hkeys Hamt l loc loc st d l1 st' (fun it y => eq_refl) Hd E).
    - destruct (exec_for ctl ev x loc st (map fst dd) _) as [[l1 s1] e1] eqn:E. destruct e1; intros H; inversion H; subst.
      apply (count_loop ctl ev x f keys amt Hkeys Hamt (map fst dd) loc loc st d l1 st' (fun it y => eq_refl) Hd E).
  Qed.

  (* C09, totals: after ANY history that strict play accepts, the field is the result of counting exactly the entries of the K-calls,
     in stream order - whatever other calls were delivered in between *)
  Theorem count_history : forall evs st st' d, get_dict_field st f = Ok d -> run_events_strict ctl st evs = (st', None) ->
    exists es d', history_entries st evs = Ok es /\ count_all d es = Ok d' /\ get_dict_field st' f = Ok d'.
  Proof.
    induction evs as [|ev r IH]; intros st st' d Hd H.
    - cbn in H. inversion H; subst. exists [], d. cbn. auto.
    - cbn [run_events_strict] in H. destruct (apply_event ctl st ev) as [s1 e1] eqn:A. destruct e1; [inversion H|].
      cbn [history_entries]. destruct (String.eqb (ev_key ev) K) eqn:E.
      + apply String.eqb_eq in E.
        destruct (count_call st ev s1 d E Hd A) as (es1 & d1 & C1 & C2 & ->).
        destruct (IH _ st' d1 (get_dict_set st f d1) H) as (es2 & d2 & H1 & H2 & H3).
        exists (es1 ++ es2)%list, d2. rewrite C1. cbn. rewrite (history_entries_state st (set_field st f (PDict d1)) r), H1. cbn.
        repeat split; auto. apply (count_all_app es1 es2 d d1 d2 C2 H2).
      + assert (Hne : ev_key ev <> K) by (intros Heq; rewrite Heq, String.eqb_refl in E; discriminate).
        assert (Hf : assoc_get f (st_fields s1) = assoc_get f (st_fields st)).
        { apply (apply_event_frame ctl st ev s1 None f A). intros h Hh. apply (Hother (ev_key ev) h Hne Hh). }
        assert (Hd1 : get_dict_field s1 f = Ok d) by (unfold get_dict_field in *; rewrite Hf; exact Hd).
        destruct (IH s1 st' d Hd1 H) as (es2 & d2 & H1 & H2 & H3).
        exists es2, d2. rewrite (history_entries_state st s1 r). auto.
  Qed.
End CountHistory.

(* ---- the append idiom (vehicle deaths): self._f.append(e) ---- *)
Lemma eval_tup c l : eval c (ETup l) = match eval_list c l with Ok xs => Ok (PTuple xs) | Err e => Err e end.
Proof.
  cbn [eval]. match goal with |- match ?g l with _ => _ end = _ => set (go := g) end.
  assert (H : go l = eval_list c l).
  { induction l as [|a r IH]; cbn; [reflexivity|]. destruct (eval c a); cbn; [|reflexivity]. rewrite IH. reflexivity. }
  rewrite H. reflexivity.
Qed.
(* a pure expression or a tuple of pure expressions *)
Definition pure_t (e : expr) : bool := match e with ETup l => forallb pure l | _ => pure e end.
Lemma eval_pure_t e : pure_t e = true -> forall ev l1 l2 st1 st2, locals_equiv l1 l2 ->
  eval {| cx_ev := ev; cx_locals := l1; cx_st := st1 |} e = eval {| cx_ev := ev; cx_locals := l2; cx_st := st2 |} e.
Proof.
  destruct e; cbn [pure_t]; intros Hp ev l1 l2 st1 st2 Hl; try (apply eval_pure; assumption).
  rewrite !eval_tup, (eval_list_pure l Hp ev l1 l2 st1 st2 Hl). reflexivity.
Qed.

Section AppendHistory.
  Variables (ctl : controller) (K f : string) (ps : list string) (e : expr).
  Hypothesis HK : assoc_get K (c_handlers ctl) = Some {| h_params := ps; h_body := [Simple (SAppend f e)] |}.
  Hypothesis He : pure_t e = true.
  Hypothesis Hother : forall K' h, K' <> K -> assoc_get K' (c_handlers ctl) = Some h -> ~ In f (writes_h h).

  Definition call_value (st : cstate) (ev : event) : result pyval :=
    match bind_args {| h_params := ps; h_body := [] |} ev with
    | None => Err EType
    | Some loc => eval {| cx_ev := ev; cx_locals := loc; cx_st := st |} e
    end.
  Fixpoint history_values (st : cstate) (evs : list event) : result (list pyval) :=
    match evs with
    | [] => Ok []
    | ev :: r => if String.eqb (ev_key ev) K
                 then a <- call_value st ev ;; b <- history_values st r ;; Ok (a :: b)
                 else history_values st r
    end.
  Lemma call_value_state st1 st2 ev : call_value st1 ev = call_value st2 ev.
  Proof. unfold call_value. destruct (bind_args _ ev) as [loc|]; [|reflexivity]. apply (eval_pure_t e He ev loc loc st1 st2 (fun y => eq_refl)). Qed.
  Lemma history_values_state st1 st2 evs : history_values st1 evs = history_values st2 evs.
  Proof. induction evs as [|ev r IH]; cbn; [reflexivity|]. rewrite IH, (call_value_state st1 st2 ev). reflexivity. Qed.

  (* C09, ordered list: the field is the list of the values of the K-calls, once per call, in stream order *)
  Theorem append_history : forall evs st st' l0, assoc_get f (st_fields st) = Some (PList l0) -> run_events_strict ctl st evs = (st', None) ->
    exists vs, history_values st evs = Ok vs /\ assoc_get f (st_fields st') = Some (PList (l0 ++ vs)%list).
  Proof.
    induction evs as [|ev r IH]; intros st st' l0 Hf H.
    - cbn in H. inversion H; subst. exists []. rewrite app_nil_r. auto.
    - cbn [run_events_strict] in H. destruct (apply_event ctl st ev) as [s1 e1] eqn:A. destruct e1; [inversion H|].
      cbn [history_values]. destruct (String.eqb (ev_key ev) K) eqn:E.
      + apply String.eqb_eq in E. unfold apply_event in A. rewrite E, HK in A.
        change (bind_args {| h_params := ps; h_body := [Simple (SAppend f e)] |} ev) with (bind_args {| h_params := ps; h_body := [] |} ev) in A.
        unfold call_value. destruct (bind_args {| h_params := ps; h_body := [] |} ev) as [loc|]; [|inversion A].
        cbn [h_body exec_body exec_stmt exec_s cx_st cx_locals] in A.
        destruct (eval {| cx_ev := ev; cx_locals := loc; cx_st := st |} e) as [v|]; [|inversion A].
        rewrite Hf in A. inversion A; subst s1. clear A.
        destruct (IH (set_field st f (PList (l0 ++ [v])%list)) st' (l0 ++ [v])%list) as (vs & H1 & H2).
        { unfold set_field; cbn. apply assoc_get_set_same. }
        { exact H. }
        exists (v :: vs). cbn. rewrite (history_values_state st (set_field st f (PList (l0 ++ [v])%list)) r), H1. cbn.
        split; [reflexivity|]. rewrite H2, <- app_assoc. reflexivity.
      + assert (Hne : ev_key ev <> K) by (intros Heq; rewrite Heq, String.eqb_refl in E; discriminate).
        assert (Hf1 : assoc_get f (st_fields s1) = Some (PList l0)).
        { rewrite (apply_event_frame ctl st ev s1 None f A); [exact Hf|]. intros h Hh. apply (Hother (ev_key ev) h Hne Hh). }
        destruct (IH s1 st' l0 Hf1 H) as (vs & H1 & H2). exists vs. rewrite (history_values_state st s1 r). auto.
  Qed.
End AppendHistory.

(* ---- the roster: id-keyed merge in stream order ---- *)
Lemma dget_app_one k k1 v1 : forall l, dget k (l ++ [(k1, v1)]) = match dget k l with Some v => Some v | None => if pv_eqb k k1 then Some v1 else None end.
Proof. induction l as [|[a b] t IHt]; cbn; [reflexivity|]. destruct (pv_eqb k a); [reflexivity | exact IHt]. Qed.
Lemma dget_dupdate k : forall src d, dget k (dupdate d src) = match dget k (rev src) with Some v => Some v | None => dget k d end.
Proof.
  unfold dupdate. induction src as [|[k1 v1] r IH]; intros d; cbn [fold_left rev]; [reflexivity|].
  rewrite IH. cbn [fst snd].
  rewrite dget_app_one. destruct (dget k (rev r)); [reflexivity|].
  destruct (pv_eqb k k1) eqn:E.
  - apply pv_eqb_eq in E. subst. apply dget_dset_same.
  - apply pv_eqb_neq in E. apply dget_dset_other. exact E.
Qed.

Definition roster_lookup (players : pdict) (pid key : pyval) : option pyval :=
  match dget pid players with Some (PDict r) => dget key r | _ => None end.

(* one record: its fields overwrite the fields of the same name of the player with the record's id; that player's other fields and
   every other player stay as they were *)
Lemma merge_record_spec umap uni players rec p' : merge_record umap uni players rec = Ok p' ->
  exists items pd pid, seq_items rec = Ok items /\ convert_items umap uni [] items = Ok pd /\ dget (pstr "id") pd = Some pid /\
    forall pid' key, roster_lookup p' pid' key =
      if pv_eqb pid' pid then match dget key (rev pd) with Some v => Some v | None => roster_lookup players pid key end
      else roster_lookup players pid' key.
Proof.
  unfold merge_record. destruct (seq_items rec) as [items|]; [|discriminate]. cbn.
  destruct (convert_items umap uni [] items) as [pd|] eqn:Hc; [|discriminate]. cbn.
  destruct (dget (pstr "id") pd) as [pid|] eqn:Hid; [|discriminate].
  intros H. exists items, pd, pid. split; [reflexivity|]. split; [exact Hc|]. split; [exact Hid|]. intros pid' key. unfold roster_lookup.
  destruct (dget pid players) as [[ | | | | | | | |old| ]|] eqn:G; try discriminate; inversion H; subst p'; clear H;
    (destruct (pv_eqb pid' pid) eqn:E;
     [apply pv_eqb_eq in E; subst pid'; rewrite dget_dset_same, dget_dupdate, ?G; cbn; destruct (dget key (rev pd)); reflexivity
     |apply pv_eqb_neq in E; rewrite dget_dset_other by exact E; reflexivity]).
Qed.

(* a whole message and a whole history of messages: the value of (player, field) is that of the LAST record, in stream order, that
   names the player and carries the field; absent if none does *)
Definition last_writer (cs : list (pyval * pdict)) (pid key : pyval) (init : option pyval) : option pyval :=
  fold_left (fun acc c => if pv_eqb pid (fst c) then match dget key (rev (snd c)) with Some v => Some v | None => acc end else acc) cs init.
Fixpoint converted (umap : list (Z * string)) (uni : bool) (recs : list pyval) : result (list (pyval * pdict)) :=
  match recs with
  | [] => Ok []
  | r :: rest =>
      items <- seq_items r ;; pd <- convert_items umap uni [] items ;;
      match dget (pstr "id") pd with
      | None => Err EKey
      | Some pid => cs <- converted umap uni rest ;; Ok ((pid, pd) :: cs)
      end
  end.
Theorem merge_records_last_writer umap uni : forall recs players p',
  merge_records umap uni players recs = (p', None) ->
  exists cs, converted umap uni recs = Ok cs /\
             forall pid key, roster_lookup p' pid key = last_writer cs pid key (roster_lookup players pid key).
Proof.
  induction recs as [|r rest IH]; cbn [merge_records]; intros players p' H.
  - inversion H; subst. exists []. split; reflexivity.
  - destruct (merge_record umap uni players r) as [p1|] eqn:M; [|inversion H].
    destruct (merge_record_spec _ _ _ _ _ M) as (items & pd & pid & S1 & S2 & S3 & S4).
    destruct (IH p1 p' H) as (cs & C1 & C2).
    exists ((pid, pd) :: cs). cbn [converted]. rewrite S1. cbn. rewrite S2. cbn. rewrite S3, C1. cbn. split; [reflexivity|].
    intros pid' key. rewrite C2. cbn [last_writer fold_left fst snd]. f_equal. rewrite S4.
    destruct (pv_eqb pid' pid) eqn:E; [|reflexivity]. apply pv_eqb_eq in E. subst. reflexivity.
Qed.

(* ---- map names: lstrip('spaces/') is not prefix removal ---- *)
Example lstrip_is_not_prefix_removal :
  lstrip_set spaces_set (list_byte_of_string "spaces/s07_Advance") = list_byte_of_string "07_Advance" /\
  remove_prefix (list_byte_of_string "spaces/") (list_byte_of_string "spaces/s07_Advance") = list_byte_of_string "s07_Advance".
Proof. split; vm_compute; reflexivity. Qed.
(* they agree exactly when what follows the prefix does not start with one of the characters s p a c e / *)
Lemma lstrip_set_fix set s : match s with [] => True | b :: _ => existsb (Byte.eqb b) set = false end -> lstrip_set set s = s.
Proof. destruct s as [|b r]; cbn; [reflexivity|]. intros ->. reflexivity. Qed.
Lemma lstrip_set_app set : forall p s, forallb (fun b => existsb (Byte.eqb b) set) p = true -> lstrip_set set (p ++ s) = lstrip_set set s.
Proof. induction p as [|b r IH]; cbn; intros s H; [reflexivity|]. apply andb_true_iff in H. destruct H as [H1 H2]. rewrite H1. apply IH. exact H2. Qed.
Theorem lstrip_agrees_with_prefix_removal rest :
  match rest with [] => True | b :: _ => existsb (Byte.eqb b) spaces_set = false end ->
  lstrip_set spaces_set (list_byte_of_string "spaces/" ++ rest) = remove_prefix (list_byte_of_string "spaces/") (list_byte_of_string "spaces/" ++ rest).
Proof.
  intros H. rewrite lstrip_set_app by (vm_compute; reflexivity). rewrite (lstrip_set_fix _ _ H).
  unfold remove_prefix. assert (Hs : forall p s, strip_prefix p (p ++ s) = Some s).
  { induction p as [|a p IH]; cbn; intros s; [reflexivity|]. rewrite (proj2 (byte_eqb_eq a a) eq_refl). apply IH. }
  rewrite Hs. reflexivity.
Qed.

(* ---- decidable side conditions, for the generated per-version instance theorems ---- *)
Definition others_dont_write (ctl : controller) (K f : string) : bool :=
  forallb (fun kh => String.eqb (fst kh) K || negb (existsb (String.eqb f) (writes_h (snd kh)))) (c_handlers ctl).
Lemma assoc_get_in {A} k (v : A) l : assoc_get k l = Some v -> In (k, v) l.
Proof.
  induction l as [|[k' v'] r IH]; cbn; [discriminate|]. destruct (String.eqb k k') eqn:E.
  - apply String.eqb_eq in E. subst. intros H; inversion H; auto.
  - intros H. right. apply IH. exact H.
Qed.
Lemma others_dont_write_sound ctl K f : others_dont_write ctl K f = true ->
  forall K' h, K' <> K -> assoc_get K' (c_handlers ctl) = Some h -> ~ In f (writes_h h).
Proof.
  unfold others_dont_write. rewrite forallb_forall. intros H K' h Hne Hg Hin.
  specialize (H (K', h) (assoc_get_in _ _ _ Hg)). cbn in H. apply orb_true_iff in H. destruct H as [H|H].
  - apply String.eqb_eq in H. contradiction.
  - apply negb_true_iff in H. assert (existsb (String.eqb f) (writes_h h) = true); [|congruence].
    apply existsb_exists. exists f. split; [exact Hin | apply String.eqb_refl].
Qed.
Definition only_these_merge_rosters (ctl : controller) (Ks : list string) : bool :=
  forallb (fun kh => existsb (String.eqb (fst kh)) Ks || negb (roster_h (snd kh))) (c_handlers ctl).
Lemma only_these_merge_rosters_sound ctl Ks : only_these_merge_rosters ctl Ks = true ->
  forall K' h, ~ In K' Ks -> assoc_get K' (c_handlers ctl) = Some h -> roster_h h = false.
Proof.
  unfold only_these_merge_rosters. rewrite forallb_forall. intros H K' h Hn Hg.
  specialize (H (K', h) (assoc_get_in _ _ _ Hg)). cbn in H. apply orb_true_iff in H. destruct H as [H|H].
  - apply existsb_exists in H. destruct H as (k & Hin & E). apply String.eqb_eq in E. subst. contradiction.
  - apply negb_true_iff in H. exact H.
Qed.

(* the map name (after the repair recorded as fixed: C09-a): the setter removes the PREFIX "spaces/" and nothing else *)
Theorem map_setter_removes_prefix ctl ev loc st e b :
  eval {| cx_ev := ev; cx_locals := loc; cx_st := st |} e = Ok (PStr b) ->
  exec_s ctl {| cx_ev := ev; cx_locals := loc; cx_st := st |} (SMapPrefix e) = (loc, set_field st "_map" (PStr (remove_prefix spaces_set b)), None).
Proof. intros H. cbn [exec_s cx_st cx_locals]. rewrite H. reflexivity. Qed.
Lemma strip_prefix_app : forall p s, strip_prefix p (p ++ s) = Some s.
Proof. induction p as [|a p IH]; cbn; intros s; [reflexivity|]. rewrite (proj2 (byte_eqb_eq a a) eq_refl). apply IH. Qed.
Theorem remove_prefix_spec p s : remove_prefix p (p ++ s) = s.
Proof. unfold remove_prefix. rewrite strip_prefix_app. reflexivity. Qed.
Theorem remove_prefix_absent p s : strip_prefix p s = None -> remove_prefix p s = s.
Proof. unfold remove_prefix. intros ->. reflexivity. Qed.
