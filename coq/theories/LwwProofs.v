(* C05 (core): the entity table is a last-writer-wins function of creation / update events.
   Stated on decoded events; the byte level is connected through the packet layouts and C03. *)
From RU Require Import Base Types Defs BitReader World TypesProofs.
From Coq Require Import Lia.

(* association-list facts (Python dict semantics) *)
Lemma assoc_get_set_same {A} k (v : A) l : assoc_get k (assoc_set k v l) = Some v.
Proof.
  induction l as [|[k' v'] r IH]; cbn [assoc_set assoc_get].
  - now rewrite String.eqb_refl.
  - destruct (String.eqb k k') eqn:E; cbn [assoc_get]; rewrite ?String.eqb_refl, ?E; auto.
Qed.
Lemma assoc_get_set_other {A} k k' (v : A) l : k <> k' -> assoc_get k' (assoc_set k v l) = assoc_get k' l.
Proof.
  intros Hn. induction l as [|[k0 v0] r IH]; cbn [assoc_set assoc_get].
  - destruct (String.eqb k' k) eqn:E; [apply String.eqb_eq in E; congruence|reflexivity].
  - destruct (String.eqb k k0) eqn:E; cbn [assoc_get].
    + apply String.eqb_eq in E. subst k0.
      destruct (String.eqb k' k) eqn:E2; [apply String.eqb_eq in E2; congruence|reflexivity].
    + destruct (String.eqb k' k0); auto.
Qed.
Lemma zassoc_get_set_same {A} k (v : A) l : zassoc_get k (zassoc_set k v l) = Some v.
Proof.
  induction l as [|[k' v'] r IH]; cbn [zassoc_set zassoc_get].
  - now rewrite Z.eqb_refl.
  - destruct (Z.eqb k k') eqn:E; cbn [zassoc_get]; rewrite ?Z.eqb_refl, ?E; auto.
Qed.
Lemma zassoc_get_set_other {A} k k' (v : A) l : k <> k' -> zassoc_get k' (zassoc_set k v l) = zassoc_get k' l.
Proof.
  intros Hn. induction l as [|[k0 v0] r IH]; cbn [zassoc_set zassoc_get].
  - destruct (Z.eqb k' k) eqn:E; [apply Z.eqb_eq in E; congruence|reflexivity].
  - destruct (Z.eqb k k0) eqn:E; cbn [zassoc_get].
    + apply Z.eqb_eq in E. subst k0.
      destruct (Z.eqb k' k) eqn:E2; [apply Z.eqb_eq in E2; congruence|reflexivity].
    + destruct (Z.eqb k' k0); auto.
Qed.

(* abstract events and the abstract spec: id -> (type, client properties) *)
Inductive ev :=
| EvCreate (id : Z) (ty : string) (kvs : list (string * value))     (* entity creation with an initial, possibly partial, property set *)
| EvUpdate (id : Z) (k : string) (v : value).

Definition spec_state := Z -> option (string * (string -> option value)).
Definition spec_init : spec_state := fun _ => None.
Definition upd (f : string -> option value) (k : string) (v : value) : string -> option value :=
  fun k' => if String.eqb k' k then Some v else f k'.
Definition spec_step (s : spec_state) (e : ev) : spec_state :=
  match e with
  | EvCreate id ty kvs =>
      fun i => if Z.eqb i id then Some (ty, fold_left (fun f kv => upd f (fst kv) (snd kv)) kvs (fun _ => None)) else s i
  | EvUpdate id k v =>
      fun i => if Z.eqb i id then match s id with Some (ty, f) => Some (ty, upd f k v) | None => None end else s i
  end.

(* the concrete effect of the same events on the model's entity table (what step_class does after decoding) *)
Definition mk_entity (id : Z) (ty : string) (vol : list (string * option bytes)) : entity :=
  {| en_id := id; en_type := ty; en_client := []; en_base := []; en_cell := []; en_vol := vol |}.
Definition conc_step (vol_of : string -> list (string * option bytes)) (w : world) (e : ev) : world :=
  match e with
  | EvCreate id ty kvs => put w (fold_left (fun en kv => set_client en (fst kv) (snd kv)) kvs (mk_entity id ty (vol_of ty)))
  | EvUpdate id k v => match zassoc_get id (w_entities w) with
                       | Some en => put w (set_client en k v)
                       | None => w            (* KeyError: packet fails, nothing changes *)
                       end
  end.

Definition abs (w : world) : Z -> option (string * (string -> option value)) :=
  fun i => match zassoc_get i (w_entities w) with
           | Some en => Some (en_type en, fun k => assoc_get k (en_client en))
           | None => None end.

(* pointwise equality of abstract states (no functional extensionality needed) *)
Definition same (a b : spec_state) : Prop :=
  forall i, match a i, b i with
            | Some (t1, f1), Some (t2, f2) => t1 = t2 /\ forall k, f1 k = f2 k
            | None, None => True
            | _, _ => False end.

Lemma fold_set_client_get kvs : forall en k,
  assoc_get k (en_client (fold_left (fun en kv => set_client en (fst kv) (snd kv)) kvs en)) =
  fold_left (fun f kv => upd f (fst kv) (snd kv)) kvs (fun k' => assoc_get k' (en_client en)) k.
Proof.
  induction kvs as [|[k0 v0] r IH]; intros en k; [reflexivity|].
  cbn [fold_left fst snd]. rewrite IH.
  assert (Hext : forall (f g : string -> option value), (forall x, f x = g x) ->
            forall l x, fold_left (fun f kv => upd f (fst kv) (snd kv)) l f x = fold_left (fun f kv => upd f (fst kv) (snd kv)) l g x).
  { clear. intros f g H l. revert f g H. induction l as [|[a b] l IHl]; intros f g H x; [apply H|].
    cbn [fold_left fst snd]. apply IHl. intros y. unfold upd. destruct (String.eqb y a); auto. }
  apply Hext. intros x. cbn [set_client en_client]. unfold upd.
  destruct (String.eqb x k0) eqn:E.
  - apply String.eqb_eq in E. subst. apply assoc_get_set_same.
  - apply assoc_get_set_other. intros ->. now rewrite String.eqb_refl in E.
Qed.
Lemma fold_set_client_type kvs : forall en,
  en_type (fold_left (fun en kv => set_client en (fst kv) (snd kv)) kvs en) = en_type en /\
  en_id (fold_left (fun en kv => set_client en (fst kv) (snd kv)) kvs en) = en_id en.
Proof. induction kvs as [|kv r IH]; intros en; [auto|]. cbn [fold_left]. destruct (IH (set_client en (fst kv) (snd kv))). auto. Qed.

Definition ids_ok (w : world) : Prop := forall i en, zassoc_get i (w_entities w) = Some en -> en_id en = i.

Lemma step_refines vol_of w s e :
  ids_ok w -> same (abs w) s -> ids_ok (conc_step vol_of w e) /\ same (abs (conc_step vol_of w e)) (spec_step s e).
Proof.
  intros Hid Hs. destruct e as [id ty kvs|id k v]; cbn [conc_step spec_step].
  - destruct (fold_set_client_type kvs (mk_entity id ty (vol_of ty))) as [Hty Hi].
    pose proof (fold_set_client_get kvs (mk_entity id ty (vol_of ty))) as Hget.
    remember (fold_left (fun en kv => set_client en (fst kv) (snd kv)) kvs (mk_entity id ty (vol_of ty))) as en0 eqn:Een.
    cbn [mk_entity en_type en_id en_client] in Hty, Hi, Hget. split.
    + intros i e0. unfold put; cbn [w_entities]. rewrite Hi.
      destruct (Z.eq_dec id i) as [<-|Hne].
      * rewrite zassoc_get_set_same. intros H; inversion H; subst e0. exact Hi.
      * rewrite zassoc_get_set_other by exact Hne. apply Hid.
    + intros i. unfold abs, put; cbn [w_entities]. rewrite Hi.
      destruct (Z.eqb i id) eqn:E.
      * apply Z.eqb_eq in E. subst i. rewrite zassoc_get_set_same. split; [exact Hty|].
        intros k0. rewrite Hget. reflexivity.
      * rewrite zassoc_get_set_other by (intros ->; now rewrite Z.eqb_refl in E). apply Hs.
  - destruct (zassoc_get id (w_entities w)) as [en|] eqn:Eg.
    + pose proof (Hid _ _ Eg) as Hi. split.
      * intros i e0. unfold put; cbn [w_entities set_client en_id]. rewrite Hi.
        destruct (Z.eq_dec id i) as [<-|Hne].
        -- rewrite zassoc_get_set_same. intros H; inversion H; subst e0. exact Hi.
        -- rewrite zassoc_get_set_other by exact Hne. apply Hid.
      * intros i. unfold abs, put; cbn [w_entities set_client en_id]. rewrite Hi.
        pose proof (Hs id) as Hsid. unfold abs in Hsid. rewrite Eg in Hsid.
        destruct (Z.eqb i id) eqn:E.
        -- apply Z.eqb_eq in E. subst i. rewrite zassoc_get_set_same. cbn [en_type en_client].
           destruct (s id) as [[t2 f2]|]; [|contradiction]. destruct Hsid as [Ht Hf]. split; [exact Ht|].
           intros k0. unfold upd. destruct (String.eqb k0 k) eqn:Ek.
           ++ apply String.eqb_eq in Ek. subst. cbn [set_client en_client]. apply assoc_get_set_same.
           ++ cbn [set_client en_client]. rewrite assoc_get_set_other by (intros ->; now rewrite String.eqb_refl in Ek). apply Hf.
        -- rewrite zassoc_get_set_other by (intros ->; now rewrite Z.eqb_refl in E). apply Hs.
    + split; [exact Hid|]. intros i. pose proof (Hs i) as Hsi. pose proof (Hs id) as Hsid.
      unfold abs in *. rewrite Eg in Hsid. destruct (Z.eqb i id) eqn:E.
      * apply Z.eqb_eq in E. subst i. rewrite Eg. destruct (s id) as [[? ?]|]; [contradiction|exact I].
      * exact Hsi.
Qed.

(* C05: after ANY history the model's entity table is the last-writer-wins fold of the events *)
Theorem world_refines_spec vol_of : forall evs w s,
  ids_ok w -> same (abs w) s ->
  same (abs (fold_left (conc_step vol_of) evs w)) (fold_left spec_step evs s).
Proof.
  induction evs as [|e evs IH]; intros w s Hid Hs; [exact Hs|].
  cbn [fold_left]. destruct (step_refines vol_of w s e Hid Hs) as [Hid' Hs']. now apply IH.
Qed.

(* corollary: events addressed to one id never change another id (entities of the same type included) *)
Corollary entities_independent s e i :
  (match e with EvCreate id _ _ | EvUpdate id _ _ => id end) <> i -> spec_step s e i = s i.
Proof.
  destruct e as [id ty kvs|id k v]; cbn [spec_step]; intros Hne;
  (destruct (Z.eqb i id) eqn:E; [apply Z.eqb_eq in E; congruence|reflexivity]).
Qed.

(* ---- byte level: what a property-update packet does IS the update event ---- *)
Definition enc_update (id pid : N) (val : bytes) : bytes :=
  le_encode 4 id ++ le_encode 4 pid ++ le_encode 4 (N.of_nat (length val)) ++ val.

Section Lift.
Variable St : setup.
Theorem update_packet_is_event w id pid val e m p v rest :
  id < 2 ^ 32 -> pid < 2 ^ 32 -> N.of_nat (length val) < 2 ^ 32 ->
  zassoc_get (Z.of_N id) (w_entities w) = Some e -> assoc_get (en_type e) (s_models St) = Some m ->
  nthN (e_client m) pid = Some p -> decode 1 (p_type p) val = Ok (v, rest) ->
  ids_ok w ->
  snd (step_class St w EntityProperty (enc_update id pid val)) = None /\
  w_entities (fst (step_class St w EntityProperty (enc_update id pid val))) =
  w_entities (conc_step (fun _ => []) w (EvUpdate (Z.of_N id) (p_name p) v)).
Proof.
  intros Hid Hpid Hlen He Hm Hp Hd Hok. unfold enc_update. cbn [step_class conc_step].
  rewrite (get_u_app 4) by (change (256 ^ N.of_nat 4) with (2 ^ 32); exact Hid). cbn [bind].
  rewrite (get_u_app 4) by (change (256 ^ N.of_nat 4) with (2 ^ 32); exact Hpid). cbn [bind].
  unfold binstream.
  rewrite (get_u_app 4) by (change (256 ^ N.of_nat 4) with (2 ^ 32); exact Hlen). cbn [bind].
  rewrite read_uptoN_all. cbn [bind].
  unfold lookup_entity. rewrite He. cbn [bind]. unfold model_of. rewrite Hm. cbn [bind]. rewrite Hp, Hd. cbn [bind].
  cbn [atomic fst snd]. split; reflexivity.
Qed.

(* ... and a packet for an unknown entity changes nothing *)
Theorem update_packet_unknown_entity w id pid val :
  id < 2 ^ 32 -> pid < 2 ^ 32 -> N.of_nat (length val) < 2 ^ 32 ->
  zassoc_get (Z.of_N id) (w_entities w) = None ->
  step_class St w EntityProperty (enc_update id pid val) = (w, Some EKey).
Proof.
  intros Hid Hpid Hlen He. unfold enc_update. cbn [step_class].
  rewrite (get_u_app 4) by (change (256 ^ N.of_nat 4) with (2 ^ 32); exact Hid). cbn [bind].
  rewrite (get_u_app 4) by (change (256 ^ N.of_nat 4) with (2 ^ 32); exact Hpid). cbn [bind].
  unfold binstream.
  rewrite (get_u_app 4) by (change (256 ^ N.of_nat 4) with (2 ^ 32); exact Hlen). cbn [bind].
  rewrite read_uptoN_all. cbn [bind].
  unfold lookup_entity. rewrite He. reflexivity.
Qed.
End Lift.
Print Assumptions world_refines_spec.
Print Assumptions update_packet_is_event.
