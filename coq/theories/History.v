(* C13: the process-global subscription tables threaded through a SEQUENCE of parses.
   A parse of a replay of version v first constructs v's controller, which registers its keys (each registration
   REPLACES what the key held before - C07-a), then plays the events; an event whose key is held by another version's
   (stale) callback would run foreign code that can fail or misbehave.  Definitions only. *)
From RU Require Import Base.
Open Scope string_scope.

Record vinfo := {
  vi_keys : list string;      (* keys its controller registers: "<Entity>_<member>" *)
  vi_hits : list string       (* those keys, registered by ANY bundled controller, that name a client method / property of
                                 THIS version's definitions (the only keys an event of such a replay can carry) *)
}.
Definition owner := nat.      (* index of the version whose callback a key currently holds *)
Definition gtable := list (string * owner).

Definition mem (k : string) (l : list string) : bool := existsb (String.eqb k) l.
Fixpoint register (g : gtable) (o : owner) (ks : list string) : gtable :=
  match ks with [] => g | k :: r => register (assoc_set k o g) o r end.

(* who handles an event with key k during a parse by version o (after its registration) *)
Inductive handler := Current | Nobody | Stale (o' : owner).
Definition dispatch (g : gtable) (o : owner) (k : string) : handler :=
  match assoc_get k g with
  | None => Nobody
  | Some o' => if Nat.eqb o' o then Current else Stale o'
  end.
(* a parse: register, then dispatch every event; the result depends on the events and on who handles them *)
Definition parse_dispatch (vs : list vinfo) (g : gtable) (o : owner) (events : list string) : list handler * gtable :=
  let g' := register g o (vi_keys (nth o vs {| vi_keys := []; vi_hits := [] |})) in
  (map (dispatch g' o) events, g').

(* the finite condition, checked exhaustively for the working tree by a generated instance theorem *)
Definition stale_safe_b (vs : list vinfo) : bool :=
  forallb (fun u => forallb (fun v => forallb (fun k => mem k (vi_keys v) || negb (mem k (vi_hits v))) (vi_keys u)) vs) vs.
