(* Model.Version: mirrors ReplayParser._get_hidden_data (version string normalisation per game),
   clients/*/helper.py (get_controller / get_definitions), clients/*/player.py (_get_definitions, _get_controller,
   _get_packets_mapping) and Alias._initialize ("Not supported version").  Definitions only.
   Python str is modelled by its UTF-8 bytes as a Coq string; every separator involved is ASCII or a whole literal. *)
From RU Require Import Base.
Open Scope string_scope.

(* ---- str.replace(pat, rep), str.split(sep), sep.join(parts), s[n:] ---- *)
Fixpoint prefixb (p s : string) : bool :=
  match p, s with
  | EmptyString, _ => true
  | String a p', String b s' => Ascii.eqb a b && prefixb p' s'
  | _, _ => false
  end.
Fixpoint drop (n : nat) (s : string) : string :=
  match n, s with O, _ => s | S n', String _ r => drop n' r | _, EmptyString => EmptyString end.
(* non-overlapping, left to right; pat must be non-empty (it always is here) *)
Fixpoint replace_fuel (fuel : nat) (pat rep s : string) : string :=
  match fuel with
  | O => s
  | S f =>
    match s with
    | EmptyString => EmptyString
    | String c r => if prefixb pat s then rep ++ replace_fuel f pat rep (drop (String.length pat) s)
                    else String c (replace_fuel f pat rep r)
    end
  end.
Definition replace_all (pat rep s : string) : string := replace_fuel (S (String.length s)) pat rep s.
(* split on a one-character separator: always at least one (possibly empty) part *)
Fixpoint split_acc (sep : ascii) (s : string) (cur : string) : list string :=
  match s with
  | EmptyString => [cur]
  | String c r => if Ascii.eqb c sep then cur :: split_acc sep r EmptyString else split_acc sep r (cur ++ String c EmptyString)
  end.
Definition split_on (sep : ascii) (s : string) : list string := split_acc sep s EmptyString.
Fixpoint join (sep : string) (l : list string) : string :=
  match l with [] => EmptyString | [x] => x | x :: r => x ++ sep ++ join sep r end.

(* the literals of replay_parser.py (tied to the source by generated instance theorems) *)
Definition nbsp : string := String (Ascii.ascii_of_N 194) (String (Ascii.ascii_of_N 160) EmptyString).
Definition wot_prefix : string := "World" ++ nbsp ++ "of" ++ nbsp ++ "Tanks v.".
Definition wowp_prefix_len : nat := 19.      (* len('World of Warplanes ') *)

Definition norm_wows (s : string) : list string := split_on "," (replace_all " " "" s).
Definition norm_wot (s : string) : string :=
  join "." (firstn 3 (split_on "." (replace_all "#" "" (replace_all " " "." (replace_all wot_prefix "" s))))).
Definition norm_wowp (s : string) : list string := split_on "." (replace_all " " "" (drop wowp_prefix_len s)).

(* ---- the bundled inventory ---- *)
Record vdir := { vd_name : string;          (* directory name under clients/<game>/versions *)
                 vd_controller : bool;      (* importing it yields a module with a BattleController attribute *)
                 vd_alias : bool }.         (* scripts/entity_defs/alias.xml exists *)
Fixpoint find_dir (name : string) (inv : list vdir) : option vdir :=
  match inv with [] => None | d :: r => if String.eqb (vd_name d) name then Some d else find_dir name r end.

Inductive vgame := VWows | VWot | VWowp.
Inductive verr := VNotSupported (* RuntimeError "version ... is not supported currently" / "Not supported version" *)
                | VImport (* wot: ModuleNotFoundError re-raised *)
                | VAssert (* module without BattleController *)
                | VBadNumber (* packaging rejects the version string *).

(* helper.get_controller *)
Definition get_controller (g : vgame) (inv : list vdir) (v : string) : vdir + verr :=
  match find_dir v inv with
  | None => inr (match g with VWot => VImport | _ => VNotSupported end)
  | Some d => if vd_controller d then inl d else inr VAssert
  end.
(* helper.get_definitions -> Definitions -> Alias._initialize *)
Definition get_definitions (inv : list vdir) (v : string) : vdir + verr :=
  match find_dir v inv with
  | Some d => if vd_alias d then inl d else inr VNotSupported
  | None => inr VNotSupported
  end.
(* try four components, on RuntimeError (only) three *)
Definition fallback (f : string -> vdir + verr) (parts : list string) : vdir + verr :=
  match f (join "_" (firstn 4 parts)) with
  | inr VNotSupported => f (join "_" (firstn 3 parts))
  | r => r
  end.

(* packaging.version on purely numeric dotted strings: compare the release tuples with trailing zeros stripped *)
Definition digitv (c : ascii) : option N :=
  let n := N_of_ascii c in if ((48 <=? n) && (n <=? 57))%N then Some (n - 48)%N else None.
Fixpoint parse_num (acc : N) (s : string) : option N :=
  match s with
  | EmptyString => Some acc
  | String c r => match digitv c with Some d => parse_num (10 * acc + d)%N r | None => None end
  end.
Definition parse_component (s : string) : option N := match s with EmptyString => None | _ => parse_num 0%N s end.
Fixpoint parse_release (parts : list string) : option (list N) :=
  match parts with
  | [] => Some []
  | p :: r => match parse_component p, parse_release r with Some n, Some l => Some (n :: l) | _, _ => None end
  end.
Fixpoint strip_trailing_zeros (l : list N) : list N :=
  match l with
  | [] => []
  | x :: r => match strip_trailing_zeros r with
              | [] => if (x =? 0)%N then [] else [x]
              | r' => x :: r'
              end
  end.
(* tuple comparison: lexicographic, a proper prefix is smaller *)
Fixpoint tuple_ge (a b : list N) : bool :=
  match a, b with
  | _, [] => true
  | [], _ :: _ => false
  | x :: a', y :: b' => if (y <? x)%N then true else if (x <? y)%N then false else tuple_ge a' b'
  end.
Definition release_ge (a b : list N) : bool := tuple_ge (strip_trailing_zeros a) (strip_trailing_zeros b).

Record selection := { sel_controller : string; sel_definitions : string; sel_new_table : bool }.

(* ControlledPlayerBase.__init__: controller first, then definitions, then the packet table *)
Definition select_version (g : vgame) (inv : list vdir) (parts : list string) : selection + verr :=
  match g with
  | VWot =>
      (* wot gets ONE string "a.b.c"; helper replaces '.' by '_' *)
      let v := replace_all "." "_" (join "." parts) in
      match get_controller VWot inv v with
      | inr e => inr e
      | inl c => match get_definitions inv v with
                 | inr e => inr e
                 | inl d => inl {| sel_controller := vd_name c; sel_definitions := vd_name d; sel_new_table := false |}
                 end
      end
  | _ =>
      match fallback (get_controller g inv) parts with
      | inr e => inr e
      | inl c =>
        match fallback (get_definitions inv) parts with
        | inr e => inr e
        | inl d =>
          match g with
          | VWows => match parse_release parts with
                     | None => inr VBadNumber
                     | Some rel => inl {| sel_controller := vd_name c; sel_definitions := vd_name d; sel_new_table := release_ge rel [12; 6; 0]%N |}
                     end
          | _ => inl {| sel_controller := vd_name c; sel_definitions := vd_name d; sel_new_table := false |}
          end
        end
      end
  end.

(* ---- C18: where get_definitions may look.  helper.get_definitions builds the PATH
   os.path.join(BASE_DIR, 'versions', version.replace('.', '_')): every '.' of the (file-controlled) version string is
   replaced first, so no path component can be '..'; and it is only reached after get_controller accepted the
   four- or three-component name as a module name, which cannot start with '/'. ---- *)
Definition defs_path (v : string) : string := replace_all "." "_" v.
