(* C16 - the library's own writers and readers are mutual inverses.  Statements only (LibWriteProofs.v). *)
From RU Require Import Base Types WireSpec TypesProofs LibWrite LibWriteProofs.
Open Scope N_scope.

(* FULL STATEMENT: for every writable type and every value, writing then reading yields the value and consumes exactly what was
   written, and unrepresentable values are refused.  With the three writer defects repaired in /repo (fixed: C16-a/b/c) it holds of the
   model for every writable type tree with distinct field names and every typed value: *)

(* the writers produce exactly the statement's wire encoding - non-ASCII text, None for an AllowNone dict and fixed-size arrays included *)
Theorem C16_lib_write_is_wire_encode : forall t hdr v,
  writable t = true -> wf_keys t -> has_type write_limits t v ->
  lib_write hdr t v = Ok (wire_encode hdr t v).
Proof. exact lib_write_is_wire_encode. Qed.
Print Assumptions C16_lib_write_is_wire_encode.
(* ... so the library's reader reads back exactly the value and leaves exactly what followed *)
Theorem C16_lib_write_read : forall t hdr v bs rest,
  writable t = true -> wf_keys t -> has_type write_limits t v ->
  lib_write hdr t v = Ok bs -> decode hdr t (bs ++ rest) = Ok (v, rest).
Proof. exact lib_write_read. Qed.
Print Assumptions C16_lib_write_read.

(* unrepresentable values are refused, never written as something else *)
Theorem C16_refused_uint : forall w z hdr, (z < 0 \/ 256 ^ Z.of_nat w <= z)%Z -> lib_write hdr (TUInt w) (VInt z) = Err EStruct.
Proof. exact refused_out_of_range_uint. Qed.
Theorem C16_refused_int : forall w z hdr, (z < - 2 ^ (8 * Z.of_nat w - 1) \/ 2 ^ (8 * Z.of_nat w - 1) <= z)%Z -> lib_write hdr (TInt w) (VInt z) = Err EStruct.
Proof. exact refused_out_of_range_int. Qed.
Theorem C16_refused_long_blob : forall b hdr, 65536 <= len b -> lib_write hdr TBlob (VBytes b) = Err EStruct.
Proof. exact refused_long_blob. Qed.
Theorem C16_refused_arg_count : forall hdr ts vs, length ts <> length vs -> write_args hdr ts vs = Err ERuntime.
Proof. exact refused_arg_count. Qed.

(* the three former holes, as theorems about the repaired writers *)
Theorem C16_none_for_allownone : forall fs hdr, lib_write hdr (TDict fs true) VNone = Ok [x00] /\ decode hdr (TDict fs true) [x00] = Ok (VNone, []).
Proof. exact none_for_allownone. Qed.
Theorem C16_none_refused_without_allownone : forall fs hdr, lib_write hdr (TDict fs false) VNone = Err EType.
Proof. exact none_refused_without_allownone. Qed.
Example C16_non_ascii_text_roundtrip :
  lib_write 1 TString (VStr [xc3; xa9]) = Ok [x02; xc3; xa9] /\ decode 1 TString [x02; xc3; xa9] = Ok (VStr [xc3; xa9], []).
Proof. exact non_ascii_text_roundtrip. Qed.
Theorem C16_refused_fixed_array_length : forall e n et l hdr, length l <> n -> lib_write hdr (TArray e (Some n)) (VList et l) = Err EValue.
Proof. exact refused_fixed_array_length. Qed.
Print Assumptions C16_none_for_allownone.
Print Assumptions C16_refused_fixed_array_length.
