(* C16 - the library's own writers and readers are mutual inverses.  Statements only (LibWriteProofs.v). *)
From RU Require Import Base Types WireSpec TypesProofs LibWrite LibWriteProofs.
Open Scope N_scope.

(* FULL STATEMENT: for every writable type and every value, writing then reading yields the value and consumes exactly
   what was written, and unrepresentable values are refused.  It is FALSE of the faithful model in three places
   (the refuted examples below, known findings C16-a/b/c). *)

(* what is proved: on every writable type tree with distinct field names, for every typed value without those three
   holes (ASCII text, no None for an AllowNone dict; typing forces fixed arrays to their declared length), the writers
   produce exactly the statement's wire encoding ... *)
Theorem C16_lib_write_is_wire_encode : forall t hdr v,
  writable t = true -> wf_keys t -> has_type write_limits t v -> plain t v ->
  lib_write hdr t v = Ok (wire_encode hdr t v).
Proof. exact lib_write_is_wire_encode. Qed.
Print Assumptions C16_lib_write_is_wire_encode.
(* ... so the library's reader reads back exactly the value and leaves exactly what followed *)
Theorem C16_lib_write_read : forall t hdr v bs rest,
  writable t = true -> wf_keys t -> has_type write_limits t v -> plain t v ->
  lib_write hdr t v = Ok bs -> decode hdr t (bs ++ rest) = Ok (v, rest).
Proof. exact lib_write_read. Qed.
Print Assumptions C16_lib_write_read.

(* unrepresentable values are refused, never written as something else *)
Theorem C16_refused_uint : forall w z hdr, (z < 0 \/ 256 ^ Z.of_nat w <= z)%Z -> lib_write hdr (TUInt w) (VInt z) = Err EStruct.
Proof. exact refused_out_of_range_uint. Qed.
Theorem C16_refused_int : forall w z hdr, (z < - 2 ^ (8 * Z.of_nat w - 1) \/ 2 ^ (8 * Z.of_nat w - 1) <= z)%Z -> lib_write hdr (TInt w) (VInt z) = Err EStruct.
Proof. exact refused_out_of_range_int. Qed.
Theorem C16_refused_long_blob : forall b hdr, 65536 <= len b -> lib_write hdr TBlob (VBytes b) = Err EStruct.
Proof. exact refused_long_blob. Qed.
Theorem C16_refused_arg_count : forall hdr ts vs, length ts <> length vs -> write_args hdr ts vs = Err ERuntime.
Proof. exact refused_arg_count. Qed.

(* the refutations *)
Example C16_refuted_none_for_allownone :
  lib_write 1 (TDict [("a"%string, TUInt 1)] true) VNone = Err EType /\ wire_encode 1 (TDict [("a"%string, TUInt 1)] true) VNone = [x00].
Proof. exact refuted_none_for_allownone. Qed.
Example C16_refuted_non_ascii_text :
  exists bs, lib_write 1 TString (VStr [xc3; xa9]) = Ok bs /\ decode 1 TString (bs ++ []) <> Ok (VStr [xc3; xa9], []).
Proof. exact refuted_non_ascii_text. Qed.
Example C16_refuted_fixed_array_length :
  lib_write 1 (TArray (TUInt 1) (Some 3%nat)) (VList (TUInt 1) [VInt 1; VInt 2]) = Ok [x01; x02].
Proof. exact refuted_fixed_array_length. Qed.
