(* C12 - strict mode fails fast, lenient mode skips exactly the failing packets.  Statements only (WorldProofs.v). *)
From RU Require Import Base Types Defs BitReader World WorldProofs Layout LayoutProofs Run FrameProofs C12Bytes C12Example.

(* strict: the result is the fold over the prefix before the first failing packet, and the error is that packet's *)
Theorem C12_strict_stops_at_first_failure : forall St ps w w1 e,
  play_strict St w ps = (w1, Some e) ->
  exists pre p post w0, ps = (pre ++ p :: post)%list /\ play_strict St w pre = (w0, None) /\ step St w0 p = (w1, Some e).
Proof. exact strict_stops_at_first_failure. Qed.
Print Assumptions C12_strict_stops_at_first_failure.

(* lenient: every later packet is applied exactly as in a stream WITHOUT the failing ones (for failures that leave
   no trace), and that stream never fails *)
Theorem C12_lenient_is_strict_on_survivors : forall St ps w,
  (forall w0 p w1 e, In p ps -> step St w0 p = (w1, Some e) -> w1 = w0) ->
  play_strict St w (survivors St w ps) = (play_lenient St w ps, None).
Proof. exact lenient_is_strict_on_survivors. Qed.
Print Assumptions C12_lenient_is_strict_on_survivors.

(* the failure classes that leave no trace: every packet class except player creation, entity creation and own-player
   position fails atomically - unknown entity, id out of range, undecodable value, malformed layout *)
Theorem C12_atomic_failures : forall St c w pl w' e,
  atomic_class c = true -> step_class St w c pl = (w', Some e) -> w' = w.
Proof. exact atomic_failures. Qed.
Print Assumptions C12_atomic_failures.
(* a failing entity-creation packet never registers the entity (what remains are the calls already made to
   subscribers of its earlier values - stated, not hidden) *)
Theorem C12_create_failure_keeps_state : forall St w pl w' e,
  step_class St w EntityCreate pl = (w', Some e) -> same_state w' w.
Proof. exact create_failure_keeps_state. Qed.

(* no failing packet: both modes give the identical result *)
Theorem C12_no_failure_modes_agree : forall St ps w,
  (forall w0 p, In p ps -> snd (step St w0 p) = None) ->
  play_strict St w ps = (play_lenient St w ps, None).
Proof. exact no_failure_modes_agree. Qed.
Print Assumptions C12_no_failure_modes_agree.

(* the byte layout of every packet class is a TABLE (Layout.class_layout) that the translator tools/gen_packets.py regenerates from the
   __init__ of the packet classes on every run (generated instance theorems: translated layout = class_layout); the model's step function
   is the table-driven one: the header fields are read by the generic parser from that table and handed to the class's handler *)
Theorem C12_step_is_table_driven : forall St w c pl, step_class St w c pl = step_layout St w c pl.
Proof. exact step_class_is_layout. Qed.
Print Assumptions C12_step_is_table_driven.

(* from the BYTES of the stream: the lenient run of the byte stream of well-formed packets reports no error and equals the STRICT run of the byte
   stream of the survivors (the packets that do not fail), framed again - for failures that leave no trace (C12_atomic_failures) *)
Theorem C12_lenient_bytes_is_strict_on_survivor_bytes : forall St ps,
  Forall wf_packet ps ->
  (forall w0 p w1 e, In p ps -> step St w0 p = (w1, Some e) -> w1 = w0) ->
  Run.run_strict St (enc_all (survivors St empty_world ps)) = (fst (Run.run_lenient St (enc_all ps)), None) /\
  snd (Run.run_lenient St (enc_all ps)) = None.
Proof. exact lenient_bytes_is_strict_on_survivor_bytes. Qed.
Print Assumptions C12_lenient_bytes_is_strict_on_survivor_bytes.

(* inhabited: a world with entity 7 and three update packets of which the middle one names an entity that does not exist - the hypothesis of
   C12_lenient_is_strict_on_survivors holds, the middle packet fails (strict: KeyError), two packets survive, and the two runs agree *)
Example C12_example_history :
  (forall w0 p w1 e, In p x_ps -> step x_St w0 p = (w1, Some e) -> w1 = w0) /\
  length (survivors x_St x_w0 x_ps) = 2%nat /\
  snd (play_strict x_St x_w0 x_ps) = Some EKey /\
  play_strict x_St x_w0 (survivors x_St x_w0 x_ps) = (play_lenient x_St x_w0 x_ps, None).
Proof. exact c12_example. Qed.
