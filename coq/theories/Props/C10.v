(* C10 - every bundled version is internally consistent.  Statements only (BindProofs.v).
   The exhaustive part is the GENERATED instance theorem inst_versions_consistent (build/gen/Inst_C10.v): over the table
   of all bundled directories x all their subscriptions, regenerated from the working tree on every run,
     forallb (fun p => existsb (pair_eqb p) gen_known) (failures gen_facts) = true
   i.e. every (version, key) that is not consistent is a listed finding.  The theorems below say what that means. *)
From RU Require Import Base Bind BindProofs.
Open Scope string_scope.

(* a version none of whose pairs occurs among the failures is fully consistent: definitions load, a controller exists
   and constructs, every subscription targets an existing member and its callback binds the declared arguments *)
Theorem C10_failures_complete : forall vs v, In v vs -> (forall k, ~ In (vlabel v, k) (failures vs)) -> version_ok v = true.
Proof. exact failures_complete. Qed.
Print Assumptions C10_failures_complete.

(* the binding model rejects what CPython rejects ... *)
Theorem C10_bind_too_many : forall sig npos ks, has_varpos sig = false -> (length (filter is_pos sig) < npos)%nat -> bind sig npos ks = false.
Proof. exact bind_too_many. Qed.
Theorem C10_bind_unknown_keyword : forall sig npos k ks, has_varkw sig = false ->
  mem k (map pa_name (filter is_pos sig ++ filter is_kwonly sig)%list) = false -> bind sig npos (k :: ks) = false.
Proof. exact bind_unknown_keyword. Qed.
Theorem C10_bind_missing_required : forall sig npos ks p, In p (skipn npos (filter is_pos sig) ++ filter is_kwonly sig)%list ->
  required p = true -> mem (pa_name p) ks = false -> bind sig npos ks = false.
Proof. exact bind_missing_required. Qed.
(* ... and accepts exactly the declared shape *)
Theorem C10_bind_exact_positional : forall names,
  bind (map (fun n => {| pa_name := n; pa_kind := PosOrKw false |}) names) (length names) [] = true.
Proof. exact bind_exact_positional. Qed.
Print Assumptions C10_bind_missing_required.

(* the mismatch that 15 bundled wows versions carry: the definition declares three NAMED arguments, the callback takes
   one positional parameter *)
Example C10_refuted_example :
  bind [{| pa_name := "avatar"; pa_kind := PosOrKw false |}; {| pa_name := "pickle_data"; pa_kind := PosOrKw false |}]
       1 ["playersData"; "botsData"; "observersData"] = false.
Proof. reflexivity. Qed.
