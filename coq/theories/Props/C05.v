(* C05 - entity state = last-writer-wins replay of creation and property packets.  Statements only. *)
From RU Require Import Base Types Defs BitReader World Run WireSpec FrameProofs LwwProofs WorldProofs CreateProofs PlayerProofs StreamProofs Layout LayoutProofs.
From Coq Require Import Lia.
Open Scope N_scope.

(* after ANY history of creation / update events (any number, any ids, re-creation included) the model's entity table,
   abstracted to  id -> (type, property -> value), is the obvious last-writer-wins fold; pointwise equality,
   no extensionality axiom *)
Theorem C05_world_refines_spec : forall vol_of evs w s,
  ids_ok w -> same (abs w) s ->
  same (abs (fold_left (conc_step vol_of) evs w)) (fold_left spec_step evs s).
Proof. exact world_refines_spec. Qed.
Print Assumptions C05_world_refines_spec.

(* events addressed to one id never change another id - entities of the same type included *)
Theorem C05_entities_independent : forall s e i,
  (match e with EvCreate id _ _ | EvUpdate id _ _ => id end) <> i -> spec_step s e i = s i.
Proof. exact entities_independent. Qed.
Print Assumptions C05_entities_independent.

(* byte level: a property-update packet whose value decodes IS the update event on the property its exposed index names
   (succeeds, and the entity table afterwards is the event's), and one addressed to an unknown id changes nothing *)
Theorem C05_update_packet_is_event : forall St w id pid val e m p v rest,
  id < 2 ^ 32 -> pid < 2 ^ 32 -> N.of_nat (length val) < 2 ^ 32 ->
  zassoc_get (Z.of_N id) (w_entities w) = Some e -> assoc_get (en_type e) (s_models St) = Some m ->
  nthN (e_client m) pid = Some p -> decode 1 (p_type p) val = Ok (v, rest) ->
  ids_ok w ->
  snd (step_class St w EntityProperty (enc_update id pid val)) = None /\
  w_entities (fst (step_class St w EntityProperty (enc_update id pid val))) =
  w_entities (conc_step (fun _ => []) w (EvUpdate (Z.of_N id) (p_name p) v)).
Proof. exact update_packet_is_event. Qed.
Print Assumptions C05_update_packet_is_event.
Theorem C05_update_packet_unknown_entity : forall St w id pid val,
  id < 2 ^ 32 -> pid < 2 ^ 32 -> N.of_nat (length val) < 2 ^ 32 ->
  zassoc_get (Z.of_N id) (w_entities w) = None ->
  step_class St w EntityProperty (enc_update id pid val) = (w, Some EKey).
Proof. exact update_packet_unknown_entity. Qed.

(* the id announced by the base-player packet is reported as the recording player *)
Theorem C05_player_id_reported : forall St w pl w',
  step_class St w BasePlayerCreate pl = (w', None) ->
  exists id r, get_s 4 pl = Ok (id, r) /\ w_player w' = Some id.
Proof. exact player_id_reported. Qed.
Print Assumptions C05_player_id_reported.

(* byte level: an entity-creation packet IS the creation event: the entity table afterwards holds the entity the packet names, of the
   type its type index names, with exactly the (possibly partial) property set of its state block *)
Theorem C05_create_packet_is_event : forall St w id et pad extra items name m,
  (- 2 ^ 31 <= id < 2 ^ 31)%Z -> (- 2 ^ 15 <= et < 2 ^ 15)%Z -> length pad = 32%nat ->
  length extra = (match s_game St with Wot => 4 | _ => 0 end)%nat ->
  (length items < 256)%nat -> N.of_nat (S (length (flat_map enc_item items))) < 2 ^ 32 ->
  entity_by_index (s_names St) et = Some name -> assoc_get name (s_models St) = Some m ->
  Forall (item_ok m) items ->
  snd (step_class St w EntityCreate (enc_create id et pad extra items)) = None /\
  w_entities (fst (step_class St w EntityCreate (enc_create id et pad extra items))) =
  w_entities (conc_step (fun _ => map (fun t => (t, None)) (e_vol m)) w
                (EvCreate id name (map (fun it => (p_name (snd (fst it)), snd it)) items))).
Proof. exact create_packet_is_event. Qed.
Print Assumptions C05_create_packet_is_event.

(* byte level, whole histories: ANY sequence of creation packets (re-creation included), property-update packets and updates
   addressed to unknown ids, played through the real step function, leaves an entity table whose abstraction is the
   last-writer-wins fold of the events the packets denote *)
Theorem C05_packets_refine_spec : forall St w pkts evs, replays St w pkts evs -> forall s,
  ids_ok w -> same (abs w) s ->
  ids_ok (play_packets St w pkts) /\ same (abs (play_packets St w pkts)) (fold_left spec_step evs s).
Proof. exact packets_refine_spec. Qed.
Print Assumptions C05_packets_refine_spec.

(* byte level, ALL FOUR packet kinds of the statement - base-player, cell-player, entity creation, property update - in any order and
   number: the cell-player packet is one update per client-visible property (definition order) of a known entity or the creation of an
   Avatar with those values; the base-player packet creates the Avatar if the id is new and never touches client properties or types *)
Theorem C05_history_refines_spec : forall St w pkts evs, history St w pkts evs -> forall s,
  ids_ok w -> same (abs w) s ->
  ids_ok (play_packets St w pkts) /\ same (abs (play_packets St w pkts)) (fold_left spec_step evs s).
Proof. exact history_refines_spec. Qed.
Print Assumptions C05_history_refines_spec.
(* from the BYTES of the packet stream: a stream that is the concatenation of well-formed frames, whose type ids the dialect's table maps
   to the four packet kinds, is played by the whole lenient run (framing + dispatch + step) into a table that refines the fold of the
   events the packets denote; the run reports no error *)
Theorem C05_stream_refines_spec : forall St, s_game St <> Wowp -> forall ps cps evs,
  Forall wf_packet ps -> classified St ps cps -> history St empty_world cps evs ->
  snd (Run.run_lenient St (enc_all ps)) = None /\
  ids_ok (fst (Run.run_lenient St (enc_all ps))) /\
  same (abs (fst (Run.run_lenient St (enc_all ps)))) (fold_left spec_step evs spec_init).
Proof. exact stream_refines_spec. Qed.
Print Assumptions C05_stream_refines_spec.
(* ... and the base-player packet makes its id the recording player (known or new id) *)
Theorem C05_base_player_sets_player : forall St w s id ty e m vs,
  s_game St <> Wot -> (- 2 ^ 31 <= id < 2 ^ 31)%Z -> length ty = 2%nat -> N.of_nat (length (enc_props (e_base m) vs)) < 2 ^ 32 ->
  zassoc_get id (w_entities w) = Some e -> assoc_get (en_type e) (s_models St) = Some m -> typed_props (e_base m) vs ->
  ids_ok w -> same (abs w) s ->
  let r := step_class St w BasePlayerCreate (enc_base id ty (enc_props (e_base m) vs)) in
  snd r = None /\ w_player (fst r) = Some id /\ ids_ok (fst r) /\ same (abs (fst r)) s.
Proof. exact base_player_existing. Qed.

(* non-vacuity: a definition set with one entity type and two properties; create id 7 with one property, update the other, re-create
   id 7 with a different value, update an id that does not exist: the hypotheses hold and the table is what the spec says *)
Local Open Scope string_scope.
Definition ex_props : list prop := [{| p_name := "hp"; p_type := TUInt 2; p_flags := 0 |}; {| p_name := "name"; p_type := TString; p_flags := 0 |}].
Definition ex_model : emodel := {| e_methods := []; e_client := ex_props; e_internal := ex_props; e_cell := []; e_base := []; e_vol := ["position"] |}.
Definition ex_St : setup :=
  {| s_game := Wows; s_table := []; s_names := ["Ship"]; s_models := [("Ship", ex_model)]; s_msubs := []; s_mcounts := []; s_psubs := []; s_nsubs := [] |}.
Definition ex_hp := {| p_name := "hp"; p_type := TUInt 2; p_flags := 0 |}.
Definition ex_pad : bytes := repeat x00 32.
Definition ex_pkts : list (pclass * bytes) :=
  [(EntityCreate, enc_create 7 1 ex_pad [] [(0, ex_hp, VInt 500)]);
   (EntityProperty, enc_update 7 0 [x2c; x01]);
   (EntityProperty, enc_update 9 0 [x2c; x01]);
   (EntityCreate, enc_create 7 1 ex_pad [] [(0, ex_hp, VInt 2)])].
Ltac zrange := split; [apply Z.leb_le | apply Z.ltb_lt]; vm_compute; reflexivity.
Ltac nlt := apply N.ltb_lt; vm_compute; reflexivity.
Ltac item1 := constructor; [| constructor]; split; [nlt | split; [reflexivity | cbn; lia]].
Ltac create_side := [> zrange | zrange | reflexivity | reflexivity | apply Nat.ltb_lt; vm_compute; reflexivity | nlt | reflexivity | reflexivity | item1 | ].
Example C05_example_history :
  replays ex_St empty_world ex_pkts
    [EvCreate 7 "Ship" [("hp", VInt 500)]; EvUpdate 7 "hp" (VInt 300); EvCreate 7 "Ship" [("hp", VInt 2)]] /\
  (match abs (play_packets ex_St empty_world ex_pkts) 7 with Some (ty, f) => ty = "Ship" /\ f "hp" = Some (VInt 2) /\ f "name" = None | None => False end).
Proof.
  split.
  - unfold ex_pkts.
    apply (rp_create ex_St empty_world 7 1 ex_pad [] [(0%N, ex_hp, VInt 500)] "Ship" ex_model); create_side.
    eapply (rp_update ex_St _ 7 0 [x2c; x01] _ ex_model ex_hp (VInt 300) []); [> nlt | nlt | nlt | vm_compute; reflexivity | reflexivity | reflexivity | reflexivity | ].
    apply (rp_update_unknown ex_St _ 9 0 [x2c; x01]); [> nlt | nlt | nlt | vm_compute; reflexivity | ].
    apply (rp_create ex_St _ 7 1 ex_pad [] [(0%N, ex_hp, VInt 2)] "Ship" ex_model); create_side.
    apply rp_nil.
  - vm_compute. repeat split; reflexivity.
Qed.

(* non-vacuity of the stream theorem: the same two-property definition set with a packet table; three framed packets (create 7,
   update 7.hp, update of the unknown id 9); the hypotheses hold, and the whole run from bytes gives hp = 300 *)
Definition ex_St2 : setup :=
  {| s_game := Wows; s_table := [(0%N, BasePlayerCreate); (5%N, EntityCreate); (7%N, EntityProperty)]; s_names := ["Ship"];
     s_models := [("Ship", ex_model)]; s_msubs := []; s_mcounts := []; s_psubs := []; s_nsubs := [] |}.
Definition ex_cps : list (pclass * bytes) :=
  [(EntityCreate, enc_create 7 1 ex_pad [] [(0%N, ex_hp, VInt 500)]);
   (EntityProperty, enc_update 7 0 [x2c; x01]);
   (EntityProperty, enc_update 9 0 [x2c; x01])].
Definition ex_time : bytes := [x00; x00; x80; x3f].
Definition ex_ps : list packet :=
  [{| pk_type := 5; pk_time := ex_time; pk_payload := enc_create 7 1 ex_pad [] [(0%N, ex_hp, VInt 500)] |};
   {| pk_type := 7; pk_time := ex_time; pk_payload := enc_update 7 0 [x2c; x01] |};
   {| pk_type := 7; pk_time := ex_time; pk_payload := enc_update 9 0 [x2c; x01] |}].
Example C05_example_stream :
  Forall wf_packet ex_ps /\ classified ex_St2 ex_ps ex_cps /\
  history ex_St2 empty_world ex_cps [EvCreate 7 "Ship" [("hp", VInt 500)]; EvUpdate 7 "hp" (VInt 300)] /\
  (match abs (fst (Run.run_lenient ex_St2 (enc_all ex_ps))) 7 with Some (ty, f) => ty = "Ship" /\ f "hp" = Some (VInt 300) | None => False end).
Proof.
  split; [|split; [|split]].
  - repeat constructor; try (apply N.ltb_lt; vm_compute; reflexivity).
  - vm_compute. repeat split; reflexivity.
  - unfold ex_cps.
    apply (h_create ex_St2 empty_world 7 1 ex_pad [] [(0%N, ex_hp, VInt 500)] "Ship" ex_model); create_side.
    eapply (h_update ex_St2 _ 7 0 [x2c; x01] _ ex_model ex_hp (VInt 300) []); [> nlt | nlt | nlt | vm_compute; reflexivity | reflexivity | reflexivity | reflexivity | ].
    apply (h_update_unknown ex_St2 _ 9 0 [x2c; x01]); [> nlt | nlt | nlt | vm_compute; reflexivity | ].
    apply h_nil.
  - vm_compute. split; reflexivity.
Qed.

(* the byte layout of every packet class is a TABLE (Layout.class_layout) that the translator tools/gen_packets.py regenerates from the
   __init__ of the packet classes on every run (generated instance theorems: translated layout = class_layout); the model's step function
   is the table-driven one: the header fields are read by the generic parser from that table and handed to the class's handler *)
Theorem C05_step_is_table_driven : forall St w c pl, step_class St w c pl = step_layout St w c pl.
Proof. exact step_class_is_layout. Qed.
Print Assumptions C05_step_is_table_driven.
