(* C05 - entity state = last-writer-wins replay of creation and property packets.  Statements only. *)
From RU Require Import Base Types Defs BitReader World LwwProofs WorldProofs.
Open Scope N_scope.

(* after ANY history of creation / update events (any number, any ids, re-creation included) the model's entity table,
   abstracted to  id -> (type, property -> value), is the obvious last-writer-wins fold; pointwise equality,
   no extensionality axiom *)
Theorem C05_world_refines_spec : forall vol_of evs w s,
  ids_ok w -> same (abs w) s ->
  same (abs (fold_left (conc_step vol_of) evs w)) (fold_left spec_step evs s).
Proof. exact world_refines_spec. Qed.
Print Assumptions C05_world_refines_spec.

(* events addressed to one id never change another id - entities of the same type included *)
Theorem C05_entities_independent : forall s e i,
  (match e with EvCreate id _ _ | EvUpdate id _ _ => id end) <> i -> spec_step s e i = s i.
Proof. exact entities_independent. Qed.
Print Assumptions C05_entities_independent.

(* byte level: a property-update packet whose value decodes IS the update event on the property its exposed index names
   (succeeds, and the entity table afterwards is the event's), and one addressed to an unknown id changes nothing *)
Theorem C05_update_packet_is_event : forall St w id pid val e m p v rest,
  id < 2 ^ 32 -> pid < 2 ^ 32 -> N.of_nat (length val) < 2 ^ 32 ->
  zassoc_get (Z.of_N id) (w_entities w) = Some e -> assoc_get (en_type e) (s_models St) = Some m ->
  nthN (e_client m) pid = Some p -> decode 1 (p_type p) val = Ok (v, rest) ->
  ids_ok w ->
  snd (step_class St w EntityProperty (enc_update id pid val)) = None /\
  w_entities (fst (step_class St w EntityProperty (enc_update id pid val))) =
  w_entities (conc_step (fun _ => []) w (EvUpdate (Z.of_N id) (p_name p) v)).
Proof. exact update_packet_is_event. Qed.
Print Assumptions C05_update_packet_is_event.
Theorem C05_update_packet_unknown_entity : forall St w id pid val,
  id < 2 ^ 32 -> pid < 2 ^ 32 -> N.of_nat (length val) < 2 ^ 32 ->
  zassoc_get (Z.of_N id) (w_entities w) = None ->
  step_class St w EntityProperty (enc_update id pid val) = (w, Some EKey).
Proof. exact update_packet_unknown_entity. Qed.

(* the id announced by the base-player packet is reported as the recording player *)
Theorem C05_player_id_reported : forall St w pl w',
  step_class St w BasePlayerCreate pl = (w', None) ->
  exists id r, get_s 4 pl = Ok (id, r) /\ w_player w' = Some id.
Proof. exact player_id_reported. Qed.
Print Assumptions C05_player_id_reported.
