(* C19 - an installed copy is complete and behaves like the source checkout.  Statements only (PackagingProofs.v).
   Level "other"/partial: setuptools is abstracted by the model in Packaging.v; the model is VALIDATED on every run
   against the name list of a wheel really built offline from the working tree (translation validation), and the
   completeness statement is a GENERATED instance theorem over the directory trie of the working tree
   (build/gen/Inst_C19.v: every needed file that is not shipped is a listed finding). *)
From RU Require Import Base Packaging PackagingProofs.
Open Scope string_scope.

(* whatever find_packages reports has an __init__.py; nothing is reported below a directory without one *)
Theorem C19_package_has_init : forall fuel keep here t p k, In (p, k) (packages_fuel fuel keep here t) -> has_file "__init__.py" k = true.
Proof. exact package_has_init. Qed.
Print Assumptions C19_package_has_init.
Theorem C19_not_package_no_descent : forall fuel keep here n kids_here k,
  has_file "__init__.py" k = false -> In (n, k) kids_here ->
  forall p t, In (p, t) (packages_fuel (S fuel) keep here (Dir [(n, k)])) -> False.
Proof. exact not_package_no_descent. Qed.
(* the include argument of setup.py is a str, which setuptools iterates: the single character '*' admits every package *)
Theorem C19_star_includes_everything : forall s, glob_comp "*" s = true.
Proof. exact glob_star_all. Qed.
Theorem C19_starstar_matches_zero_dirs : forall ps p, match_path ps p = true -> match_path (PStarStar :: ps) p = true.
Proof. exact starstar_zero. Qed.
Example C19_glob_examples :
  match_path [PStarStar; PGlob "scripts"; PStarStar; PGlob "*.def"] ["versions"; "0_8_0"; "scripts"; "entity_defs"; "Avatar.def"] = true /\
  match_path [PStarStar; PGlob "scripts"; PStarStar; PGlob "*.def"] ["scripts"; "Avatar.def"] = true /\
  match_path [PStarStar; PGlob "scripts"; PGlob "*.xml"] ["versions"; "0_8_0"; "scripts"; "entities.xml"] = true /\
  match_path [PGlob "*.py"] ["fixtures"; "CamouflageInfo.py"] = false /\
  match_path [PGlob "*.py"] ["helper.py"] = true.
Proof. exact glob_examples. Qed.
