(* C17 - bit-field arithmetic is exact.  Only statements; proofs live in BitReaderProofs.v. *)
From RU Require Import Base BitReader BitReaderProofs.
Open Scope N_scope.

(* ceil(log2 n) exactly, for EVERY n (no bound): 0 for n <= 1, otherwise 2^(b-1) < n <= 2^b *)
Theorem C17_bits_required_spec : forall n : N,
  (n <= 1 -> bits_requiredN n = 0) /\
  (1 < n -> let b := bits_requiredN n in 0 < b /\ 2 ^ (b - 1) < n /\ n <= 2 ^ b).
Proof. exact bits_required_spec. Qed.
Print Assumptions C17_bits_required_spec.

(* ... and that characterisation determines the value *)
Theorem C17_bits_required_unique : forall n b : N,
  1 < n -> 0 < b -> 2 ^ (b - 1) < n -> n <= 2 ^ b -> b = bits_requiredN n.
Proof. exact bits_required_unique. Qed.
Print Assumptions C17_bits_required_unique.

(* the code's reader (byte stream + per-byte cache): for every byte string and every list of widths (each >= 0,
   no upper bound) the values are the consecutive MSB-first fields of the bit expansion, crossing byte boundaries;
   get_rest() is the input from the next whole byte on; bytes_read is ceil(bits/8); running out of bits fails. *)
Theorem C17_get_fields_spec : forall (bs : bytes) (ws : list nat),
  match fields_of ws (bits_of_bytes bs) with
  | Some vs => exists r', rd_gets ws (rd_init bs) = Ok (vs, r')
                          /\ rd_rest r' = skipn ((sum_nat ws + 7) / 8) bs
                          /\ rd_bytes_read r' = ((sum_nat ws + 7) / 8)%nat
  | None => rd_gets ws (rd_init bs) = Err EEmpty
  end.
Proof. exact get_fields_spec. Qed.
Print Assumptions C17_get_fields_spec.

(* the cache-level reader refines the bit-list abstraction that the nested-property model (C06) uses *)
Theorem C17_reader_refines : forall bs r a n, R bs r a ->
  match rd_get n r, br_get n a with
  | Ok (v, r'), Ok (v', a') => v = v' /\ R bs r' a'
  | Err e, Err e' => e = e'
  | _, _ => False
  end.
Proof. exact reader_refines. Qed.
Print Assumptions C17_reader_refines.

(* non-vacuity: a concrete reading across a byte boundary *)
Example C17_example :
  fields_of [1; 3; 8; 4]%nat (bits_of_bytes [xff; x80]) = Some [1; 7; 248; 0]
  /\ bits_requiredN 5 = 3 /\ bits_requiredN 4 = 2 /\ bits_requiredN 4194304 = 22 /\ bits_requiredN 4194305 = 23.
Proof. vm_compute. repeat split. Qed.
