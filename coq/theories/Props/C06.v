(* C06 - nested (path-addressed) updates and slices follow list/dict semantics.  Statements only. *)
From RU Require Import Base Types Defs BitReader World WireSpec BitReaderProofs NestedProofs NestedGlue NestedDict Layout LayoutProofs NestedHistory.
From Coq Require Import Lia.
Open Scope N_scope.

(* the bit path: for every value and every valid path of any depth, the encoding "1 + index in bits_required(size) bits
   per step, then a 0 stop bit" is walked back to exactly that path and that leaf container, consuming exactly those bits *)
Theorem C06_walk_encode_path : forall p v bs rest n src fuel,
  encode_path v p = Some bs -> (length bs <= fuel)%nat ->
  exists leaf, leaf_of v p = Some leaf /\
    walk fuel v {| br_bits := bs ++ rest; br_read := n; br_src := src |} =
    Ok (p, leaf, {| br_bits := rest; br_read := (n + length bs)%nat; br_src := src |}).
Proof. exact walk_encode_path. Qed.
Print Assumptions C06_walk_encode_path.

(* the widths really are enough for every index of a container of that size (and for slice bounds with size+1) *)
Theorem C06_index_fits : forall i n, (i < n)%nat -> N.of_nat i < 2 ^ N.of_nat (bits_required n).
Proof. exact index_fits. Qed.

(* writing the new leaf back replaces exactly the addressed sub-value ... *)
Theorem C06_update_at_leaf : forall p v leaf new, leaf_of v p = Some leaf -> leaf_of (update_at p new v) p = Some new.
Proof. exact update_at_leaf. Qed.
(* ... and nothing beside the path *)
Theorem C06_update_at_sibling : forall p v new j, (match p with i :: _ => i <> j | [] => False end) ->
  vchild (update_at p new v) j = vchild v j.
Proof. exact update_at_sibling. Qed.
Print Assumptions C06_update_at_leaf.

(* the whole packet: the first step indexes the client properties in exposed order; only the addressed property of the
   addressed entity changes, every other property keeps its value *)
Theorem C06_nested_apply_frame : forall St e m sl payload e' cs,
  nested_apply St e m sl payload = Ok (e', cs) ->
  en_base e' = en_base e /\ en_cell e' = en_cell e /\ en_vol e' = en_vol e /\ en_id e' = en_id e /\ en_type e' = en_type e.
Proof. exact nested_apply_frame. Qed.
Theorem C06_nested_apply_other_props : forall St e m sl payload e' cs,
  nested_apply St e m sl payload = Ok (e', cs) ->
  exists name, forall k, k <> name -> assoc_get k (en_client e') = assoc_get k (en_client e).
Proof. exact nested_apply_other_props. Qed.
Print Assumptions C06_nested_apply_other_props.

(* END TO END, from the bytes of the payload to the new property value.  The payload is built exactly as the statement says:
   MSB-first bit fields - a 1 and the property index in bits_required(#client properties) bits, then per path step a 1 and the
   index in bits_required(container size) bits, a 0 stop bit, the leaf index (or two slice bounds in bits_required(size+1)
   bits) - zero padding to the next whole byte, then the element data in the C03 wire encoding.  The model applies it as
   the plain list update of exactly the addressed sub-value of exactly the addressed property (any depth, any sizes). *)
Theorem C06_nested_set_list_element : forall St e m pid p top pth pbits et l i x,
  nth_error (e_client m) pid = Some p -> assoc_get (p_name p) (en_client e) = Some top ->
  encode_path top pth = Some pbits -> leaf_of top pth = Some (VList et l) ->
  (i < length l)%nat -> has_type code_limits et x -> wire_encode 1 et x <> [] ->
  let bits := (to_bits 1 1 ++ to_bits (bits_required (length (e_client m))) (N.of_nat pid) ++ pbits
               ++ to_bits (bits_required (length l)) (N.of_nat i))%list in
  exists cs, nested_apply St e m false (pack_bits bits ++ wire_encode 1 et x) =
             Ok (set_client e (p_name p) (update_at pth (VList et (replace_nth i x l)) top), cs).
Proof. exact nested_set_list_element. Qed.
Print Assumptions C06_nested_set_list_element.
(* one field of a fixed dict at any depth: the field index is taken in the DECLARED field order, in bits_required(#fields) bits *)
Theorem C06_nested_set_dict_field : forall St e m pid p top pth pbits fs kvs i fname ftype x,
  nth_error (e_client m) pid = Some p -> assoc_get (p_name p) (en_client e) = Some top ->
  encode_path top pth = Some pbits -> leaf_of top pth = Some (VDict fs kvs) ->
  (i < length kvs)%nat -> nth_error fs i = Some (fname, ftype) -> has_type code_limits ftype x ->
  let bits := (to_bits 1 1 ++ to_bits (bits_required (length (e_client m))) (N.of_nat pid) ++ pbits
               ++ to_bits (bits_required (length kvs)) (N.of_nat i))%list in
  exists cs, nested_apply St e m false (pack_bits bits ++ wire_encode 1 ftype x) =
             Ok (set_client e (p_name p) (update_at pth (VDict fs (assoc_set fname x kvs)) top), cs).
Proof. exact nested_set_dict_field. Qed.
Print Assumptions C06_nested_set_dict_field.
(* slices: replace / insert / delete, for ALL bounds that fit the bit width (i > j and bounds beyond the end included) *)
Theorem C06_nested_slice_list : forall St e m pid p top pth pbits et l i j xs,
  nth_error (e_client m) pid = Some p -> assoc_get (p_name p) (en_client e) = Some top ->
  encode_path top pth = Some pbits -> leaf_of top pth = Some (VList et l) ->
  N.of_nat i < 2 ^ N.of_nat (bits_required (length l + 1)) -> N.of_nat j < 2 ^ N.of_nat (bits_required (length l + 1)) ->
  Forall (fun x => has_type code_limits et x /\ wire_encode 1 et x <> []) xs ->
  let bits := (to_bits 1 1 ++ to_bits (bits_required (length (e_client m))) (N.of_nat pid) ++ pbits
               ++ to_bits (bits_required (length l + 1)) (N.of_nat i) ++ to_bits (bits_required (length l + 1)) (N.of_nat j))%list in
  exists cs, nested_apply St e m true (pack_bits bits ++ encode_many et xs) =
             Ok (set_client e (p_name p) (update_at pth (VList et (slice_assign i j xs l)) top), cs).
Proof. exact nested_slice_list. Qed.
Print Assumptions C06_nested_slice_list.

(* Python slice assignment l[i:j] = xs, for ALL i, j (clamped like CPython: i > len, j > len, i > j) *)
Theorem C06_slice_assign_general : forall (A : Type) (i j : nat) (xs l : list A),
  slice_assign i j xs l =
  firstn (Nat.min i (length l)) l ++ xs ++ skipn (Nat.max (Nat.min i (length l)) (Nat.min j (length l))) l.
Proof. reflexivity. Qed.
Theorem C06_slice_assign_spec : forall (A : Type) (i j : nat) (xs l : list A), (i <= j <= length l)%nat ->
  slice_assign i j xs l = firstn i l ++ xs ++ skipn j l.
Proof. intros A. exact (@slice_assign_spec A). Qed.
Theorem C06_slice_insert_end : forall (A : Type) (xs l : list A), slice_assign (length l) (length l) xs l = l ++ xs.
Proof. intros A. exact (@slice_assign_insert_end A). Qed.
Theorem C06_slice_delete_all : forall (A : Type) (l : list A), slice_assign 0 (length l) [] l = [].
Proof. intros A. exact (@slice_assign_delete_all A). Qed.
Theorem C06_slice_length : forall (A : Type) (i j : nat) (xs l : list A), (i <= j <= length l)%nat ->
  length (slice_assign i j xs l) = (length l - (j - i) + length xs)%nat.
Proof. intros A. exact (@slice_assign_length A). Qed.
Print Assumptions C06_slice_assign_spec.

(* packet level (after the repair recorded as fixed: C06-a - the size byte is unsigned): every nested packet whose payload is 0..255 bytes
   long passes the size check and is handed to nested_apply with exactly that payload; a size byte that differs from the length is refused *)
Theorem C06_nested_packet_reaches_apply : forall St w id sl u payload,
  (length payload < 256)%nat -> length u = 3%nat -> id < 2 ^ 32 ->
  step_class St w NestedProperty (le_encode 4 id ++ [sl] ++ [n2b (N.of_nat (length payload))] ++ u ++ payload) =
  atomic w (e <- lookup_entity w (Z.of_N id) ;; m <- model_of St (en_type e) ;;
            '(e', cs) <- nested_apply St e m (Z.eqb (to_signed 1 (b2n sl)) 1) payload ;; Ok (log (put w e') cs)).
Proof. exact nested_packet_reaches_apply. Qed.
Theorem C06_nested_packet_size_mismatch : forall St w id sl sz u payload,
  length u = 3%nat -> id < 2 ^ 32 -> b2n sz <> N.of_nat (length payload) ->
  step_class St w NestedProperty (le_encode 4 id ++ [sl] ++ [sz] ++ u ++ payload) = (w, Some EAssert).
Proof. exact nested_packet_size_mismatch. Qed.
Print Assumptions C06_nested_packet_reaches_apply.

(* the byte layout of every packet class is a TABLE (Layout.class_layout) that the translator tools/gen_packets.py regenerates from the
   __init__ of the packet classes on every run (generated instance theorems: translated layout = class_layout); the model's step function
   is the table-driven one: the header fields are read by the generic parser from that table and handed to the class's handler *)
Theorem C06_step_is_table_driven : forall St w c pl, step_class St w c pl = step_layout St w c pl.
Proof. exact step_class_is_layout. Qed.
Print Assumptions C06_step_is_table_driven.

(* ---- whole histories ----
   After ANY sequence of nested payloads applied to an entity - element sets, dict-field sets, slice replace / insert / delete, at any depth below
   any client property, each payload being the encoding of its operation in the state REACHED when it arrives - the client properties are the
   fold of the corresponding ordinary list / dict updates, and type, id, base and cell properties and pose are untouched. *)
Theorem C06_nested_history : forall St m h e, nhistory St m e h ->
  exists e', run_nested St m e h = Ok e' /\
             en_client e' = fold_left (spec_nop m) (map (fun x => fst (fst x)) h) (en_client e) /\
             en_base e' = en_base e /\ en_cell e' = en_cell e /\ en_vol e' = en_vol e /\ en_id e' = en_id e /\ en_type e' = en_type e.
Proof. exact nested_history. Qed.
Print Assumptions C06_nested_history.

Local Open Scope string_scope.
(* non-vacuity: a property `lst` (list of UINT8) and a property `dct` ({a: UINT16, b: list of UINT8}); set lst[1], append two elements by a slice,
   set dct.a, delete dct.b[0:1]: every payload is the encoding of its operation in the state reached, and the result is the obvious one *)
Definition ex6_lst := {| p_name := "lst"; p_type := TArray (TUInt 1) None; p_flags := 0 |}.
Definition ex6_dt := [("a", TUInt 2); ("b", TArray (TUInt 1) None)].
Definition ex6_dct := {| p_name := "dct"; p_type := TDict ex6_dt false; p_flags := 0 |}.
Definition ex6_m : emodel := {| e_methods := []; e_client := [ex6_lst; ex6_dct]; e_internal := [ex6_lst; ex6_dct]; e_cell := []; e_base := []; e_vol := [] |}.
Definition ex6_e : entity :=
  {| en_id := 5; en_type := "Thing"; en_base := []; en_cell := []; en_vol := [];
     en_client := [("lst", VList (TUInt 1) [VInt 1; VInt 2; VInt 3]); ("dct", VDict ex6_dt [("a", VInt 7); ("b", VList (TUInt 1) [VInt 9; VInt 8])])] |}.
Definition ex6_St : setup := {| s_game := Wows; s_table := []; s_names := ["Thing"]; s_models := [("Thing", ex6_m)]; s_msubs := []; s_mcounts := []; s_psubs := []; s_nsubs := [] |}.
Definition ex6_ops : list nop := [NSetElem 0 [] 1 (VInt 50); NSlice 0 [] 3 3 [VInt 60; VInt 61]; NSetField 1 [] 0 (VInt 300); NSlice 1 [1%nat] 0 1 []].
Definition ex6_final := fold_left (spec_nop ex6_m) ex6_ops (en_client ex6_e).
Example ex6_spec_result :
  ex6_final = [("lst", VList (TUInt 1) [VInt 1; VInt 50; VInt 3; VInt 60; VInt 61]); ("dct", VDict ex6_dt [("a", VInt 300); ("b", VList (TUInt 1) [VInt 8])])].
Proof. vm_compute. reflexivity. Qed.

Definition ex6_pl1 : bytes :=
  (pack_bits (to_bits 1 1 ++ to_bits (bits_required 2) 0 ++ [false] ++ to_bits (bits_required 3) 1) ++ wire_encode 1 (TUInt 1) (VInt 50))%list.
Definition ex6_pl2 : bytes :=
  (pack_bits (to_bits 1 1 ++ to_bits (bits_required 2) 0 ++ [false] ++ to_bits (bits_required (3 + 1)) 3 ++ to_bits (bits_required (3 + 1)) 3)
   ++ encode_many (TUInt 1) [VInt 60; VInt 61])%list.
Definition ex6_h : list (nop * bool * bytes) := [(NSetElem 0 [] 1 (VInt 50), false, ex6_pl1); (NSlice 0 [] 3 3 [VInt 60; VInt 61], true, ex6_pl2)].
Example ex6_history :
  nhistory ex6_St ex6_m ex6_e ex6_h /\
  (match run_nested ex6_St ex6_m ex6_e ex6_h with
   | Ok e' => assoc_get "lst" (en_client e') = Some (VList (TUInt 1) [VInt 1; VInt 50; VInt 3; VInt 60; VInt 61])
   | Err _ => False end).
Proof.
  split.
  - unfold ex6_h. apply nh_cons.
    + unfold ex6_pl1. apply (po_elem ex6_m ex6_e 0 ex6_lst (VList (TUInt 1) [VInt 1; VInt 2; VInt 3]) [] [false] (TUInt 1) [VInt 1; VInt 2; VInt 3] 1 (VInt 50));
        try reflexivity; cbn; [lia | lia | discriminate].
    + intros e' cs H. vm_compute in H. inversion H; subst e' cs. apply nh_cons.
      * unfold ex6_pl2.
        apply (po_slice ex6_m _ 0 ex6_lst (VList (TUInt 1) [VInt 1; VInt 50; VInt 3]) [] [false] (TUInt 1) [VInt 1; VInt 50; VInt 3] 3 3 [VInt 60; VInt 61]);
          try reflexivity; try (apply N.ltb_lt; reflexivity); repeat constructor; cbn; try lia; try discriminate.
      * intros e'' cs' H'. apply nh_nil.
  - vm_compute. reflexivity.
Qed.
