(* C18 - parsing a replay cannot execute code chosen by the file.  Statements only (PickleProofs.v, VersionProofs.v).
   Level "other"/partial: CPython's unpickler is abstracted by a capability machine (which callables can be invoked);
   the static inventory of code-executing call sites is a generated instance theorem; the behaviour of the real code is
   observed under an audit hook. *)
From RU Require Import Base Pickle PickleProofs Version VersionProofs.
Open Scope string_scope.

(* for EVERY opcode sequence a pickle can contain: whatever gets called is rooted at a global that find_class handed out *)
Theorem C18_calls_come_from_find_class : forall policy ops g, In g (calls (run policy init ops)) -> policy g = true.
Proof. exact calls_come_from_find_class. Qed.
Print Assumptions C18_calls_come_from_find_class.
(* with an allow-list find_class nothing outside the list is ever called *)
Theorem C18_restricted_policy_safe : forall allow ops g,
  In g (calls (run (fun x => existsb (fun a => String.eqb (fst a) (fst x) && String.eqb (snd a) (snd x)) allow) init ops)) -> In g allow.
Proof. exact restricted_policy_safe. Qed.
Print Assumptions C18_restricted_policy_safe.
Theorem C18_data_only_calls_nothing : forall policy ops, Forall (fun o => o = OPush \/ o = OPop) ops -> calls (run policy init ops) = [].
Proof. exact data_only_calls_nothing. Qed.
(* FULL STATEMENT refuted for the code as it is: pickle.loads hands out every importable global (known finding C18-a) *)
Example C18_unrestricted_refuted : calls (run (fun _ => true) init [OGlobal ("os", "system"); OPush; OReduce]) = [("os", "system")].
Proof. exact unrestricted_refuted. Qed.

(* the version string: helper.get_definitions replaces every '.' before it builds the path, so no component of the
   definitions path can be ".." - a crafted version string cannot climb out of the bundled versions directory *)
Theorem C18_defs_path_no_dot : forall v, has_char "." (defs_path v) = false.
Proof. exact defs_path_no_dot. Qed.
Theorem C18_defs_path_no_dotdot : forall v, ~ In ".." (split_on "/" (defs_path v)).
Proof. exact defs_path_no_dotdot. Qed.
Print Assumptions C18_defs_path_no_dotdot.
