(* C03 - decoding of .def-declared types is exact and consumes exactly its bytes.  Statements only. *)
From RU Require Import Base Types WireSpec TypesProofs EncodingCorollaries.
Open Scope N_scope.

(* FULL STATEMENT (kept visible).  With the statement's own limits (every variable length and every count in packed
   form, i.e. < 2^24) the property asks for:
     forall t hdr v rest, has_type spec_limits t v -> decode hdr t (wire_encode hdr t v ++ rest) = Ok (v, rest).
   It is FALSE of the faithful model - see the three refuted examples below - and the same three inputs fail on the
   real code (known findings C03-a/b/c). *)

(* what IS proved: for every type tree (all 12 constructors, any nesting depth and width), every header size, every
   value typed within the code's ranges (strings < 65536 bytes, PYTHON blobs < 255 bytes, counted arrays < 255
   elements; everything else as the statement says) and every tail: decoding the statement's wire encoding returns
   exactly the value and exactly the tail - so whatever follows stays aligned. *)
Theorem C03_decode_wire_encode_partial : forall t hdr v rest,
  has_type code_limits t v ->
  decode hdr t (wire_encode hdr t v ++ rest) = Ok (v, rest).
Proof. exact decode_wire_encode_partial. Qed.
Print Assumptions C03_decode_wire_encode_partial.

(* method argument lists: consecutive arguments stay aligned *)
Theorem C03_args_roundtrip : forall hdr ts vs rest,
  Forall2 (has_type code_limits) ts vs ->
  decode_seq hdr ts (encode_seq hdr ts vs ++ rest) = Ok (vs, rest).
Proof. exact args_roundtrip. Qed.
Print Assumptions C03_args_roundtrip.

(* a decoder only ever consumes a prefix: what it returns as the rest is a suffix of what it was given *)
Theorem C03_decode_consumes_prefix : forall t hdr bs v rest,
  decode hdr t bs = Ok (v, rest) -> exists used, bs = (used ++ rest)%list.
Proof. exact decode_consumes_prefix. Qed.
Print Assumptions C03_decode_consumes_prefix.

(* the refutations of the full statement (witnesses evaluated by vm_compute) *)
(* PYTHON >= 255 bytes was a refutation; the reader was repaired (fixed: C03-b) *)
Example C03_long_python :
  decode 1 TPython (wire_encode 1 TPython (VBytes (repeat x41 300)) ++ [x42]) = Ok (VBytes (repeat x41 300), [x42]).
Proof. exact decode_long_python. Qed.
Example C03_refuted_array : exists v rest, ~ full_statement (TArray (TUInt 1) None) v rest.
Proof. exact decode_wire_encode_refuted_array. Qed.
(* STRING >= 65536 bytes was the third refutation; the reader was repaired (fixed: C03-a) and the case is now inside the theorem's range *)
Example C03_long_string :
  decode 1 TString (wire_encode 1 TString (VStr (repeat x41 (N.to_nat 65537))) ++ [x42]) = Ok (VStr (repeat x41 (N.to_nat 65537)), [x42]).
Proof. exact decode_long_string. Qed.

(* non-vacuity of the hypotheses: a nested value inside the code's ranges *)
Example C03_example :
  let t := TArray (TDict [("a"%string, TUInt 2); ("b"%string, TString)] true) None in
  let v := VList (TDict [("a"%string, TUInt 2); ("b"%string, TString)] true)
                 [VDict [("a"%string, TUInt 2); ("b"%string, TString)] [("a"%string, VInt 1); ("b"%string, VStr [x61; x62; x63])]; VNone] in
  has_type code_limits t v /\ wire_encode 1 t v = [x02; x01; x01; x00; x03; x61; x62; x63; x00].
Proof. vm_compute. repeat split; auto; discriminate. Qed.

(* "consumes exactly its bytes", from the writer's side: the encoding of typed values is prefix-free - a byte string has at most one reading as
   "a value of this type, then a tail" - hence injective; the same for argument lists *)
Theorem C03_wire_encode_prefix_free : forall t hdr v1 v2 r1 r2,
  has_type code_limits t v1 -> has_type code_limits t v2 ->
  (wire_encode hdr t v1 ++ r1 = wire_encode hdr t v2 ++ r2)%list -> v1 = v2 /\ r1 = r2.
Proof. exact wire_encode_prefix_free. Qed.
Theorem C03_encode_seq_prefix_free : forall hdr ts vs1 vs2 r1 r2,
  Forall2 (has_type code_limits) ts vs1 -> Forall2 (has_type code_limits) ts vs2 ->
  (encode_seq hdr ts vs1 ++ r1 = encode_seq hdr ts vs2 ++ r2)%list -> vs1 = vs2 /\ r1 = r2.
Proof. exact encode_seq_prefix_free. Qed.
Print Assumptions C03_wire_encode_prefix_free.
