(* C07 - subscribers are called exactly once per matching event with the right arguments.  Statements only. *)
From RU Require Import Base Types Defs BitReader World Run WireSpec LwwProofs DispatchProofs NestedNotify Layout LayoutProofs TraceProofs CreateProofs History HistoryProofs SubscriptionSurvival.
Open Scope N_scope.

(* a method call nobody subscribed to has no effect and is NOT decoded: any payload bytes, decodable or not *)
Theorem C07_unsubscribed_not_decoded : forall St w id mid data e m mt,
  id < 2 ^ 32 -> mid < 2 ^ 32 -> N.of_nat (length data) < 2 ^ 32 ->
  zassoc_get (Z.of_N id) (w_entities w) = Some e -> assoc_get (en_type e) (s_models St) = Some m ->
  nthN (e_methods m) mid = Some mt ->
  mcount St (en_type e) mid = O ->
  step_class St w EntityMethod (enc_call id mid data) = (w, None).
Proof. exact unsubscribed_not_decoded. Qed.
Print Assumptions C07_unsubscribed_not_decoded.

(* n callbacks in the table: the trace gains exactly n entries, each with that entity's id, the unnamed arguments
   positionally and the named ones by keyword; the entity table is not touched *)
Theorem C07_subscribed_called : forall St w id mid data e m mt n vs rest,
  id < 2 ^ 32 -> mid < 2 ^ 32 -> N.of_nat (length data) < 2 ^ 32 ->
  zassoc_get (Z.of_N id) (w_entities w) = Some e -> assoc_get (en_type e) (s_models St) = Some m ->
  nthN (e_methods m) mid = Some mt ->
  mcount St (en_type e) mid = S n ->
  decode_seq (Z.to_nat (m_hdr mt)) (map snd (m_args mt)) data = Ok (vs, rest) ->
  step_class St w EntityMethod (enc_call id mid data) =
  (log w (repeat_call (S n) (CMethod (key_of (en_type e) (m_name mt)) (en_id e)
                                     (fst (split_args (map fst (m_args mt)) vs)) (snd (split_args (map fst (m_args mt)) vs)))), None).
Proof. exact subscribed_called. Qed.
Print Assumptions C07_subscribed_called.
Theorem C07_trace_appends_in_order : forall w cs, trace_of (log w cs) = (trace_of w ++ cs)%list.
Proof. exact trace_of_log. Qed.
Theorem C07_exactly_n : forall n c, length (repeat_call n c) = n /\ Forall (eq c) (repeat_call n c).
Proof. intros; split; [apply repeat_call_length|apply repeat_call_all]. Qed.
Theorem C07_positional_args : forall names vs, Forall (fun n => n = None) names -> length names = length vs ->
  split_args names vs = (vs, []).
Proof. exact split_args_positional. Qed.

Theorem C07_subscribed_undecodable : forall St w id mid data e m mt n er,
  id < 2 ^ 32 -> mid < 2 ^ 32 -> N.of_nat (length data) < 2 ^ 32 ->
  zassoc_get (Z.of_N id) (w_entities w) = Some e -> assoc_get (en_type e) (s_models St) = Some m ->
  nthN (e_methods m) mid = Some mt ->
  mcount St (en_type e) mid = S n ->
  decode_seq (Z.to_nat (m_hdr mt)) (map snd (m_args mt)) data = Err er ->
  step_class St w EntityMethod (enc_call id mid data) = (w, Some er).
Proof. exact subscribed_undecodable. Qed.

(* property-change subscribers receive (entity, NEW value), after the assignment, once per callback *)
Theorem C07_property_dispatch : forall St w id pid val e m p v rest,
  id < 2 ^ 32 -> pid < 2 ^ 32 -> N.of_nat (length val) < 2 ^ 32 ->
  zassoc_get (Z.of_N id) (w_entities w) = Some e -> assoc_get (en_type e) (s_models St) = Some m ->
  nthN (e_client m) pid = Some p -> decode 1 (p_type p) val = Ok (v, rest) ->
  step_class St w EntityProperty (enc_update id pid val) =
  (log (put w (set_client e (p_name p) v))
       (repeat_call (nsub (s_psubs St) (key_of (en_type e) (p_name p))) (CProp (key_of (en_type e) (p_name p)) (en_id e) v)), None).
Proof. exact property_dispatch. Qed.
Print Assumptions C07_property_dispatch.

(* FULL STATEMENT of the last clause - "every callback registered for a key is invoked, not only the last one":
     forall regs, subscribe_all [] regs = Ok (subscribe_spec [] regs)
   REFUTED for the faithful model of Entity.subscribe_*: registering one key twice leaves ONE callback (known finding C07-a) *)
Theorem C07_all_subscribers_called_refuted : forall ent name,
  subscribe_all [] [(ent, name); (ent, name)] = Ok [((ent ++ "_" ++ name)%string, 1%nat)] /\
  subscribe_spec [] [(ent, name); (ent, name)] = [((ent ++ "_" ++ name)%string, 2%nat)].
Proof. exact all_subscribers_called_refuted. Qed.
Print Assumptions C07_all_subscribers_called_refuted.
(* what holds: a key registered for the first time is kept with one callback and no other key is disturbed *)
Theorem C07_distinct_keys_all_kept : forall ent name tbl,
  assoc_get (ent ++ "_" ++ name)%string tbl = None -> existsb (String.eqb name) (map fst tbl) = false ->
  exists tbl', subscribe tbl ent name = Ok tbl' /\ assoc_get (ent ++ "_" ++ name)%string tbl' = Some 1%nat /\
               forall k, k <> (ent ++ "_" ++ name)%string -> assoc_get k tbl' = assoc_get k tbl.
Proof. exact distinct_keys_all_kept. Qed.

(* nested-change subscribers (after the repairs recorded as fixed: C07-c, C07-d): every nested packet that is applied - set, set-to-None, slice
   replace / insert / DELETE - produces exactly the notifications of the changed path; a subscription is notified exactly when its key is
   the hash of that path or a dotted prefix of it (not when it merely occurs inside it) *)
Theorem C07_nested_apply_announces : forall St e m sl payload e' cs,
  nested_apply St e m sl payload = Ok (e', cs) -> exists path obj, cs = nested_calls St e path obj.
Proof. exact nested_apply_announces. Qed.
Theorem C07_leaf_op_always_notifies : forall is_slice leaf r v last b, leaf_op is_slice leaf r = Ok (v, last, b) -> b = true.
Proof. exact leaf_op_always_notifies. Qed.
Theorem C07_path_covers_spec : forall k h, path_covers k h = true <-> h = k \/ exists rest, h = (k ++ "." ++ rest)%string.
Proof. exact path_covers_spec. Qed.
Print Assumptions C07_nested_apply_announces.
Print Assumptions C07_path_covers_spec.

(* the byte layout of every packet class is a TABLE (Layout.class_layout) that the translator tools/gen_packets.py regenerates from the
   __init__ of the packet classes on every run (generated instance theorems: translated layout = class_layout); the model's step function
   is the table-driven one: the header fields are read by the generic parser from that table and handed to the class's handler *)
Theorem C07_step_is_table_driven : forall St w c pl, step_class St w c pl = step_layout St w c pl.
Proof. exact step_class_is_layout. Qed.
Print Assumptions C07_step_is_table_driven.

(* ---- whole histories ----
   The trace after ANY packet history is the trace before it followed by what each packet contributed in the world it found, in stream
   order: nothing recorded is ever removed, reordered or rewritten (lenient play; strict play: the same up to the failing packet). *)
Theorem C07_trace_is_concatenation : forall St ps w, trace_of (play_lenient St w ps) = (trace_of w ++ contributions St w ps)%list.
Proof. exact trace_is_concatenation. Qed.
Print Assumptions C07_trace_is_concatenation.
Theorem C07_trace_prefix_preserved_strict : forall St ps w, exists cs, trace_of (fst (play_strict St w ps)) = (trace_of w ++ cs)%list.
Proof. exact trace_prefix_preserved_strict. Qed.
(* ... and what a packet contributes: nothing for an unmapped type, nothing for a call nobody subscribed to (whatever its payload),
   exactly its n invocations for a subscribed call, nothing for a subscribed call that does not decode, one notification per
   callback with the NEW value for a property update *)
Theorem C07_unmapped_contributes_nothing : forall St w p, table_get (pk_type p) (s_table St) = None -> emitted St w p = [].
Proof. exact unmapped_contributes_nothing. Qed.
Theorem C07_unsubscribed_contributes_nothing : forall St, s_game St <> Wowp -> forall w p id mid data e m mt,
  table_get (pk_type p) (s_table St) = Some EntityMethod -> pk_payload p = enc_call id mid data ->
  id < 2 ^ 32 -> mid < 2 ^ 32 -> N.of_nat (length data) < 2 ^ 32 ->
  zassoc_get (Z.of_N id) (w_entities w) = Some e -> assoc_get (en_type e) (s_models St) = Some m ->
  nthN (e_methods m) mid = Some mt -> mcount St (en_type e) mid = O ->
  emitted St w p = [].
Proof. exact unsubscribed_contributes_nothing. Qed.
Theorem C07_subscribed_contributes : forall St, s_game St <> Wowp -> forall w p id mid data e m mt n vs rest,
  table_get (pk_type p) (s_table St) = Some EntityMethod -> pk_payload p = enc_call id mid data ->
  id < 2 ^ 32 -> mid < 2 ^ 32 -> N.of_nat (length data) < 2 ^ 32 ->
  zassoc_get (Z.of_N id) (w_entities w) = Some e -> assoc_get (en_type e) (s_models St) = Some m ->
  nthN (e_methods m) mid = Some mt -> mcount St (en_type e) mid = S n ->
  decode_seq (Z.to_nat (m_hdr mt)) (map snd (m_args mt)) data = Ok (vs, rest) ->
  emitted St w p = repeat_call (S n) (CMethod (key_of (en_type e) (m_name mt)) (en_id e)
                                              (fst (split_args (map fst (m_args mt)) vs)) (snd (split_args (map fst (m_args mt)) vs))).
Proof. exact subscribed_contributes. Qed.
Print Assumptions C07_subscribed_contributes.
Theorem C07_undecodable_contributes_nothing : forall St, s_game St <> Wowp -> forall w p id mid data e m mt n er,
  table_get (pk_type p) (s_table St) = Some EntityMethod -> pk_payload p = enc_call id mid data ->
  id < 2 ^ 32 -> mid < 2 ^ 32 -> N.of_nat (length data) < 2 ^ 32 ->
  zassoc_get (Z.of_N id) (w_entities w) = Some e -> assoc_get (en_type e) (s_models St) = Some m ->
  nthN (e_methods m) mid = Some mt -> mcount St (en_type e) mid = S n ->
  decode_seq (Z.to_nat (m_hdr mt)) (map snd (m_args mt)) data = Err er ->
  emitted St w p = [].
Proof. exact undecodable_contributes_nothing. Qed.
Theorem C07_update_contributes : forall St, s_game St <> Wowp -> forall w p id pid val e m pr v rest,
  table_get (pk_type p) (s_table St) = Some EntityProperty -> pk_payload p = enc_update id pid val ->
  id < 2 ^ 32 -> pid < 2 ^ 32 -> N.of_nat (length val) < 2 ^ 32 ->
  zassoc_get (Z.of_N id) (w_entities w) = Some e -> assoc_get (en_type e) (s_models St) = Some m ->
  nthN (e_client m) pid = Some pr -> decode 1 (p_type pr) val = Ok (v, rest) ->
  emitted St w p = repeat_call (nsub (s_psubs St) (key_of (en_type e) (p_name pr))) (CProp (key_of (en_type e) (p_name pr)) (en_id e) v).
Proof. exact update_contributes. Qed.
Print Assumptions C07_update_contributes.

(* non-vacuity: one entity type with a subscribed method `hit(UINT16, who=UINT8)` (two callbacks), an unsubscribed method `noise(STRING)`
   and a subscribed property `hp`; the history creates entity 7, calls hit, calls noise with an undecodable payload, updates hp, sends a
   packet of an unmapped type and calls hit again: the trace is exactly the two+two invocations and the one notification, in that order *)
Local Open Scope string_scope.
Definition ex7_hit := {| m_name := "hit"; m_args := [(None, TUInt 2); (Some "who", TUInt 1)]; m_hdr := 1%Z |}.
Definition ex7_noise := {| m_name := "noise"; m_args := [(None, TString)]; m_hdr := 1%Z |}.
Definition ex7_hp := {| p_name := "hp"; p_type := TUInt 2; p_flags := 0 |}.
Definition ex7_model : emodel :=
  {| e_methods := [ex7_hit; ex7_noise]; e_client := [ex7_hp]; e_internal := [ex7_hp]; e_cell := []; e_base := []; e_vol := [] |}.
Definition ex7_St : setup :=
  {| s_game := Wows; s_table := [(5%N, EntityCreate); (7%N, EntityProperty); (8%N, EntityMethod)]; s_names := ["Ship"];
     s_models := [("Ship", ex7_model)]; s_msubs := [("Ship_hit", 2%nat)]; s_mcounts := [("Ship", [2%nat; 0%nat])];
     s_psubs := [("Ship_hp", 1%nat)]; s_nsubs := [] |}.
Definition ex7_t : bytes := [x00; x00; x00; x00].
Definition ex7_ps : list packet :=
  [{| pk_type := 5; pk_time := ex7_t; pk_payload := enc_create 7 1 (repeat x00 32) [] [] |};
   {| pk_type := 8; pk_time := ex7_t; pk_payload := enc_call 7 0 [x2c; x01; x09] |};
   {| pk_type := 8; pk_time := ex7_t; pk_payload := enc_call 7 1 [xff; xff] |};
   {| pk_type := 7; pk_time := ex7_t; pk_payload := enc_update 7 0 [x10; x00] |};
   {| pk_type := 99; pk_time := ex7_t; pk_payload := [x01; x02; x03] |};
   {| pk_type := 8; pk_time := ex7_t; pk_payload := enc_call 7 0 [x01; x00; x02] |}].
Example C07_example_history :
  let hit a b := CMethod "Ship_hit" 7 [VInt a] [("who", VInt b)] in
  trace_of (play_lenient ex7_St empty_world ex7_ps) = [hit 300%Z 9%Z; hit 300%Z 9%Z; CProp "Ship_hp" 7 (VInt 16); hit 1%Z 2%Z; hit 1%Z 2%Z] /\
  contributions ex7_St empty_world ex7_ps = [hit 300%Z 9%Z; hit 300%Z 9%Z; CProp "Ship_hp" 7 (VInt 16); hit 1%Z 2%Z; hit 1%Z 2%Z] /\
  snd (play_strict ex7_St empty_world ex7_ps) = None.
Proof. vm_compute. repeat split; reflexivity. Qed.

(* across parses: a subscription survives whatever is parsed afterwards unless a later controller registers the very same key (registration
   replaces - finding C07-a - and nothing in the model ever removes a subscription) *)
Theorem C07_subscription_survives_parses : forall vs k hist g o,
  Forall (fun p => ~ In k (vi_keys (vget vs (fst p)))) hist ->
  dispatch (run_parses vs g hist) o k = dispatch g o k.
Proof. exact holder_survives_parses. Qed.
Print Assumptions C07_subscription_survives_parses.
