(* C09 - the battle summary is a faithful function of the recorded events.  Statements only (proofs: SummaryProofs.v).
   The controllers themselves are translated from the working tree on every run (build/gen/GenC09.v) and the hypotheses of the
   section theorems below (the handler for a key has the counting / appending shape, no other handler writes the field) are
   discharged for every bundled version by generated instance theorems (build/gen/Inst_C09.v). *)
From RU Require Import Base Summary SummaryProofs SummaryProofs2.
Local Open Scope Z_scope.

(* totals: counted each time, under their own (victim, attacker) path and no other, whatever else is delivered in between *)
Theorem C09_totals_history : forall ctl K p x f keys amt,
  assoc_get K (c_handlers ctl) = Some {| h_params := [p]; h_body := [SFor x (EVar p) [SSetdef f keys; SAugAdd f keys amt]] |} ->
  forallb pure keys = true -> pure amt = true ->
  (forall K' h, K' <> K -> assoc_get K' (c_handlers ctl) = Some h -> ~ In f (writes_h h)) ->
  forall evs st st' d, get_dict_field st f = Ok d -> run_events_strict ctl st evs = (st', None) ->
  exists es d', history_entries K p x keys amt st evs = Ok es /\ count_all d es = Ok d' /\ get_dict_field st' f = Ok d'.
Proof. exact count_history. Qed.
Theorem C09_totals_are_sums : forall n es d d', n <> O -> Forall (fun e => length (fst e) = n) es -> count_all d es = Ok d' ->
  forall ks, length ks = n ->
  add_all (dtotal d ks) (map snd (filter (fun e => path_eqb (fst e) ks) es)) = Ok (dtotal d' ks).
Proof. exact count_all_total. Qed.
Theorem C09_integer_amounts_add_up : forall zs z, add_all (PInt z) (map PInt zs) = Ok (PInt (z + fold_right Z.add 0 zs)).
Proof. exact add_all_ints. Qed.
(* counting handlers that are not loops (planes, achievements, old-style ribbons): local assignments (which may read the roster the
   call finds), then  f.setdefault(keys..., 0); f[keys...] += amt *)
Theorem C09_count_stmt_history : forall ctl K f ps lets keys amt,
  assoc_get K (c_handlers ctl) = Some {| h_params := ps; h_body := map Simple (lets ++ [SSetdef f keys; SAugAdd f keys amt]) |} ->
  forallb is_let lets = true -> forallb pure keys = true -> pure amt = true ->
  (forall K' h, K' <> K -> assoc_get K' (c_handlers ctl) = Some h -> ~ In f (writes_h h)) ->
  forall evs st st' d, get_dict_field st f = Ok d -> run_events_strict ctl st evs = (st', None) ->
  exists es d', dyn_entries ctl K ps lets keys amt st evs = Ok es /\ count_all d es = Ok d' /\ get_dict_field st' f = Ok d'.
Proof. exact count_stmt_history. Qed.
(* ordered list of deaths: once per call, in stream order *)
Theorem C09_append_history : forall ctl K f ps e,
  assoc_get K (c_handlers ctl) = Some {| h_params := ps; h_body := [Simple (SAppend f e)] |} -> pure_t e = true ->
  (forall K' h, K' <> K -> assoc_get K' (c_handlers ctl) = Some h -> ~ In f (writes_h h)) ->
  forall evs st st' l0, assoc_get f (st_fields st) = Some (PList l0) -> run_events_strict ctl st evs = (st', None) ->
  exists vs, history_values K ps e st evs = Ok vs /\ assoc_get f (st_fields st') = Some (PList (l0 ++ vs)%list).
Proof. exact append_history. Qed.
(* the roster: key-mapped, id-keyed merge in stream order *)
Theorem C09_roster_last_writer : forall umap uni recs players p',
  merge_records umap uni players recs = (p', None) ->
  exists cs, converted umap uni recs = Ok cs /\
             forall pid key, roster_lookup p' pid key = last_writer cs pid key (roster_lookup players pid key).
Proof. exact merge_records_last_writer. Qed.
(* ... over a whole history: the roster is the fold of the merges of the roster calls in stream order; no other call touches it *)
Theorem C09_roster_history : forall ctl, roster_handlers_simple ctl = true ->
  forall evs st st', run_events_strict ctl st evs = (st', None) -> players_fold ctl (st_players st) evs = (st_players st', None).
Proof. exact roster_history. Qed.
(* nothing from one event leaks into another field *)
Theorem C09_nothing_leaks : forall ctl st ev st' er g,
  apply_event ctl st ev = (st', er) ->
  (forall h, assoc_get (ev_key ev) (c_handlers ctl) = Some h -> ~ In g (writes_h h)) ->
  assoc_get g (st_fields st') = assoc_get g (st_fields st).
Proof. exact apply_event_frame. Qed.
Theorem C09_roster_untouched_by_other_calls : forall ctl st ev st' er,
  apply_event ctl st ev = (st', er) ->
  (forall h, assoc_get (ev_key ev) (c_handlers ctl) = Some h -> roster_h h = false) ->
  st_players st' = st_players st.
Proof. exact apply_event_players. Qed.
Theorem C09_unhandled_call_is_noop : forall ctl st ev, assoc_get (ev_key ev) (c_handlers ctl) = None -> apply_event ctl st ev = (st, None).
Proof. exact unhandled_event_is_noop. Qed.
(* the map name (after the repair recorded as fixed: C09-a - the setter used str.lstrip, which strips a character SET): the setter removes
   exactly the prefix "spaces/" when it is there and leaves every other name alone *)
Theorem C09_map_setter_removes_prefix : forall ctl ev loc st e b,
  eval {| cx_ev := ev; cx_locals := loc; cx_st := st |} e = Ok (PStr b) ->
  exec_s ctl {| cx_ev := ev; cx_locals := loc; cx_st := st |} (SMapPrefix e) = (loc, set_field st "_map" (PStr (remove_prefix spaces_set b)), None).
Proof. exact map_setter_removes_prefix. Qed.
Theorem C09_remove_prefix_spec : forall p s, remove_prefix p (p ++ s) = s.
Proof. exact remove_prefix_spec. Qed.
Theorem C09_remove_prefix_absent : forall p s, strip_prefix p s = None -> remove_prefix p s = s.
Proof. exact remove_prefix_absent. Qed.
(* why it mattered: the old setter on a map whose name starts with one of the letters s p a c e *)
Example C09_lstrip_was_wrong :
  lstrip_set spaces_set (list_byte_of_string "spaces/s07_Advance") = list_byte_of_string "07_Advance" /\
  remove_prefix (list_byte_of_string "spaces/") (list_byte_of_string "spaces/s07_Advance") = list_byte_of_string "s07_Advance".
Proof. exact lstrip_is_not_prefix_removal. Qed.

(* non-vacuity: a controller of the bundled shape and a history with a repeated attacker inside one batch, an interleaved death
   and an unhandled call; the hypotheses hold and the totals are what the theorem says *)
Local Open Scope string_scope.
Definition ex_ctl : controller :=
  {| c_init := [("_shots", PDict []); ("_deaths", PList [])];
     c_handlers := [("Vehicle_receiveDamagesOnShip",
                     {| h_params := ["damages"];
                        h_body := [SFor "d" (EVar "damages") [SSetdef "_shots" [EEntId; EIdx (EVar "d") (EStrC "vehicleID")];
                                                                SAugAdd "_shots" [EEntId; EIdx (EVar "d") (EStrC "vehicleID")] (EIdx (EVar "d") (EStrC "damage"))]] |});
                    ("Avatar_receiveVehicleDeath",
                     {| h_params := ["k"; "f"; "t"]; h_body := [Simple (SAppend "_deaths" (ETup [EVar "k"; EVar "f"; EVar "t"]))] |})];
     c_maps := []; c_unicodize := false; c_info := [("shots_damage_map", "_shots"); ("death_map", "_deaths")] |}.
Definition ex_dmg (att amount : Z) : pyval := PDict [(pstr "vehicleID", PInt att); (pstr "damage", PInt amount)].
Definition ex_ev (key : string) (id : Z) (kw : list (string * pyval)) : event :=
  {| ev_key := key; ev_id := id; ev_pos := []; ev_kw := kw; ev_props := []; ev_bl := [] |}.
Definition ex_history : list event :=
  [ex_ev "Vehicle_receiveDamagesOnShip" 500 [("damages", PList [ex_dmg 501 100; ex_dmg 501 50])];
   ex_ev "Avatar_receiveVehicleDeath" 900 [("k", PInt 500); ("f", PInt 501); ("t", PInt 3)];
   ex_ev "Avatar_somethingElse" 900 [];
   ex_ev "Vehicle_receiveDamagesOnShip" 500 [("damages", PList [ex_dmg 501 7])]].
Example C09_example_run :
  let '(st, er) := run_events_strict ex_ctl (init_state ex_ctl) ex_history in
  er = None /\
  (match get_dict_field st "_shots" with Ok d => dtotal d [PInt 500; PInt 501] | Err _ => PNone end) = PInt 157 /\
  assoc_get "_deaths" (st_fields st) = Some (PList [PTuple [PInt 500; PInt 501; PInt 3]]).
Proof. vm_compute. repeat split; reflexivity. Qed.
Example C09_example_hypotheses :
  forallb pure [EEntId; EIdx (EVar "d") (EStrC "vehicleID")] = true /\ pure (EIdx (EVar "d") (EStrC "damage")) = true /\
  pure_t (ETup [EVar "k"; EVar "f"; EVar "t"]) = true /\
  (forall K' h, K' <> "Vehicle_receiveDamagesOnShip" -> assoc_get K' (c_handlers ex_ctl) = Some h -> ~ In "_shots" (writes_h h)).
Proof.
  repeat split; try reflexivity. intros K' h Hne. cbn.
  destruct (String.eqb K' "Vehicle_receiveDamagesOnShip") eqn:E; [apply String.eqb_eq in E; contradiction|].
  destruct (String.eqb K' "Avatar_receiveVehicleDeath"); [|discriminate].
  intros H; inversion H; subst. cbn. intros [H1|[]]. discriminate.
Qed.

Print Assumptions C09_totals_history.
Print Assumptions C09_totals_are_sums.
Print Assumptions C09_integer_amounts_add_up.
Print Assumptions C09_append_history.
Print Assumptions C09_count_stmt_history.
Print Assumptions C09_roster_history.
Print Assumptions C09_roster_last_writer.
Print Assumptions C09_nothing_leaks.
Print Assumptions C09_roster_untouched_by_other_calls.
Print Assumptions C09_unhandled_call_is_noop.
Print Assumptions C09_map_setter_removes_prefix.
Print Assumptions C09_remove_prefix_spec.
Print Assumptions C09_example_run.
Print Assumptions C09_example_hypotheses.
