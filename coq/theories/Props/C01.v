(* C01 - container decoding is the exact inverse of the replay file format.  Statements only. *)
From RU Require Import Base WireSpec Feistel Blowfish Container ContainerProofs RealCipher.
Open Scope N_scope.

(* the cipher: a Feistel network is inverted by running the round keys backwards - for EVERY round function,
   every key schedule, every block; hence for Blowfish with any key *)
Theorem C01_feistel_inverse : forall F k0 ks kl p, dec F k0 ks kl (enc F k0 ks kl p) = p.
Proof. exact feistel_inverse. Qed.
Theorem C01_blowfish_dec_enc : forall F P b, bf_dec_f F P (bf_enc_f F P b) = b.
Proof. exact bf_dec_enc_f. Qed.
Print Assumptions C01_blowfish_dec_enc.

(* plaintext chaining on 64-bit block values, with the `if previous_block:` shortcut: inverse of the writer for every
   block list (any number of blocks, the empty stream included) *)
Theorem C01_chain_roundtrip : forall E D, (forall b, D (E b) = b) -> forall ps, chain_decrypt D None (chain_encrypt E 0 ps) = ps.
Proof. exact chain_roundtrip. Qed.
Print Assumptions C01_chain_roundtrip.

(* the byte-level reader (signed 'q' arithmetic as in the code) inverts the byte-level writer *)
Theorem C01_decrypt_data_roundtrip : forall E D,
  (forall b, length b = 8%nat -> D (E b) = b /\ length (E b) = 8%nat) ->
  forall prefix zpad, length prefix = 8%nat -> (Nat.modulo (length zpad) 8 = 0)%nat ->
  decrypt_data D (prefix ++ chain_enc E 0 (chunks8 (S (length zpad)) zpad)) = Ok zpad.
Proof. exact decrypt_data_roundtrip. Qed.
Print Assumptions C01_decrypt_data_roundtrip.

(* the whole container: for every whitelisted extension, first block, list of further blocks (empty ones read back as
   None), 8-byte prefix and padded compressed stream: reading what the writer wrote returns exactly those *)
Theorem C01_container_roundtrip : forall ciph_d ciph_e ext game key b0 extra prefix zpad,
  assoc_get ext key_table = Some (game, key) ->
  (forall b, length b = 8%nat -> ciph_d key (ciph_e key b) = b /\ length (ciph_e key b) = 8%nat) ->
  N.of_nat (length b0) < 2 ^ 31 -> Forall (fun b => N.of_nat (length b) < 2 ^ 31) extra -> N.of_nat (S (length extra)) < 2 ^ 31 ->
  length prefix = 8%nat -> (Nat.modulo (length zpad) 8 = 0)%nat ->
  read_container ciph_d ext (write_container (ciph_e key) b0 extra prefix zpad) =
  Ok {| ct_game := game; ct_engine := b0; ct_extra := map opt_block extra; ct_payload := zpad |}.
Proof. exact container_roundtrip. Qed.
Print Assumptions C01_container_roundtrip.

(* rejection happens before anything else is looked at: the result depends on nothing but the extension / the first
   four bytes *)
Theorem C01_bad_extension_valueerror : forall ciph ext file, assoc_get ext key_table = None -> read_container ciph ext file = Err EValue.
Proof. exact bad_extension_valueerror. Qed.
Theorem C01_bad_magic_valueerror : forall ciph ext game key m rest, assoc_get ext key_table = Some (game, key) ->
  length m = 4%nat -> bytes_eqb m magic = false -> read_container ciph ext (m ++ rest) = Err EValue.
Proof. exact bad_magic_valueerror. Qed.
Print Assumptions C01_bad_magic_valueerror.

(* ... and with the REAL cipher: the byte-level Blowfish of the model under each of the three keys of the format (key schedules computed inside Coq)
   satisfies the cipher hypothesis above, so for the functions the extracted reader and writer actually run nothing is left assumed *)
Theorem C01_real_cipher_inverse : forall ext game key, assoc_get ext key_table = Some (game, key) ->
  forall b, length b = 8%nat -> real_cipher key (real_cipher_enc key b) = b /\ length (real_cipher_enc key b) = 8%nat.
Proof. exact real_cipher_ok. Qed.
Theorem C01_real_container_roundtrip : forall ext game key b0 extra prefix zpad,
  assoc_get ext key_table = Some (game, key) ->
  N.of_nat (length b0) < 2 ^ 31 -> Forall (fun b => N.of_nat (length b) < 2 ^ 31) extra -> N.of_nat (S (length extra)) < 2 ^ 31 ->
  length prefix = 8%nat -> (Nat.modulo (length zpad) 8 = 0)%nat ->
  read_container real_cipher ext (write_container (real_cipher_enc key) b0 extra prefix zpad) =
  Ok {| ct_game := game; ct_engine := b0; ct_extra := map opt_block extra; ct_payload := zpad |}.
Proof. exact real_container_roundtrip. Qed.
Print Assumptions C01_real_container_roundtrip.
(* inhabited, by computation with the real key schedule *)
Example C01_real_example :
  read_container real_cipher "wowsreplay"
    (write_container (real_cipher_enc wows_key) [x7b; x7d] [[]; [x31]] (repeat x00 8) (repeat x41 9 ++ repeat x00 7)) =
  Ok {| ct_game := "wows"; ct_engine := [x7b; x7d]; ct_extra := [None; Some [x31]]; ct_payload := (repeat x41 9 ++ repeat x00 7)%list |}.
Proof. exact real_example. Qed.
