(* C08 - entity pose follows the position packets addressed to it.  Statements only (proofs: PoseProofs.v).
   These hold for the code AFTER the repair recorded in known_findings.json (fixed: C08-a). *)
From RU Require Import Base Types Defs BitReader World WireSpec LwwProofs PoseProofs Layout LayoutProofs.
Open Scope N_scope.

Theorem C08_position_sets_pose : forall St w id e veh pos poserr yaw pitch roll flag,
  in_i32 id -> length veh = 4%nat -> length poserr = 12%nat -> wf_pose pos yaw pitch roll ->
  zassoc_get id (w_entities w) = Some e ->
  step_class St w Position (enc_position id veh pos poserr yaw pitch roll flag) = (put w (set_pose e pos yaw pitch roll), None).
Proof. exact position_sets_pose. Qed.
Theorem C08_position_unknown : forall St w id veh pos poserr yaw pitch roll flag,
  in_i32 id -> length veh = 4%nat -> length poserr = 12%nat -> wf_pose pos yaw pitch roll ->
  zassoc_get id (w_entities w) = None ->
  step_class St w Position (enc_position id veh pos poserr yaw pitch roll flag) = (w, Some EKey).
Proof. exact position_unknown. Qed.
Theorem C08_own_player_no_second : forall St w e1 e pos yaw pitch roll,
  in_i32 e1 -> e1 <> 0%Z -> wf_pose pos yaw pitch roll -> zassoc_get e1 (w_entities w) = Some e ->
  step_class St w PlayerPosition (enc_player_position e1 0 pos yaw pitch roll) = (put w (set_pose e pos yaw pitch roll), None).
Proof. exact own_player_no_second. Qed.
Theorem C08_own_player_with_second : forall St w e1 e2 s m pos yaw pitch roll p y pi ro,
  in_i32 e1 -> in_i32 e2 -> e2 <> 0%Z -> wf_pose pos yaw pitch roll ->
  zassoc_get e1 (w_entities w) = Some s -> zassoc_get e2 (w_entities w) = Some m ->
  assoc_get "position" (en_vol m) = Some p -> assoc_get "yaw" (en_vol m) = Some y ->
  assoc_get "pitch" (en_vol m) = Some pi -> assoc_get "roll" (en_vol m) = Some ro ->
  step_class St w PlayerPosition (enc_player_position e1 e2 pos yaw pitch roll) =
  (put w (set_vol (set_vol (set_vol (set_vol s "position" p) "yaw" y) "pitch" pi) "roll" ro), None).
Proof. exact own_player_with_second. Qed.
Theorem C08_own_player_unknown : forall St w e1 e2 pos yaw pitch roll,
  in_i32 e1 -> in_i32 e2 -> wf_pose pos yaw pitch roll ->
  (if Z.eqb e2 0 then zassoc_get e1 (w_entities w) = None
   else zassoc_get e2 (w_entities w) = None \/ zassoc_get e1 (w_entities w) = None) ->
  step_class St w PlayerPosition (enc_player_position e1 e2 pos yaw pitch roll) = (w, None).
Proof. exact own_player_unknown. Qed.
Theorem C08_pose_independent : forall w e j, ids_ok w -> zassoc_get (en_id e) (w_entities w) <> None -> j <> en_id e ->
  zassoc_get j (w_entities (put w e)) = zassoc_get j (w_entities w).
Proof. exact pose_independent. Qed.
Theorem C08_set_pose_keeps_properties : forall e pos yaw pitch roll,
  en_client (set_pose e pos yaw pitch roll) = en_client e /\ en_base (set_pose e pos yaw pitch roll) = en_base e /\
  en_type (set_pose e pos yaw pitch roll) = en_type e /\ en_id (set_pose e pos yaw pitch roll) = en_id e.
Proof. exact set_pose_keeps_properties. Qed.
Theorem C08_default_pose : forall St id name e, new_entity St id name = Ok e -> Forall (fun kv => snd kv = None) (en_vol e).
Proof. exact new_entity_default_pose. Qed.
Print Assumptions C08_position_sets_pose.
Print Assumptions C08_own_player_no_second.
Print Assumptions C08_own_player_with_second.
Print Assumptions C08_own_player_unknown.

(* the byte layout of every packet class is a TABLE (Layout.class_layout) that the translator tools/gen_packets.py regenerates from the
   __init__ of the packet classes on every run (generated instance theorems: translated layout = class_layout); the model's step function
   is the table-driven one: the header fields are read by the generic parser from that table and handed to the class's handler *)
Theorem C08_step_is_table_driven : forall St w c pl, step_class St w c pl = step_layout St w c pl.
Proof. exact step_class_is_layout. Qed.
Print Assumptions C08_step_is_table_driven.
