(* C08 - entity pose follows the position packets addressed to it.  Statements only (proofs: PoseProofs.v).
   These hold for the code AFTER the repair recorded in known_findings.json (fixed: C08-a). *)
From RU Require Import Base Types Defs BitReader World WireSpec LwwProofs PoseProofs Layout LayoutProofs CreateProofs PoseHistory TimeProofs.
From Coq Require Import Lia.
Open Scope N_scope.

Theorem C08_position_sets_pose : forall St w id e veh pos poserr yaw pitch roll flag,
  in_i32 id -> length veh = 4%nat -> length poserr = 12%nat -> wf_pose pos yaw pitch roll ->
  zassoc_get id (w_entities w) = Some e ->
  step_class St w Position (enc_position id veh pos poserr yaw pitch roll flag) = (put w (set_pose e pos yaw pitch roll), None).
Proof. exact position_sets_pose. Qed.
Theorem C08_position_unknown : forall St w id veh pos poserr yaw pitch roll flag,
  in_i32 id -> length veh = 4%nat -> length poserr = 12%nat -> wf_pose pos yaw pitch roll ->
  zassoc_get id (w_entities w) = None ->
  step_class St w Position (enc_position id veh pos poserr yaw pitch roll flag) = (w, Some EKey).
Proof. exact position_unknown. Qed.
Theorem C08_own_player_no_second : forall St w e1 e pos yaw pitch roll,
  in_i32 e1 -> e1 <> 0%Z -> wf_pose pos yaw pitch roll -> zassoc_get e1 (w_entities w) = Some e ->
  step_class St w PlayerPosition (enc_player_position e1 0 pos yaw pitch roll) = (put w (set_pose e pos yaw pitch roll), None).
Proof. exact own_player_no_second. Qed.
Theorem C08_own_player_with_second : forall St w e1 e2 s m pos yaw pitch roll p y pi ro,
  in_i32 e1 -> in_i32 e2 -> e2 <> 0%Z -> wf_pose pos yaw pitch roll ->
  zassoc_get e1 (w_entities w) = Some s -> zassoc_get e2 (w_entities w) = Some m ->
  assoc_get "position" (en_vol m) = Some p -> assoc_get "yaw" (en_vol m) = Some y ->
  assoc_get "pitch" (en_vol m) = Some pi -> assoc_get "roll" (en_vol m) = Some ro ->
  step_class St w PlayerPosition (enc_player_position e1 e2 pos yaw pitch roll) =
  (put w (set_vol (set_vol (set_vol (set_vol s "position" p) "yaw" y) "pitch" pi) "roll" ro), None).
Proof. exact own_player_with_second. Qed.
Theorem C08_own_player_unknown : forall St w e1 e2 pos yaw pitch roll,
  in_i32 e1 -> in_i32 e2 -> wf_pose pos yaw pitch roll ->
  (if Z.eqb e2 0 then zassoc_get e1 (w_entities w) = None
   else zassoc_get e2 (w_entities w) = None \/ zassoc_get e1 (w_entities w) = None) ->
  step_class St w PlayerPosition (enc_player_position e1 e2 pos yaw pitch roll) = (w, None).
Proof. exact own_player_unknown. Qed.
Theorem C08_pose_independent : forall w e j, ids_ok w -> zassoc_get (en_id e) (w_entities w) <> None -> j <> en_id e ->
  zassoc_get j (w_entities (put w e)) = zassoc_get j (w_entities w).
Proof. exact pose_independent. Qed.
Theorem C08_set_pose_keeps_properties : forall e pos yaw pitch roll,
  en_client (set_pose e pos yaw pitch roll) = en_client e /\ en_base (set_pose e pos yaw pitch roll) = en_base e /\
  en_type (set_pose e pos yaw pitch roll) = en_type e /\ en_id (set_pose e pos yaw pitch roll) = en_id e.
Proof. exact set_pose_keeps_properties. Qed.
Theorem C08_default_pose : forall St id name e, new_entity St id name = Ok e -> Forall (fun kv => snd kv = None) (en_vol e).
Proof. exact new_entity_default_pose. Qed.
Print Assumptions C08_position_sets_pose.
Print Assumptions C08_own_player_no_second.
Print Assumptions C08_own_player_with_second.
Print Assumptions C08_own_player_unknown.

(* the byte layout of every packet class is a TABLE (Layout.class_layout) that the translator tools/gen_packets.py regenerates from the
   __init__ of the packet classes on every run (generated instance theorems: translated layout = class_layout); the model's step function
   is the table-driven one: the header fields are read by the generic parser from that table and handed to the class's handler *)
Theorem C08_step_is_table_driven : forall St w c pl, step_class St w c pl = step_layout St w c pl.
Proof. exact step_class_is_layout. Qed.
Print Assumptions C08_step_is_table_driven.

(* ---- whole histories ----
   After ANY sequence of position and own-player position packets - any number, any ids (known or not), linked or not - the pose of every entity
   is what the last-writer-wins specification says: the values of the last position packet addressed to it (an own-player packet naming no second
   entity counts as one), the pose the named second entity HAD when an own-player packet linked them, the defaults before the first one; packets
   naming an entity that does not exist change nothing; and nothing else changes: types, the three property tables of every entity, the recording
   player, the map and the callback trace. *)
Theorem C08_pose_history : forall St ps w s,
  ids_ok w -> full w -> Forall wf_ppkt ps -> psame (pabs w) s ->
  let w' := play_packets St w (map enc_ppkt ps) in
  ids_ok w' /\ full w' /\ psame (pabs w') (fold_left spec_pstep ps s) /\ (forall i, rest_of w' i = rest_of w i) /\
  w_player w' = w_player w /\ w_map w' = w_map w /\ w_trace w' = w_trace w.
Proof. exact pose_history. Qed.
Print Assumptions C08_pose_history.

(* non-vacuity: two ships (7, 8) at their default pose; position(7), own-player(8 linked to 7), position(7) again, own-player(8, no link),
   position(9: unknown), own-player(8 linked to the unknown 9): ship 8 first copies ship 7's FIRST pose, is not dragged along by 7's second
   packet, then takes its own packet; the packets naming 9 change nothing *)
Local Open Scope string_scope.
Definition ex8_vol : list (string * option bytes) := [("position", None); ("yaw", None); ("pitch", None); ("roll", None)].
Definition ex8_ent (i : Z) : entity := {| en_id := i; en_type := "Ship"; en_client := [("hp", VInt 5)]; en_base := []; en_cell := []; en_vol := ex8_vol |}.
Definition ex8_w : world := {| w_entities := [(7%Z, ex8_ent 7); (8%Z, ex8_ent 8)]; w_player := Some 8%Z; w_map := None; w_trace := [] |}.
Definition ex8_St : setup := {| s_game := Wows; s_table := []; s_names := ["Ship"]; s_models := []; s_msubs := []; s_mcounts := []; s_psubs := []; s_nsubs := [] |}.
Definition b4 (x : byte) : bytes := [x; x; x; x].
Definition b12 (x : byte) : bytes := (b4 x ++ b4 x ++ b4 x)%list.
Definition ex8_ps : list ppkt :=
  [PPos 7 (b4 x00) (b12 x01) (b12 x00) (b4 x02) (b4 x03) (b4 x04) x00;
   POwn 8 7 (b12 xee) (b4 xee) (b4 xee) (b4 xee);
   PPos 7 (b4 x00) (b12 x11) (b12 x00) (b4 x12) (b4 x13) (b4 x14) x01;
   PPos 9 (b4 x00) (b12 x99) (b12 x00) (b4 x99) (b4 x99) (b4 x99) x00;
   POwn 8 9 (b12 xdd) (b4 xdd) (b4 xdd) (b4 xdd)].
Example C08_example_history :
  ids_ok ex8_w /\ full ex8_w /\ Forall wf_ppkt ex8_ps /\
  pabs (play_packets ex8_St ex8_w (map enc_ppkt ex8_ps)) 7 = Some (Some (b12 x11), Some (b4 x12), Some (b4 x13), Some (b4 x14)) /\
  pabs (play_packets ex8_St ex8_w (map enc_ppkt ex8_ps)) 8 = Some (Some (b12 x01), Some (b4 x02), Some (b4 x03), Some (b4 x04)) /\
  pabs (play_packets ex8_St ex8_w (map enc_ppkt ex8_ps)) 9 = None /\
  fold_left spec_pstep ex8_ps (pabs ex8_w) 8%Z = Some (Some (b12 x01), Some (b4 x02), Some (b4 x03), Some (b4 x04)).
Proof.
  split; [|split; [|split]].
  - intros i en H. cbn in H. destruct (Z.eqb i 7) eqn:E7; [apply Z.eqb_eq in E7; inversion H; subst; reflexivity|].
    destruct (Z.eqb i 8) eqn:E8; [apply Z.eqb_eq in E8; inversion H; subst; reflexivity|discriminate].
  - intros i en H. cbn in H. destruct (Z.eqb i 7); [inversion H; subst; discriminate|]. destruct (Z.eqb i 8); [inversion H; subst; discriminate|discriminate].
  - repeat constructor; unfold in_i32; try lia.
  - vm_compute. repeat split; reflexivity.
Qed.

(* "a packet naming a not-yet-created entity is ignored" is about the POSITION in the stream: time stamps are never consulted, so an entity
   created by a later packet under the same (or an earlier) time stamp is still "not yet created" *)
Theorem C08_step_ignores_time : forall St w p q, same_but_time p q -> step St w p = step St w q.
Proof. exact step_ignores_time. Qed.
Print Assumptions C08_step_ignores_time.
