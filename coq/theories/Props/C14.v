(* C14 - results serialise to JSON and the CLI prints exactly one JSON document.  Statements only (JsonProofs.v).
   Level "other": the encoder and the process I/O are CPython's; what the model contributes is the exact reason a finite
   result tree can be refused.  The standard-output part is tied by a generated inventory of every stdout writer in the
   package (instance theorem, build/gen/Inst_C14.v) and by running the command-line tool. *)
From RU Require Import Base Json JsonProofs.

(* json.dumps(info, cls=DefaultEncoder) on a finite tree fails only for a dict KEY that is a tuple, bytes or another
   object - never for a value (the encoder's default() maps any object to its __dict__ or its str) *)
Theorem C14_json_refused_iff_bad_key : forall v, json_ok v = false -> bad_key_in v.
Proof. exact json_refused_iff_bad_key. Qed.
Print Assumptions C14_json_refused_iff_bad_key.
Theorem C14_values_never_fail : forall v, no_dict v = true -> json_ok v = true.
Proof. exact values_never_fail. Qed.
Example C14_bytes_key_repaired : json_ok (PDict [(KBytes [x61], PInt 1)]) = false /\ json_ok (unicodize (PDict [(KBytes [x61], PInt 1)])) = true.
Proof. exact bytes_key_repaired. Qed.
Example C14_tuple_key_refused : json_ok (unicodize (PDict [(KTuple 2, PInt 1)])) = false.
Proof. exact tuple_key_refused. Qed.
