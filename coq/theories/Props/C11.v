(* C11 - the replay version selects matching definitions, controller and packet table.  Statements only. *)
From RU Require Import Base Version VersionProofs.
Open Scope string_scope.

(* wows / wowp: the four-component directory if it is bundled, otherwise the three-component one; controller and
   definitions always come from the same bundled version *)
Theorem C11_resolve_exact : forall inv, inv_coherent inv -> forall g parts s, g <> VWot -> select_version g inv parts = inl s ->
  sel_controller s = sel_definitions s /\
  (match find_dir (join "_" (firstn 4 parts)) inv with
   | Some _ => sel_controller s = join "_" (firstn 4 parts)
   | None => sel_controller s = join "_" (firstn 3 parts) /\ find_dir (join "_" (firstn 3 parts)) inv <> None
   end).
Proof. exact resolve_exact. Qed.
Print Assumptions C11_resolve_exact.
(* a version that is not bundled is refused with the loader's "not supported" error, never played with other data *)
Theorem C11_resolve_refuses : forall inv g parts, g <> VWot ->
  find_dir (join "_" (firstn 4 parts)) inv = None -> find_dir (join "_" (firstn 3 parts)) inv = None ->
  select_version g inv parts = inr VNotSupported.
Proof. exact resolve_refuses. Qed.
Theorem C11_resolve_no_controller : forall inv g parts d, g <> VWot ->
  find_dir (join "_" (firstn 4 parts)) inv = Some d -> vd_controller d = false -> select_version g inv parts = inr VAssert.
Proof. exact resolve_no_controller. Qed.
Theorem C11_resolve_wot : forall inv, inv_coherent inv -> forall parts s, select_version VWot inv parts = inl s ->
  sel_controller s = replace_all "." "_" (join "." parts) /\ sel_definitions s = sel_controller s /\ sel_new_table s = false.
Proof. exact resolve_wot. Qed.
Theorem C11_resolve_wot_refuses : forall inv parts,
  find_dir (replace_all "." "_" (join "." parts)) inv = None -> select_version VWot inv parts = inr VImport.
Proof. exact resolve_wot_refuses. Qed.

(* the renumbered packet table: numeric comparison with 12.6.0 (12.10 > 12.6; 12.6 = 12.6.0) *)
Theorem C11_table_switch : forall a b rest,
  release_ge (a :: b :: rest) [12; 6; 0]%N = true <-> (12 < a \/ (a = 12 /\ 6 <= b))%N.
Proof. exact table_switch. Qed.
Print Assumptions C11_table_switch.

(* the wows version string: any blanks around the commas; parts are returned as written *)
Theorem C11_norm_wows_format : forall parts blanks, parts <> [] ->
  Forall (fun p => has_char "," p = false /\ has_char " " p = false) parts ->
  norm_wows (spaced parts blanks) = parts.
Proof. exact norm_wows_format. Qed.
Print Assumptions C11_norm_wows_format.
Example C11_norm_examples :
  norm_wows "0, 8, 0, 1284547" = ["0"; "8"; "0"; "1284547"] /\
  norm_wows "13,2,0,7983292" = ["13"; "2"; "0"; "7983292"] /\
  norm_wot (wot_prefix ++ "1.8.0.2 #252") = "1.8.0" /\
  norm_wot (wot_prefix ++ "1.10.0.0 #1029") = "1.10.0" /\
  norm_wowp "World of Warplanes 2.1.17.1" = ["2"; "1"; "17"; "1"] /\
  norm_wowp "World of Warplanes 2. 1. 20" = ["2"; "1"; "20"].
Proof. exact norm_examples. Qed.
