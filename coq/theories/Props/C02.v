(* C02 - packet framing: ordered, exactly once, isolated, terminating.  Statements only. *)
From RU Require Import Base Types Defs BitReader World Run FrameProofs RunProofs WorldProofs Layout LayoutProofs LayoutRoundTrip TimeProofs EncodingCorollaries.

(* every packet (payload < 2^32 bytes, any 32-bit type id, any timestamp bits) exactly once, in stream order, with
   exactly its type, timestamp and payload; the stream then ends cleanly *)
Theorem C02_frames_enc : forall ps, Forall wf_packet ps -> frames (enc_all ps) = (ps, Clean).
Proof. exact frames_enc. Qed.
Print Assumptions C02_frames_enc.

(* a header cut after 1..11 bytes: all packets before it are delivered unchanged; play ends (struct.error) *)
Theorem C02_frames_cut_header : forall ps junk, Forall wf_packet ps -> (0 < length junk < 12)%nat ->
  frames (enc_all ps ++ junk)%list = (ps, HeaderCut).
Proof. exact frames_cut_header. Qed.
Print Assumptions C02_frames_cut_header.

(* the last payload cut short: the packets before it are unchanged and the last one gets the bytes that are there *)
Theorem C02_frames_cut_payload : forall ps p k, Forall wf_packet ps -> wf_packet p -> (k <= length (pk_payload p))%nat ->
  frames (enc_all ps ++ enc_header p ++ firstn k (pk_payload p))%list =
  ((ps ++ [{| pk_type := pk_type p; pk_time := pk_time p; pk_payload := firstn k (pk_payload p) |}])%list, Clean).
Proof. exact frames_cut_payload. Qed.
Print Assumptions C02_frames_cut_payload.

(* so playing the byte stream IS playing the packet list: every packet handed to the dialect exactly once, in order *)
Theorem C02_run_strict_enc : forall St ps, Forall wf_packet ps -> run_strict St (enc_all ps) = play_strict St empty_world ps.
Proof. exact run_strict_enc. Qed.
Theorem C02_run_lenient_enc : forall St ps, Forall wf_packet ps -> run_lenient St (enc_all ps) = (play_lenient St empty_world ps, None).
Proof. exact run_lenient_enc. Qed.
Theorem C02_run_lenient_cut_header : forall St ps junk, Forall wf_packet ps -> (0 < length junk < 12)%nat ->
  run_lenient St (enc_all ps ++ junk)%list = (play_lenient St empty_world ps, Some EStruct).
Proof. exact run_lenient_cut_header. Qed.
Print Assumptions C02_run_strict_enc.

(* termination: on EVERY byte string the recursion budget (one more than the number of bytes) is never exhausted *)
Theorem C02_frames_terminate : forall bs, snd (frames bs) <> OutOfFuel.
Proof. intros bs. apply frames_fuel_enough. auto. Qed.
Print Assumptions C02_frames_terminate.

(* a packet of a type the dialect does not map is a no-op wherever it is inserted, in both modes:
   same world, same callback trace, same outcome *)
Theorem C02_unmapped_is_noop_strict : forall St w xs p ys,
  table_get (pk_type p) (s_table St) = None ->
  play_strict St w (xs ++ p :: ys) = play_strict St w (xs ++ ys).
Proof. exact unmapped_is_noop_strict. Qed.
Theorem C02_unmapped_is_noop_lenient : forall St w xs p ys,
  table_get (pk_type p) (s_table St) = None ->
  play_lenient St w (xs ++ p :: ys) = play_lenient St w (xs ++ ys).
Proof. exact unmapped_is_noop_lenient. Qed.
Print Assumptions C02_unmapped_is_noop_strict.

(* mapped packets the player does not act on (control / enter / leave / version / battle stats): if they decode they
   change nothing, wherever they occur *)
Theorem C02_ignored_mapped_is_noop : forall St w p c,
  table_get (pk_type p) (s_table St) = Some c -> ignored_class c = true ->
  forall w' , step St w p = (w', None) -> w' = w.
Proof. exact ignored_mapped_is_noop. Qed.
Print Assumptions C02_ignored_mapped_is_noop.

(* isolation holds by construction of the model: a handler is [step St w p] - a function of the world and of ITS packet;
   it has no access to the stream.  That the implementation has the same shape (a private BytesIO per payload) is what
   the correspondence check establishes with payloads shorter than their handler's struct (a handler that could read on
   into the next header would not fail there). *)

(* "exactly its payload", one level down: the header fields of a packet.  For ANY layout term (so for every row of the translated table, whatever
   the translator produces), any field values that fit their fields and any bytes behind a layout that does not end in "everything that is left",
   the generic parser returns exactly the values that were encoded ... *)
Theorem C02_header_round_trip : forall l vs tail,
  vals_ok l vs -> (ends_with_rest l = true -> tail = []%list) ->
  parse_layout l (enc_layout l vs ++ tail)%list = Ok vs.
Proof. exact parse_enc_layout. Qed.
Print Assumptions C02_header_round_trip.
(* ... and so the model's step function hands every packet class's handler exactly the header fields that were written *)
Theorem C02_step_on_encoded_header : forall St w c L vs tail,
  class_layout (s_game St) c = Some L -> vals_ok L vs -> (ends_with_rest L = true -> tail = []%list) ->
  step_class St w c (enc_layout L vs ++ tail)%list = handle St w c vs.
Proof. exact step_class_on_encoded. Qed.
Print Assumptions C02_step_on_encoded_header.
(* inhabited: a three-field layout (signed 4, unsigned 2, length-prefixed blob) with values that fit *)
Example C02_example_header : vals_ok [KS 4; KU 2; KBin] [LZ (-5)%Z; LN 513%N; LB [x01; x02; x03]]
  /\ parse_layout [KS 4; KU 2; KBin] (enc_layout [KS 4; KU 2; KBin] [LZ (-5)%Z; LN 513%N; LB [x01; x02; x03]] ++ [x09])%list
     = Ok [LZ (-5)%Z; LN 513%N; LB [x01; x02; x03]].
Proof. exact example_header. Qed.

(* "in stream order": the order is the position in the stream - no handler consults a packet's time stamp.  Two packet lists that agree in
   types and payloads position by position are played to the same world, trace and outcome, whatever their stamps (equal, decreasing, NaN) *)
Theorem C02_play_strict_ignores_time : forall St ps qs w, Forall2 same_but_time ps qs -> play_strict St w ps = play_strict St w qs.
Proof. exact play_strict_ignores_time. Qed.
Theorem C02_play_lenient_ignores_time : forall St ps qs w, Forall2 same_but_time ps qs -> play_lenient St w ps = play_lenient St w qs.
Proof. exact play_lenient_ignores_time. Qed.
Print Assumptions C02_play_strict_ignores_time.
(* the framing is unambiguous: two lists of well-formed packets with the same stream bytes are the same list *)
Theorem C02_enc_all_injective : forall ps1 ps2, Forall wf_packet ps1 -> Forall wf_packet ps2 -> enc_all ps1 = enc_all ps2 -> ps1 = ps2.
Proof. exact enc_all_injective. Qed.
Print Assumptions C02_enc_all_injective.
