(* C13 - parsing is deterministic and independent of what was parsed before.  Statements only (HistoryProofs.v).
   Determinism: in the model a parse is a FUNCTION of (tables, replay) - there is nothing else it could depend on.
   Independence from the tables left by earlier parses is the theorem below; its hypothesis is the finite condition
   stale_safe_b, established for the working tree by the GENERATED instance theorem inst_stale_safe
   (build/gen/Inst_C13.v: all ordered pairs of the bundled versions, vm_compute). *)
From RU Require Import Base History HistoryProofs.

Theorem C13_parse_history_independent : forall vs, stale_safe_b vs = true ->
  forall hist o events, Forall (fun p => (fst p < length vs)%nat) hist -> (o < length vs)%nat ->
  Forall (fun k => In k (vi_hits (vget vs o))) events ->
  fst (parse_dispatch vs (run_parses vs [] hist) o events) = fst (parse_dispatch vs [] o events).
Proof. exact parse_history_independent. Qed.
Print Assumptions C13_parse_history_independent.

(* ... and no callback of an earlier parse ever runs during a later one *)
Theorem C13_no_stale_dispatch : forall vs, stale_safe_b vs = true ->
  forall g o k, owned vs g -> (o < length vs)%nat -> In k (vi_hits (vget vs o)) ->
  match dispatch (register g o (vi_keys (vget vs o))) o k with Stale _ => False | _ => True end.
Proof. exact no_stale_dispatch. Qed.
Print Assumptions C13_no_stale_dispatch.

(* the condition is necessary in the model: a key that one version registers, another does not, and that exists in the
   other's definitions IS dispatched to the stale callback *)
Example C13_stale_dispatch_when_unsafe :
  let vs := [{| vi_keys := ["Avatar_x"%string]; vi_hits := ["Avatar_x"%string] |}; {| vi_keys := []; vi_hits := ["Avatar_x"%string] |}] in
  stale_safe_b vs = false /\
  fst (parse_dispatch vs (run_parses vs [] [(0%nat, [])]) 1%nat ["Avatar_x"%string]) = [Stale 0%nat] /\
  fst (parse_dispatch vs [] 1%nat ["Avatar_x"%string]) = [Nobody].
Proof. repeat split; reflexivity. Qed.
