(* C04 - numeric ids on the wire resolve to the right definition members.  Statements only (DefsProofs.v). *)
From RU Require Import Base Types Defs BitReader World DefsProofs SectionOrder.
From Coq Require Import Sorting.Permutation.
Open Scope Z_scope.

(* entity type id = 1-based position in the entities list; 0 and negative ids name nothing (no wrap-around) *)
Theorem C04_entity_index_spec : forall names i, entity_by_index names (Z.of_nat (S i)) = nth_error names i.
Proof. exact entity_index_spec. Qed.
Theorem C04_entity_index_nonpositive : forall names z, z <= 0 -> entity_by_index names z = None.
Proof. exact entity_index_nonpositive. Qed.

(* the id order of methods / exposed properties is a permutation of the collected members, sorted by wire size, with every
   tie class in its original (collection) order - and it is the ONLY list with these three properties *)
Theorem C04_ssort_perm : forall (A : Type) (key : A -> Z) l, Permutation l (ssort key l).
Proof. intros A key. exact (ssort_perm key). Qed.
Theorem C04_ssort_sorted : forall (A : Type) (key : A -> Z) l, sorted key (ssort key l).
Proof. intros A key. exact (ssort_sorted key). Qed.
Theorem C04_ssort_stable : forall (A : Type) (key : A -> Z) l k, sel key k (ssort key l) = sel key k l.
Proof. intros A key. exact (ssort_stable key). Qed.
Theorem C04_ssort_unique : forall (A : Type) (key : A -> Z) l l',
  sorted key l' -> (forall k, sel key k l' = sel key k l) -> l' = ssort key l.
Proof. intros A key. exact (ssort_unique key). Qed.
Print Assumptions C04_ssort_stable.
Print Assumptions C04_ssort_unique.

(* what the five id lists of an entity are *)
Theorem C04_entity_model_spec : forall cfg al ifaces def m,
  entity_model cfg al ifaces def = Ok m ->
  exists a, collect cfg al ifaces FUEL def {| a_props := []; a_methods := []; a_vol := [] |} = Ok a /\
    e_methods m = ssort method_key (a_methods a) /\
    e_client m = ssort prop_key (by_mask (mask_client cfg) (a_props a)) /\
    e_internal m = by_mask (mask_internal cfg) (a_props a) /\
    e_cell m = by_mask (mask_cell cfg) (a_props a) /\
    e_base m = by_mask (mask_base cfg) (a_props a).
Proof. exact entity_model_spec. Qed.

(* "interfaces first, depth-first in declaration order, then the entity's own": the code's accumulator-passing recursion
   is the fold of [absorb] (one file's own sections) over the depth-first list of definition files, the entity's own last *)
Theorem C04_collect_is_dfs : forall cfg al ifaces fuel n a ss,
  sections ifaces fuel n = Ok ss -> collect cfg al ifaces fuel n a = absorb_all cfg al ss a.
Proof. exact collect_is_dfs. Qed.
Theorem C04_sections_own_last : forall ifaces fuel n ss, sections ifaces fuel n = Ok ss -> exists pre, ss = (pre ++ [n])%list.
Proof. exact sections_own_last. Qed.
Print Assumptions C04_collect_is_dfs.

(* every variable-size method after every fixed-size one (strictly smaller key => strictly smaller id) *)
Theorem C04_variable_after_fixed : forall ms i j m1 m2,
  nth_error (ssort method_key ms) i = Some m1 -> nth_error (ssort method_key ms) j = Some m2 ->
  method_key m1 < method_key m2 -> (i < j)%nat.
Proof. exact variable_after_fixed. Qed.
Theorem C04_fixed_key_lt_variable_key : forall m1 m2 s1,
  fold_left (fun acc a => (acc + size_in_bytes (snd a))%N) (m_args m1) 0%N = s1 -> (s1 < INFINITY)%N ->
  (INFINITY <= fold_left (fun acc a => (acc + size_in_bytes (snd a))%N) (m_args m2) 0%N)%N ->
  Z.of_N s1 + m_hdr m1 < Z.of_N INFINITY + m_hdr m2 ->
  method_key m1 < method_key m2.
Proof. exact method_key_fixed_lt_variable. Qed.

(* a later redefinition of a property name replaces the earlier one and takes the LATER position *)
Theorem C04_add_prop_spec : forall p l,
  add_prop p l = (filter (fun q => negb (String.eqb (p_name q) (p_name p))) l ++ [p])%list.
Proof. exact add_prop_spec. Qed.
Theorem C04_add_prop_last : forall p l, last (add_prop p l) p = p /\
  (forall q, In q (add_prop p l) -> p_name q = p_name p -> q = p).
Proof. exact add_prop_last. Qed.
(* the first definition of a method name wins *)
Theorem C04_method_first_wins : forall name ms mm, has_method name ms = true -> m_name mm = name ->
  (if has_method (m_name mm) ms then ms else (ms ++ [mm])%list) = ms.
Proof. exact has_method_first_wins. Qed.

(* non-vacuity: ties keep declaration order *)
Example C04_example : ssort fst [(3, 1); (1, 2); (3, 3); (2, 4); (1, 5)] = [(1, 2); (1, 5); (2, 4); (3, 1); (3, 3)].
Proof. reflexivity. Qed.

(* the order in which a .def lists its top-level sections (Implements, Properties, ClientMethods, Volatile, ...) is irrelevant - only the order
   INSIDE a section counts: for every permutation of the sections (each present once) the entity model, and so every index, is the same *)
Theorem C04_section_order_irrelevant : forall cfg al ifaces tag text kids kids',
  Permutation kids kids' -> NoDup (map tag_of kids) ->
  entity_model cfg al ifaces (Node tag text kids) = entity_model cfg al ifaces (Node tag text kids').
Proof. exact section_order_irrelevant. Qed.
Print Assumptions C04_section_order_irrelevant.
