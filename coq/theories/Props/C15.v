(* C15 - damaged input never hangs or crashes the parser.  Statements only (TerminationProofs.v, FrameProofs.v).
   Level "other"/partial: what is proved is that every loop of the MODEL is bounded by the bytes (bits) actually present
   - the explicit recursion budgets can never be exhausted, on ANY input.  Wall-clock time and resident memory of
   CPython, zlib and lxml are observed by fault injection, not proved. *)
From RU Require Import Base Types Defs BitReader World WireSpec Container TypesProofs FrameProofs TerminationProofs GrowthProofs.
Open Scope N_scope.

(* the play loop: on EVERY byte string the framer ends within its budget (<= bytes/12 + 1 iterations) *)
Theorem C15_frames_terminate : forall bs, snd (frames bs) <> OutOfFuel.
Proof. intros bs. apply frames_fuel_enough. auto. Qed.
Print Assumptions C15_frames_terminate.

(* a successful decode consumes at least min_size(t) bytes ... *)
Theorem C15_decode_min_consumed : forall t hdr bs v rest,
  decode hdr t bs = Ok (v, rest) -> (length rest + min_size t <= length bs)%nat.
Proof. exact decode_min_consumed. Qed.
Print Assumptions C15_decode_min_consumed.
(* ... so the element loop of a nested update (`while io.tell() != len(rest)`) ends within its budget whenever the element
   type has min_size > 0 - which a generated instance check establishes for every array type of all bundled definitions *)
Theorem C15_element_loop_terminates : forall t, (0 < min_size t)%nat -> forall fuel bs, (length bs < fuel)%nat -> decode_all fuel t bs <> Err EFuel.
Proof. exact decode_all_no_fuel. Qed.
Print Assumptions C15_element_loop_terminates.
(* a value decoder has no loop of its own that could run away: array counts are one byte, everything else is structural *)
Theorem C15_decode_never_out_of_fuel : forall t hdr bs, decode hdr t bs <> Err EFuel.
Proof. exact decode_never_fuel. Qed.
(* the bit-path loop takes at least one bit per iteration *)
Theorem C15_path_loop_terminates : forall fuel v r, (length (br_bits r) < fuel)%nat -> walk fuel v r <> Err EFuel.
Proof. exact walk_no_fuel. Qed.
(* the block loop of the container needs four more bytes per iteration, whatever block count the header claims *)
Theorem C15_block_loop_terminates : forall fuel cnt bs, (length bs < fuel)%nat -> read_blocks fuel cnt bs <> Err EFuel.
Proof. exact read_blocks_no_fuel. Qed.
Print Assumptions C15_block_loop_terminates.

(* memory, at the nested reader: ONE nested-change packet makes a list longer by at most the number of bytes it carries.  The bounds of a slice
   packet do not enter the estimate - a bound past the end is clamped, never padded - so no run of tiny packets makes a list grow geometrically;
   a single-element change keeps the length *)
Theorem C15_nested_list_growth_bounded : forall is_slice et l r v nm b,
  leaf_op is_slice (VList et l) r = Ok (v, nm, b) ->
  exists l', v = VList et l' /\ (length l' <= length l + length (br_src r))%nat /\ (is_slice = false -> length l' = length l).
Proof. exact leaf_op_list_growth. Qed.
Print Assumptions C15_nested_list_growth_bounded.
Example C15_growth_example :
  exists v nm b, leaf_op true (VList (TUInt 1) [VInt 1; VInt 2; VInt 3]) (br_init [xfc; x07]) = Ok (v, nm, b).
Proof. exact growth_example. Qed.

Theorem C15_nested_dict_growth_bounded : forall is_slice fs kvs r v nm b,
  leaf_op is_slice (VDict fs kvs) r = Ok (v, nm, b) ->
  exists kvs', v = VDict fs kvs' /\ (length kvs' <= S (length kvs))%nat.
Proof. exact leaf_op_dict_growth. Qed.
Print Assumptions C15_nested_dict_growth_bounded.
