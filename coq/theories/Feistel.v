From Coq Require Import List NArith ZArith Lia.
Import ListNotations.
Open Scope N_scope.

Section Feistel.
Variable F : N -> N.
Definition blk := (N * N)%type.
Definition tau (p : blk) : blk := (snd p, fst p).
Definition W (k : N) (p : blk) : blk := (N.lxor (fst p) k, snd p).
Definition Phi (k : N) (p : blk) : blk := (snd p, N.lxor (N.lxor (fst p) (F (snd p))) k).
Definition chain (ks : list N) (p : blk) : blk := fold_left (fun p k => Phi k p) ks p.

Lemma xor2 a b : N.lxor (N.lxor a b) b = a.
Proof. apply N.bits_inj. intro n. rewrite !N.lxor_spec. destruct (N.testbit a n), (N.testbit b n); reflexivity. Qed.
Lemma xor4 x f k : N.lxor (N.lxor (N.lxor (N.lxor x f) k) f) k = x.
Proof. apply N.bits_inj. intro n. rewrite !N.lxor_spec. destruct (N.testbit x n), (N.testbit f n), (N.testbit k n); reflexivity. Qed.
Lemma tau_tau p : tau (tau p) = p. Proof. destruct p; reflexivity. Qed.
Lemma W_W k p : W k (W k p) = p. Proof. destruct p; unfold W; simpl. now rewrite xor2. Qed.
Lemma Phi_tau_Phi k p : Phi k (tau (Phi k p)) = tau p.
Proof. destruct p as [x y]. unfold Phi, tau; simpl. now rewrite xor4. Qed.

Lemma chain_app a b p : chain (a ++ b) p = chain b (chain a p).
Proof. unfold chain. now rewrite fold_left_app. Qed.
Lemma chain_rev_tau ks : forall p, chain (rev ks) (tau (chain ks p)) = tau p.
Proof.
  induction ks as [|k ks IH]; intros p; [reflexivity|].
  cbn [rev]. rewrite chain_app. cbn [chain fold_left]. fold (chain ks (Phi k p)).
  rewrite IH. cbn. apply Phi_tau_Phi.
Qed.

(* Blowfish-shaped cipher: whitening keys k0 (in) and kl (out), round keys ks *)
Definition enc (k0 : N) (ks : list N) (kl : N) (p : blk) : blk := W kl (chain ks (tau (W k0 p))).
Definition dec (k0 : N) (ks : list N) (kl : N) (p : blk) : blk := W k0 (chain (rev ks) (tau (W kl p))).

Theorem feistel_inverse k0 ks kl p : dec k0 ks kl (enc k0 ks kl p) = p.
Proof.
  unfold dec, enc. rewrite W_W, chain_rev_tau, tau_tau, W_W. reflexivity.
Qed.
End Feistel.

(* ---- plaintext-chained ECB, as ReplayReader.__decrypt_data does it ---- *)
Section Chain.
Variable E D : N -> N.          (* 64-bit block cipher on block values *)
Hypothesis DE : forall b, D (E b) = b.

(* writer (spec): c_i = E (p_i xor p_{i-1}), p_0 = 0 *)
Fixpoint chain_encrypt (prev : N) (ps : list N) : list N :=
  match ps with [] => [] | p :: r => E (N.lxor p prev) :: chain_encrypt p r end.
(* reader (model): `if previous_block: block ^= previous_block`; previous_block = None initially *)
Fixpoint chain_decrypt (prev : option N) (cs : list N) : list N :=
  match cs with
  | [] => []
  | c :: r =>
      let d := D c in
      let p := match prev with
               | Some q => if q =? 0 then d else N.lxor d q     (* falsy previous block: XOR skipped *)
               | None => d end in
      p :: chain_decrypt (Some p) r
  end.

Lemma chain_roundtrip_aux ps : forall q,
  chain_decrypt (Some q) (chain_encrypt q ps) = ps.
Proof.
  induction ps as [|p ps IH]; intros q; [reflexivity|].
  cbn [chain_encrypt chain_decrypt]. rewrite DE.
  assert (H : (if q =? 0 then N.lxor p q else N.lxor (N.lxor p q) q) = p).
  { destruct (q =? 0) eqn:E0.
    - apply N.eqb_eq in E0. subst. apply N.lxor_0_r.
    - apply xor2. }
  rewrite H. now rewrite IH.
Qed.
Theorem chain_roundtrip ps : chain_decrypt None (chain_encrypt 0 ps) = ps.
Proof.
  destruct ps as [|p ps]; [reflexivity|].
  cbn [chain_encrypt chain_decrypt]. rewrite DE, N.lxor_0_r. now rewrite chain_roundtrip_aux.
Qed.
End Chain.
Print Assumptions feistel_inverse.
Print Assumptions chain_roundtrip.
