(* C05 end to end: from the BYTES of the packet stream to the abstract entity table.  Composition of the framing theorem (C02), the
   per-packet theorems and the history theorem: a stream that is the concatenation of well-formed frames whose type ids the dialect's
   table maps to base-player / cell-player / creation / update packets is played - by the whole lenient run - into an entity table
   that refines the last-writer-wins fold of the events those packets denote. *)
From RU Require Import Base Types Defs BitReader World Run WireSpec TypesProofs FrameProofs RunProofs LwwProofs CreateProofs PlayerProofs.
From Coq Require Import Lia.
Open Scope N_scope.

Section Stream.
Variable St : setup.
Hypothesis Hgame : s_game St <> Wowp.

Lemma step_is_step_class w p c : table_get (pk_type p) (s_table St) = Some c -> step St w p = step_class St w c (pk_payload p).
Proof. intros H. unfold step. rewrite H. destruct (s_game St); [reflexivity | reflexivity | contradiction]. Qed.

(* the packets carry the classes the table assigns to their type ids *)
Fixpoint classified (ps : list packet) (cps : list (pclass * bytes)) : Prop :=
  match ps, cps with
  | [], [] => True
  | p :: pr, (c, pl) :: cr => table_get (pk_type p) (s_table St) = Some c /\ pk_payload p = pl /\ classified pr cr
  | _, _ => False
  end.

Lemma play_lenient_classified : forall ps cps w, classified ps cps -> play_lenient St w ps = play_packets St w cps.
Proof.
  induction ps as [|p pr IH]; intros [|[c pl] cr] w H; cbn in H; try contradiction; [reflexivity|].
  destruct H as (Ht & Hp & Hr). cbn [play_lenient play_packets fold_left fst snd].
  rewrite (step_is_step_class w p c Ht), Hp. apply (IH cr _ Hr).
Qed.

Theorem stream_refines_spec ps cps evs :
  Forall wf_packet ps -> classified ps cps -> history St empty_world cps evs ->
  snd (Run.run_lenient St (enc_all ps)) = None /\
  ids_ok (fst (Run.run_lenient St (enc_all ps))) /\
  same (abs (fst (Run.run_lenient St (enc_all ps)))) (fold_left spec_step evs spec_init).
Proof.
  intros Hwf Hc Hh. rewrite (run_lenient_enc St ps Hwf). cbn [fst snd]. split; [reflexivity|].
  rewrite (play_lenient_classified ps cps empty_world Hc).
  apply (history_refines_spec St empty_world cps evs Hh spec_init).
  - intros i en H. cbn in H. discriminate.
  - intros i. cbn. exact I.
Qed.
End Stream.
Print Assumptions stream_refines_spec.
