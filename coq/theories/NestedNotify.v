(* C07, nested-change subscribers (after the repairs recorded as fixed: C07-c, C07-d): every nested change that is applied is announced,
   and a subscription is notified exactly when its key is the changed path or a dotted prefix of it. *)
From RU Require Import Base Types Defs BitReader World.
From Coq Require Import Lia.
Open Scope N_scope.

Lemma prefix_of_spec p : forall s, prefix_of p s = true <-> exists r, s = (p ++ r)%string.
Proof.
  induction p as [|a p IH]; intros s; cbn [prefix_of].
  - split; [intros _; exists s; reflexivity | reflexivity].
  - destruct s as [|b s]; [split; [discriminate | intros [r H]; discriminate]|].
    destruct (Ascii.eqb a b) eqn:E.
    + apply Ascii.eqb_eq in E. subst b. cbn [andb]. rewrite IH. split; intros [r H]; exists r; [cbn; rewrite H; reflexivity | cbn in H; inversion H; reflexivity].
    + cbn [andb]. split; [discriminate|]. intros [r H]. cbn in H. inversion H; subst. rewrite Ascii.eqb_refl in E. discriminate.
Qed.

Lemma str_app_assoc (a b c : string) : ((a ++ b) ++ c = a ++ (b ++ c))%string.
Proof. induction a as [|x a IH]; cbn; [reflexivity | rewrite IH; reflexivity]. Qed.

(* who is notified: the key IS the hash of the changed path, or the hash continues with ".<more>" *)
Theorem path_covers_spec k h : path_covers k h = true <-> h = k \/ exists rest, h = (k ++ "." ++ rest)%string.
Proof.
  unfold path_covers. rewrite orb_true_iff, String.eqb_eq, prefix_of_spec. split.
  - intros [->|[r H]]; [left; reflexivity | right; exists r; rewrite H; rewrite str_app_assoc; reflexivity].
  - intros [->|[r H]]; [left; reflexivity | right; exists r; rewrite H; rewrite str_app_assoc; reflexivity].
Qed.
(* in particular a key that merely occurs INSIDE the hash, or shares a prefix without the dot, is not notified *)
Example path_covers_examples :
  path_covers "T_lst" "T_lst.3" = true /\ path_covers "T_lst" "T_lst" = true /\ path_covers "T_ls" "T_lst.3" = false /\ path_covers "lst" "T_lst.3" = false.
Proof. repeat split; reflexivity. Qed.

Section Notify.
Variable St : setup.
(* every leaf operation that succeeds asks for a notification: set, set-to-None, slice replace / insert / DELETE *)
Theorem leaf_op_always_notifies is_slice leaf r v last b : leaf_op is_slice leaf r = Ok (v, last, b) -> b = true.
Proof.
  unfold leaf_op. destruct leaf; try discriminate.
  - (* list *)
    destruct (br_get _ r) as [[i1 r1]|]; cbn [bind]; [|discriminate].
    destruct (if is_slice then br_get _ r1 else Ok (0, r1)) as [[i2 r2]|]; cbn [bind]; [|discriminate].
    destruct (br_rest r2) as [|x rest].
    + destruct is_slice; [intros H; inversion H; reflexivity|]. destruct (Nat.ltb _ _); [intros H; inversion H; reflexivity | discriminate].
    + destruct (decode_all _ _ _) as [new|]; cbn [bind]; [|discriminate].
      destruct is_slice; [intros H; inversion H; reflexivity|]. destruct (Nat.ltb _ _); [|discriminate]. destruct new; [discriminate|]. intros H; inversion H; reflexivity.
  - (* dict *)
    destruct is_slice; [discriminate|]. destruct (br_get _ r) as [[i r1]|]; cbn [bind]; [|discriminate].
    destruct (nth_error _ _) as [[fname ftype]|]; [|discriminate]. destruct (decode 1 ftype _) as [[x ?]|]; cbn [bind]; [|discriminate].
    intros H; inversion H; reflexivity.
Qed.
(* hence every nested packet that is applied produces exactly the notifications of ONE changed path: no applied change is silent *)
Theorem nested_apply_announces e m sl payload e' cs :
  nested_apply St e m sl payload = Ok (e', cs) -> exists path obj, cs = nested_calls St e path obj.
Proof.
  unfold nested_apply. destruct (br_get 1 (br_init payload)) as [[c r1]|]; cbn [bind]; [|discriminate].
  destruct (c =? 1); [|discriminate].
  destruct (br_get _ r1) as [[pid r2]|]; cbn [bind]; [|discriminate].
  destruct (nth_error _ _) as [p|]; [|discriminate].
  destruct (assoc_get _ _) as [top|]; [|discriminate].
  destruct (walk _ top r2) as [[[path leaf] r3]|]; cbn [bind]; [|discriminate].
  destruct (leaf_op sl leaf r3) as [[[newleaf last] notify]|] eqn:L; cbn [bind]; [|discriminate].
  rewrite (leaf_op_always_notifies _ _ _ _ _ _ L). intros H. inversion H. eexists. eexists. reflexivity.
Qed.
End Notify.
Print Assumptions path_covers_spec.
Print Assumptions leaf_op_always_notifies.
Print Assumptions nested_apply_announces.
