(* Lib: bytes, result monad, small helpers.  Definitions only. *)
From Coq Require Export List ZArith NArith String Bool Ascii.
From Coq Require Export Strings.Byte.
Export ListNotations.
Notation length := List.length.

Inductive error :=
| EStruct | EAssert | EKey | EIndex | ENotImpl | EUnicode | ERuntime | EOS | EEmpty | EFuel | EOther | EValue | EType.

Inductive result (A : Type) := Ok (a : A) | Err (e : error).
Arguments Ok {A} a.
Arguments Err {A} e.
Definition bind {A B} (r : result A) (f : A -> result B) : result B :=
  match r with Ok a => f a | Err e => Err e end.
Notation "x <- c1 ;; c2" := (bind c1 (fun x => c2)) (at level 61, c1 at next level, right associativity).
Notation "' pat <- c1 ;; c2" := (bind c1 (fun x => match x with pat => c2 end)) (at level 61, pat pattern, c1 at next level, right associativity).

Definition bytes := list byte.
Definition b2n (b : byte) : N := Byte.to_N b.
Definition n2b (n : N) : byte := match Byte.of_N n with Some b => b | None => x00 end.

Fixpoint le_decode (bs : bytes) : N :=
  match bs with [] => 0%N | b :: r => (b2n b + 256 * le_decode r)%N end.
Fixpoint le_encode (w : nat) (x : N) : bytes :=
  match w with O => [] | S w' => n2b (x mod 256) :: le_encode w' (x / 256) end.
Definition be_decode (bs : bytes) : N := le_decode (rev bs).
Definition to_signed (w : nat) (u : N) : Z :=
  if (u <? 2 ^ (8 * N.of_nat w - 1))%N then Z.of_N u else (Z.of_N u - 2 ^ (8 * Z.of_nat w))%Z.

(* BytesIO.read(n): up to n bytes *)
Definition read_upto (n : nat) (bs : bytes) : bytes * bytes := (firstn n bs, skipn n bs).
(* struct.unpack on stream.read(n): exactly n bytes or struct.error *)
(* exactly n bytes, without ever measuring the whole remaining stream *)
Fixpoint split_exact (n : nat) (bs : bytes) : option (bytes * bytes) :=
  match n with
  | O => Some ([], bs)
  | S n' => match bs with
            | [] => None
            | b :: r => match split_exact n' r with Some (a, rest) => Some (b :: a, rest) | None => None end
            end
  end.
Definition need (n : nat) (bs : bytes) : result (bytes * bytes) :=
  match split_exact n bs with Some x => Ok x | None => Err EStruct end.
Definition get_u (n : nat) (bs : bytes) : result (N * bytes) :=
  '(l, r) <- need n bs ;; Ok (le_decode l, r).
Definition get_s (n : nat) (bs : bytes) : result (Z * bytes) :=
  '(l, r) <- need n bs ;; Ok (to_signed n (le_decode l), r).

(* the same with a binary counter: sizes come from the wire (up to 2^32), so the model must never build a unary number
   of that size; recursion is on the bytes that are actually there.  read_uptoN_spec: = read_upto (N.to_nat n). *)
Fixpoint read_uptoN (n : N) (bs : bytes) : bytes * bytes :=
  match bs with
  | [] => ([], [])
  | b :: r => if (n =? 0)%N then ([], bs) else let '(a, rest) := read_uptoN (N.pred n) r in (b :: a, rest)
  end.
(* list[n] for an index from the wire; nthN_spec: = nth_error l (N.to_nat n) *)
Fixpoint nthN {A} (l : list A) (n : N) : option A :=
  match l with
  | [] => None
  | x :: r => if (n =? 0)%N then Some x else nthN r (N.pred n)
  end.

(* read(n) with n possibly negative (reads all) *)
Definition read_z (n : Z) (bs : bytes) : bytes * bytes :=
  if (n <? 0)%Z then (bs, []) else read_uptoN (Z.to_N n) bs.

Fixpoint assoc_get {A} (k : string) (l : list (string * A)) : option A :=
  match l with [] => None | (k', v) :: r => if String.eqb k k' then Some v else assoc_get k r end.
(* dict assignment: update in place if present, else append *)
Fixpoint assoc_set {A} (k : string) (v : A) (l : list (string * A)) : list (string * A) :=
  match l with
  | [] => [(k, v)]
  | (k', v') :: r => if String.eqb k k' then (k, v) :: r else (k', v') :: assoc_set k v r
  end.
Fixpoint zassoc_get {A} (k : Z) (l : list (Z * A)) : option A :=
  match l with [] => None | (k', v) :: r => if Z.eqb k k' then Some v else zassoc_get k r end.
Fixpoint zassoc_set {A} (k : Z) (v : A) (l : list (Z * A)) : list (Z * A) :=
  match l with
  | [] => [(k, v)]
  | (k', v') :: r => if Z.eqb k k' then (k, v) :: r else (k', v') :: zassoc_set k v r
  end.
Fixpoint replace_nth {A} (i : nat) (x : A) (l : list A) : list A :=
  match l, i with
  | [], _ => []
  | _ :: r, O => x :: r
  | y :: r, S i' => y :: replace_nth i' x r
  end.

(* strict UTF-8 validity (what bytes.decode('utf-8') accepts) *)
Definition cont (b : byte) : bool := let n := b2n b in ((128 <=? n) && (n <=? 191))%N.
Fixpoint utf8_valid_fuel (fuel : nat) (bs : bytes) : bool :=
  match fuel with
  | O => match bs with [] => true | _ => false end
  | S f =>
    match bs with
    | [] => true
    | b0 :: r =>
      let n0 := b2n b0 in
      if (n0 <=? 127)%N then utf8_valid_fuel f r
      else if ((194 <=? n0) && (n0 <=? 223))%N then
        match r with b1 :: r' => cont b1 && utf8_valid_fuel f r' | _ => false end
      else if ((224 <=? n0) && (n0 <=? 239))%N then
        match r with
        | b1 :: b2 :: r' =>
          let n1 := b2n b1 in
          (if (n0 =? 224)%N then ((160 <=? n1) && (n1 <=? 191))%N
           else if (n0 =? 237)%N then ((128 <=? n1) && (n1 <=? 159))%N
           else cont b1) && cont b2 && utf8_valid_fuel f r'
        | _ => false end
      else if ((240 <=? n0) && (n0 <=? 244))%N then
        match r with
        | b1 :: b2 :: b3 :: r' =>
          let n1 := b2n b1 in
          (if (n0 =? 240)%N then ((144 <=? n1) && (n1 <=? 191))%N
           else if (n0 =? 244)%N then ((128 <=? n1) && (n1 <=? 143))%N
           else cont b1) && cont b2 && cont b3 && utf8_valid_fuel f r'
        | _ => false end
      else false
    end
  end.
Definition utf8_valid (bs : bytes) : bool := utf8_valid_fuel (S (length bs)) bs.
