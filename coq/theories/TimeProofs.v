(* The stream order is the order: no handler of the model consults a packet's time stamp.  Two packet lists that agree in types and payloads,
   position by position, are played to the same world, callback trace and outcome - whatever their time stamps are (equal stamps, stamps that
   step back, NaN bit patterns).  An implementation that groups or sorts packets by time stamp leaves this model; the histories with repeated and
   decreasing stamps of the correspondence checks are where it shows. *)
From RU Require Import Base Types Defs BitReader World.
Open Scope N_scope.

Definition same_but_time (p q : packet) : Prop := pk_type p = pk_type q /\ pk_payload p = pk_payload q.

Lemma step_ignores_time St w p q : same_but_time p q -> step St w p = step St w q.
Proof. intros [Ht Hp]. unfold step. rewrite Ht, Hp. reflexivity. Qed.

Theorem play_lenient_ignores_time St : forall ps qs w, Forall2 same_but_time ps qs -> play_lenient St w ps = play_lenient St w qs.
Proof.
  intros ps qs w H. revert w. induction H as [|p q ps qs Hpq _ IH]; intros w; cbn [play_lenient]; [reflexivity|].
  rewrite (step_ignores_time St w p q Hpq). apply IH.
Qed.

Theorem play_strict_ignores_time St : forall ps qs w, Forall2 same_but_time ps qs -> play_strict St w ps = play_strict St w qs.
Proof.
  intros ps qs w H. revert w. induction H as [|p q ps qs Hpq _ IH]; intros w; cbn [play_strict]; [reflexivity|].
  rewrite (step_ignores_time St w p q Hpq). destruct (step St w q) as [w' [e|]]; [reflexivity | apply IH].
Qed.

(* in particular: giving every packet one and the same stamp, or any stamps at all *)
Definition retime (f : packet -> bytes) (p : packet) : packet := {| pk_type := pk_type p; pk_time := f p; pk_payload := pk_payload p |}.
Lemma retime_same f : forall ps, Forall2 same_but_time ps (map (retime f) ps).
Proof. induction ps as [|p ps IH]; constructor; [split; reflexivity | exact IH]. Qed.
Corollary play_strict_retimed St f ps w : play_strict St w (map (retime f) ps) = play_strict St w ps.
Proof. symmetry. apply play_strict_ignores_time, retime_same. Qed.
Corollary play_lenient_retimed St f ps w : play_lenient St w (map (retime f) ps) = play_lenient St w ps.
Proof. symmetry. apply play_lenient_ignores_time, retime_same. Qed.
Print Assumptions play_strict_ignores_time.
Print Assumptions play_lenient_retimed.
