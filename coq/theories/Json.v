(* Model.Json: what json.dumps(info, cls=DefaultEncoder) accepts.  Python values as finite trees (no cycles by
   construction); DefaultEncoder.default turns any other object into its __dict__ (a dict with str keys) or str(o), so
   VALUES never fail - only dict KEYS can: json requires str, int, float, bool or None.  Definitions only. *)
From RU Require Import Base.

Inductive pykey := KStr (s : string) | KInt (z : Z) | KFloat | KBool (b : bool) | KNone | KTuple (n : nat) | KBytes (b : bytes) | KOther.
Inductive pyval :=
| PNone | PBool (b : bool) | PInt (z : Z) | PFloat | PStr (s : string)
| PBytes (b : bytes)                      (* not serialisable itself: default() -> str(o) *)
| PList (l : list pyval)                  (* list or tuple *)
| PDict (kvs : list (pykey * pyval))
| PObject (fields : list (string * pyval)). (* any other object: default() -> __dict__ *)

Definition key_ok (k : pykey) : bool :=
  match k with KStr _ | KInt _ | KFloat | KBool _ | KNone => true | _ => false end.
Fixpoint json_ok (v : pyval) : bool :=
  match v with
  | PList l => (fix all (l : list pyval) : bool := match l with [] => true | x :: r => json_ok x && all r end) l
  | PDict kvs => (fix all (l : list (pykey * pyval)) : bool := match l with [] => true | (k, x) :: r => key_ok k && json_ok x && all r end) kvs
  | PObject fs => (fix all (l : list (string * pyval)) : bool := match l with [] => true | (_, x) :: r => json_ok x && all r end) fs
  | _ => true
  end.

(* unicodize (core/unicoding.py): bytes -> str through list/dict (keys included), everything else unchanged *)
Fixpoint unicodize (v : pyval) : pyval :=
  match v with
  | PBytes b => PStr EmptyString            (* the decoded text; its content is irrelevant for serialisability *)
  | PList l => PList (map unicodize l)
  | PDict kvs => PDict (map (fun '(k, x) => ((match k with KBytes _ => KStr EmptyString | _ => k end), unicodize x)) kvs)
  | _ => v
  end.
