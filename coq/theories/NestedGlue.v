(* C06, end to end: a nested-property payload built as the statement says - MSB-first bit fields (1 + index per path step in
   bits_required(size) bits, 0 stop bit, leaf index), zero padding to the next whole byte, then the element data in the
   statement's wire encoding - is applied by the model as the corresponding plain list update of exactly the addressed
   sub-value of exactly the addressed property. *)
From RU Require Import Base Types Defs BitReader World WireSpec TypesProofs BitReaderProofs LwwProofs NestedProofs.
From Coq Require Import Lia Arith.
Open Scope N_scope.

Lemma skipn_app_exact {A} (a b : list A) : skipn (length a) (a ++ b) = b.
Proof. induction a as [|x a IH]; cbn; auto. Qed.

(* ---- packing bits into bytes ---- *)
Definition byte_of_8 (b7 b6 b5 b4 b3 b2 b1 b0 : bool) : byte := Byte.of_bits (b0, (b1, (b2, (b3, (b4, (b5, (b6, b7))))))).
Fixpoint pack8 (bits : list bool) : bytes :=
  match bits with
  | b7 :: b6 :: b5 :: b4 :: b3 :: b2 :: b1 :: b0 :: r => byte_of_8 b7 b6 b5 b4 b3 b2 b1 b0 :: pack8 r
  | _ => []
  end.
Definition pad_len (n : nat) : nat := ((8 - n mod 8) mod 8)%nat.
Definition padded (bits : list bool) : list bool := (bits ++ repeat false (pad_len (length bits)))%list.
Definition pack_bits (bits : list bool) : bytes := pack8 (padded bits).

Lemma bits_of_byte_of_8 b7 b6 b5 b4 b3 b2 b1 b0 : bits_of_byte (byte_of_8 b7 b6 b5 b4 b3 b2 b1 b0) = [b7; b6; b5; b4; b3; b2; b1; b0].
Proof. unfold bits_of_byte, byte_of_8. now rewrite Byte.to_bits_of_bits. Qed.

Lemma pack8_spec : forall k bits, length bits = (8 * k)%nat -> bits_of_bytes (pack8 bits) = bits /\ length (pack8 bits) = k.
Proof.
  induction k as [|k IH]; intros bits H.
  - destruct bits; [split; reflexivity|discriminate].
  - destruct bits as [|b7 [|b6 [|b5 [|b4 [|b3 [|b2 [|b1 [|b0 r]]]]]]]]; cbn [length] in H; try lia.
    destruct (IH r ltac:(lia)) as [E L]. cbn [pack8 bits_of_bytes length]. rewrite bits_of_byte_of_8, E, L. split; reflexivity.
Qed.
Lemma padded_len bits : exists k, length (padded bits) = (8 * k)%nat /\ k = ((length bits + 7) / 8)%nat.
Proof.
  unfold padded, pad_len. rewrite app_length, repeat_length. set (n := length bits).
  exists ((n + 7) / 8)%nat. split; [|reflexivity].
  pose proof (Nat.div_mod n 8 ltac:(lia)) as D. pose proof (Nat.mod_upper_bound n 8 ltac:(lia)) as U.
  destruct (Nat.eq_dec (n mod 8) 0) as [Z|NZ].
  - rewrite Z. cbn [Nat.sub]. rewrite Nat.mod_same by lia.
    assert ((n + 7) / 8 = n / 8)%nat.
    { symmetry. apply (Nat.div_unique (n + 7) 8 (n / 8) 7); lia. }
    lia.
  - rewrite Nat.mod_small by lia.
    assert ((n + 7) / 8 = S (n / 8))%nat.
    { symmetry. apply (Nat.div_unique (n + 7) 8 (S (n / 8)) (n mod 8 - 1)); lia. }
    lia.
Qed.
(* the bit expansion of a packed prefix followed by data: the bits, the zero padding, the data's bits; and the data starts
   exactly at byte ceil(bits/8) *)
Lemma pack_bits_spec bits data :
  bits_of_bytes (pack_bits bits ++ data) = (bits ++ repeat false (pad_len (length bits)) ++ bits_of_bytes data)%list /\
  skipn ((length bits + 7) / 8) (pack_bits bits ++ data) = data /\
  length (pack_bits bits) = ((length bits + 7) / 8)%nat.
Proof.
  destruct (padded_len bits) as (k & Hk & Ek). unfold pack_bits.
  destruct (pack8_spec k (padded bits) Hk) as [E L]. repeat split.
  - assert (G : forall a b, bits_of_bytes (a ++ b) = (bits_of_bytes a ++ bits_of_bytes b)%list).
    { induction a as [|x a IHa]; intros b; cbn [app bits_of_bytes]; [reflexivity|]. now rewrite IHa, app_assoc. }
    rewrite G, E. unfold padded. now rewrite <- app_assoc.
  - rewrite <- Ek, <- L. apply skipn_app_exact.
  - now rewrite L, Ek.
Qed.

Lemma match_nonnil (A B : Type) (l : list A) (a b : B) : l <> [] -> match l with [] => a | _ :: _ => b end = b.
Proof. destruct l; [contradiction|reflexivity]. Qed.

Lemma decode_all_single et x : has_type code_limits et x -> wire_encode 1 et x <> [] ->
  decode_all (S (length (wire_encode 1 et x))) et (wire_encode 1 et x) = Ok [x].
Proof.
  intros Hx Hne. pose proof (decode_wire_encode_partial et 1 x [] Hx) as D. rewrite app_nil_r in D.
  remember (wire_encode 1 et x) as wx eqn:E. cbn [decode_all]. destruct wx as [|b0 wr]; [contradiction|].
  rewrite D. cbn [bind length decode_all]. reflexivity.
Qed.

Fixpoint encode_many (et : dtype) (xs : list value) : bytes :=
  match xs with [] => [] | x :: r => (wire_encode 1 et x ++ encode_many et r)%list end.
Lemma decode_all_many et : forall xs, Forall (fun x => has_type code_limits et x /\ wire_encode 1 et x <> []) xs ->
  forall fuel, (length (encode_many et xs) < fuel)%nat -> decode_all fuel et (encode_many et xs) = Ok xs.
Proof.
  induction xs as [|x r IH]; intros H fuel Hf.
  - destruct fuel; [lia|]. reflexivity.
  - inversion H as [|? ? [Hx Hne] Hr]; subst. destruct fuel as [|f]; [lia|]. cbn [encode_many decode_all].
    destruct (wire_encode 1 et x ++ encode_many et r)%list as [|b0 br] eqn:E.
    { apply app_eq_nil in E as [E _]. contradiction. }
    rewrite <- E. rewrite (decode_wire_encode_partial et 1 x _ Hx). cbn [bind].
    rewrite IH; [reflexivity|exact Hr|].
    cbn [encode_many] in Hf. rewrite app_length in Hf. destruct (wire_encode 1 et x); [contradiction|]. cbn [length] in Hf. lia.
Qed.

Section Glue.
Variable St : setup.

(* reading a fixed-width field whose bits are at the front of the reader *)
Lemma get_field w x rest n src : x < 2 ^ N.of_nat w ->
  br_get w {| br_bits := (to_bits w x ++ rest)%list; br_read := n; br_src := src |} =
  Ok (x, {| br_bits := rest; br_read := (n + w)%nat; br_src := src |}).
Proof. apply br_get_to_bits. Qed.

(* SET one element of a list at any depth below a client property *)
Theorem nested_set_list_element e m pid p top pth pbits et l i x :
  nth_error (e_client m) pid = Some p -> assoc_get (p_name p) (en_client e) = Some top ->
  encode_path top pth = Some pbits -> leaf_of top pth = Some (VList et l) ->
  (i < length l)%nat -> has_type code_limits et x -> wire_encode 1 et x <> [] ->
  let bits := (to_bits 1 1 ++ to_bits (bits_required (length (e_client m))) (N.of_nat pid) ++ pbits
               ++ to_bits (bits_required (length l)) (N.of_nat i))%list in
  exists cs, nested_apply St e m false (pack_bits bits ++ wire_encode 1 et x) =
             Ok (set_client e (p_name p) (update_at pth (VList et (replace_nth i x l)) top), cs).
Proof.
  intros Hp Htop Hpath Hleaf Hi Hx Hne bits. set (wx := wire_encode 1 et x) in *.
  destruct (pack_bits_spec bits wx) as (Eb & Es & El).
  unfold nested_apply, br_init. rewrite Eb. subst bits. rewrite <- !app_assoc.
  rewrite get_field by (cbn; lia). cbn [bind]. change (1 =? 1) with true. cbv iota.
  assert (Hpid : (pid < length (e_client m))%nat) by (apply nth_error_Some; congruence).
  rewrite get_field by (apply index_fits; exact Hpid). cbn [bind]. rewrite Nat2N.id, Hp, Htop.
  set (tailbits := (to_bits (bits_required (length l)) (N.of_nat i) ++ repeat false _ ++ bits_of_bytes wx)%list).
  set (src := (pack_bits _ ++ wx)%list).
  assert (Hfuel : (length pbits <= S (8 * length src))%nat).
  { unfold src. rewrite app_length, El, !app_length. pose proof (Nat.div_mod (length (to_bits 1 1) + (length (to_bits (bits_required (length (e_client m))) (N.of_nat pid)) + (length pbits + length (to_bits (bits_required (length l)) (N.of_nat i)))) + 7) 8 ltac:(lia)).
    pose proof (Nat.mod_upper_bound (length (to_bits 1 1) + (length (to_bits (bits_required (length (e_client m))) (N.of_nat pid)) + (length pbits + length (to_bits (bits_required (length l)) (N.of_nat i)))) + 7) 8 ltac:(lia)). lia. }
  destruct (walk_encode_path pth top pbits tailbits (0 + 1 + bits_required (length (e_client m)))%nat src _ Hpath Hfuel) as (leaf & Hl & Hw).
  rewrite Hleaf in Hl. inversion Hl; subst leaf. rewrite Hw. cbn [bind].
  unfold leaf_op. cbv iota. unfold tailbits. rewrite get_field by (apply index_fits; exact Hi). cbn [bind].
  (* the element data starts at the next whole byte *)
  assert (Hrest : br_rest {| br_bits := (repeat false (pad_len (length (to_bits 1 1 ++ to_bits (bits_required (length (e_client m))) (N.of_nat pid) ++ pbits ++ to_bits (bits_required (length l)) (N.of_nat i)))) ++ bits_of_bytes wx)%list;
                             br_read := (0 + 1 + bits_required (length (e_client m)) + length pbits + bits_required (length l))%nat; br_src := src |} = wx).
  { unfold br_rest. cbn [br_read br_src]. unfold src. rewrite <- Es at 2. f_equal. f_equal. f_equal.
    rewrite !app_length, !to_bits_len. lia. }
  rewrite Hrest.
  rewrite (match_nonnil _ _ wx _ _ Hne). unfold wx. rewrite (decode_all_single et x Hx Hne). cbn [bind]. rewrite Nat2N.id. apply Nat.ltb_lt in Hi. rewrite Hi. cbn [bind]. eexists. reflexivity.
Qed.

(* REPLACE / INSERT / DELETE a slice l[i:j] = xs, for ALL bounds representable in bits_required(len+1) bits (i > j, bounds
   beyond the end: Python's clamping) *)
Theorem nested_slice_list e m pid p top pth pbits et l i j xs :
  nth_error (e_client m) pid = Some p -> assoc_get (p_name p) (en_client e) = Some top ->
  encode_path top pth = Some pbits -> leaf_of top pth = Some (VList et l) ->
  N.of_nat i < 2 ^ N.of_nat (bits_required (length l + 1)) -> N.of_nat j < 2 ^ N.of_nat (bits_required (length l + 1)) ->
  Forall (fun x => has_type code_limits et x /\ wire_encode 1 et x <> []) xs ->
  let bits := (to_bits 1 1 ++ to_bits (bits_required (length (e_client m))) (N.of_nat pid) ++ pbits
               ++ to_bits (bits_required (length l + 1)) (N.of_nat i) ++ to_bits (bits_required (length l + 1)) (N.of_nat j))%list in
  exists cs, nested_apply St e m true (pack_bits bits ++ encode_many et xs) =
             Ok (set_client e (p_name p) (update_at pth (VList et (slice_assign i j xs l)) top), cs).
Proof.
  intros Hp Htop Hpath Hleaf Hi Hj Hxs bits. set (wx := encode_many et xs) in *.
  destruct (pack_bits_spec bits wx) as (Eb & Es & El).
  unfold nested_apply, br_init. rewrite Eb. subst bits. rewrite <- !app_assoc.
  rewrite get_field by (cbn; lia). cbn [bind]. change (1 =? 1) with true. cbv iota.
  assert (Hpid : (pid < length (e_client m))%nat) by (apply nth_error_Some; congruence).
  rewrite get_field by (apply index_fits; exact Hpid). cbn [bind]. rewrite Nat2N.id, Hp, Htop.
  set (w := bits_required (length l + 1)) in *.
  set (tailbits := (to_bits w (N.of_nat i) ++ to_bits w (N.of_nat j) ++ repeat false _ ++ bits_of_bytes wx)%list).
  set (src := (pack_bits _ ++ wx)%list).
  assert (Hfuel : (length pbits <= S (8 * length src))%nat).
  { unfold src. rewrite app_length, El, !app_length.
    set (tot := (length (to_bits 1 1) + (length (to_bits (bits_required (length (e_client m))) (N.of_nat pid)) + (length pbits + (length (to_bits w (N.of_nat i)) + length (to_bits w (N.of_nat j))))))%nat).
    pose proof (Nat.div_mod (tot + 7) 8 ltac:(lia)). pose proof (Nat.mod_upper_bound (tot + 7) 8 ltac:(lia)). lia. }
  destruct (walk_encode_path pth top pbits tailbits (0 + 1 + bits_required (length (e_client m)))%nat src _ Hpath Hfuel) as (leaf & Hl & Hw).
  rewrite Hleaf in Hl. inversion Hl; subst leaf. rewrite Hw. cbn [bind].
  unfold leaf_op. cbv iota. fold w. unfold tailbits. rewrite get_field by exact Hi. cbn [bind]. rewrite get_field by exact Hj. cbn [bind].
  match goal with |- context [br_rest ?r] => assert (Hrest : br_rest r = wx) end.
  { unfold br_rest. cbn [br_read br_src]. unfold src. rewrite <- Es at 2. f_equal. f_equal. f_equal.
    rewrite !app_length, !to_bits_len. lia. }
  rewrite Hrest. rewrite !Nat2N.id.
  destruct xs as [|x0 xr].
  - cbn [encode_many] in wx. subst wx. cbv iota. eexists. reflexivity.
  - assert (Hne : wx <> []).
    { unfold wx. cbn [encode_many]. inversion Hxs as [|? ? [_ Hn] _]; subst. intros H. apply app_eq_nil in H as [H _]. contradiction. }
    rewrite (match_nonnil _ _ wx _ _ Hne). unfold wx. rewrite (decode_all_many et (x0 :: xr) Hxs) by lia. cbn [bind]. eexists. reflexivity.
Qed.
End Glue.
Print Assumptions nested_set_list_element.
Print Assumptions nested_slice_list.
