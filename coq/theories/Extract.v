From RU Require Import Base BitReader Types Defs World Run WireSpec Container Version LibWrite Packaging Summary.
Require Import ExtrOcamlBasic.
Extraction Language OCaml.

Extraction "model.ml" build_setup run_strict run_lenient table_wows table_wows126 table_wot table_wowp
  all_bytes b2n default_config decode trace_of clear_trace step frames empty_world
  bits_requiredN rd_init rd_gets rd_rest rd_bytes_read
  wire_encode method_payload_rest prop_payload_rest class_of subscribe_all method_key read_container_real read_container_pg_real read_container_pg write_container real_cipher real_cipher_enc ext_of key_table norm_wows norm_wot norm_wowp select_version lib_write write_args zero_size_elems count_arrays shipped missing run_events run_events_strict init_state summary Z.add Z.mul Z.opp.

