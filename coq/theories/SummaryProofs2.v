(* Counting handlers that are not loops (planes, achievements, old-style ribbons):
     x1 = e1; ...; xn = en;  f.setdefault(keys..., 0);  f[keys...] += amt
   The local assignments may read the controller's own state (the roster), so the entry a call denotes is evaluated in the state the
   call finds; the keys and the amount are pure in the locals so obtained. *)
From RU Require Import Base Summary SummaryProofs.
From Coq Require Import Lia.
Local Open Scope Z_scope.

Lemma exec_body_simple ctl ev : forall ss loc st, exec_body ctl ev loc st (map Simple ss) = exec_ss ctl ev loc st ss.
Proof.
  induction ss as [|s r IH]; intros loc st; [reflexivity|]. cbn [map exec_body exec_stmt exec_ss].
  destruct (exec_s ctl {| cx_ev := ev; cx_locals := loc; cx_st := st |} s) as [[l1 s1] e1]. destruct e1; [reflexivity | apply IH].
Qed.
Lemma exec_ss_app ctl ev : forall a b loc st,
  exec_ss ctl ev loc st (a ++ b) =
  let '(l1, s1, e1) := exec_ss ctl ev loc st a in match e1 with Some _ => (l1, s1, e1) | None => exec_ss ctl ev l1 s1 b end.
Proof.
  induction a as [|s r IH]; intros b loc st; cbn [app exec_ss]; [reflexivity|].
  destruct (exec_s ctl {| cx_ev := ev; cx_locals := loc; cx_st := st |} s) as [[l1 s1] e1]. destruct e1; [reflexivity | apply IH].
Qed.

Definition is_let (s : sstmt) : bool := match s with SLet _ _ => true | _ => false end.
Lemma exec_lets_state ctl ev : forall ss loc st l1 s1 e1, forallb is_let ss = true -> exec_ss ctl ev loc st ss = (l1, s1, e1) -> s1 = st.
Proof.
  induction ss as [|s r IH]; cbn [forallb exec_ss]; intros loc st l1 s1 e1 Hl H; [inversion H; reflexivity|].
  apply andb_true_iff in Hl. destruct Hl as [Hs Hr]. destruct s; try discriminate. cbn [exec_s cx_st cx_locals] in H.
  destruct (eval _ e) as [v|]; [|inversion H; reflexivity]. apply (IH _ _ _ _ _ Hr H).
Qed.

Section CountStmtHistory.
  Variables (ctl : controller) (K f : string) (ps : list string) (lets : list sstmt) (keys : list expr) (amt : expr).
  Hypothesis HK : assoc_get K (c_handlers ctl) =
                  Some {| h_params := ps; h_body := map Simple (lets ++ [SSetdef f keys; SAugAdd f keys amt]) |}.
  Hypothesis Hlets : forallb is_let lets = true.
  Hypothesis Hkeys : forallb pure keys = true.
  Hypothesis Hamt : pure amt = true.
  Hypothesis Hother : forall K' h, K' <> K -> assoc_get K' (c_handlers ctl) = Some h -> ~ In f (writes_h h).

  (* the (path, amount) entry a K-call denotes in the state it finds *)
  Definition call_entry (st : cstate) (ev : event) : result (list pyval * pyval) :=
    match bind_args {| h_params := ps; h_body := [] |} ev with
    | None => Err EType
    | Some loc =>
        match exec_ss ctl ev loc st lets with
        | (loc', _, None) => let c := {| cx_ev := ev; cx_locals := loc'; cx_st := st |} in ks <- eval_list c keys ;; v <- eval c amt ;; Ok (ks, v)
        | (_, _, Some e) => Err e
        end
    end.
  Fixpoint dyn_entries (st : cstate) (evs : list event) : result (list (list pyval * pyval)) :=
    match evs with
    | [] => Ok []
    | ev :: r => let st' := fst (apply_event ctl st ev) in
                 if String.eqb (ev_key ev) K then a <- call_entry st ev ;; b <- dyn_entries st' r ;; Ok (a :: b) else dyn_entries st' r
    end.

  (* the entry does not depend on the counted field itself: keys/amount are pure, the local assignments may read other state *)
  Lemma count_stmt_call st ev st' d : ev_key ev = K -> get_dict_field st f = Ok d -> apply_event ctl st ev = (st', None) ->
    exists e d', call_entry st ev = Ok e /\ count_path d (fst e) (snd e) = Ok d' /\ st' = set_field st f (PDict d').
  Proof.
    intros Hkey Hd. unfold apply_event, call_entry. rewrite Hkey, HK.
    change (bind_args {| h_params := ps; h_body := map Simple (lets ++ [SSetdef f keys; SAugAdd f keys amt]) |} ev)
      with (bind_args {| h_params := ps; h_body := [] |} ev).
    destruct (bind_args {| h_params := ps; h_body := [] |} ev) as [loc|]; [|intros H; inversion H].
    cbn [h_body]. rewrite exec_body_simple, exec_ss_app.
    destruct (exec_ss ctl ev loc st lets) as [[l1 s1] e1] eqn:EL.
    assert (s1 = st) by (apply (exec_lets_state ctl ev lets loc st l1 s1 e1 Hlets EL)). subst s1.
    destruct e1; [intros H; inversion H|].
    destruct (exec_ss ctl ev l1 st [SSetdef f keys; SAugAdd f keys amt]) as [[l2 s2] e2] eqn:EB.
    destruct e2; intros H; inversion H; subst s2.
    destruct (count_body_iter ctl ev l1 st f keys amt d Hkeys Hamt Hd l2 st' EB) as (ks & xv & d2 & EK & EA & C & _ & ->).
    exists (ks, xv), d2. rewrite EK. cbn. rewrite EA. cbn. auto.
  Qed.

  Theorem count_stmt_history : forall evs st st' d, get_dict_field st f = Ok d -> run_events_strict ctl st evs = (st', None) ->
    exists es d', dyn_entries st evs = Ok es /\ count_all d es = Ok d' /\ get_dict_field st' f = Ok d'.
  Proof.
    induction evs as [|ev r IH]; intros st st' d Hd H.
    - cbn in H. inversion H; subst. exists [], d. cbn. auto.
    - cbn [run_events_strict] in H. destruct (apply_event ctl st ev) as [s1 e1] eqn:A. destruct e1; [inversion H|].
      cbn [dyn_entries]. rewrite A. cbn [fst]. destruct (String.eqb (ev_key ev) K) eqn:E.
      + apply String.eqb_eq in E.
        destruct (count_stmt_call st ev s1 d E Hd A) as ([ks xv] & d1 & C1 & C2 & ->). cbn [fst snd] in C2.
        destruct (IH _ st' d1 (get_dict_set st f d1) H) as (es2 & d2 & H1 & H2 & H3).
        exists ((ks, xv) :: es2), d2. rewrite C1. cbn. rewrite H1. cbn. repeat split; auto. rewrite C2. cbn. exact H2.
      + assert (Hne : ev_key ev <> K) by (intros Heq; rewrite Heq, String.eqb_refl in E; discriminate).
        assert (Hf : assoc_get f (st_fields s1) = assoc_get f (st_fields st)).
        { apply (apply_event_frame ctl st ev s1 None f A). intros h Hh. apply (Hother (ev_key ev) h Hne Hh). }
        assert (Hd1 : get_dict_field s1 f = Ok d) by (unfold get_dict_field in *; rewrite Hf; exact Hd).
        destruct (IH s1 st' d Hd1 H) as (es2 & d2 & H1 & H2 & H3). exists es2, d2. auto.
  Qed.
End CountStmtHistory.
Print Assumptions count_stmt_history.

(* ---- the roster over a whole history ---- *)
Definition simple_roster_stmt (s : stmt) : bool :=
  match s with
  | Simple (SRoster e _) => pure e
  | Simple (SAssign _ e) => pure e
  | _ => false
  end.
Definition st0 : cstate := {| st_fields := []; st_players := [] |}.
(* what the roster statements of a handler body do to the roster, given the bound arguments *)
Fixpoint roster_effect (ctl : controller) (ev : event) (loc : list (string * pyval)) (p : pdict) (b : list stmt) : pdict * option error :=
  match b with
  | [] => (p, None)
  | Simple (SRoster e pt) :: r =>
      match eval {| cx_ev := ev; cx_locals := loc; cx_st := st0 |} e with
      | Err er => (p, Some er)
      | Ok v => match seq_items v with
                | Err er => (p, Some er)
                | Ok recs => match map_for (c_maps ctl) pt with
                             | None => (p, Some ERuntime)
                             | Some umap => let '(p', er) := merge_records umap (c_unicodize ctl) p recs in
                                            match er with Some e' => (p', Some e') | None => roster_effect ctl ev loc p' r end
                             end
                end
      end
  | _ :: r => roster_effect ctl ev loc p r
  end.

Lemma exec_body_roster ctl ev : forall b loc st loc' st', forallb simple_roster_stmt b = true ->
  exec_body ctl ev loc st b = (loc', st', None) ->
  roster_effect ctl ev loc (st_players st) b = (st_players st', None).
Proof.
  induction b as [|s r IH]; intros loc st loc' st' Hb H.
  - cbn in H. inversion H; subst. reflexivity.
  - cbn [forallb] in Hb. apply andb_true_iff in Hb. destruct Hb as [Hs Hr].
    destruct s as [s|]; [|discriminate]. destruct s; try discriminate; cbn [simple_roster_stmt] in Hs.
    + (* SAssign *)
      cbn [exec_body exec_stmt exec_s cx_st cx_locals] in H. cbn [roster_effect].
      destruct (eval {| cx_ev := ev; cx_locals := loc; cx_st := st |} e) as [v|]; [|inversion H].
      apply (IH loc (set_field st f v) loc' st' Hr H).
    + (* SRoster *)
      cbn [exec_body exec_stmt exec_s cx_st cx_locals] in H. cbn [roster_effect].
      rewrite (eval_pure e Hs ev loc loc st0 st (fun y => eq_refl)).
      destruct (eval {| cx_ev := ev; cx_locals := loc; cx_st := st |} e) as [v|]; [|inversion H].
      destruct (seq_items v) as [recs|]; [|inversion H].
      destruct (map_for (c_maps ctl) ptype) as [umap|]; [|inversion H].
      destruct (merge_records umap (c_unicodize ctl) (st_players st) recs) as [p' er]. destruct er; [inversion H|].
      apply (IH loc {| st_fields := st_fields st; st_players := p' |} loc' st' Hr H).
Qed.

Definition roster_handlers_simple (ctl : controller) : bool :=
  forallb (fun kh => negb (roster_h (snd kh)) || forallb simple_roster_stmt (h_body (snd kh))) (c_handlers ctl).

(* the roster after a history = the merges of the roster calls, in stream order; every other call leaves it alone *)
Fixpoint players_fold (ctl : controller) (p : pdict) (evs : list event) : pdict * option error :=
  match evs with
  | [] => (p, None)
  | ev :: r =>
      match assoc_get (ev_key ev) (c_handlers ctl) with
      | Some h => if roster_h h then
                    match bind_args h ev with
                    | None => (p, Some EType)
                    | Some loc => let '(p', er) := roster_effect ctl ev loc p (h_body h) in
                                  match er with Some e => (p', Some e) | None => players_fold ctl p' r end
                    end
                  else players_fold ctl p r
      | None => players_fold ctl p r
      end
  end.

Theorem roster_history ctl : roster_handlers_simple ctl = true ->
  forall evs st st', run_events_strict ctl st evs = (st', None) -> players_fold ctl (st_players st) evs = (st_players st', None).
Proof.
  intros Hs. induction evs as [|ev r IH]; intros st st' H.
  - cbn in H. inversion H; subst. reflexivity.
  - cbn [run_events_strict] in H. destruct (apply_event ctl st ev) as [s1 e1] eqn:A. destruct e1; [inversion H|].
    cbn [players_fold]. destruct (assoc_get (ev_key ev) (c_handlers ctl)) as [h|] eqn:G.
    + destruct (roster_h h) eqn:R.
      * unfold apply_event in A. rewrite G in A. destruct (bind_args h ev) as [loc|]; [|inversion A].
        destruct (exec_body ctl ev loc st (h_body h)) as [[l1 s2] e2] eqn:E. inversion A; subst s2 e2.
        assert (Hb : forallb simple_roster_stmt (h_body h) = true).
        { unfold roster_handlers_simple in Hs. rewrite forallb_forall in Hs. specialize (Hs (ev_key ev, h) (assoc_get_in _ _ _ G)). cbn in Hs.
          rewrite R in Hs. exact Hs. }
        rewrite (exec_body_roster ctl ev (h_body h) loc st l1 s1 Hb E). apply (IH s1 st' H).
      * rewrite <- (apply_event_players ctl st ev s1 None A) by (intros h' Hh'; rewrite G in Hh'; inversion Hh'; subst; exact R).
        apply (IH s1 st' H).
    + rewrite (unhandled_event_is_noop ctl st ev G) in A. inversion A; subst. apply (IH s1 st' H).
Qed.
Print Assumptions roster_history.
