(* C01 closed at the REAL cipher: the byte-level Blowfish of the model (Container.real_cipher / real_cipher_enc, the functions the extracted reader
   and writer run, checked block by block against Cryptodome on every run) satisfies the hypothesis of container_roundtrip for each of the three
   keys of the format - so the container theorem holds with no assumption about the cipher left. *)
From RU Require Import Base WireSpec Feistel Blowfish PiTable Container TypesProofs ContainerProofs.
From Coq Require Import Lia.
Open Scope N_scope.

Definition in32 (x : N) : Prop := x < 2 ^ 32.
Definition blk32 (p : blk) : Prop := in32 (fst p) /\ in32 (snd p).

Lemma lxor_in32 a b : in32 a -> in32 b -> in32 (N.lxor a b).
Proof.
  unfold in32. intros Ha Hb.
  pose proof (lxor_bound_nonneg 32 (Z.of_N a) (Z.of_N b) ltac:(lia)) as H.
  rewrite <- N2Z_lxor in H. change (2 ^ 32)%Z with (Z.of_N (2 ^ 32)) in H. lia.
Qed.

Section Ranges.
Variable F : N -> N.
Hypothesis HF : forall x, in32 (F x).
Lemma W_32 k p : in32 k -> blk32 p -> blk32 (W k p).
Proof. intros Hk [H1 H2]. split; cbn [W fst snd]; [apply lxor_in32; assumption | exact H2]. Qed.
Lemma tau_32 p : blk32 p -> blk32 (tau p).
Proof. intros [H1 H2]. split; assumption. Qed.
Lemma Phi_32 k p : in32 k -> blk32 p -> blk32 (Phi F k p).
Proof. intros Hk [H1 H2]. split; cbn [Phi fst snd]; [exact H2 | repeat apply lxor_in32; auto]. Qed.
Lemma chain_32 ks : Forall in32 ks -> forall p, blk32 p -> blk32 (chain F ks p).
Proof.
  unfold chain. induction 1 as [|k ks Hk _ IH]; intros p Hp; cbn [fold_left]; [exact Hp|]. apply IH. apply Phi_32; assumption.
Qed.
Lemma enc_32 k0 ks kl p : in32 k0 -> Forall in32 ks -> in32 kl -> blk32 p -> blk32 (enc F k0 ks kl p).
Proof. intros. unfold enc. apply W_32; [assumption|]. apply chain_32; [assumption|]. apply tau_32. apply W_32; assumption. Qed.
Lemma dec_32 k0 ks kl p : in32 k0 -> Forall in32 ks -> in32 kl -> blk32 p -> blk32 (dec F k0 ks kl p).
Proof.
  intros. unfold dec. apply W_32; [assumption|]. apply chain_32; [apply Forall_rev; assumption|]. apply tau_32. apply W_32; assumption.
Qed.
End Ranges.

Lemma bfF_fast_32 S x : in32 (bfF_fast S x).
Proof. unfold bfF_fast, in32. change (2 ^ 32) with M32. apply N.mod_lt. discriminate. Qed.

Lemma Forall_removelast {A} (P : A -> Prop) : forall l, Forall P l -> Forall P (removelast l).
Proof.
  induction l as [|x l IH]; intros H; [constructor|]. cbn [removelast]. destruct l as [|y l']; [constructor|].
  inversion H; subst. constructor; [assumption | apply IH; assumption].
Qed.
Lemma last_32 : forall l, Forall in32 l -> in32 (last l 0).
Proof.
  induction l as [|x l IH]; intros H; [cbn; unfold in32; lia|]. cbn [last]. inversion H; subst. destruct l as [|y l']; [assumption | apply IH; assumption].
Qed.
Lemma split_P_32 P p0 ks pl : Forall in32 P -> split_P P = (p0, ks, pl) -> in32 p0 /\ Forall in32 ks /\ in32 pl.
Proof.
  destruct P as [|q r]; cbn [split_P]; intros H E; injection E as <- <- <-.
  - split; [unfold in32; lia|]. split; [constructor | unfold in32; lia].
  - inversion H; subst. split; [assumption|]. split; [apply Forall_removelast; assumption | apply last_32; assumption].
Qed.
Lemma bf_enc_32 S P b : Forall in32 P -> blk32 b -> blk32 (bf_enc_f (bfF_fast S) P b).
Proof.
  intros HP Hb. unfold bf_enc_f. destruct (split_P P) as [[p0 ks] pl] eqn:E.
  destruct (split_P_32 P p0 ks pl HP E) as (H0 & Hk & Hl). apply enc_32; auto using bfF_fast_32.
Qed.

(* bytes <-> block values *)
Lemma be32_roundtrip a : in32 a -> be_decode (be32_enc a) = a.
Proof. intros H. unfold be_decode, be32_enc. rewrite rev_involutive. apply le_roundtrip. exact H. Qed.
Lemma be32_enc_len a : length (be32_enc a) = 4%nat.
Proof. unfold be32_enc. rewrite rev_length. apply le_encode_length. Qed.
Lemma blk_bytes_blk p : blk32 p -> blk_of_bytes (bytes_of_blk p) = p.
Proof.
  intros [H1 H2]. destruct p as [a b]. unfold blk_of_bytes, bytes_of_blk. cbn [fst snd] in *.
  rewrite firstn_app, (firstn_all2 (be32_enc a)) by (rewrite be32_enc_len; lia).
  rewrite be32_enc_len. cbn [Nat.sub firstn]. rewrite app_nil_r.
  rewrite skipn_app, (skipn_all2 (be32_enc a)) by (rewrite be32_enc_len; lia).
  rewrite be32_enc_len. cbn [Nat.sub skipn app]. rewrite !be32_roundtrip by assumption. reflexivity.
Qed.
Lemma be32_dec_enc bs : length bs = 4%nat -> be32_enc (be_decode bs) = bs.
Proof.
  intros H. unfold be32_enc, be_decode. rewrite <- (rev_length bs) in H. rewrite <- H, le_encode_decode. apply rev_involutive.
Qed.
Lemma bytes_blk_bytes b : length b = 8%nat -> bytes_of_blk (blk_of_bytes b) = b.
Proof.
  intros H. unfold bytes_of_blk, blk_of_bytes. cbn [fst snd].
  rewrite !be32_dec_enc; [apply firstn_skipn | rewrite skipn_length; lia | rewrite firstn_length; lia].
Qed.
Lemma blk_of_bytes_32 b : length b = 8%nat -> blk32 (blk_of_bytes b).
Proof.
  intros H. unfold blk_of_bytes, blk32, in32, be_decode. cbn [fst snd]. split.
  - pose proof (le_decode_lt (rev (firstn 4 b))) as L. rewrite rev_length, firstn_length in L. replace (Nat.min 4 (length b)) with 4%nat in L by lia. exact L.
  - pose proof (le_decode_lt (rev (skipn 4 b))) as L. rewrite rev_length, skipn_length in L. replace (length b - 4)%nat with 4%nat in L by lia. exact L.
Qed.
Lemma bytes_of_blk_len p : length (bytes_of_blk p) = 8%nat.
Proof. unfold bytes_of_blk. rewrite app_length, !be32_enc_len. reflexivity. Qed.

(* the block cipher on bytes, for any cipher state whose round keys are 32-bit words *)
Theorem block_dec_enc c b : Forall in32 (c_P c) -> length b = 8%nat ->
  dec_block c (enc_block c b) = b /\ length (enc_block c b) = 8%nat.
Proof.
  intros HP Hb. split; [|apply bytes_of_blk_len].
  unfold dec_block, enc_block. rewrite blk_bytes_blk by (apply bf_enc_32; [exact HP | apply blk_of_bytes_32; exact Hb]).
  rewrite bf_dec_enc_f. apply bytes_blk_bytes. exact Hb.
Qed.

(* the three key schedules of the format produce 32-bit round keys (computed inside Coq) *)
Definition in32b (x : N) : bool := x <? 2 ^ 32.
Lemma keys_32 : forallb (fun e => forallb in32b (c_P (cipher_of_key (snd (snd e))))) key_table = true.
Proof. vm_compute. reflexivity. Qed.

Lemma assoc_get_In {A} k (v : A) : forall l, assoc_get k l = Some v -> In (k, v) l.
Proof.
  induction l as [|[k' v'] l IH]; cbn [assoc_get]; [discriminate|].
  destruct (String.eqb k k') eqn:E; intros H.
  - injection H as <-. apply String.eqb_eq in E. subst. left. reflexivity.
  - right. apply IH. exact H.
Qed.

Theorem real_cipher_ok ext game key : assoc_get ext key_table = Some (game, key) ->
  forall b, length b = 8%nat -> real_cipher key (real_cipher_enc key b) = b /\ length (real_cipher_enc key b) = 8%nat.
Proof.
  intros Hk b Hb. unfold real_cipher, real_cipher_enc. apply block_dec_enc; [|exact Hb].
  pose proof keys_32 as K. rewrite forallb_forall in K. specialize (K _ (assoc_get_In _ _ _ Hk)). cbn [snd] in K.
  rewrite forallb_forall in K. apply Forall_forall. intros x Hx. apply N.ltb_lt. exact (K x Hx).
Qed.

Theorem real_container_roundtrip ext game key b0 (extra : list bytes) prefix zpad :
  assoc_get ext key_table = Some (game, key) ->
  N.of_nat (length b0) < 2 ^ 31 -> Forall (fun b => N.of_nat (length b) < 2 ^ 31) extra -> N.of_nat (S (length extra)) < 2 ^ 31 ->
  length prefix = 8%nat -> (Nat.modulo (length zpad) 8 = 0)%nat ->
  read_container real_cipher ext (write_container (real_cipher_enc key) b0 extra prefix zpad) =
  Ok {| ct_game := game; ct_engine := b0; ct_extra := map opt_block extra; ct_payload := zpad |}.
Proof.
  intros Hk. apply (container_roundtrip real_cipher real_cipher_enc ext game key b0 extra prefix zpad Hk).
  exact (real_cipher_ok ext game key Hk).
Qed.
Print Assumptions real_container_roundtrip.

(* inhabited, by computation with the real key schedule: a .wowsreplay container with two further blocks (one empty) and two cipher blocks *)
Example real_example :
  read_container real_cipher "wowsreplay"
    (write_container (real_cipher_enc wows_key) [x7b; x7d] [[]; [x31]] (repeat x00 8) (repeat x41 9 ++ repeat x00 7)) =
  Ok {| ct_game := "wows"; ct_engine := [x7b; x7d]; ct_extra := [None; Some [x31]]; ct_payload := (repeat x41 9 ++ repeat x00 7)%list |}.
Proof. vm_compute. reflexivity. Qed.
