(* Proofs about Model.BitReader (C17, used by C06 and C15) *)
From RU Require Import Base BitReader.
From Coq Require Import Lia Arith.
Open Scope N_scope.

Lemma bits_of_byte_len b : length (bits_of_byte b) = 8%nat.
Proof. unfold bits_of_byte. destruct (Byte.to_bits b) as [? [? [? [? [? [? [? ?]]]]]]]. reflexivity. Qed.
Lemma bits_of_bytes_len bs : length (bits_of_bytes bs) = (8 * length bs)%nat.
Proof. induction bs as [|b bs IH]; simpl; [reflexivity|]. rewrite app_length, bits_of_byte_len, IH. lia. Qed.

(* MSB-first value of a bit list, continuing from [acc] *)
Fixpoint val_of_bits (acc : N) (l : list bool) : N :=
  match l with [] => acc | b :: r => val_of_bits (2 * acc + (if b then 1 else 0)) r end.

(* the bits the reader has not handed out yet *)
Definition rem_bits (r : reader) : list bool := (rd_cache r ++ bits_of_bytes (rd_stream r))%list.

Lemma next_bit_spec r b l : rem_bits r = b :: l ->
  exists r', next_bit r = Ok (b, r') /\ rem_bits r' = l /\ rd_nread r' = S (rd_nread r).
Proof.
  unfold rem_bits, next_bit. destruct (rd_cache r) as [|c cs] eqn:Ec.
  - simpl. destruct (rd_stream r) as [|x s] eqn:Es; simpl; [discriminate|].
    pose proof (bits_of_byte_len x) as Hl.
    destruct (bits_of_byte x) as [|b' c']; [discriminate|]. simpl. intros H; inversion H; subst.
    eexists; split; [reflexivity|]. simpl. auto.
  - simpl. intros H; inversion H; subst. eexists; split; [reflexivity|]. simpl. auto.
Qed.

Lemma rd_get_loop_spec n : forall acc r, (n <= length (rem_bits r))%nat ->
  exists r', rd_get_loop n acc r = Ok (val_of_bits acc (firstn n (rem_bits r)), r')
             /\ rem_bits r' = skipn n (rem_bits r) /\ rd_nread r' = (n + rd_nread r)%nat.
Proof.
  induction n as [|n IH]; intros acc r Hn.
  - simpl. eexists; split; [reflexivity|]. auto.
  - destruct (rem_bits r) as [|b l] eqn:E; [simpl in Hn; lia|].
    destruct (next_bit_spec r b l E) as (r1 & H1 & H2 & H3).
    simpl in Hn. assert (Hn' : (n <= length (rem_bits r1))%nat) by (rewrite H2; lia).
    destruct (IH (2 * acc + (if b then 1 else 0)) r1 Hn') as (r2 & G1 & G2 & G3).
    exists r2. cbn [rd_get_loop]. rewrite H1, G1, H2. cbn [firstn skipn val_of_bits].
    repeat split; auto. rewrite G2, H2. reflexivity. lia.
Qed.

(* exhaustion: asking for more bits than are left fails (the code raises Exception('I am empty')) *)
Lemma rd_get_loop_none n : forall acc r, (length (rem_bits r) < n)%nat -> rd_get_loop n acc r = Err EEmpty.
Proof.
  induction n as [|n IH]; intros acc r Hn; [lia|].
  cbn [rd_get_loop]. destruct (rem_bits r) as [|b l] eqn:E.
  - unfold rem_bits in E. apply app_eq_nil in E as [E1 E2]. unfold next_bit. rewrite E1.
    destruct (rd_stream r) as [|x s]; [reflexivity|]. simpl in E2. pose proof (bits_of_byte_len x).
    destruct (bits_of_byte x); simpl in *; [lia|discriminate].
  - destruct (next_bit_spec r b l E) as (r1 & H1 & H2 & H3). rewrite H1. apply IH. rewrite H2. simpl in Hn. lia.
Qed.

(* invariant linking the stream to the original bytes *)
Definition inv2 (bs : bytes) (r : reader) :=
  exists m, rd_stream r = skipn m bs /\ (8 * m = rd_nread r + length (rd_cache r))%nat /\ (length (rd_cache r) < 8)%nat.
Definition inv3 (bs : bytes) (r : reader) := rem_bits r = skipn (rd_nread r) (bits_of_bytes bs).

Lemma inv2_init bs : inv2 bs (rd_init bs).
Proof. exists 0%nat. simpl. repeat split; lia. Qed.
Lemma inv3_init bs : inv3 bs (rd_init bs).
Proof. reflexivity. Qed.

Lemma skipn_cons_tl {A} (l : list A) m x s : skipn m l = x :: s -> skipn (S m) l = s.
Proof.
  revert m; induction l as [|a l IH]; intros m H.
  - destruct m; discriminate.
  - destruct m; simpl in *. + inversion H; subst. reflexivity. + now apply IH.
Qed.

Lemma inv2_next bs r b r' : inv2 bs r -> next_bit r = Ok (b, r') -> inv2 bs r'.
Proof.
  intros (m & Hs & Hm & Hc) H. unfold next_bit in H.
  destruct (rd_cache r) as [|c cs] eqn:Ec.
  - destruct (rd_stream r) as [|x s] eqn:Es; [discriminate|].
    pose proof (bits_of_byte_len x) as Hl.
    destruct (bits_of_byte x) as [|b' c'] eqn:Eb; [discriminate|]. inversion H; subst; clear H.
    exists (S m). cbn [rd_stream rd_cache rd_nread length] in *. repeat split.
    + symmetry. eapply skipn_cons_tl; eauto.
    + lia.
    + lia.
  - inversion H; subst; clear H. exists m. simpl in *. repeat split; auto; lia.
Qed.

Lemma inv2_get_loop bs n : forall acc r v r', inv2 bs r -> rd_get_loop n acc r = Ok (v, r') -> inv2 bs r'.
Proof.
  induction n as [|n IH]; intros acc r v r' Hi H; simpl in H.
  - inversion H; subst; auto.
  - destruct (next_bit r) as [[b r1]|e] eqn:E; [|discriminate].
    eapply IH; [eapply inv2_next; eauto|exact H].
Qed.

Lemma skipn_skipn {A} (l : list A) : forall a b, skipn a (skipn b l) = skipn (a + b) l.
Proof.
  induction l as [|x l IH]; intros a b.
  - now rewrite !skipn_nil.
  - destruct b as [|b]; [now rewrite Nat.add_0_r|].
    replace (a + S b)%nat with (S (a + b)) by lia. simpl. apply IH.
Qed.

Lemma inv3_get_loop bs n acc r v r' : inv3 bs r -> rd_get_loop n acc r = Ok (v, r') -> inv3 bs r'.
Proof.
  unfold inv3. intros Hi H.
  destruct (le_lt_dec n (length (rem_bits r))) as [Hle|Hlt].
  - destruct (rd_get_loop_spec n acc r Hle) as (r2 & G1 & G2 & G3). rewrite G1 in H. inversion H; subst.
    rewrite G2, G3, Hi. apply skipn_skipn.
  - rewrite rd_get_loop_none in H by assumption. discriminate.
Qed.

Theorem rest_is_next_whole_byte bs r : inv2 bs r -> rd_rest r = skipn ((rd_nread r + 7) / 8) bs.
Proof.
  intros (m & Hs & Hm & Hc). unfold rd_rest. rewrite Hs. f_equal.
  apply Nat.div_unique with (r := (7 - length (rd_cache r))%nat); lia.
Qed.

(* ---------- the sequence statement: any list of field widths ---------- *)
(* consecutive MSB-first fields of a bit list *)
Fixpoint fields_of (ws : list nat) (bits : list bool) : option (list N) :=
  match ws with
  | [] => Some []
  | w :: ws' => if (w <=? length bits)%nat
                then match fields_of ws' (skipn w bits) with
                     | Some vs => Some (val_of_bits 0 (firstn w bits) :: vs)
                     | None => None end
                else None
  end.
Fixpoint sum_nat (l : list nat) : nat := match l with [] => O | x :: r => (x + sum_nat r)%nat end.

Lemma rd_gets_spec ws : forall r bs, inv2 bs r -> inv3 bs r ->
  match fields_of ws (rem_bits r) with
  | Some vs => exists r', rd_gets ws r = Ok (vs, r') /\ inv2 bs r' /\ inv3 bs r'
                          /\ rd_nread r' = (sum_nat ws + rd_nread r)%nat
  | None => rd_gets ws r = Err EEmpty
  end.
Proof.
  induction ws as [|w ws IH]; intros r bs H2 H3; cbn [fields_of rd_gets sum_nat].
  - exists r. auto.
  - destruct (w <=? length (rem_bits r))%nat eqn:Ew.
    + apply Nat.leb_le in Ew. destruct (rd_get_loop_spec w 0 r Ew) as (r1 & G1 & G2 & G3).
      unfold rd_get. rewrite G1. cbn [bind].
      assert (I2 : inv2 bs r1) by (eapply inv2_get_loop; eauto).
      assert (I3 : inv3 bs r1) by (eapply inv3_get_loop; eauto).
      specialize (IH r1 bs I2 I3). rewrite G2 in IH.
      destruct (fields_of ws (skipn w (rem_bits r))) as [vs|].
      * destruct IH as (r' & E & J2 & J3 & Jn). exists r'. rewrite E. cbn [bind].
        repeat split; auto. lia.
      * rewrite IH. reflexivity.
    + apply Nat.leb_gt in Ew. unfold rd_get. rewrite rd_get_loop_none by assumption. reflexivity.
Qed.

(* C17, second and third sentence: for every byte string and every list of widths (no upper bound on a width),
   the values returned are the consecutive MSB-first fields of the bit expansion of the bytes, crossing byte
   boundaries, and get_rest() then returns the bytes from the next whole byte on; if the bits run out the
   call fails. *)
Theorem get_fields_spec bs ws :
  match fields_of ws (bits_of_bytes bs) with
  | Some vs => exists r', rd_gets ws (rd_init bs) = Ok (vs, r')
                          /\ rd_rest r' = skipn ((sum_nat ws + 7) / 8) bs
                          /\ rd_bytes_read r' = ((sum_nat ws + 7) / 8)%nat
  | None => rd_gets ws (rd_init bs) = Err EEmpty
  end.
Proof.
  pose proof (rd_gets_spec ws (rd_init bs) bs (inv2_init bs) (inv3_init bs)) as H.
  change (rem_bits (rd_init bs)) with (bits_of_bytes bs) in H.
  destruct (fields_of ws (bits_of_bytes bs)) as [vs|]; [|exact H].
  destruct H as (r' & E & J2 & J3 & Jn). exists r'. split; [exact E|].
  simpl in Jn. rewrite Nat.add_0_r in Jn.
  rewrite (rest_is_next_whole_byte bs r' J2). unfold rd_bytes_read. rewrite Jn. auto.
Qed.

(* ---------- the code's reader refines the abstraction used by World.v ---------- *)
Definition R (bs : bytes) (r : reader) (a : breader) : Prop :=
  inv2 bs r /\ rem_bits r = br_bits a /\ rd_nread r = br_read a /\ br_src a = bs.
Lemma R_init bs : R bs (rd_init bs) (br_init bs).
Proof. repeat split. apply inv2_init. Qed.

Lemma br_get_loop_val n : forall acc bits, (n <= length bits)%nat ->
  br_get_loop n acc bits = Ok (val_of_bits acc (firstn n bits), skipn n bits).
Proof.
  induction n as [|n IH]; intros acc bits H; [reflexivity|].
  destruct bits as [|b l]; [simpl in H; lia|]. cbn [br_get_loop firstn skipn val_of_bits].
  apply IH. simpl in H. lia.
Qed.
Lemma br_get_loop_none n : forall acc bits, (length bits < n)%nat -> br_get_loop n acc bits = Err EEmpty.
Proof.
  induction n as [|n IH]; intros acc bits H; [lia|].
  destruct bits as [|b l]; [reflexivity|]. cbn [br_get_loop]. apply IH. simpl in H. lia.
Qed.

Theorem reader_refines bs r a n : R bs r a ->
  match rd_get n r, br_get n a with
  | Ok (v, r'), Ok (v', a') => v = v' /\ R bs r' a'
  | Err e, Err e' => e = e'
  | _, _ => False
  end.
Proof.
  intros (I2 & Hb & Hn & Hs). unfold rd_get, br_get.
  destruct (le_lt_dec n (length (rem_bits r))) as [Hle|Hlt].
  - destruct (rd_get_loop_spec n 0 r Hle) as (r2 & G1 & G2 & G3). rewrite G1.
    rewrite <- Hb. rewrite br_get_loop_val by assumption. cbn [bind]. split; [reflexivity|].
    repeat split; cbn [br_bits br_read br_src]; auto.
    + eapply inv2_get_loop; eauto.
    + lia.
  - rewrite rd_get_loop_none by assumption. rewrite <- Hb, br_get_loop_none by assumption. reflexivity.
Qed.
Theorem reader_refines_rest bs r a : R bs r a -> rd_rest r = br_rest a.
Proof.
  intros (I2 & Hb & Hn & Hs). rewrite (rest_is_next_whole_byte bs r I2). unfold br_rest. now rewrite Hn, Hs.
Qed.

(* ---------- bits_required ---------- *)
(* C17, first sentence: for EVERY n (no bound): 0 for n <= 1, otherwise the unique b with 2^(b-1) < n <= 2^b,
   i.e. ceil(log2 n). *)
Theorem bits_required_spec n :
  (n <= 1 -> bits_requiredN n = 0) /\
  (1 < n -> let b := bits_requiredN n in 0 < b /\ 2 ^ (b - 1) < n /\ n <= 2 ^ b).
Proof.
  unfold bits_requiredN. split; intros H.
  - destruct (N.leb_spec n 1); [reflexivity|lia].
  - destruct (N.leb_spec n 1) as [H1|H1]; [lia|]. cbv zeta.
    assert (Hp : 0 < n - 1) by lia.
    destruct (N.log2_spec (n - 1) Hp) as [Hlo Hhi].
    replace (N.log2 (n - 1) + 1 - 1) with (N.log2 (n - 1)) by lia.
    rewrite N.add_1_r. repeat split; lia.
Qed.
(* uniqueness: the characterisation determines the value *)
Lemma pow2_lt_inj a b : 2 ^ a < 2 ^ b -> a < b.
Proof. intros H. apply N.pow_lt_mono_r_iff in H; lia. Qed.
Theorem bits_required_unique n b : 1 < n -> 0 < b -> 2 ^ (b - 1) < n -> n <= 2 ^ b -> b = bits_requiredN n.
Proof.
  intros Hn Hb Hlo Hhi. destruct (bits_required_spec n) as [_ S]. specialize (S Hn). cbv zeta in S.
  destruct S as (Hb' & Hlo' & Hhi'). set (c := bits_requiredN n) in *.
  assert (b - 1 < c) by (apply pow2_lt_inj; lia).
  assert (c - 1 < b) by (apply pow2_lt_inj; lia).
  lia.
Qed.
Lemma bits_required_nat n : N.of_nat (bits_required n) = bits_requiredN (N.of_nat n).
Proof. unfold bits_required. now rewrite N2Nat.id. Qed.
Lemma bits_required_fits n : N.of_nat n <= 2 ^ N.of_nat (bits_required n).
Proof.
  rewrite bits_required_nat. destruct (bits_required_spec (N.of_nat n)) as [S0 S1].
  destruct (N.leb_spec (N.of_nat n) 1) as [H|H].
  - rewrite S0 by assumption. simpl. lia.
  - specialize (S1 H). cbv zeta in S1. lia.
Qed.
Lemma index_fits i n : (i < n)%nat -> N.of_nat i < 2 ^ N.of_nat (bits_required n).
Proof. intros H. pose proof (bits_required_fits n). lia. Qed.
