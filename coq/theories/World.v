(* Model.Frame / Packets / World / Nested : mirrors net_packet.py, player.py (three dialects), core/packets, entity.py *)
From RU Require Import Base Types Defs BitReader.
Open Scope N_scope.

(* ---------- framing ---------- *)
Record packet := { pk_type : N; pk_time : bytes; pk_payload : bytes }.
(* how the byte stream ended: cleanly, inside a 12-byte header (NetPacket raises struct.error outside the per-packet try),
   or - never, see frames_fuel_enough - because the recursion budget ran out *)
Inductive tail := Clean | HeaderCut | OutOfFuel.
Fixpoint frames_fuel (fuel : nat) (bs : bytes) : list packet * tail :=
  match fuel with
  | O => ([], OutOfFuel)
  | S f =>
    match bs with
    | [] => ([], Clean)
    | _ =>
      match ('(sz, r1) <- get_u 4 bs ;; '(ty, r2) <- get_u 4 r1 ;; '(tm, r3) <- need 4 r2 ;; Ok (sz, ty, tm, r3)) with
      | Err _ => ([], HeaderCut)
      | Ok (sz, ty, tm, r3) =>
        let '(pl, r4) := read_uptoN sz r3 in
        let '(rest, t) := frames_fuel f r4 in
        ({| pk_type := ty; pk_time := tm; pk_payload := pl |} :: rest, t)
      end
    end
  end.
Definition frames (bs : bytes) := frames_fuel (S (length bs)) bs.

Definition binstream (bs : bytes) : result (bytes * bytes) :=
  '(n, r) <- get_u 4 bs ;; Ok (read_uptoN n r).

(* ---------- world ---------- *)
Inductive pclass :=
| BasePlayerCreate | CellPlayerCreate | EntityControl | EntityEnter | EntityLeave | EntityCreate
| EntityProperty | EntityMethod | Position | Version | PlayerPosition | Map | NestedProperty | BattleStats.
Inductive game := Wows | Wot | Wowp.

Record entity := {
  en_id : Z; en_type : string;
  en_client : list (string * value); en_base : list (string * value); en_cell : list (string * value);
  en_vol : list (string * option bytes)      (* None = the definition's default *)
}.
(* one subscriber invocation: key, entity id, positional values, keyword values *)
Inductive call :=
| CMethod (key : string) (id : Z) (args : list value) (kwargs : list (string * value))
| CProp (key : string) (id : Z) (v : value)
| CNested (key : string) (id : Z) (path : string) (v : value).
Record world := { w_entities : list (Z * entity); w_player : option Z; w_map : option bytes; w_trace : list call }.
Definition empty_world := {| w_entities := []; w_player := None; w_map := None; w_trace := [] |}.

Record setup := {
  s_game : game;
  s_table : list (N * pclass);
  s_names : list string;                 (* entities.xml order *)
  s_models : list (string * emodel);
  (* subscription tables after registration: key -> number of callbacks (the callbacks themselves are opaque) *)
  s_msubs : list (string * nat);
  s_mcounts : list (string * list nat);   (* per entity type: subscriber count per exposed method index (precomputed from s_msubs) *)
  s_psubs : list (string * nat);
  s_nsubs : list (string * nat)
}.

(* Definitions.get_entity_def_by_index: a dict keyed 0..n-1 looked up with index-1 (no negative wrap-around) *)
Definition entity_by_index (names : list string) (et : Z) : option string :=
  if (et <=? 0)%Z then None else nth_error names (Z.to_nat (et - 1)).

Section Step.
Variable St : setup.

Definition model_of (name : string) : result emodel :=
  match assoc_get name (s_models St) with Some m => Ok m | None => Err EKey end.

Definition new_entity (id : Z) (name : string) : result entity :=
  m <- model_of name ;;
  Ok {| en_id := id; en_type := name; en_client := []; en_base := []; en_cell := [];
        en_vol := map (fun t => (t, None)) (e_vol m) |}.

Definition put (w : world) (e : entity) : world :=
  {| w_entities := zassoc_set (en_id e) e (w_entities w); w_player := w_player w; w_map := w_map w; w_trace := w_trace w |}.
Definition log (w : world) (cs : list call) : world :=
  {| w_entities := w_entities w; w_player := w_player w; w_map := w_map w; w_trace := rev cs ++ w_trace w |}.   (* newest first; read with [trace_of] *)
Definition trace_of (w : world) : list call := rev (w_trace w).
Definition clear_trace (w : world) : world :=
  {| w_entities := w_entities w; w_player := w_player w; w_map := w_map w; w_trace := [] |}.
Definition set_player (w : world) (id : Z) : world :=
  {| w_entities := w_entities w; w_player := Some id; w_map := w_map w; w_trace := w_trace w |}.
Definition key_of (a b : string) : string := (a ++ "_" ++ b)%string.
(* str(n) for the path hash *)
Definition digit_char (d : N) : ascii := ascii_of_N (48 + d).
Fixpoint dec_fuel (fuel : nat) (n : N) (acc : string) : string :=
  match fuel with
  | O => acc
  | S f => let acc' := String (digit_char (n mod 10)) acc in
           if n / 10 =? 0 then acc' else dec_fuel f (n / 10) acc'
  end.
Definition dec_of_nat (n : nat) : string := dec_fuel (S n) (N.of_nat n) EmptyString.
Fixpoint prefix_of (p s : string) : bool :=
  match p, s with
  | EmptyString, _ => true
  | String a p', String b s' => Ascii.eqb a b && prefix_of p' s'
  | _, _ => false
  end.
(* Python's `p in s` *)
(* a subscription key covers a change hash when it IS that hash or a dotted prefix of it (fixed: C07-d; it used to be a substring test) *)
Definition path_covers (k h : string) : bool := String.eqb k h || prefix_of (k ++ ".") h.
Fixpoint substring_of (p s : string) : bool :=
  prefix_of p s || match s with EmptyString => false | String _ s' => substring_of p s' end.
Fixpoint join_dot (l : list string) : string :=
  match l with [] => EmptyString | [x] => x | x :: r => (x ++ "." ++ join_dot r)%string end.
Definition nsub (tbl : list (string * nat)) (k : string) : nat := match assoc_get k tbl with Some n => n | None => O end.
Fixpoint repeat_call (n : nat) (c : call) : list call := match n with O => [] | S n' => c :: repeat_call n' c end.

Definition set_client (e : entity) (k : string) (v : value) : entity :=
  {| en_id := en_id e; en_type := en_type e; en_client := assoc_set k v (en_client e);
     en_base := en_base e; en_cell := en_cell e; en_vol := en_vol e |}.
Definition set_base (e : entity) (k : string) (v : value) : entity :=
  {| en_id := en_id e; en_type := en_type e; en_client := en_client e;
     en_base := assoc_set k v (en_base e); en_cell := en_cell e; en_vol := en_vol e |}.
Definition set_vol (e : entity) (k : string) (v : option bytes) : entity :=
  {| en_id := en_id e; en_type := en_type e; en_client := en_client e;
     en_base := en_base e; en_cell := en_cell e; en_vol := assoc_set k v (en_vol e) |}.

(* Entity.set_client_property: assign, then notify the subscribers of "<type>_<prop>" *)
Definition prop_calls (e : entity) (name : string) (v : value) : list call :=
  let key := key_of (en_type e) name in repeat_call (nsub (s_psubs St) key) (CProp key (en_id e) v).
(* Entity.set_client_nested_property: every table entry whose key is a substring of "<type>_<a.b.c>" *)
Definition nested_calls (e : entity) (path : list string) (obj : value) : list call :=
  let h := key_of (en_type e) (join_dot path) in
  flat_map (fun '(k, n) => if path_covers k h then repeat_call n (CNested k (en_id e) (join_dot path) obj) else []) (s_nsubs St).

(* sequentially decode a list of properties into an entity; returns the entity reached and an optional error *)
Fixpoint fill (setter : entity -> string -> value -> entity) (ps : list prop) (e : entity) (bs : bytes)
  : entity * option error :=
  match ps with
  | [] => (e, None)
  | p :: r => match decode 1 (p_type p) bs with
              | Ok (v, rest) => fill setter r (setter e (p_name p) v) rest
              | Err er => (e, Some er)
              end
  end.

(* Python slice assignment l[i:j] = xs *)
Definition slice_assign {A} (i j : nat) (xs : list A) (l : list A) : list A :=
  let i' := Nat.min i (length l) in
  let j' := Nat.max i' (Nat.min j (length l)) in
  firstn i' l ++ xs ++ skipn j' l.

Definition truthy (v : value) : bool :=
  match v with
  | VNone => false
  | VInt z => negb (Z.eqb z 0)
  | VList _ [] => false
  | VDict _ [] => false
  | VStr [] | VBytes [] => false
  | _ => true
  end.

Definition vsize (v : value) : option nat :=
  match v with VList _ l => Some (length l) | VDict _ kvs => Some (length kvs) | _ => None end.
Definition vchild (v : value) (i : nat) : option value :=
  match v with
  | VList _ l => nth_error l i
  | VDict _ kvs => option_map snd (nth_error kvs i)
  | _ => None
  end.

(* walk the remaining path inside a property value; returns the path (indices), the leaf container and the reader *)
Fixpoint walk (fuel : nat) (v : value) (r : breader) : result (list nat * value * breader) :=
  match fuel with
  | O => Err EFuel
  | S f =>
    '(c, r1) <- br_get 1 r ;;
    if (c =? 1) && truthy v then
      match vsize v with
      | None => Err ENotImpl
      | Some l =>
        '(i, r2) <- br_get (bits_required l) r1 ;;
        match vchild v (N.to_nat i) with
        | None => Err EIndex
        | Some ch => '(p, leaf, r3) <- walk f ch r2 ;; Ok (N.to_nat i :: p, leaf, r3)
        end
      end
    else Ok ([], v, r1)
  end.

Fixpoint update_at (path : list nat) (newleaf : value) (v : value) : value :=
  match path with
  | [] => newleaf
  | i :: p =>
    match v with
    | VList t l => match nth_error l i with
                   | Some ch => VList t (replace_nth i (update_at p newleaf ch) l)
                   | None => v end
    | VDict t kvs => match nth_error kvs i with
                     | Some (k, ch) => VDict t (replace_nth i (k, update_at p newleaf ch) kvs)
                     | None => v end
    | _ => v
    end
  end.

Fixpoint decode_all (fuel : nat) (t : dtype) (bs : bytes) : result (list value) :=
  match fuel with
  | O => Err EFuel
  | S f => match bs with
           | [] => Ok []
           | _ => '(v, r) <- decode 1 t bs ;; vs <- decode_all f t r ;; Ok (v :: vs)
           end
  end.

Fixpoint names_of (v : value) (path : list nat) : list string :=
  match path with
  | [] => []
  | i :: p =>
    match v with
    | VList _ l => dec_of_nat i :: match nth_error l i with Some c => names_of c p | None => [] end
    | VDict _ kvs => match nth_error kvs i with Some (k, c) => k :: names_of c p | None => [] end
    | _ => []
    end
  end.

(* result: new leaf container, the last path element, and whether subscribers are notified *)
Definition leaf_op (is_slice : bool) (leaf : value) (r : breader) : result (value * string * bool) :=
  match leaf with
  | VDict fs kvs =>
      if is_slice then Err EAssert else
      '(i, r1) <- br_get (bits_required (length kvs)) r ;;
      match nth_error fs (N.to_nat i) with
      | None => Err EIndex
      | Some (fname, ftype) =>
          '(v, _) <- decode 1 ftype (br_rest r1) ;;
          Ok (VDict fs (assoc_set fname v kvs), fname, true)
      end
  | VList et l =>
      let w := if is_slice then bits_required (length l + 1) else bits_required (length l) in
      '(i1, r1) <- br_get w r ;;
      '(i2, r2) <- (if is_slice then br_get w r1 else Ok (0, r1)) ;;
      let rest := br_rest r2 in
      match rest with
      | [] => (* empty element data: delete the slice / clear the element - announced like every other nested change (fixed: C07-c) *)
              if is_slice then Ok (VList et (slice_assign (N.to_nat i1) (N.to_nat i2) [] l),
                                   (dec_of_nat (N.to_nat i1) ++ ":" ++ dec_of_nat (N.to_nat i2))%string, true)
              else if Nat.ltb (N.to_nat i1) (length l) then Ok (VList et (replace_nth (N.to_nat i1) VNone l), dec_of_nat (N.to_nat i1), true) else Err EIndex
      | _ =>
          new <- decode_all (S (length rest)) et rest ;;
          if is_slice then Ok (VList et (slice_assign (N.to_nat i1) (N.to_nat i2) new l),
                               (dec_of_nat (N.to_nat i1) ++ ":" ++ dec_of_nat (N.to_nat i2))%string, true)
          else if Nat.ltb (N.to_nat i1) (length l) then
            match new with x :: _ => Ok (VList et (replace_nth (N.to_nat i1) x l), dec_of_nat (N.to_nat i1), true) | [] => Err EIndex end
          else Err EIndex
      end
  | _ => Err ENotImpl
  end.

Definition nested_apply (e : entity) (m : emodel) (is_slice : bool) (payload : bytes) : result (entity * list call) :=
  let r0 := br_init payload in
  '(c, r1) <- br_get 1 r0 ;;
  if c =? 1 then
    let props := e_client m in
    '(pid, r2) <- br_get (bits_required (length props)) r1 ;;
    match nth_error props (N.to_nat pid) with
    | None => Err EIndex
    | Some p =>
      match assoc_get (p_name p) (en_client e) with
      | None => Err EKey
      | Some top =>
        '(path, leaf, r3) <- walk (S (8 * length payload)) top r2 ;;
        '(newleaf, last, notify) <- leaf_op is_slice leaf r3 ;;
        let e' := set_client e (p_name p) (update_at path newleaf top) in
        Ok (e', if notify then nested_calls e (p_name p :: names_of top path ++ [last]) newleaf else [])
      end
    end
  else Err ENotImpl.

Definition decode_map (g : game) (bs : bytes) : result bytes :=
  match g with
  | Wot =>
      '(_, r1) <- get_s 4 bs ;; '(_, r2) <- get_s 4 r1 ;; '(n, r3) <- get_s 1 r2 ;;
      let name := fst (read_z n r3) in if utf8_valid name then Ok name else Err EUnicode
  | _ =>
      '(_, r1) <- get_s 4 bs ;; '(_, r2) <- get_s 8 r1 ;; '(n, r3) <- get_s 4 r2 ;;
      let pos := 16%Z in let slen := Z.of_nat (length bs) in
      '(n', r4) <- (if (pos + n + 64 =? slen - 1)%Z then Ok (n, r3)
                    else (let r' := snd (read_upto 132 r3) in get_s 4 r')) ;;
      let name := fst (read_z n' r4) in if utf8_valid name then Ok name else Err EUnicode
  end.

(* EntityMethod.create_from_stream: unnamed arguments positionally, named ones into a dict (a later duplicate name overwrites) *)
Fixpoint split_args_acc (names : list (option string)) (vs : list value) (ps : list value) (ks : list (string * value))
  : list value * list (string * value) :=
  match names, vs with
  | None :: nr, v :: vr => split_args_acc nr vr (ps ++ [v]) ks
  | Some k :: nr, v :: vr => split_args_acc nr vr ps (assoc_set k v ks)
  | _, _ => (ps, ks)
  end.
Definition split_args (names : list (option string)) (vs : list value) := split_args_acc names vs [] [].

Definition lookup_entity (w : world) (id : Z) : result entity :=
  match zassoc_get id (w_entities w) with Some e => Ok e | None => Err EKey end.

Definition atomic (w : world) (r : result world) : world * option error :=
  match r with Ok w' => (w', None) | Err e => (w, Some e) end.

Definition step_class (w : world) (c : pclass) (pl : bytes) : world * option error :=
  let g := s_game St in
  match c with
  | BasePlayerCreate =>
      match ('(id, r1) <- get_s 4 pl ;; '(_, r2) <- get_s 2 r1 ;; '(val, _) <- binstream r2 ;; Ok (id, val)) with
      | Err e => (w, Some e)
      | Ok (id, val) =>
        match (match zassoc_get id (w_entities w) with Some e => Ok (e, true) | None => e <- new_entity id "Avatar" ;; Ok (e, false) end) with
        | Err e => (w, Some e)
        | Ok (e, existed) =>
          match g with
          | Wot => (set_player (put w e) id, None)
          | _ =>
            (* an existing entity is reused as it is: the lists are those of ITS type *)
            match model_of (en_type e) with
            | Err er => (w, Some er)
            | Ok m =>
              match fill set_base (e_base m) e val with
              | (e', None) => (set_player (put w e') id, None)
              | (e', Some er) => ((if existed then put w e' else w), Some er)
              end
            end
          end
        end
      end
  | CellPlayerCreate =>
      match g with
      | Wowp => (w, None)   (* not mapped in wowp; unreachable through the table *)
      | _ =>
        match ('(id, r1) <- get_s 4 pl ;; '(_, r2) <- get_s 4 r1 ;;
               r3 <- (match g with Wot => '(_, r) <- get_s 2 r2 ;; Ok r | _ => Ok r2 end) ;;
               '(_, r4) <- get_s 4 r3 ;; '(_, r5) <- need 24 r4 ;; '(val, _) <- binstream r5 ;; Ok (id, val)) with
        | Err e => (w, Some e)
        | Ok (id, val) =>
          match (match zassoc_get id (w_entities w) with Some e => Ok (e, true) | None => e <- new_entity id "Avatar" ;; Ok (e, false) end) with
          | Err e => (w, Some e)
          | Ok (e, existed) =>
            match model_of (en_type e) with
            | Err er => (w, Some er)
            | Ok m =>
              match fill set_client (e_internal m) e val with
              | (e', None) => (put w e', None)
              | (e', Some er) => ((if existed then put w e' else w), Some er)
              end
            end
          end
        end
      end
  | EntityControl => atomic w ('(_, _) <- need 5 pl ;; Ok w)
  | EntityEnter => atomic w ('(id, r) <- get_s 4 pl ;; '(_, _) <- need 8 r ;; _ <- lookup_entity w id ;; Ok w)
  | EntityLeave => atomic w ('(id, _) <- get_s 4 pl ;; _ <- lookup_entity w id ;; Ok w)
  | EntityCreate =>
      match (
        '(id, r1) <- get_s 4 pl ;; '(et, r2) <- get_s 2 r1 ;; '(_, r3) <- need 8 r2 ;; '(_, r4) <- need 24 r3 ;;
        r5 <- (match g with Wot => '(_, r) <- need 4 r4 ;; Ok r | _ => Ok r4 end) ;;
        '(val, _) <- binstream r5 ;;
        name <- (match entity_by_index (s_names St) et with Some n => Ok n | None => Err EKey end) ;;
        e <- new_entity id name ;;
        m <- model_of name ;;
        '(cnt, v1) <- get_u 1 val ;;
        Ok (e, m, cnt, v1)) with
      | Err er => (w, Some er)
      | Ok (e, m, cnt, v1) =>
        (* subscribers of earlier properties have already been called when a later one fails *)
        let fix go (n : nat) (e : entity) (bs : bytes) (cs : list call) : list call * result (entity * bytes) :=
          match n with
          | O => (cs, Ok (e, bs))
          | S n' =>
            match get_u 1 bs with
            | Err er => (cs, Err er)
            | Ok (idx, b1) =>
              match nth_error (e_client m) (N.to_nat idx) with
              | None => (cs, Err EIndex)
              | Some p => match decode 1 (p_type p) b1 with
                          | Err er => (cs, Err er)
                          | Ok (v, b2) => go n' (set_client e (p_name p) v) b2 (cs ++ prop_calls e (p_name p) v)
                          end
              end
            end
          end in
        match go (N.to_nat cnt) e v1 [] with
        | (cs, Ok (e', [])) => (log (put w e') cs, None)
        | (cs, Ok (_, _ :: _)) => (log w cs, Some EAssert)
        | (cs, Err er) => (log w cs, Some er)
        end
      end
  | Position =>
      atomic w (
        '(id, r1) <- get_s 4 pl ;; '(_, r2) <- get_s 4 r1 ;; '(pos, r3) <- need 12 r2 ;; '(_, r4) <- need 12 r3 ;;
        '(yaw, r5) <- need 4 r4 ;; '(pitch, r6) <- need 4 r5 ;; '(roll, r7) <- need 4 r6 ;; '(_, _) <- need 1 r7 ;;
        e <- lookup_entity w id ;;
        Ok (put w (set_vol (set_vol (set_vol (set_vol e "position" (Some pos)) "yaw" (Some yaw)) "pitch" (Some pitch)) "roll" (Some roll))))
  | PlayerPosition =>
      match ('(e1, r1) <- get_s 4 pl ;; '(e2, r2) <- get_s 4 r1 ;; '(pos, r3) <- need 12 r2 ;;
             '(yaw, r4) <- need 4 r3 ;; '(pitch, r5) <- need 4 r4 ;; '(roll, _) <- need 4 r5 ;; Ok (e1, e2, pos, yaw, pitch, roll)) with
      | Err e => (w, Some e)
      | Ok (e1, e2, pos, yaw, pitch, roll) =>
        if negb (Z.eqb e2 0) then
          (* a second entity is named: the first one takes over its current pose; KeyError (unknown id) is swallowed,
             a missing volatile on the second entity raises RuntimeError after the earlier ones were copied *)
          match zassoc_get e2 (w_entities w), zassoc_get e1 (w_entities w) with
          | Some m, Some s =>
            let fix copy (ks : list string) (s : entity) : entity * option error :=
              match ks with
              | [] => (s, None)
              | k :: r => match assoc_get k (en_vol m) with
                          | Some v => copy r (set_vol s k v)
                          | None => (s, Some ERuntime)
                          end
              end in
            let '(s', er) := copy ["position"; "yaw"; "pitch"; "roll"]%string s in (put w s', er)
          | _, _ => (w, None)
          end
        else if negb (Z.eqb e1 0) then
          (* no second entity: a regular update of the first one from the packet *)
          match zassoc_get e1 (w_entities w) with
          | Some e => (put w (set_vol (set_vol (set_vol (set_vol e "position" (Some pos)) "yaw" (Some yaw)) "pitch" (Some pitch)) "roll" (Some roll)), None)
          | None => (w, None)
          end
        else (w, None)
      end
  | EntityMethod =>
      atomic w (
        '(id, r1) <- get_u 4 pl ;; '(mid, r2) <- get_u 4 r1 ;; '(data, _) <- binstream r2 ;;
        e <- lookup_entity w (Z.of_N id) ;; m <- model_of (en_type e) ;;
        match nthN (e_methods m) mid with
        | None => Err EIndex
        | Some mt =>
          let key := key_of (en_type e) (m_name mt) in
          match (match assoc_get (en_type e) (s_mcounts St) with Some l => match nthN l mid with Some c => c | None => O end | None => O end) with
          | O => Ok w                                  (* unsubscribed: not decoded *)
          | n =>
            '(vs, _) <- decode_seq (Z.to_nat (m_hdr mt)) (map snd (m_args mt)) data ;;
            let '(ps, ks) := split_args (map fst (m_args mt)) vs in
            Ok (log w (repeat_call n (CMethod key (en_id e) ps ks)))
          end
        end)
  | EntityProperty =>
      atomic w (
        '(id, r1) <- get_u 4 pl ;; '(pid, r2) <- get_u 4 r1 ;; '(val, _) <- binstream r2 ;;
        e <- lookup_entity w (Z.of_N id) ;; m <- model_of (en_type e) ;;
        match nthN (e_client m) pid with
        | None => Err EIndex
        | Some p => '(v, _) <- decode 1 (p_type p) val ;; Ok (log (put w (set_client e (p_name p) v)) (prop_calls e (p_name p) v))
        end)
  | NestedProperty =>
      atomic w (
        '(id, r1) <- get_u 4 pl ;; '(sl, r2) <- get_s 1 r1 ;; '(sz, r3) <- get_u 1 r2 ;;
        let payload := snd (read_upto 3 r3) in
        if negb (N.eqb (N.of_nat (length payload)) sz) then Err EAssert else
        e <- lookup_entity w (Z.of_N id) ;; m <- model_of (en_type e) ;;
        '(e', cs) <- nested_apply e m (Z.eqb sl 1) payload ;;
        Ok (log (put w e') cs))
  | Map =>
      atomic w (name <- decode_map g pl ;; Ok {| w_entities := w_entities w; w_player := w_player w; w_map := Some name; w_trace := w_trace w |})
  | Version =>
      atomic w ('(n, r) <- get_s 4 pl ;; if utf8_valid (fst (read_z n r)) then Ok w else Err EUnicode)
  | BattleStats => atomic w ('(_, _) <- get_s 4 pl ;; Ok w)   (* the JSON body is an oracle: assumed well-formed *)
  end.

Fixpoint table_get (k : N) (t : list (N * pclass)) : option pclass :=
  match t with [] => None | (k', c) :: r => if k =? k' then Some c else table_get k r end.


(* observation functions for the payload-consumption check (C03): which (type_member) key a method / property packet
   addresses in the current world and how many payload bytes its declared types leave over.
   Err = the packet does not reach the decoder (short header, unknown entity, id out of range);
   Ok (key, None) = the declared types fail on the payload. *)
Definition method_payload_rest (w : world) (pl : bytes) : result (string * option nat) :=
  '(id, r1) <- get_u 4 pl ;; '(mid, r2) <- get_u 4 r1 ;; '(data, _) <- binstream r2 ;;
  e <- lookup_entity w (Z.of_N id) ;; m <- model_of (en_type e) ;;
  match nthN (e_methods m) mid with
  | None => Err EIndex
  | Some mt =>
    let key := key_of (en_type e) (m_name mt) in
    match decode_seq (Z.to_nat (m_hdr mt)) (map snd (m_args mt)) data with
    | Ok (_, rest) => Ok (key, Some (length rest))
    | Err _ => Ok (key, None)
    end
  end.
Definition prop_payload_rest (w : world) (pl : bytes) : result (string * option nat) :=
  '(id, r1) <- get_u 4 pl ;; '(pid, r2) <- get_u 4 r1 ;; '(val, _) <- binstream r2 ;;
  e <- lookup_entity w (Z.of_N id) ;; m <- model_of (en_type e) ;;
  match nthN (e_client m) pid with
  | None => Err EIndex
  | Some p =>
    let key := key_of (en_type e) (p_name p) in
    match decode 1 (p_type p) val with
    | Ok (_, rest) => Ok (key, Some (length rest))
    | Err _ => Ok (key, None)
    end
  end.
Definition class_of (p : packet) : option pclass := table_get (pk_type p) (s_table St).

Definition step (w : world) (p : packet) : world * option error :=
  match table_get (pk_type p) (s_table St) with
  | None => (w, None)
  | Some c =>
    match s_game St, c with
    | Wowp, BasePlayerCreate => step_class w c (pk_payload p)
    | Wowp, Version => step_class w c (pk_payload p)
    | Wowp, EntityControl => atomic w ('(_, _) <- need 5 (pk_payload p) ;; Ok w)
    | Wowp, EntityEnter => atomic w ('(_, _) <- need 12 (pk_payload p) ;; Ok w)
    | Wowp, EntityLeave => atomic w ('(_, _) <- need 4 (pk_payload p) ;; Ok w)
    | Wowp, EntityProperty | Wowp, EntityMethod => atomic w ('(_, r) <- need 8 (pk_payload p) ;; '(_, _) <- binstream r ;; Ok w)
    | Wowp, Position => atomic w ('(_, _) <- need 45 (pk_payload p) ;; Ok w)
    | Wowp, NestedProperty =>
        atomic w ('(_, r1) <- get_u 4 (pk_payload p) ;; '(_, r2) <- get_s 1 r1 ;; '(sz, r3) <- get_u 1 r2 ;;
                  if N.eqb (N.of_nat (length (snd (read_upto 3 r3)))) sz then Ok w else Err EAssert)
    | Wowp, _ => (w, None)
    | _, _ => step_class w c (pk_payload p)
    end
  end.

Fixpoint play_lenient (w : world) (ps : list packet) : world :=
  match ps with [] => w | p :: r => play_lenient (fst (step w p)) r end.
Fixpoint play_strict (w : world) (ps : list packet) : world * option error :=
  match ps with
  | [] => (w, None)
  | p :: r => match step w p with
              | (w', None) => play_strict w' r
              | (w', Some e) => (w', Some e)
              end
  end.
End Step.

(* ---------- registration (Entity.subscribe_method_call / _property_change / _nested_property_change) ----------
   The table maps "<entity>_<member>" to the number of callbacks.  The code tests the BARE member name against the
   table keys (`if method_name not in table: table[key] = []`) and then appends: since keys carry the entity prefix the
   test almost never finds the name, so a second registration of a key replaces the first (known finding C07-a).
   Mirrored literally, including the KeyError when the bare name happens to be a key but the hashed key is not. *)
Definition subscribe (tbl : list (string * nat)) (ent name : string) : result (list (string * nat)) :=
  let key := (ent ++ "_" ++ name)%string in
  let tbl1 := if existsb (String.eqb name) (map fst tbl) then tbl else assoc_set key O tbl in
  match assoc_get key tbl1 with
  | Some n => Ok (assoc_set key (S n) tbl1)
  | None => Err EKey
  end.
Fixpoint subscribe_all (tbl : list (string * nat)) (regs : list (string * string)) : result (list (string * nat)) :=
  match regs with
  | [] => Ok tbl
  | (e, n) :: r => t <- subscribe tbl e n ;; subscribe_all t r
  end.
(* what the property asks for: every registration counts *)
Fixpoint subscribe_spec (tbl : list (string * nat)) (regs : list (string * string)) : list (string * nat) :=
  match regs with
  | [] => tbl
  | (e, n) :: r => let key := (e ++ "_" ++ n)%string in
                   subscribe_spec (assoc_set key (S (match assoc_get key tbl with Some c => c | None => O end)) tbl) r
  end.
