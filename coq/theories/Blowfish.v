From Coq Require Import List NArith Lia.
From RU Require Import Feistel PiTable.
Import ListNotations.
Open Scope N_scope.

Definition M32 := 4294967296.
Definition nthN (l : list N) (i : N) : N := nth (N.to_nat i) l 0.
Definition bfF (Sb : list N) (x : N) : N :=
  let a := N.shiftr x 24 in let b := N.land (N.shiftr x 16) 255 in
  let c := N.land (N.shiftr x 8) 255 in let d := N.land x 255 in
  (N.lxor ((nthN Sb a + nthN Sb (256 + b)) mod M32) (nthN Sb (512 + c)) + nthN Sb (768 + d)) mod M32.

(* P = p0 :: ps ++ [pl] with 16 round keys in the middle *)
Definition split_P (P : list N) : N * list N * N :=
  match P with
  | p0 :: r => (p0, removelast r, last r 0)
  | [] => (0, [], 0)
  end.
Definition bf_enc (P Sb : list N) (b : blk) : blk := let '(p0, ks, pl) := split_P P in enc (bfF Sb) p0 ks pl b.
Definition bf_dec (P Sb : list N) (b : blk) : blk := let '(p0, ks, pl) := split_P P in dec (bfF Sb) p0 ks pl b.

Theorem bf_dec_enc P Sb b : bf_dec P Sb (bf_enc P Sb b) = b.
Proof. unfold bf_dec, bf_enc. destruct (split_P P) as [[p0 ks] pl]. apply feistel_inverse. Qed.

Fixpoint replace_nth {A} (i : nat) (x : A) (l : list A) : list A :=
  match l, i with [], _ => [] | _ :: r, O => x :: r | y :: r, S i' => y :: replace_nth i' x r end.

(* key schedule *)
Fixpoint key_word (key : list N) (klen : nat) (pos : nat) (n : nat) (acc : N) : N :=
  match n with O => acc | S n' => key_word key klen (S pos) n' (acc * 256 + nth (Nat.modulo pos klen) key 0) end.
Definition xor_key (key : list N) (P : list N) : list N :=
  let klen := length key in
  (fix go (i : nat) (P : list N) : list N :=
     match P with [] => [] | p :: r => N.lxor p (key_word key klen (4 * i) 4 0) :: go (S i) r end) 0%nat P.

Fixpoint sched_P (n : nat) (i : nat) (st : list N * list N * blk) : list N * list N * blk :=
  match n with
  | O => st
  | S n' => let '(P, Sb, b) := st in
            let b' := bf_enc P Sb b in
            sched_P n' (i + 2) (replace_nth (i + 1) (snd b') (replace_nth i (fst b') P), Sb, b')
  end.
Fixpoint sched_S (n : nat) (i : nat) (st : list N * list N * blk) : list N * list N * blk :=
  match n with
  | O => st
  | S n' => let '(P, Sb, b) := st in
            let b' := bf_enc P Sb b in
            sched_S n' (i + 2) (P, replace_nth (i + 1) (snd b') (replace_nth i (fst b') Sb), b')
  end.
Definition key_schedule (key : list N) : list N * list N :=
  let P0 := xor_key key pi_P in
  let '(P1, S1, b1) := sched_P 9 0 (P0, pi_S, (0, 0)) in
  let '(P2, S2, _) := sched_S 512 0 (P1, S1, b1) in (P2, S2).

Definition wows_key : list N := [41;183;201;9;56;63;132;136;250;152;236;78;19;25;121;251].
Definition ks := Eval vm_compute in key_schedule wows_key.
(* test vector: big-endian halves (l, r) *)
Eval vm_compute in bf_enc (fst ks) (snd ks) (0, 0).
Eval vm_compute in bf_enc (fst ks) (snd ks) (305419896, 2596069104).
Eval vm_compute in bf_dec (fst ks) (snd ks) (bf_enc (fst ks) (snd ks) (305419896, 2596069104)).
Print Assumptions bf_dec_enc.
