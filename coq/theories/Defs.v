(* Model.Defs + Model.Index: raw definition syntax -> resolved types -> index maps
   (mirrors Alias, BaseDataObjectDef, EntityDef, PropertiesDescriptions, MethodDescriptions, Entity.__init__) *)
From RU Require Import Base Types.
Open Scope N_scope.

Inductive node := Node (tag : string) (text : option string) (kids : list node).
Definition tag_of (n : node) := match n with Node t _ _ => t end.
Definition text_of (n : node) := match n with Node _ t _ => t end.
Definition kids_of (n : node) := match n with Node _ _ k => k end.

Fixpoint find_child (tag : string) (l : list node) : option node :=
  match l with
  | [] => None
  | n :: r => if String.eqb (tag_of n) tag then Some n else find_child tag r
  end.
Definition child (n : node) (tag : string) := find_child tag (kids_of n).
Definition children (n : node) (tag : string) := filter (fun c => String.eqb (tag_of c) tag) (kids_of n).

(* int(text): optional sign, ASCII digits *)
Definition digit (c : ascii) : option Z :=
  let n := N_of_ascii c in if ((48 <=? n) && (n <=? 57))%N then Some (Z.of_N (n - 48)) else None.
Fixpoint parse_digits (acc : Z) (s : string) : option Z :=
  match s with
  | EmptyString => Some acc
  | String c r => match digit c with Some d => parse_digits (10 * acc + d)%Z r | None => None end
  end.
Definition parse_int (s : string) : option Z :=
  match s with
  | EmptyString => None
  | String "-"%char r => match r with EmptyString => None | _ => option_map Z.opp (parse_digits 0 r) end
  | String "+"%char r => match r with EmptyString => None | _ => parse_digits 0 r end
  | _ => parse_digits 0 s
  end.

Record config := {
  simple_types : list (string * dtype);     (* FLOAT -> TF32, ..., generated from SIMPLE_TYPES + numeric classes *)
  flag_values : list (string * N);
  mask_client : N; mask_internal : N; mask_cell : N; mask_base : N
}.

Section WithConfig.
Variable cfg : config.
(* alias table: later entries override; [al] is kept in reverse declaration order so the first hit is the last one declared *)
Variable al : list (string * node).

Fixpoint resolve (fuel : nat) (n : node) {struct fuel} : result dtype :=
  match fuel with
  | O => Err EFuel
  | S f =>
    match text_of n with
    | None => Err EOther
    | Some name =>
      match assoc_get name al with
      | Some a => resolve f a
      | None =>
        if String.eqb name "FIXED_DICT" then
          match child n "Properties" with
          | None => Err EOther
          | Some props =>
            let fix go (ps : list node) (acc : list (string * dtype)) : result (list (string * dtype)) :=
              match ps with
              | [] => Ok acc
              | p :: r => match child p "Type" with
                          | None => Err EOther
                          | Some ty => t <- resolve f ty ;; go r (assoc_set (tag_of p) t acc)
                          end
              end in
            fs <- go (kids_of props) [] ;;
            let an := match child n "AllowNone" with
                      | Some a => match text_of a with Some s => String.eqb s "true" | None => false end
                      | None => false end in
            Ok (TDict fs an)
          end
        else if (String.eqb name "ARRAY" || String.eqb name "TUPLE")%bool then
          match child n "of" with
          | None => Err EOther
          | Some o =>
            e <- resolve f o ;;
            match child n "size" with
            | None => Ok (TArray e None)
            | Some sz => match text_of sz with
                         | Some s => match parse_int s with Some z => Ok (TArray e (Some (Z.to_nat z))) | None => Err EOther end
                         | None => Err EOther end
            end
          end
        else if String.eqb name "USER_TYPE" then
          match child n "Type" with
          | None => Ok (TUser TBlob)
          | Some ty => t <- resolve f ty ;; Ok (TUser t)
          end
        else match assoc_get name (simple_types cfg) with
             | Some t => Ok t
             | None => Err ERuntime
             end
      end
    end
  end.

Record meth := { m_name : string; m_args : list (option string * dtype); m_hdr : Z }.
Record prop := { p_name : string; p_type : dtype; p_flags : N }.

Definition header_of (m : node) : Z :=
  match child m "VariableLengthHeaderSize" with
  | Some h => match text_of h with
              | Some s => match parse_int s with Some z => z | None => 1%Z end
              | None => 1%Z end
  | None => 1%Z
  end.

Definition FUEL := 200%nat.

Definition method_of (m : node) : result meth :=
  let fix named (l : list node) : result (list (option string * dtype)) :=
    match l with [] => Ok [] | a :: r => t <- resolve FUEL a ;; rest <- named r ;; Ok ((Some (tag_of a), t) :: rest) end in
  let fix positional (l : list node) : result (list (option string * dtype)) :=
    match l with [] => Ok [] | a :: r => t <- resolve FUEL a ;; rest <- positional r ;; Ok ((None, t) :: rest) end in
  args <- match child m "Args" with
          | Some a => named (kids_of a)
          | None => positional (children m "Arg")
          end ;;
  Ok {| m_name := tag_of m; m_args := args; m_hdr := header_of m |}.

Record acc := { a_props : list prop; a_methods : list meth; a_vol : list string }.

Definition add_prop (p : prop) (l : list prop) : list prop :=
  filter (fun q => negb (String.eqb (p_name q) (p_name p))) l ++ [p].
Definition has_method (name : string) (l : list meth) : bool :=
  existsb (fun m => String.eqb (m_name m) name) l.
Definition add_vol (t : string) (l : list string) : list string :=
  if existsb (String.eqb t) l then l else l ++ [t].

Variable ifaces : list (string * node).

Definition prop_of (p : node) : result prop :=
  match child p "Type", child p "Flags" with
  | Some ty, Some fl =>
      t <- resolve FUEL ty ;;
      match text_of fl with
      | Some s => match assoc_get s (flag_values cfg) with
                  | Some v => Ok {| p_name := tag_of p; p_type := t; p_flags := v |}
                  | None => Err EOther end
      | None => Err EOther end
  | _, _ => Err EOther
  end.

(* the own sections of ONE definition file (entity or interface), applied to what has been collected so far:
   Properties (a redefinition replaces the earlier entry and takes the later position), Volatile,
   ClientMethods (the first definition of a name wins) *)
Definition absorb (n : node) (a1 : acc) : result acc :=
  let fix props (l : list node) (ps : list prop) : result (list prop) :=
    match l with [] => Ok ps | p :: r => q <- prop_of p ;; props r (add_prop q ps) end in
  ps <- match child n "Properties" with Some pr => props (kids_of pr) (a_props a1) | None => Ok (a_props a1) end ;;
  let vol := match child n "Volatile" with
             | Some v => fold_left (fun acc it =>
                  let t := tag_of it in
                  if (String.eqb t "position" || String.eqb t "yaw" || String.eqb t "pitch" || String.eqb t "roll")%bool
                  then add_vol t acc else acc) (kids_of v) (a_vol a1)
             | None => a_vol a1 end in
  let fix meths (l : list node) (ms : list meth) : result (list meth) :=
    match l with
    | [] => Ok ms
    | m :: r => mm <- method_of m ;; meths r (if has_method (m_name mm) ms then ms else ms ++ [mm])
    end in
  ms <- match child n "ClientMethods" with Some cm => meths (kids_of cm) (a_methods a1) | None => Ok (a_methods a1) end ;;
  Ok {| a_props := ps; a_methods := ms; a_vol := vol |}.

(* _parse_section: Implements first (each interface completely, recursively, in declaration order), then the own sections *)
Fixpoint collect (fuel : nat) (n : node) (a : acc) {struct fuel} : result acc :=
  match fuel with
  | O => Err EFuel
  | S f =>
    let fix impls (l : list node) (a : acc) : result acc :=
      match l with
      | [] => Ok a
      | it :: r => match text_of it with
                   | Some name => match assoc_get name ifaces with
                                  | Some i => a' <- collect f i a ;; impls r a'
                                  | None => Err EOS end
                   | None => Err EOther end
      end in
    a1 <- match child n "Implements" with Some imp => impls (kids_of imp) a | None => Ok a end ;;
    absorb n a1
  end.

(* stable insertion sort *)
Fixpoint insert {A} (key : A -> Z) (x : A) (l : list A) : list A :=
  match l with
  | [] => [x]
  | y :: r => if (key x <? key y)%Z then x :: y :: r else y :: insert key x r
  end.
Definition ssort {A} (key : A -> Z) (l : list A) : list A := fold_left (fun acc x => insert key x acc) l [].

Definition method_key (m : meth) : Z :=
  let s := fold_left (fun acc a => acc + size_in_bytes (snd a)) (m_args m) 0 in
  Z.add (Z.of_N (if (INFINITY <=? s)%N then INFINITY else s)) (m_hdr m).
Definition prop_key (p : prop) : Z := Z.of_N (N.min (size_in_bytes (p_type p)) INFINITY).

Record emodel := {
  e_methods : list meth; e_client : list prop; e_internal : list prop;
  e_cell : list prop; e_base : list prop; e_vol : list string }.

Definition by_mask (mask : N) (l : list prop) := filter (fun p => negb (N.land (p_flags p) mask =? 0)) l.

Definition entity_model (def : node) : result emodel :=
  a <- collect FUEL def {| a_props := []; a_methods := []; a_vol := [] |} ;;
  Ok {| e_methods := ssort method_key (a_methods a);
        e_client := ssort prop_key (by_mask (mask_client cfg) (a_props a));
        e_internal := by_mask (mask_internal cfg) (a_props a);
        e_cell := by_mask (mask_cell cfg) (a_props a);
        e_base := by_mask (mask_base cfg) (a_props a);
        e_vol := a_vol a |}.
End WithConfig.
