(* C10: facts about the binding model and the meaning of the exhaustive instance theorem *)
From RU Require Import Base Bind.
From Coq Require Import Lia.
Open Scope string_scope.

(* too many positional values and no *args: TypeError *)
Theorem bind_too_many sig npos ks : has_varpos sig = false -> (length (filter is_pos sig) < npos)%nat -> bind sig npos ks = false.
Proof.
  intros Hv Hl. unfold bind. rewrite Hv. destruct (Nat.leb_spec npos (length (filter is_pos sig))); [lia|]. reflexivity.
Qed.
(* a keyword the callback does not know and no **kwargs: TypeError *)
Theorem bind_unknown_keyword sig npos k ks : has_varkw sig = false ->
  mem k (map pa_name (filter is_pos sig ++ filter is_kwonly sig)%list) = false -> bind sig npos (k :: ks) = false.
Proof.
  intros Hv Hm. unfold bind. cbn [forallb]. rewrite Hm, Hv. cbn [orb]. rewrite andb_false_r. cbn [andb].
  now rewrite andb_false_r.
Qed.
(* a required parameter that gets no value: TypeError *)
Theorem bind_missing_required sig npos ks p : In p (skipn npos (filter is_pos sig) ++ filter is_kwonly sig)%list ->
  required p = true -> mem (pa_name p) ks = false -> bind sig npos ks = false.
Proof.
  intros Hin Hr Hm. unfold bind. apply andb_false_iff. right.
  apply not_true_is_false. intros H. rewrite forallb_forall in H. specialize (H p Hin). rewrite Hr, Hm in H. discriminate.
Qed.
(* exactly the declared shape is accepted: n required positional parameters after the entity, and the named ones *)
Lemma filter_pos_all names : filter is_pos (map (fun n => {| pa_name := n; pa_kind := PosOrKw false |}) names) =
              map (fun n => {| pa_name := n; pa_kind := PosOrKw false |}) names.
Proof. induction names as [|n r IH]; cbn; [reflexivity|]. now rewrite IH. Qed.
Lemma filter_kwonly_none names : filter is_kwonly (map (fun n => {| pa_name := n; pa_kind := PosOrKw false |}) names) = [].
Proof. induction names as [|n r IH]; cbn; auto. Qed.
Theorem bind_exact_positional names : bind (map (fun n => {| pa_name := n; pa_kind := PosOrKw false |}) names) (length names) [] = true.
Proof.
  unfold bind. cbn [forallb andb]. rewrite filter_pos_all, filter_kwonly_none, map_length, Nat.leb_refl. cbn [orb andb].
  rewrite app_nil_r. rewrite <- (map_length (fun n => {| pa_name := n; pa_kind := PosOrKw false |}) names) at 1. now rewrite skipn_all.
Qed.

(* the meaning of the instance theorem "failures table = listed": every version not in the list is consistent *)
Theorem failures_complete vs v : In v vs -> (forall k, ~ In (vlabel v, k) (failures vs)) -> version_ok v = true.
Proof.
  intros Hin Hnone. unfold version_ok.
  destruct (vf_defs_load v && vf_has_controller v && vf_constructs v) eqn:E.
  - cbn [andb]. apply forallb_forall. intros s Hs. destruct (sub_ok s) eqn:Es; [reflexivity|].
    exfalso. apply (Hnone (su_key s)). unfold failures. apply in_flat_map. exists v. split; [exact Hin|].
    rewrite E. cbn [app]. apply in_map_iff. exists s. split; [reflexivity|]. apply filter_In. split; [exact Hs|]. now rewrite Es.
  - exfalso. apply (Hnone ""). unfold failures. apply in_flat_map. exists v. split; [exact Hin|]. rewrite E. now left.
Qed.
Print Assumptions bind_missing_required.
Print Assumptions failures_complete.
