(* C04: numeric ids -> definition members.  The id order is THE stable sort by wire size. *)
From RU Require Import Base Types Defs BitReader World.
From Coq Require Import Lia Sorting.Sorted Sorting.Permutation.
Open Scope Z_scope.

Section Sort.
Context {A : Type} (key : A -> Z).

Lemma insert_perm x l : Permutation (x :: l) (insert key x l).
Proof.
  induction l as [|y r IH]; cbn [insert]; [auto|].
  destruct (key x <? key y); [auto|]. rewrite perm_swap. now constructor.
Qed.
Lemma fold_insert_perm l : forall acc, Permutation (acc ++ l) (fold_left (fun acc x => insert key x acc) l acc).
Proof.
  induction l as [|x l IH]; intros acc; cbn [fold_left].
  - now rewrite app_nil_r.
  - rewrite <- IH. rewrite <- (insert_perm x acc). cbn. symmetry. apply Permutation_middle.
Qed.
Theorem ssort_perm l : Permutation l (ssort key l).
Proof. unfold ssort. now rewrite <- fold_insert_perm. Qed.

Definition sorted (l : list A) := StronglySorted (fun a b => key a <= key b) l.

Lemma insert_sorted x l : sorted l -> sorted (insert key x l).
Proof.
  unfold sorted. induction 1 as [|y r Hs IH Hf]; cbn [insert].
  - constructor; constructor.
  - destruct (key x <? key y) eqn:E.
    + apply Z.ltb_lt in E. constructor; [constructor; auto|].
      constructor; [lia|]. eapply Forall_impl; [|exact Hf]. cbn; intros; lia.
    + apply Z.ltb_ge in E. constructor; [exact IH|].
      rewrite <- insert_perm. constructor; auto.
Qed.
Lemma fold_sorted l : forall acc, sorted acc -> sorted (fold_left (fun acc x => insert key x acc) l acc).
Proof. induction l; cbn [fold_left]; intros; auto using insert_sorted. Qed.
Theorem ssort_sorted l : sorted (ssort key l).
Proof. apply fold_sorted. constructor. Qed.

(* stability: the members with a given key keep their relative (declaration) order *)
Definition sel (k : Z) (l : list A) := filter (fun a => key a =? k) l.
Lemma insert_sel x l k : sorted l -> sel k (insert key x l) = if key x =? k then sel k l ++ [x] else sel k l.
Proof.
  unfold sorted, sel. induction 1 as [|y r Hs IH Hf]; cbn [insert filter].
  - destruct (key x =? k); reflexivity.
  - destruct (key x <? key y) eqn:E; cbn [filter].
    + apply Z.ltb_lt in E. destruct (key x =? k) eqn:Ex.
      * apply Z.eqb_eq in Ex. replace (key y =? k) with false by (symmetry; apply Z.eqb_neq; lia).
        assert (H : filter (fun a => key a =? k) r = []).
        { clear -Hf E Ex. induction r as [|z r IH]; cbn [filter]; auto. inversion Hf; subst.
          replace (key z =? key x) with false by (symmetry; apply Z.eqb_neq; lia). auto. }
        rewrite H. reflexivity.
      * reflexivity.
    + rewrite IH. destruct (key y =? k), (key x =? k); reflexivity.
Qed.
Theorem ssort_stable l k : sel k (ssort key l) = sel k l.
Proof.
  unfold ssort.
  assert (H : forall acc, sorted acc -> sel k (fold_left (fun acc x => insert key x acc) l acc) = sel k acc ++ sel k l).
  { induction l as [|x l IH]; intros acc Hs; cbn [fold_left].
    - unfold sel; cbn. now rewrite app_nil_r.
    - rewrite IH by now apply insert_sorted. rewrite insert_sel by assumption.
      change (sel k (x :: l)) with (if key x =? k then x :: sel k l else sel k l).
      destruct (key x =? k); [now rewrite <- app_assoc|reflexivity]. }
  rewrite H by constructor. reflexivity.
Qed.

(* uniqueness: a list that is sorted by key and keeps every tie class in its original order IS the stable sort;
   so no other tie-break (by name, by reverse position, ...) can produce the same ids *)
Lemma sel_in k x l : In x (sel k l) <-> In x l /\ key x = k.
Proof. unfold sel. rewrite filter_In. now rewrite Z.eqb_eq. Qed.
Lemma sorted_head_min x l : sorted (x :: l) -> forall y, In y (x :: l) -> key x <= key y.
Proof. intros H y [<-|Hy]; [lia|]. inversion H; subst. rewrite Forall_forall in *. auto. Qed.
Lemma sorted_sel_eq : forall a b, sorted a -> sorted b -> (forall k, sel k a = sel k b) -> a = b.
Proof.
  induction a as [|x a IH]; intros b Ha Hb H.
  - destruct b as [|y b]; [reflexivity|]. specialize (H (key y)). unfold sel in H. cbn [filter] in H.
    rewrite Z.eqb_refl in H. discriminate.
  - destruct b as [|y b].
    { specialize (H (key x)). unfold sel in H. cbn [filter] in H. rewrite Z.eqb_refl in H. discriminate. }
    assert (Hxb : In x (y :: b)).
    { apply (proj1 (sel_in (key x) x (y :: b))). rewrite <- H. apply sel_in. split; [now left|reflexivity]. }
    assert (Hya : In y (x :: a)).
    { apply (proj1 (sel_in (key y) y (x :: a))). rewrite H. apply sel_in. split; [now left|reflexivity]. }
    pose proof (sorted_head_min _ _ Ha y Hya) as L1. pose proof (sorted_head_min _ _ Hb x Hxb) as L2.
    assert (Ek : key x = key y) by lia.
    pose proof (H (key x)) as Hk. unfold sel in Hk. cbn [filter] in Hk. rewrite Z.eqb_refl in Hk.
    rewrite <- Ek in Hk. rewrite Z.eqb_refl in Hk. inversion Hk as [[Hxy Htl]]. subst y. f_equal.
    apply IH.
    + now inversion Ha.
    + now inversion Hb.
    + intros k. destruct (Z.eq_dec k (key x)) as [->|Hne]; [exact Htl|].
      specialize (H k). unfold sel in H. cbn [filter] in H.
      replace (key x =? k) with false in H by (symmetry; apply Z.eqb_neq; lia). exact H.
Qed.
Theorem ssort_unique l l' : sorted l' -> (forall k, sel k l' = sel k l) -> l' = ssort key l.
Proof.
  intros Hs Hk. apply sorted_sel_eq; [exact Hs|apply ssort_sorted|]. intros k. now rewrite Hk, ssort_stable.
Qed.

(* in a sorted list a strictly smaller key comes strictly earlier *)
Lemma sorted_lt_before l : sorted l -> forall i j a b, nth_error l i = Some a -> nth_error l j = Some b -> key a < key b -> (i < j)%nat.
Proof.
  induction 1 as [|x r Hs IH Hf]; intros i j a b Hi Hj Hlt.
  - destruct i; discriminate.
  - destruct i as [|i], j as [|j]; cbn in Hi, Hj.
    + inversion Hi; inversion Hj; subst. lia.
    + lia.
    + inversion Hj; subst b. apply nth_error_In in Hi. rewrite Forall_forall in Hf. specialize (Hf _ Hi). lia.
    + apply -> Nat.succ_lt_mono. eapply IH; eauto.
Qed.
End Sort.

(* ---- entity type ids: 1-based position in entities.xml, no wrap-around ---- *)
Theorem entity_index_spec names i : entity_by_index names (Z.of_nat (S i)) = nth_error names i.
Proof.
  unfold entity_by_index. destruct (Z.leb_spec (Z.of_nat (S i)) 0); [lia|].
  f_equal. lia.
Qed.
Theorem entity_index_nonpositive names z : z <= 0 -> entity_by_index names z = None.
Proof. intros H. unfold entity_by_index. destruct (Z.leb_spec z 0); [reflexivity|lia]. Qed.

(* ---- the id lists of an entity are what the statement says ---- *)
Section Ids.
Variable cfg : config.
Variable al : list (string * node).
Variable ifaces : list (string * node).

(* methods: stable sort by wire size incl. header; properties: flag filter, then stable sort (exposed) or declaration order *)
Theorem entity_model_spec def m :
  entity_model cfg al ifaces def = Ok m ->
  exists a, collect cfg al ifaces FUEL def {| a_props := []; a_methods := []; a_vol := [] |} = Ok a /\
    e_methods m = ssort method_key (a_methods a) /\
    e_client m = ssort prop_key (by_mask (mask_client cfg) (a_props a)) /\
    e_internal m = by_mask (mask_internal cfg) (a_props a) /\
    e_cell m = by_mask (mask_cell cfg) (a_props a) /\
    e_base m = by_mask (mask_base cfg) (a_props a).
Proof.
  unfold entity_model. destruct (collect cfg al ifaces FUEL def _) as [a|] eqn:E; cbn [bind]; [|discriminate].
  intros H; inversion H; subst. exists a. cbn. repeat split; reflexivity.
Qed.

(* every variable-size method comes after every fixed-size one, provided the fixed total plus its header stays below
   INFINITY plus the other header (true of anything a 1-2 byte length header can carry) *)
Theorem variable_after_fixed ms i j m1 m2 :
  nth_error (ssort method_key ms) i = Some m1 -> nth_error (ssort method_key ms) j = Some m2 ->
  method_key m1 < method_key m2 -> (i < j)%nat.
Proof. intros Hi Hj Hlt. eapply (sorted_lt_before method_key); eauto. apply ssort_sorted. Qed.
Lemma method_key_fixed_lt_variable m1 m2 s1 :
  fold_left (fun acc a => (acc + size_in_bytes (snd a))%N) (m_args m1) 0%N = s1 -> (s1 < INFINITY)%N ->
  (INFINITY <= fold_left (fun acc a => (acc + size_in_bytes (snd a))%N) (m_args m2) 0%N)%N ->
  Z.of_N s1 + m_hdr m1 < Z.of_N INFINITY + m_hdr m2 ->
  method_key m1 < method_key m2.
Proof.
  intros H1 Hlt H2 Hh. unfold method_key. rewrite H1.
  destruct (N.leb_spec INFINITY s1); [lia|].
  destruct (N.leb_spec INFINITY (fold_left (fun acc a => (acc + size_in_bytes (snd a))%N) (m_args m2) 0%N)); [|lia].
  exact Hh.
Qed.

(* properties: a later redefinition of a name replaces the earlier one AND takes the later position *)
Theorem add_prop_spec p l :
  add_prop p l = filter (fun q => negb (String.eqb (p_name q) (p_name p))) l ++ [p].
Proof. reflexivity. Qed.
Theorem add_prop_last p l : last (add_prop p l) p = p /\
  (forall q, In q (add_prop p l) -> p_name q = p_name p -> q = p).
Proof.
  split.
  - unfold add_prop. now rewrite last_last.
  - intros q Hin Hn. unfold add_prop in Hin. apply in_app_or in Hin as [Hin|[<-|[]]]; [|reflexivity].
    apply filter_In in Hin as [_ Hb]. rewrite Hn, String.eqb_refl in Hb. discriminate.
Qed.
(* methods: the first definition of a name wins (a later one is ignored, position unchanged) *)
Theorem has_method_first_wins name ms mm : has_method name ms = true -> m_name mm = name ->
  (if has_method (m_name mm) ms then ms else ms ++ [mm]) = ms.
Proof. intros H <-. now rewrite H. Qed.

(* ---- "interfaces first, depth-first in declaration order, then the entity's own" ---- *)
(* the definition files in the order in which their own sections are applied *)
Fixpoint sections (fuel : nat) (n : node) {struct fuel} : result (list node) :=
  match fuel with
  | O => Err EFuel
  | S f =>
    let fix go (l : list node) : result (list node) :=
      match l with
      | [] => Ok []
      | it :: r => match text_of it with
                   | Some name => match assoc_get name ifaces with
                                  | Some i => s <- sections f i ;; rest <- go r ;; Ok (s ++ rest)%list
                                  | None => Err EOS end
                   | None => Err EOther end
      end in
    pre <- match child n "Implements" with Some imp => go (kids_of imp) | None => Ok [] end ;;
    Ok (pre ++ [n])%list
  end.
Fixpoint absorb_all (ss : list node) (a : acc) : result acc :=
  match ss with [] => Ok a | n :: r => a' <- absorb cfg al n a ;; absorb_all r a' end.
Lemma absorb_all_app s1 : forall s2 a, absorb_all (s1 ++ s2) a = (a' <- absorb_all s1 a ;; absorb_all s2 a').
Proof.
  induction s1 as [|n s1 IH]; intros s2 a; [reflexivity|]. cbn [app absorb_all].
  destruct (absorb cfg al n a) as [a'|e]; cbn [bind]; [apply IH|reflexivity].
Qed.

(* the accumulator-passing recursion of the code IS the fold of [absorb] over the depth-first list of files *)
Theorem collect_is_dfs : forall fuel n a ss, sections fuel n = Ok ss -> collect cfg al ifaces fuel n a = absorb_all ss a.
Proof.
  induction fuel as [|f IH]; intros n a ss Hs; [discriminate Hs|].
  cbn [sections] in Hs. cbn [collect].
  set (go := fix go (l : list node) : result (list node) :=
      match l with
      | [] => Ok []
      | it :: r => match text_of it with
                   | Some name => match assoc_get name ifaces with
                                  | Some i => s <- sections f i ;; rest <- go r ;; Ok (s ++ rest)%list
                                  | None => Err EOS end
                   | None => Err EOther end
      end) in Hs.
  set (impls := fix impls (l : list node) (a : acc) : result acc :=
      match l with
      | [] => Ok a
      | it :: r => match text_of it with
                   | Some name => match assoc_get name ifaces with
                                  | Some i => a' <- collect cfg al ifaces f i a ;; impls r a'
                                  | None => Err EOS end
                   | None => Err EOther end
      end).
  assert (Himpl : forall l a0 pre, go l = Ok pre -> impls l a0 = absorb_all pre a0).
  { induction l as [|it r IHl]; intros a0 pre Hg; cbn [go] in Hg; fold go in Hg.
    - inversion Hg; subst. reflexivity.
    - cbn [impls]. fold impls. destruct (text_of it) as [name|]; [|discriminate Hg].
      destruct (assoc_get name ifaces) as [i|]; [|discriminate Hg].
      destruct (sections f i) as [s|] eqn:Es; cbn [bind] in Hg; [|discriminate Hg].
      destruct (go r) as [rest|] eqn:Er; cbn [bind] in Hg; [|discriminate Hg].
      inversion Hg; subst. rewrite (IH i a0 s Es). rewrite absorb_all_app.
      destruct (absorb_all s a0) as [a'|e]; cbn [bind]; [|reflexivity]. now apply IHl. }
  destruct (child n "Implements") as [imp|].
  - destruct (go (kids_of imp)) as [pre|] eqn:Eg; cbn [bind] in Hs; [|discriminate Hs].
    inversion Hs; subst. rewrite (Himpl _ a pre Eg). rewrite absorb_all_app.
    destruct (absorb_all pre a) as [a1|e]; cbn [bind]; [|reflexivity].
    cbn [absorb_all]. now destruct (absorb cfg al n a1).
  - cbn [bind] in Hs. inversion Hs; subst. cbn [bind app absorb_all]. now destruct (absorb cfg al n a).
Qed.
(* an entity's own file is always the last one applied, its interfaces come before it *)
Theorem sections_own_last fuel n ss : sections fuel n = Ok ss -> exists pre, ss = (pre ++ [n])%list.
Proof.
  destruct fuel as [|f]; [discriminate|]. cbn [sections].
  match goal with |- context [bind ?c _] => destruct c as [pre|]; cbn [bind]; [|discriminate] end.
  intros H; inversion H; subst. eauto.
Qed.
End Ids.
Print Assumptions collect_is_dfs.
Print Assumptions ssort_stable.
Print Assumptions ssort_unique.
Print Assumptions variable_after_fixed.
