(* C12, inhabited: a world with entity 7, then three update packets of which the middle one names an entity that does not exist.  The hypothesis
   of lenient_is_strict_on_survivors holds for these packets (every failure of an update packet is atomic), the middle packet does fail, and the
   lenient run equals the strict run of the two survivors. *)
From RU Require Import Base Types Defs BitReader World Run WireSpec WorldProofs LwwProofs CreateProofs StreamProofs.
Open Scope N_scope.
Local Open Scope string_scope.

Definition x_props : list prop := [{| p_name := "hp"; p_type := TUInt 2; p_flags := 0 |}; {| p_name := "name"; p_type := TString; p_flags := 0 |}].
Definition x_model : emodel := {| e_methods := []; e_client := x_props; e_internal := x_props; e_cell := []; e_base := []; e_vol := ["position"] |}.
Definition x_St : setup :=
  {| s_game := Wows; s_table := [(5%N, EntityCreate); (7%N, EntityProperty)]; s_names := ["Ship"];
     s_models := [("Ship", x_model)]; s_msubs := []; s_mcounts := []; s_psubs := []; s_nsubs := [] |}.
Definition x_hp := {| p_name := "hp"; p_type := TUInt 2; p_flags := 0 |}.
Definition x_time : bytes := [x00; x00; x80; x3f].
Definition x_w0 : world :=
  fst (step x_St empty_world {| pk_type := 5; pk_time := x_time; pk_payload := enc_create 7 1 (repeat x00 32) [] [(0%N, x_hp, VInt 500)] |}).
Definition x_ps : list packet :=
  [{| pk_type := 7; pk_time := x_time; pk_payload := enc_update 7 0 [x2c; x01] |};
   {| pk_type := 7; pk_time := x_time; pk_payload := enc_update 9 0 [x2c; x01] |};
   {| pk_type := 7; pk_time := x_time; pk_payload := enc_update 7 0 [x05; x00] |}].

Lemma x_hyp : forall w0 p w1 e, In p x_ps -> step x_St w0 p = (w1, Some e) -> w1 = w0.
Proof.
  intros w0 p w1 e Hin H.
  assert (Ht : table_get (pk_type p) (s_table x_St) = Some EntityProperty).
  { cbn [In x_ps] in Hin. destruct Hin as [<-|[<-|[<-|[]]]]; reflexivity. }
  rewrite (step_is_step_class x_St (fun E => ltac:(discriminate E)) w0 p EntityProperty Ht) in H.
  exact (atomic_failures x_St EntityProperty w0 (pk_payload p) w1 e eq_refl H).
Qed.

(* the middle packet fails and is dropped; the lenient run is the strict run of the two others; entity 7 ends with hp = 5 *)
Example c12_example :
  (forall w0 p w1 e, In p x_ps -> step x_St w0 p = (w1, Some e) -> w1 = w0) /\
  length (survivors x_St x_w0 x_ps) = 2%nat /\
  snd (play_strict x_St x_w0 x_ps) = Some EKey /\
  play_strict x_St x_w0 (survivors x_St x_w0 x_ps) = (play_lenient x_St x_w0 x_ps, None).
Proof.
  split; [exact x_hyp|]. split; [vm_compute; reflexivity|]. split; [vm_compute; reflexivity|].
  apply lenient_is_strict_on_survivors. exact x_hyp.
Qed.
Print Assumptions c12_example.
