(* C15 (logic part): every loop of the model is bounded by the bytes (bits) that are actually present: the explicit
   recursion budgets are never exhausted, so the out-of-fuel value is unreachable and not a disguised normal result. *)
From RU Require Import Base Types Defs BitReader World WireSpec TypesProofs BitReaderProofs FrameProofs Container ContainerProofs.
From Coq Require Import Lia.
Open Scope N_scope.

Lemma split_exact_len n : forall bs a r, split_exact n bs = Some (a, r) -> length bs = (n + length r)%nat.
Proof.
  induction n as [|n IH]; intros bs a r H; cbn in H.
  - inversion H; reflexivity.
  - destruct bs as [|b bs]; [discriminate|]. destruct (split_exact n bs) as [[a' r']|] eqn:E; [|discriminate].
    inversion H; subst. cbn. f_equal. eapply IH; eauto.
Qed.
Lemma need_len n bs a r : need n bs = Ok (a, r) -> length bs = (n + length r)%nat.
Proof. unfold need. destruct (split_exact n bs) as [[a' r']|] eqn:E; [|discriminate]. intros H; inversion H; subst. eapply split_exact_len; eauto. Qed.
Lemma get_u_len n bs x r : get_u n bs = Ok (x, r) -> length bs = (n + length r)%nat.
Proof. unfold get_u. destruct (need n bs) as [[a r']|] eqn:E; [|discriminate]. cbn [bind]. intros H; inversion H; subst. eapply need_len; eauto. Qed.
Lemma get_s_len n bs x r : get_s n bs = Ok (x, r) -> length bs = (n + length r)%nat.
Proof. unfold get_s. destruct (need n bs) as [[a r']|] eqn:E; [|discriminate]. cbn [bind]. intros H; inversion H; subst. eapply need_len; eauto. Qed.
Lemma read_upto_len n bs : (length (snd (read_upto n bs)) <= length bs)%nat.
Proof. unfold read_upto. cbn [snd]. rewrite skipn_length. lia. Qed.
Lemma read_uptoN_len n bs : (length (snd (read_uptoN n bs)) <= length bs)%nat.
Proof. rewrite read_uptoN_spec. apply read_upto_len. Qed.

Ltac binv H :=
  match type of H with
  | bind ?c _ = Ok _ => let E := fresh "E" in destruct c as [[? ?]|] eqn:E; cbn [bind] in H; [|discriminate H]
  end.

Theorem decode_min_consumed : forall t hdr bs v rest,
  decode hdr t bs = Ok (v, rest) -> (length rest + min_size t <= length bs)%nat.
Proof.
  induction t as [w|w| | |n| | | | |e sz IH|fs an IH|t IH] using dtype_ind'; intros hdr bs v rest H; cbn [decode] in H; cbn [min_size].
  - binv H. inversion H; subst. apply get_u_len in E. lia.
  - binv H. inversion H; subst. apply get_s_len in E. lia.
  - binv H. inversion H; subst. apply need_len in E. lia.
  - binv H. inversion H; subst. apply need_len in E. lia.
  - binv H. inversion H; subst. apply need_len in E. lia.
  - (* String *) binv H. pose proof (read_uptoN_len n b) as L. destruct (read_uptoN n b) as [p r'']. inversion H; subst. cbn [snd] in L.
    unfold plen_string in E. binv E. apply get_u_len in E0. destruct (_ =? 255).
    + apply get_u_len in E. lia.
    + inversion E; subst. lia.
  - (* Blob *) binv H. pose proof (read_uptoN_len n b) as L. destruct (read_uptoN n b) as [p r'']. destruct (_ =? _); [|discriminate]. inversion H; subst. cbn [snd] in L.
    unfold plen_blob in E. binv E. apply get_u_len in E0. destruct (_ =? 255).
    + apply get_u_len in E. lia.
    + inversion E; subst. lia.
  - (* Python *) unfold plen_py in H. binv H. pose proof (read_uptoN_len n b) as L. destruct (read_uptoN n b) as [p r'']. inversion H; subst. cbn [snd] in L.
    unfold plen_blob in E. binv E. apply get_u_len in E0. destruct (_ =? 255).
    + apply get_u_len in E. lia.
    + inversion E; subst. lia.
  - (* Mailbox *) unfold read_upto in H. destruct (Nat.eqb (length (firstn 4 bs)) 4) eqn:E4; [|discriminate].
    binv H. inversion H; subst. apply need_len in E. rewrite skipn_length in E. apply Nat.eqb_eq in E4. rewrite firstn_length in E4. lia.
  - (* Array *)
    set (loop := fix loop (n : nat) (bs : bytes) {struct n} : result (list value * bytes) :=
        match n with
        | O => Ok ([], bs)
        | S n' => '(v, r) <- decode hdr e bs ;; '(vs, r') <- loop n' r ;; Ok (v :: vs, r')
        end) in H.
    assert (Hloop : forall n bs vs r, loop n bs = Ok (vs, r) -> (length r + n * min_size e <= length bs)%nat).
    { induction n as [|n IHn]; intros bs0 vs r Hl; cbn [loop] in Hl; fold loop in Hl.
      - inversion Hl; subst. lia.
      - binv Hl. binv Hl. inversion Hl; subst. apply IH in E. apply IHn in E0. lia. }
    destruct sz as [n|].
    + binv H. inversion H; subst. apply Hloop in E. lia.
    + binv H. binv H. inversion H; subst. apply get_u_len in E. apply Hloop in E0. lia.
  - (* Dict *)
    set (fields := fix fields (fl : list (string * dtype)) (bs : bytes) {struct fl} : result (list (string * value) * bytes) :=
        match fl with
        | [] => Ok ([], bs)
        | (k, t') :: fl' => '(v, r) <- decode hdr t' bs ;; '(vs, r') <- fields fl' r ;; Ok ((k, v) :: vs, r')
        end) in H.
    set (body := (fix go (fl : list (string * dtype)) : nat := match fl with [] => O | (_, t') :: r => (min_size t' + go r)%nat end) fs).
    assert (Hf : forall bs vs r, fields fs bs = Ok (vs, r) -> (length r + body <= length bs)%nat).
    { subst body. clear H. induction IH as [|[k t'] fs' Hk _ IHfs]; intros bs0 vs r Hl; cbn [fields] in Hl; fold fields in Hl.
      - inversion Hl; subst. lia.
      - binv Hl. binv Hl. inversion Hl; subst. cbn [snd] in Hk. apply Hk in E. apply IHfs in E0. lia. }
    assert (Hbody : forall bs0, ('(vs, r) <- fields fs bs0 ;; Ok (VDict fs vs, r)) = Ok (v, rest) -> (length rest + body <= length bs0)%nat).
    { intros bs0 Hb. binv Hb. inversion Hb; subst. eapply Hf; eauto. }
    destruct an.
    + destruct bs as [|b r]; [apply Hbody in H; lia|].
      destruct (b2n b =? 0).
      * inversion H; subst. cbn [length]. lia.
      * destruct (b2n b =? 1).
        -- apply Hbody in H. cbn [length]. lia.
        -- apply Hbody in H. lia.
    + now apply Hbody.
  - (* User *) destruct (is_blob t).
    + eapply IH; eauto.
    + apply IH in H. pose proof (read_upto_len hdr bs). lia.
Qed.

Lemma need_err n bs e : need n bs = Err e -> e = EStruct.
Proof. unfold need. destruct (split_exact n bs) as [[? ?]|]; [discriminate|]. now intros [= <-]. Qed.
Lemma get_u_err n bs e : get_u n bs = Err e -> e = EStruct.
Proof. unfold get_u. destruct (need n bs) as [[? ?]|e0] eqn:E; cbn [bind]; [discriminate|]. intros [= <-]. eapply need_err; eauto. Qed.
Lemma get_s_err n bs e : get_s n bs = Err e -> e = EStruct.
Proof. unfold get_s. destruct (need n bs) as [[? ?]|e0] eqn:E; cbn [bind]; [discriminate|]. intros [= <-]. eapply need_err; eauto. Qed.
Lemma plen_blob_err bs e : plen_blob bs = Err e -> e = EStruct.
Proof.
  unfold plen_blob. destruct (get_u 1 bs) as [[n r]|e0] eqn:E; cbn [bind].
  - destruct (n =? 255); [apply get_u_err|discriminate].
  - intros [= <-]. eapply get_u_err; eauto.
Qed.
Lemma plen_string_err bs e : plen_string bs = Err e -> e = EStruct.
Proof. exact (plen_blob_err bs e). Qed.

(* a value decoder has no budget of its own: it can never report EFuel *)
Lemma decode_never_fuel : forall t hdr bs, decode hdr t bs <> Err EFuel.
Proof.
  induction t as [w|w| | |n| | | | |e sz IH|fs an IH|t IH] using dtype_ind'; intros hdr bs H; cbn [decode] in H.
  - destruct (get_u w bs) as [[? ?]|e0] eqn:E; cbn [bind] in H; [discriminate|]. apply get_u_err in E. congruence.
  - destruct (get_s w bs) as [[? ?]|e0] eqn:E; cbn [bind] in H; [discriminate|]. apply get_s_err in E. congruence.
  - destruct (need 4 bs) as [[? ?]|e0] eqn:E; cbn [bind] in H; [discriminate|]. apply need_err in E. congruence.
  - destruct (need 8 bs) as [[? ?]|e0] eqn:E; cbn [bind] in H; [discriminate|]. apply need_err in E. congruence.
  - destruct (need n bs) as [[? ?]|e0] eqn:E; cbn [bind] in H; [discriminate|]. apply need_err in E. congruence.
  - destruct (plen_string bs) as [[? ?]|e0] eqn:E; cbn [bind] in H.
    + destruct (read_uptoN _ _); discriminate.
    + apply plen_string_err in E. congruence.
  - destruct (plen_blob bs) as [[? ?]|e0] eqn:E; cbn [bind] in H.
    + destruct (read_uptoN _ _). destruct (_ =? _); discriminate.
    + apply plen_blob_err in E. congruence.
  - unfold plen_py in H. destruct (plen_blob bs) as [[? ?]|e0] eqn:E; cbn [bind] in H.
    + destruct (read_uptoN _ _); discriminate.
    + apply plen_blob_err in E. congruence.
  - destruct (read_upto 4 bs). destruct (Nat.eqb _ _); [|discriminate].
    destruct (need 2 b0) as [[? ?]|e0] eqn:E; cbn [bind] in H; [discriminate|]. apply need_err in E. congruence.
  - (* Array *)
    set (loop := fix loop (n : nat) (bs : bytes) {struct n} : result (list value * bytes) :=
        match n with
        | O => Ok ([], bs)
        | S n' => '(v, r) <- decode hdr e bs ;; '(vs, r') <- loop n' r ;; Ok (v :: vs, r')
        end) in H.
    assert (Hloop : forall n bs, loop n bs <> Err EFuel).
    { induction n as [|n IHn]; intros bs0; cbn [loop]; fold loop; [discriminate|].
      destruct (decode hdr e bs0) as [[v r]|e0] eqn:E; cbn [bind].
      - destruct (loop n r) as [[vs r']|e1] eqn:E1; cbn [bind]; [discriminate|]. intros H1; inversion H1; subst. now apply (IHn r).
      - intros H1; inversion H1; subst. now apply (IH hdr bs0). }
    destruct sz as [n|].
    + destruct (loop n bs) as [[vs r]|e0] eqn:E; cbn [bind] in H; [discriminate|]. inversion H; subst. exact (Hloop _ _ E).
    + unfold get_u, need in H. destruct (split_exact 1 bs) as [[a r]|]; cbn [bind] in H; [|discriminate].
      destruct (loop (N.to_nat (le_decode a)) r) as [[vs r']|e0] eqn:E; cbn [bind] in H; [discriminate|]. inversion H; subst. exact (Hloop _ _ E).
  - (* Dict *)
    set (fields := fix fields (fl : list (string * dtype)) (bs : bytes) {struct fl} : result (list (string * value) * bytes) :=
        match fl with
        | [] => Ok ([], bs)
        | (k, t') :: fl' => '(v, r) <- decode hdr t' bs ;; '(vs, r') <- fields fl' r ;; Ok ((k, v) :: vs, r')
        end) in H.
    assert (Hf : forall bs0, fields fs bs0 <> Err EFuel).
    { clear H. induction IH as [|[k t'] fs' Hk _ IHfs]; intros bs0; cbn [fields]; fold fields; [discriminate|].
      destruct (decode hdr t' bs0) as [[v r]|e0] eqn:E; cbn [bind].
      - destruct (fields fs' r) as [[vs r']|e1] eqn:E1; cbn [bind]; [discriminate|]. intros H1; inversion H1; subst. now apply (IHfs r).
      - intros H1; inversion H1; subst. cbn [snd] in Hk. now apply (Hk hdr bs0). }
    assert (Hb : forall bs0, ('(vs, r) <- fields fs bs0 ;; Ok (VDict fs vs, r)) <> Err EFuel).
    { intros bs0. destruct (fields fs bs0) as [[vs r]|e0] eqn:E; cbn [bind]; [discriminate|]. intros H1; inversion H1; subst. now apply (Hf bs0). }
    destruct an.
    + destruct bs as [|b r]; [now apply (Hb [])|]. destruct (b2n b =? 0); [discriminate|]. destruct (b2n b =? 1); [now apply (Hb r)|now apply (Hb (b :: r))].
    + now apply (Hb bs).
  - (* User *) destruct (is_blob t); eapply IH; eauto.
Qed.

(* the element loop of a nested slice / set: `while io.tell() != len(rest)` terminates within the budget the model gives
   it whenever one element consumes at least one byte *)
Theorem decode_all_no_fuel t : (0 < min_size t)%nat -> forall fuel bs, (length bs < fuel)%nat -> decode_all fuel t bs <> Err EFuel.
Proof.
  intros Hm. induction fuel as [|f IH]; intros bs Hl; [lia|]. cbn [decode_all]. destruct bs as [|b r]; [discriminate|].
  destruct (decode 1 t (b :: r)) as [[v rest]|e0] eqn:E; cbn [bind].
  - apply decode_min_consumed in E. specialize (IH rest ltac:(cbn [length] in *; lia)).
    destruct (decode_all f t rest) as [vs|e']; cbn [bind]; [discriminate|]. intros H; inversion H; subst. now apply IH.
  - intros H; inversion H; subst. now apply (decode_never_fuel t 1%nat (b :: r)).
Qed.

(* the block loop of the container: every iteration needs four more bytes *)
Theorem read_blocks_no_fuel : forall fuel cnt bs, (length bs < fuel)%nat -> read_blocks fuel cnt bs <> Err EFuel.
Proof.
  induction fuel as [|f IH]; intros cnt bs Hl; [lia|]. cbn [read_blocks]. destruct (cnt <=? 0)%Z; [discriminate|].
  destruct (get_s 4 bs) as [[sz r]|e] eqn:E; cbn [bind].
  - pose proof (get_s_len _ _ _ _ E) as L. destruct (read_z sz r) as [b r'] eqn:Ez.
    assert (Lr : (length r' <= length r)%nat).
    { unfold read_z in Ez. destruct (sz <? 0)%Z; [inversion Ez; subst; cbn; lia|].
      pose proof (read_uptoN_len (Z.to_N sz) r) as L2. rewrite Ez in L2. exact L2. }
    specialize (IH (cnt - 1)%Z r' ltac:(lia)).
    destruct (read_blocks f (cnt - 1) r') as [[rest r'']|e']; cbn [bind]; [discriminate|]. intros H; inversion H; subst. now apply IH.
  - unfold get_s, need in E. destruct (split_exact 4 bs) as [[? ?]|]; cbn [bind] in E; [discriminate|]. inversion E; subst. discriminate.
Qed.
Print Assumptions decode_min_consumed.
Print Assumptions decode_all_no_fuel.
Print Assumptions read_blocks_no_fuel.

(* the path loop of a nested update: every iteration takes at least one bit *)
Lemma br_get_loop_len n : forall acc bits v bits', br_get_loop n acc bits = Ok (v, bits') -> (length bits = n + length bits')%nat.
Proof.
  induction n as [|n IH]; intros acc bits v bits' H; cbn [br_get_loop] in H.
  - inversion H; subst. reflexivity.
  - destruct bits as [|b r]; [discriminate|]. apply IH in H. cbn [length]. lia.
Qed.
Lemma br_get_len n r v r' : br_get n r = Ok (v, r') -> (length (br_bits r) = n + length (br_bits r'))%nat.
Proof.
  unfold br_get. destruct (br_get_loop n 0 (br_bits r)) as [[x bits]|] eqn:E; cbn [bind]; [|discriminate].
  intros H; inversion H; subst. cbn [br_bits]. eapply br_get_loop_len; eauto.
Qed.
Lemma br_get_err n r e : br_get n r = Err e -> e = EEmpty.
Proof.
  unfold br_get. destruct (br_get_loop n 0 (br_bits r)) as [[x bits]|e0] eqn:E; cbn [bind]; [discriminate|]. intros [= <-].
  revert E. generalize 0. generalize (br_bits r). induction n as [|n IH]; intros bits acc H; cbn [br_get_loop] in H; [discriminate|].
  destruct bits; [now inversion H|]. eapply IH; eauto.
Qed.
Theorem walk_no_fuel : forall fuel v r, (length (br_bits r) < fuel)%nat -> walk fuel v r <> Err EFuel.
Proof.
  induction fuel as [|f IH]; intros v r Hl; [lia|]. cbn [walk].
  destruct (br_get 1 r) as [[c r1]|e0] eqn:E1; cbn [bind].
  - apply br_get_len in E1. destruct ((c =? 1) && truthy v); [|discriminate].
    destruct (vsize v) as [l|]; [|discriminate].
    destruct (br_get (bits_required l) r1) as [[i r2]|e1] eqn:E2; cbn [bind].
    + apply br_get_len in E2. destruct (vchild v (N.to_nat i)) as [ch|]; [|discriminate].
      specialize (IH ch r2 ltac:(lia)). destruct (walk f ch r2) as [[[p leaf] r3]|e2]; cbn [bind]; [discriminate|].
      intros H; inversion H; subst. now apply IH.
    + apply br_get_err in E2. subst. discriminate.
  - apply br_get_err in E1. subst. discriminate.
Qed.
Print Assumptions walk_no_fuel.
