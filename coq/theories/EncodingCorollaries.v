(* Consequences of the round-trip theorem: the wire encoding of typed values is PREFIX-FREE (a byte string has at most one reading as
   "a value of this type, then a tail"), hence injective; the same for argument lists.  This is the "consumes exactly its bytes" clause
   seen from the writer's side: no two values, and no two (value, following bytes) pairs, share their bytes. *)
From RU Require Import Base Types WireSpec TypesProofs.
Open Scope N_scope.

Theorem wire_encode_prefix_free t hdr v1 v2 r1 r2 :
  has_type code_limits t v1 -> has_type code_limits t v2 ->
  (wire_encode hdr t v1 ++ r1 = wire_encode hdr t v2 ++ r2)%list -> v1 = v2 /\ r1 = r2.
Proof.
  intros H1 H2 E.
  pose proof (decode_wire_encode_partial t hdr v1 r1 H1) as D1.
  pose proof (decode_wire_encode_partial t hdr v2 r2 H2) as D2.
  rewrite E in D1. rewrite D1 in D2. injection D2 as -> ->. split; reflexivity.
Qed.

Corollary wire_encode_injective t hdr v1 v2 :
  has_type code_limits t v1 -> has_type code_limits t v2 -> wire_encode hdr t v1 = wire_encode hdr t v2 -> v1 = v2.
Proof.
  intros H1 H2 E. destruct (wire_encode_prefix_free t hdr v1 v2 [] [] H1 H2) as [Hv _]; [rewrite E; reflexivity | exact Hv].
Qed.

Theorem encode_seq_prefix_free hdr ts vs1 vs2 r1 r2 :
  Forall2 (has_type code_limits) ts vs1 -> Forall2 (has_type code_limits) ts vs2 ->
  (encode_seq hdr ts vs1 ++ r1 = encode_seq hdr ts vs2 ++ r2)%list -> vs1 = vs2 /\ r1 = r2.
Proof.
  intros H1 H2 E.
  pose proof (args_roundtrip hdr ts vs1 r1 H1) as D1.
  pose proof (args_roundtrip hdr ts vs2 r2 H2) as D2.
  rewrite E in D1. rewrite D1 in D2. injection D2 as -> ->. split; reflexivity.
Qed.
Print Assumptions wire_encode_prefix_free.
Print Assumptions encode_seq_prefix_free.

(* the framing is unambiguous as well: two lists of well-formed packets with the same stream bytes are the same list *)
From RU Require Import World Run FrameProofs.
Theorem enc_all_injective ps1 ps2 : Forall wf_packet ps1 -> Forall wf_packet ps2 -> enc_all ps1 = enc_all ps2 -> ps1 = ps2.
Proof.
  intros H1 H2 E. pose proof (frames_enc ps1 H1) as F1. pose proof (frames_enc ps2 H2) as F2.
  rewrite E in F1. rewrite F1 in F2. injection F2 as ->. reflexivity.
Qed.
Print Assumptions enc_all_injective.
