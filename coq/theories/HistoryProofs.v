From RU Require Import Base History LwwProofs.
From Coq Require Import Lia.
Open Scope string_scope.

Definition vdefault := {| vi_keys := []; vi_hits := [] |}.
Definition vget (vs : list vinfo) (o : owner) := nth o vs vdefault.

Lemma mem_in k l : mem k l = true <-> In k l.
Proof.
  unfold mem. rewrite existsb_exists. split.
  - intros (x & Hx & E). apply String.eqb_eq in E. now subst.
  - intros H. exists k. split; [exact H|apply String.eqb_refl].
Qed.
Lemma register_get_notin g o ks k : ~ In k ks -> assoc_get k (register g o ks) = assoc_get k g.
Proof.
  revert g. induction ks as [|x r IH]; intros g H; [reflexivity|]. cbn [register].
  rewrite IH by (intros Hin; apply H; now right).
  apply assoc_get_set_other. intros ->. apply H. now left.
Qed.
Lemma register_get_in g o ks k : In k ks -> assoc_get k (register g o ks) = Some o.
Proof.
  revert g. induction ks as [|x r IH]; intros g H; [contradiction|]. cbn [register].
  destruct (in_dec string_dec k r) as [Hr|Hr]; [now apply IH|].
  destruct H as [->|H]; [|contradiction].
  rewrite register_get_notin by exact Hr. apply assoc_get_set_same.
Qed.

(* reachable tables: every key is held by a version that registers it *)
Definition owned (vs : list vinfo) (g : gtable) : Prop :=
  forall k o, assoc_get k g = Some o -> (o < length vs)%nat /\ In k (vi_keys (vget vs o)).
Lemma owned_empty vs : owned vs [].
Proof. intros k o H. discriminate. Qed.
Lemma owned_register vs g o : (o < length vs)%nat -> owned vs g -> owned vs (register g o (vi_keys (vget vs o))).
Proof.
  intros Ho Hg k o' H.
  destruct (in_dec string_dec k (vi_keys (vget vs o))) as [Hin|Hnin].
  - rewrite register_get_in in H by exact Hin. inversion H; subst. auto.
  - rewrite register_get_notin in H by exact Hnin. now apply Hg.
Qed.

Lemma stale_safe_spec vs : stale_safe_b vs = true ->
  forall u v k, In u vs -> In v vs -> In k (vi_keys u) -> ~ In k (vi_keys v) -> ~ In k (vi_hits v).
Proof.
  unfold stale_safe_b. intros H u v k Hu Hv Hk Hnk Hhit.
  rewrite forallb_forall in H. specialize (H u Hu). rewrite forallb_forall in H. specialize (H v Hv).
  rewrite forallb_forall in H. specialize (H k Hk).
  apply orb_true_iff in H as [H|H].
  - apply mem_in in H. contradiction.
  - apply negb_true_iff in H. apply mem_in in Hhit. congruence.
Qed.

(* C13: for EVERY sequence of earlier parses (any versions, any events, failing or not - the tables only depend on
   which controllers were constructed), an event of a version-o replay is handled exactly as in a fresh process *)
Theorem dispatch_history_independent vs : stale_safe_b vs = true ->
  forall g o k, owned vs g -> (o < length vs)%nat -> In k (vi_hits (vget vs o)) ->
  dispatch (register g o (vi_keys (vget vs o))) o k = dispatch (register [] o (vi_keys (vget vs o))) o k.
Proof.
  intros Hs g o k Hg Ho Hhit. unfold dispatch.
  destruct (in_dec string_dec k (vi_keys (vget vs o))) as [Hin|Hnin].
  - now rewrite !register_get_in by exact Hin.
  - rewrite !register_get_notin by exact Hnin. cbn [assoc_get].
    destruct (assoc_get k g) as [o'|] eqn:E; [|reflexivity].
    exfalso. destruct (Hg _ _ E) as [Ho' Hk'].
    apply (stale_safe_spec vs Hs (vget vs o') (vget vs o) k); auto; apply nth_In; assumption.
Qed.
Fixpoint run_parses (vs : list vinfo) (g : gtable) (hist : list (owner * list string)) : gtable :=
  match hist with [] => g | (o, evs) :: r => run_parses vs (snd (parse_dispatch vs g o evs)) r end.
Lemma run_parses_owned vs hist : forall g, owned vs g -> Forall (fun p => (fst p < length vs)%nat) hist -> owned vs (run_parses vs g hist).
Proof.
  induction hist as [|[o evs] r IH]; intros g Hg Hh; [exact Hg|]. inversion Hh; subst. cbn [run_parses parse_dispatch snd].
  apply IH; [|assumption]. now apply owned_register.
Qed.
Theorem parse_history_independent vs : stale_safe_b vs = true ->
  forall hist o events, Forall (fun p => (fst p < length vs)%nat) hist -> (o < length vs)%nat ->
  Forall (fun k => In k (vi_hits (vget vs o))) events ->
  fst (parse_dispatch vs (run_parses vs [] hist) o events) = fst (parse_dispatch vs [] o events).
Proof.
  intros Hs hist o events Hh Ho Hev. unfold parse_dispatch. cbn [fst].
  apply map_ext_in. intros k Hk. rewrite Forall_forall in Hev.
  apply (dispatch_history_independent vs Hs); auto.
  apply run_parses_owned; [apply owned_empty|exact Hh].
Qed.
(* and within the current parse nothing stale ever runs *)
Theorem no_stale_dispatch vs : stale_safe_b vs = true ->
  forall g o k, owned vs g -> (o < length vs)%nat -> In k (vi_hits (vget vs o)) ->
  match dispatch (register g o (vi_keys (vget vs o))) o k with Stale _ => False | _ => True end.
Proof.
  intros Hs g o k Hg Ho Hhit. rewrite (dispatch_history_independent vs Hs g o k Hg Ho Hhit). unfold dispatch.
  destruct (in_dec string_dec k (vi_keys (vget vs o))) as [Hin|Hnin].
  - rewrite register_get_in by exact Hin. now rewrite Nat.eqb_refl.
  - rewrite register_get_notin by exact Hnin. exact I.
Qed.
Print Assumptions parse_history_independent.
Print Assumptions no_stale_dispatch.
