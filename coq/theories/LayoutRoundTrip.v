(* Every layout of the table decodes what was encoded by it: a general header round trip for the generic parser, for ANY layout term (so also for
   whatever layout the translator produces), ANY well-typed field values and ANY bytes that follow a layout without an "everything that is left"
   field.  With class_layout it gives, for every packet class at once, that the header fields a writer puts on the wire are the fields the model's
   step function hands to the class's handler (LayoutProofs.step_class_is_layout). *)
From RU Require Import Base Types Defs BitReader World WireSpec Layout TypesProofs ContainerProofs.
From Coq Require Import Lia.
Open Scope N_scope.

(* the values a layout can carry, and their bytes *)
Fixpoint vals_ok (l : list fkind) (vs : list lval) : Prop :=
  match l, vs with
  | [], [] => True
  | KS w :: r, LZ z :: vr => (0 < w)%nat /\ (- 2 ^ (8 * Z.of_nat w - 1) <= z < 2 ^ (8 * Z.of_nat w - 1))%Z /\ vals_ok r vr
  | KU w :: r, LN n :: vr => n < 256 ^ N.of_nat w /\ vals_ok r vr
  | KRaw n :: r, LB b :: vr => length b = n /\ vals_ok r vr
  | KSkip n :: r, LB b :: vr => length b = n /\ vals_ok r vr
  | KLenS w :: r, LZ n :: LB b :: vr =>
      (0 < w)%nat /\ n = Z.of_N (N.of_nat (length b)) /\ (n < 2 ^ (8 * Z.of_nat w - 1))%Z /\ vals_ok r vr
  | KBin :: r, LB b :: vr => N.of_nat (length b) < 256 ^ N.of_nat 4 /\ vals_ok r vr
  | [KRest], [LB b] => True
  | _, _ => False
  end.
Fixpoint enc_layout (l : list fkind) (vs : list lval) : bytes :=
  match l, vs with
  | KS w :: r, LZ z :: vr => le_encode w (of_signed w z) ++ enc_layout r vr
  | KU w :: r, LN n :: vr => le_encode w n ++ enc_layout r vr
  | KRaw _ :: r, LB b :: vr => b ++ enc_layout r vr
  | KSkip _ :: r, LB b :: vr => b ++ enc_layout r vr
  | KLenS w :: r, LZ n :: LB b :: vr => le_encode w (of_signed w n) ++ b ++ enc_layout r vr
  | KBin :: r, LB b :: vr => le_encode 4 (N.of_nat (length b)) ++ b ++ enc_layout r vr
  | KRest :: _, LB b :: _ => b
  | _, _ => []
  end.
(* does the layout end with "everything that is left"?  then nothing may follow the encoding *)
Fixpoint ends_with_rest (l : list fkind) : bool :=
  match l with [] => false | [KRest] => true | _ :: r => ends_with_rest r end.

Theorem parse_enc_layout : forall l vs tail,
  vals_ok l vs -> (ends_with_rest l = true -> tail = []) ->
  parse_layout l (enc_layout l vs ++ tail) = Ok vs.
Proof.
  induction l as [|k r IH]; intros vs tail H Ht.
  - destruct vs; [reflexivity|contradiction].
  - assert (Htr : ends_with_rest r = true -> tail = []).
    { intros E. apply Ht. destruct r as [|k2 r2]; [discriminate E|]. destruct k; exact E. }
    destruct k.
    1-6: destruct vs as [|v vr]; [contradiction|]; destruct v; try contradiction; cbn [vals_ok enc_layout parse_layout] in *.
    + destruct H as (Hw & Hz & Hr). rewrite <- app_assoc, get_s_app by assumption. cbn [bind]. rewrite (IH vr tail Hr Htr). reflexivity.
    + destruct H as (Hn & Hr). rewrite <- app_assoc, get_u_app by assumption. cbn [bind]. rewrite (IH vr tail Hr Htr). reflexivity.
    + destruct H as (Hl & Hr). rewrite <- app_assoc, need_app by assumption. cbn [bind]. rewrite (IH vr tail Hr Htr). reflexivity.
    + destruct H as (Hl & Hr). rewrite <- app_assoc, read_upto_app by assumption. cbn [fst snd]. rewrite (IH vr tail Hr Htr). reflexivity.
    + destruct vr as [|v2 vr2]; [contradiction|]. destruct v2; try contradiction. destruct H as (Hw & Hn & Hlt & Hr).
      rewrite <- !app_assoc. rewrite get_s_app; [|exact Hw|split; [subst z; lia|exact Hlt]]. cbn [bind]. subst z. rewrite read_z_block. cbn [fst snd].
      rewrite (IH vr2 tail Hr Htr). reflexivity.
    + destruct H as (Hl & Hr). unfold binstream. rewrite <- !app_assoc, get_u_app by exact Hl. cbn [bind]. rewrite read_uptoN_app. cbn [bind].
      rewrite (IH vr tail Hr Htr). reflexivity.
    + (* KRest: the last field, nothing follows *)
      destruct r as [|k2 r2].
      * destruct vs as [|v vr]; [contradiction|]. destruct v; try contradiction. destruct vr; [|contradiction].
        rewrite (Ht eq_refl), app_nil_r. cbn [enc_layout parse_layout bind]. reflexivity.
      * cbn [vals_ok] in H. destruct vs as [|v vr]; [contradiction|]. destruct v; contradiction.
Qed.
Print Assumptions parse_enc_layout.

(* ... hence, for EVERY packet class of every dialect at once: a payload that is the table's encoding of some field values (followed by anything,
   unless the layout ends with "everything that is left") is handled as the class's handler applied to exactly those values *)
From RU Require Import LayoutProofs.
Corollary step_class_on_encoded St w c L vs tail :
  class_layout (s_game St) c = Some L -> vals_ok L vs -> (ends_with_rest L = true -> tail = []) ->
  step_class St w c (enc_layout L vs ++ tail) = handle St w c vs.
Proof.
  intros HL Hv Ht. rewrite step_class_is_layout. unfold step_layout. rewrite HL, (parse_enc_layout L vs tail Hv Ht). reflexivity.
Qed.
Print Assumptions step_class_on_encoded.

(* inhabited: a three-field layout (signed 4, unsigned 2, length-prefixed blob) with values that fit, followed by one more byte *)
Example example_header : vals_ok [KS 4; KU 2; KBin] [LZ (-5)%Z; LN 513%N; LB [x01; x02; x03]]
  /\ parse_layout [KS 4; KU 2; KBin] (enc_layout [KS 4; KU 2; KBin] [LZ (-5)%Z; LN 513%N; LB [x01; x02; x03]] ++ [x09])%list
     = Ok [LZ (-5)%Z; LN 513%N; LB [x01; x02; x03]].
Proof. split; [cbn; repeat split; lia | vm_compute; reflexivity]. Qed.
