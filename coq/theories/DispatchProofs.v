(* C07: subscribers - lookup, early return before decoding, fan-out; registration *)
From RU Require Import Base Types Defs BitReader World Run WireSpec TypesProofs LwwProofs.
From Coq Require Import Lia.
Open Scope N_scope.

Definition enc_call (id mid : N) (data : bytes) : bytes :=
  (le_encode 4 id ++ le_encode 4 mid ++ le_encode 4 (N.of_nat (length data)) ++ data)%list.

Section Dispatch.
Variable St : setup.
Definition mcount (tname : string) (mid : N) : nat :=
  match assoc_get tname (s_mcounts St) with Some l => match nthN l mid with Some c => c | None => O end | None => O end.

Lemma call_header id mid data :
  id < 2 ^ 32 -> mid < 2 ^ 32 -> N.of_nat (length data) < 2 ^ 32 ->
  ('(i, r1) <- get_u 4 (enc_call id mid data) ;; '(m, r2) <- get_u 4 r1 ;; '(d, _) <- binstream r2 ;; Ok (i, m, d)) = Ok (id, mid, data).
Proof.
  intros H1 H2 H3. unfold enc_call.
  rewrite (get_u_app 4) by (change (256 ^ N.of_nat 4) with (2 ^ 32); exact H1). cbn [bind].
  rewrite (get_u_app 4) by (change (256 ^ N.of_nat 4) with (2 ^ 32); exact H2). cbn [bind].
  unfold binstream. rewrite (get_u_app 4) by (change (256 ^ N.of_nat 4) with (2 ^ 32); exact H3). cbn [bind].
  now rewrite read_uptoN_all.
Qed.

(* nobody subscribed: no effect and NOT DECODED - whatever bytes the payload holds *)
Theorem unsubscribed_not_decoded w id mid data e m mt :
  id < 2 ^ 32 -> mid < 2 ^ 32 -> N.of_nat (length data) < 2 ^ 32 ->
  zassoc_get (Z.of_N id) (w_entities w) = Some e -> assoc_get (en_type e) (s_models St) = Some m ->
  nthN (e_methods m) mid = Some mt ->
  mcount (en_type e) mid = O ->
  step_class St w EntityMethod (enc_call id mid data) = (w, None).
Proof.
  intros H1 H2 H3 He Hm Hmt Hc. unfold enc_call. cbn [step_class].
  rewrite (get_u_app 4) by (change (256 ^ N.of_nat 4) with (2 ^ 32); exact H1). cbn [bind].
  rewrite (get_u_app 4) by (change (256 ^ N.of_nat 4) with (2 ^ 32); exact H2). cbn [bind].
  unfold binstream. rewrite (get_u_app 4) by (change (256 ^ N.of_nat 4) with (2 ^ 32); exact H3). cbn [bind].
  rewrite read_uptoN_all. cbn [bind].
  unfold lookup_entity. rewrite He. cbn [bind]. unfold model_of. rewrite Hm. cbn [bind]. rewrite Hmt.
  unfold mcount in Hc. rewrite Hc. reflexivity.
Qed.

(* n subscribers: each is called exactly once, in registration order (the n entries are appended together), with the
   entity id, the unnamed arguments positionally and the named ones by keyword; the entity table is untouched *)
Theorem subscribed_called w id mid data e m mt n vs rest :
  id < 2 ^ 32 -> mid < 2 ^ 32 -> N.of_nat (length data) < 2 ^ 32 ->
  zassoc_get (Z.of_N id) (w_entities w) = Some e -> assoc_get (en_type e) (s_models St) = Some m ->
  nthN (e_methods m) mid = Some mt ->
  mcount (en_type e) mid = S n ->
  decode_seq (Z.to_nat (m_hdr mt)) (map snd (m_args mt)) data = Ok (vs, rest) ->
  step_class St w EntityMethod (enc_call id mid data) =
  (log w (repeat_call (S n) (CMethod (key_of (en_type e) (m_name mt)) (en_id e)
                                     (fst (split_args (map fst (m_args mt)) vs)) (snd (split_args (map fst (m_args mt)) vs)))), None).
Proof.
  intros H1 H2 H3 He Hm Hmt Hc Hd. unfold enc_call. cbn [step_class].
  rewrite (get_u_app 4) by (change (256 ^ N.of_nat 4) with (2 ^ 32); exact H1). cbn [bind].
  rewrite (get_u_app 4) by (change (256 ^ N.of_nat 4) with (2 ^ 32); exact H2). cbn [bind].
  unfold binstream. rewrite (get_u_app 4) by (change (256 ^ N.of_nat 4) with (2 ^ 32); exact H3). cbn [bind].
  rewrite read_uptoN_all. cbn [bind].
  unfold lookup_entity. rewrite He. cbn [bind]. unfold model_of. rewrite Hm. cbn [bind]. rewrite Hmt.
  unfold mcount in Hc. rewrite Hc. rewrite Hd. cbn [bind].
  destruct (split_args (map fst (m_args mt)) vs) as [ps ks]. reflexivity.
Qed.
(* an undecodable payload on a SUBSCRIBED method fails the packet and leaves no trace *)
Theorem subscribed_undecodable w id mid data e m mt n er :
  id < 2 ^ 32 -> mid < 2 ^ 32 -> N.of_nat (length data) < 2 ^ 32 ->
  zassoc_get (Z.of_N id) (w_entities w) = Some e -> assoc_get (en_type e) (s_models St) = Some m ->
  nthN (e_methods m) mid = Some mt ->
  mcount (en_type e) mid = S n ->
  decode_seq (Z.to_nat (m_hdr mt)) (map snd (m_args mt)) data = Err er ->
  step_class St w EntityMethod (enc_call id mid data) = (w, Some er).
Proof.
  intros H1 H2 H3 He Hm Hmt Hc Hd. unfold enc_call. cbn [step_class].
  rewrite (get_u_app 4) by (change (256 ^ N.of_nat 4) with (2 ^ 32); exact H1). cbn [bind].
  rewrite (get_u_app 4) by (change (256 ^ N.of_nat 4) with (2 ^ 32); exact H2). cbn [bind].
  unfold binstream. rewrite (get_u_app 4) by (change (256 ^ N.of_nat 4) with (2 ^ 32); exact H3). cbn [bind].
  rewrite read_uptoN_all. cbn [bind].
  unfold lookup_entity. rewrite He. cbn [bind]. unfold model_of. rewrite Hm. cbn [bind]. rewrite Hmt.
  unfold mcount in Hc. rewrite Hc. rewrite Hd. reflexivity.
Qed.

(* property updates: after the assignment every subscriber of "<type>_<property>" gets (entity, NEW value) once *)
Theorem property_dispatch w id pid val e m p v rest :
  id < 2 ^ 32 -> pid < 2 ^ 32 -> N.of_nat (length val) < 2 ^ 32 ->
  zassoc_get (Z.of_N id) (w_entities w) = Some e -> assoc_get (en_type e) (s_models St) = Some m ->
  nthN (e_client m) pid = Some p -> decode 1 (p_type p) val = Ok (v, rest) ->
  step_class St w EntityProperty (enc_update id pid val) =
  (log (put w (set_client e (p_name p) v))
       (repeat_call (nsub (s_psubs St) (key_of (en_type e) (p_name p))) (CProp (key_of (en_type e) (p_name p)) (en_id e) v)), None).
Proof.
  intros Hid Hpid Hlen He Hm Hp Hd. unfold enc_update. cbn [step_class].
  rewrite (get_u_app 4) by (change (256 ^ N.of_nat 4) with (2 ^ 32); exact Hid). cbn [bind].
  rewrite (get_u_app 4) by (change (256 ^ N.of_nat 4) with (2 ^ 32); exact Hpid). cbn [bind].
  unfold binstream. rewrite (get_u_app 4) by (change (256 ^ N.of_nat 4) with (2 ^ 32); exact Hlen). cbn [bind].
  rewrite read_uptoN_all. cbn [bind].
  unfold lookup_entity. rewrite He. cbn [bind]. unfold model_of. rewrite Hm. cbn [bind]. rewrite Hp, Hd. reflexivity.
Qed.
End Dispatch.

(* the trace only grows at its end and [log] appends in order *)
Lemma trace_of_log w cs : trace_of (log w cs) = (trace_of w ++ cs)%list.
Proof. unfold trace_of, log. cbn [w_trace]. now rewrite rev_app_distr, rev_involutive. Qed.
Lemma repeat_call_length n c : length (repeat_call n c) = n.
Proof. induction n; cbn; auto. Qed.
Lemma repeat_call_all n c : Forall (eq c) (repeat_call n c).
Proof. induction n; cbn; constructor; auto. Qed.

(* positional / keyword split *)
Lemma split_args_positional names vs : Forall (fun n => n = None) names -> length names = length vs ->
  split_args names vs = (vs, []).
Proof.
  unfold split_args. intros H.
  assert (G : forall acc, length names = length vs -> split_args_acc names vs acc [] = ((acc ++ vs)%list, [])).
  { revert vs. induction H as [|n names Hn _ IH]; intros vs acc Hl.
    - destruct vs; [|discriminate]. cbn. now rewrite app_nil_r.
    - destruct vs as [|v vs]; [discriminate|]. subst n. cbn [split_args_acc]. rewrite IH by (cbn in Hl; lia).
      now rewrite <- app_assoc. }
  intros Hl. now rewrite G.
Qed.

(* ---------- registration ---------- *)
Lemma str_append_length (a b : string) : String.length (a ++ b)%string = (String.length a + String.length b)%nat.
Proof. induction a as [|c a IH]; cbn; [reflexivity|]. now rewrite IH. Qed.
Lemma append_neq_self (a b : string) : (a ++ "_" ++ b)%string <> b.
Proof.
  intros H. apply (f_equal String.length) in H. rewrite !str_append_length in H. cbn in H. lia.
Qed.

Lemma assoc_set_head {A} k (v v' : A) l : assoc_set k v ((k, v') :: l) = (k, v) :: l.
Proof. cbn [assoc_set]. now rewrite String.eqb_refl. Qed.
Lemma subscribe_fresh tbl ent name : existsb (String.eqb name) (map fst tbl) = false ->
  subscribe tbl ent name = Ok (assoc_set (ent ++ "_" ++ name)%string 1%nat (assoc_set (ent ++ "_" ++ name)%string O tbl)).
Proof. intros H. unfold subscribe. cbv zeta. rewrite H. now rewrite assoc_get_set_same. Qed.

(* FULL STATEMENT: "every callback registered for a key is invoked, not only the last one", i.e.
   subscribe_all [] regs = Ok (subscribe_spec [] regs).  It is FALSE of the faithful model: *)
Theorem all_subscribers_called_refuted : forall ent name,
  subscribe_all [] [(ent, name); (ent, name)] = Ok [((ent ++ "_" ++ name)%string, 1%nat)] /\
  subscribe_spec [] [(ent, name); (ent, name)] = [((ent ++ "_" ++ name)%string, 2%nat)].
Proof.
  intros ent name.
  assert (E : String.eqb name (ent ++ "_" ++ name)%string = false).
  { apply String.eqb_neq. intros H. symmetry in H. exact (append_neq_self _ _ H). }
  split.
  - cbn [subscribe_all]. rewrite subscribe_fresh by reflexivity. cbn [bind].
    change (assoc_set (ent ++ "_" ++ name)%string O []) with [((ent ++ "_" ++ name)%string, O)].
    rewrite assoc_set_head. rewrite subscribe_fresh by (cbn [existsb map fst]; now rewrite E).
    cbn [bind]. now rewrite !assoc_set_head.
  - cbn [subscribe_spec assoc_get]. change (assoc_set (ent ++ "_" ++ name)%string 1%nat []) with [((ent ++ "_" ++ name)%string, 1%nat)].
    cbn [assoc_get]. rewrite String.eqb_refl. now rewrite assoc_set_head.
Qed.
(* what does hold: registrations of pairwise different keys are all kept, each with one callback *)
Theorem distinct_keys_all_kept : forall ent name tbl,
  assoc_get (ent ++ "_" ++ name)%string tbl = None -> existsb (String.eqb name) (map fst tbl) = false ->
  exists tbl', subscribe tbl ent name = Ok tbl' /\ assoc_get (ent ++ "_" ++ name)%string tbl' = Some 1%nat /\
               forall k, k <> (ent ++ "_" ++ name)%string -> assoc_get k tbl' = assoc_get k tbl.
Proof.
  intros ent name tbl Hn He. rewrite subscribe_fresh by exact He.
  eexists. split; [reflexivity|]. split.
  - apply assoc_get_set_same.
  - intros k Hk. rewrite !assoc_get_set_other by congruence. reflexivity.
Qed.
Print Assumptions unsubscribed_not_decoded.
Print Assumptions subscribed_called.
Print Assumptions property_dispatch.
Print Assumptions all_subscribers_called_refuted.
