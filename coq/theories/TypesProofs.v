From RU Require Import Base Types WireSpec.
From Coq Require Import Lia.
Open Scope N_scope.

(* ---- bytes ---- *)
Lemma b2n_lt b : b2n b < 256.
Proof. unfold b2n. pose proof (Byte.to_N_bounded b). lia. Qed.
Lemma b2n_n2b n : n < 256 -> b2n (n2b n) = n.
Proof.
  intros H. unfold b2n, n2b. destruct (Byte.of_N n) eqn:E.
  - now apply Byte.to_of_N.
  - apply Byte.of_N_None_iff in E. lia.
Qed.
Lemma le_encode_length w x : length (le_encode w x) = w.
Proof. revert x; induction w; simpl; intros; auto. Qed.
Lemma le_roundtrip w x : x < 256 ^ N.of_nat w -> le_decode (le_encode w x) = x.
Proof.
  revert x; induction w as [|w IH]; intros x Hx.
  - simpl in *. lia.
  - cbn [le_encode le_decode]. rewrite b2n_n2b by (apply N.mod_lt; lia).
    rewrite IH.
    + pose proof (N.div_mod x 256). lia.
    + rewrite Nat2N.inj_succ, N.pow_succ_r' in Hx. apply N.div_lt_upper_bound; lia.
Qed.

Lemma split_exact_app a : forall b, split_exact (length a) (a ++ b) = Some (a, b).
Proof. induction a as [|x a IH]; intros b; simpl; [reflexivity|]. now rewrite IH. Qed.
Lemma need_app n a b : length a = n -> need n (a ++ b) = Ok (a, b).
Proof. intros <-. unfold need. now rewrite split_exact_app. Qed.
Lemma read_upto_app n a b : length a = n -> read_upto n (a ++ b) = (a, b).
Proof.
  intros <-. unfold read_upto. rewrite firstn_app, Nat.sub_diag, firstn_all, skipn_app, Nat.sub_diag, skipn_all.
  simpl. now rewrite app_nil_r.
Qed.
(* the binary-counter readers are the unary ones *)
Lemma read_uptoN_spec : forall bs n, read_uptoN n bs = read_upto (N.to_nat n) bs.
Proof.
  induction bs as [|b r IH]; intros n; cbn [read_uptoN].
  - unfold read_upto. now rewrite firstn_nil, skipn_nil.
  - destruct (N.eqb_spec n 0) as [->|Hn]; [reflexivity|].
    rewrite IH. replace (N.to_nat n) with (S (N.to_nat (N.pred n))) by lia. reflexivity.
Qed.
Lemma nthN_spec {A} : forall (l : list A) n, nthN l n = nth_error l (N.to_nat n).
Proof.
  induction l as [|x r IH]; intros n; cbn [nthN].
  - now destruct (N.to_nat n).
  - destruct (N.eqb_spec n 0) as [->|Hn]; [reflexivity|].
    rewrite IH. replace (N.to_nat n) with (S (N.to_nat (N.pred n))) by lia. reflexivity.
Qed.
Lemma read_uptoN_app a b : read_uptoN (N.of_nat (length a)) (a ++ b) = (a, b).
Proof. rewrite read_uptoN_spec, Nat2N.id. now apply read_upto_app. Qed.
Lemma read_uptoN_all a : read_uptoN (N.of_nat (length a)) a = (a, []).
Proof. rewrite <- (app_nil_r a) at 2. apply read_uptoN_app. Qed.

Lemma get_u_app w x rest : x < 256 ^ N.of_nat w -> get_u w (le_encode w x ++ rest) = Ok (x, rest).
Proof. intros H. unfold get_u. rewrite need_app by apply le_encode_length. cbn [bind]. now rewrite le_roundtrip. Qed.

Lemma pow_pos_nat w : (0 < 2 ^ (8 * Z.of_nat w))%Z.
Proof. apply Z.pow_pos_nonneg; lia. Qed.

Lemma signed_roundtrip w z : (0 < w)%nat ->
  (- 2 ^ (8 * Z.of_nat w - 1) <= z < 2 ^ (8 * Z.of_nat w - 1))%Z ->
  to_signed w (of_signed w z) = z /\ of_signed w z < 256 ^ N.of_nat w.
Proof.
  intros Hw Hz. unfold to_signed, of_signed.
  set (M := (2 ^ (8 * Z.of_nat w))%Z). set (H := (2 ^ (8 * Z.of_nat w - 1))%Z) in *.
  assert (HM : M = (2 * H)%Z).
  { unfold M, H. rewrite <- Z.pow_succ_r by lia. f_equal. lia. }
  assert (HH : (0 < H)%Z) by (apply Z.pow_pos_nonneg; lia).
  assert (Hmod : (0 <= z mod M < M)%Z) by (apply Z.mod_pos_bound; lia).
  assert (E256 : Z.of_N (256 ^ N.of_nat w) = M).
  { unfold M. rewrite N2Z.inj_pow, nat_N_Z. change (Z.of_N 256) with (2 ^ 8)%Z. rewrite <- Z.pow_mul_r by lia. reflexivity. }
  assert (EH : Z.of_N (2 ^ (8 * N.of_nat w - 1)) = H).
  { unfold H. rewrite N2Z.inj_pow. f_equal. rewrite N2Z.inj_sub by lia. rewrite N2Z.inj_mul, nat_N_Z. reflexivity. }
  split.
  - destruct (Z.to_N (z mod M) <? 2 ^ (8 * N.of_nat w - 1)) eqn:E.
    + apply N.ltb_lt in E. apply N2Z.inj_lt in E. rewrite EH, Z2N.id in E by lia. rewrite Z2N.id by lia.
      destruct (Z.lt_ge_cases z 0).
      * (* negative z: z mod M = z + M >= H, contradiction *)
        assert (z mod M = z + M)%Z by (symmetry; apply Z.mod_unique with (q := (-1)%Z); lia). lia.
      * apply Z.mod_small; lia.
    + apply N.ltb_ge in E. apply N2Z.inj_le in E. rewrite EH, Z2N.id in E by lia. rewrite Z2N.id by lia.
      destruct (Z.lt_ge_cases z 0).
      * assert (z mod M = z + M)%Z by (symmetry; apply Z.mod_unique with (q := (-1)%Z); lia). lia.
      * rewrite Z.mod_small in E by lia. lia.
  - apply N2Z.inj_lt. rewrite E256, Z2N.id by lia. lia.
Qed.

Lemma get_s_app w z rest : (0 < w)%nat ->
  (- 2 ^ (8 * Z.of_nat w - 1) <= z < 2 ^ (8 * Z.of_nat w - 1))%Z ->
  get_s w (le_encode w (of_signed w z) ++ rest) = Ok (z, rest).
Proof.
  intros Hw Hz. destruct (signed_roundtrip w z Hw Hz) as [H1 H2].
  unfold get_s. rewrite need_app by apply le_encode_length. cbn [bind]. rewrite le_roundtrip by exact H2. now rewrite H1.
Qed.

(* ---- packed lengths ---- *)
Lemma get_u1_cons b rest : get_u 1 (b :: rest) = Ok (b2n b, rest).
Proof. unfold get_u, need. cbn. f_equal. f_equal. lia. Qed.

Lemma plen_blob_enc n rest : n < 2 ^ 24 -> plen_blob (enc_packed n ++ rest) = Ok (n, rest).
Proof.
  intros H. unfold enc_packed, plen_blob. destruct (n <? 255) eqn:E.
  - apply N.ltb_lt in E. cbn [app]. rewrite get_u1_cons. cbn [bind]. rewrite b2n_n2b by lia.
    replace (n =? 255) with false by (symmetry; apply N.eqb_neq; lia). reflexivity.
  - rewrite <- app_comm_cons, get_u1_cons. cbn [bind]. change (b2n xff =? 255) with true. cbv iota.
    apply (get_u_app 3). exact H.
Qed.

Lemma le_encode_3_small n : n < 65536 -> le_encode 3 n = le_encode 2 n ++ [x00].
Proof.
  intros H. cbn [le_encode app]. do 2 f_equal.
  rewrite N.div_div by lia. change (256 * 256) with 65536. rewrite N.div_small by exact H. reflexivity.
Qed.

Lemma plen_string_enc n rest : n < 2 ^ 24 -> plen_string (enc_packed n ++ rest) = Ok (n, rest).
Proof. exact (plen_blob_enc n rest). Qed.

Lemma plen_py_enc n rest : n < 2 ^ 24 -> plen_py (enc_packed n ++ rest) = Ok (n, rest).
Proof. exact (plen_blob_enc n rest). Qed.

Lemma be16_roundtrip p : p < 65536 -> be_decode (be16 p) = p.
Proof.
  intros H. unfold be_decode, be16. cbn [rev app le_decode].
  rewrite !b2n_n2b.
  - pose proof (N.div_mod p 256). lia.
  - apply N.div_lt_upper_bound; lia.
  - apply N.mod_lt; lia.
Qed.

(* ---- nested induction principle ---- *)
Section Ind.
Variable P : dtype -> Prop.
Hypothesis HUInt : forall w, P (TUInt w).
Hypothesis HInt : forall w, P (TInt w).
Hypothesis HF32 : P TF32.
Hypothesis HF64 : P TF64.
Hypothesis HVec : forall n, P (TVec n).
Hypothesis HString : P TString.
Hypothesis HBlob : P TBlob.
Hypothesis HPython : P TPython.
Hypothesis HMailbox : P TMailbox.
Hypothesis HArray : forall e sz, P e -> P (TArray e sz).
Hypothesis HDict : forall fs an, Forall (fun kt => P (snd kt)) fs -> P (TDict fs an).
Hypothesis HUser : forall t, P t -> P (TUser t).
Fixpoint dtype_ind' (t : dtype) : P t :=
  match t with
  | TUInt w => HUInt w | TInt w => HInt w | TF32 => HF32 | TF64 => HF64 | TVec n => HVec n
  | TString => HString | TBlob => HBlob | TPython => HPython | TMailbox => HMailbox
  | TArray e sz => HArray e sz (dtype_ind' e)
  | TDict fs an => HDict fs an
      ((fix go (fs : list (string * dtype)) : Forall (fun kt => P (snd kt)) fs :=
          match fs with
          | [] => Forall_nil _
          | kt :: fs' => Forall_cons kt (dtype_ind' (snd kt)) (go fs')
          end) fs)
  | TUser t' => HUser t' (dtype_ind' t')
  end.
End Ind.

(* ---- C03: decoding the spec encoding is exact, on the ranges the code supports ---- *)
Theorem decode_wire_encode_partial : forall t hdr v rest,
  has_type code_limits t v ->
  decode hdr t (wire_encode hdr t v ++ rest) = Ok (v, rest).
Proof.
  induction t as [w|w| | |n| | | | |e sz IH|fs an IH|t IH] using dtype_ind'; intros hdr v rest Ht.
  - (* UInt *) destruct v; try contradiction. cbn [has_type] in Ht. cbn [wire_encode decode].
    rewrite get_u_app.
    + cbn [bind]. rewrite Z2N.id by lia. reflexivity.
    + apply N2Z.inj_lt. rewrite Z2N.id by lia. rewrite N2Z.inj_pow, nat_N_Z. apply Ht.
  - (* Int *) destruct v; try contradiction. cbn [has_type] in Ht. destruct Ht as [Hw Hz]. cbn [wire_encode decode].
    rewrite get_s_app by assumption. reflexivity.
  - destruct v; try contradiction. cbn [has_type] in Ht. cbn [wire_encode decode]. now rewrite need_app.
  - destruct v; try contradiction. cbn [has_type] in Ht. cbn [wire_encode decode]. now rewrite need_app.
  - destruct v; try contradiction. cbn [has_type] in Ht. cbn [wire_encode decode]. now rewrite need_app.
  - (* String *) destruct v; try contradiction; cbn [has_type] in Ht; destruct Ht as [Hl Hu];
    cbn [wire_encode decode]; rewrite <- app_assoc, plen_string_enc by exact Hl; cbn [bind];
    unfold len; rewrite read_uptoN_app; unfold text_or_bytes; rewrite Hu; reflexivity.
  - (* Blob *) destruct v; try contradiction. cbn [has_type] in Ht. cbn [wire_encode decode].
    rewrite <- app_assoc, plen_blob_enc by exact Ht. cbn [bind]. unfold len. rewrite read_uptoN_app.
    now rewrite N.eqb_refl.
  - (* Python *) destruct v; try contradiction. cbn [has_type] in Ht. cbn [wire_encode decode].
    rewrite <- app_assoc, plen_py_enc by exact Ht. cbn [bind]. unfold len. rewrite read_uptoN_app. reflexivity.
  - (* Mailbox *) destruct v; try contradiction. cbn [has_type] in Ht. destruct Ht as [Hip Hp]. cbn [wire_encode decode].
    rewrite <- app_assoc, read_upto_app by exact Hip. rewrite Hip. cbn [Nat.eqb].
    rewrite need_app by reflexivity. cbn [bind]. now rewrite be16_roundtrip.
  - (* Array *) destruct v as [| | | | | | |e' l| |]; try contradiction. cbn [has_type] in Ht. destruct Ht as (-> & Hsz & Hall).
    cbn [wire_encode decode].
    match goal with |- context [match sz with Some _ => ?b | None => _ end] => set (body := b) end.
    match goal with |- context [(fix loop (n : nat) (bs : bytes) {struct n} : result (list value * bytes) := _)] => idtac end.
    set (loop := fix loop (n : nat) (bs : bytes) {struct n} : result (list value * bytes) :=
        match n with
        | O => Ok ([], bs)
        | S n' => '(v, r) <- decode hdr e bs ;; '(vs, r') <- loop n' r ;; Ok (v :: vs, r')
        end).
    assert (Hloop : loop (length l) (body ++ rest) = Ok (l, rest)).
    { subst body. clear Hsz. induction l as [|x l IHl]; [reflexivity|].
      destruct Hall as [Hx Hl]. cbn [length]. cbn [loop]. fold loop. rewrite <- app_assoc.
      rewrite (IH hdr x _ Hx). cbn [bind]. rewrite (IHl Hl). reflexivity. }
    destruct sz as [n|].
    + rewrite <- Hsz. rewrite Hloop. reflexivity.
    + cbn [lim_count code_limits] in Hsz. rewrite <- app_assoc. unfold enc_packed.
      replace (len_list l <? 255) with true by (symmetry; apply N.ltb_lt; exact Hsz).
      cbn [app]. rewrite get_u1_cons. cbn [bind]. rewrite b2n_n2b by lia. unfold len_list. rewrite Nat2N.id.
      rewrite Hloop. reflexivity.
  - (* Dict *)
    set (fields := fix fields (fl : list (string * dtype)) (bs : bytes) {struct fl} : result (list (string * value) * bytes) :=
        match fl with
        | [] => Ok ([], bs)
        | (k, t') :: fl' => '(v, r) <- decode hdr t' bs ;; '(vs, r') <- fields fl' r ;; Ok ((k, v) :: vs, r')
        end).
    set (enc := fix go (fl : list (string * dtype)) (kvs : list (string * value)) {struct fl} : bytes :=
        match fl, kvs with
        | (_, t') :: fl', (_, v') :: kvs' => wire_encode hdr t' v' ++ go fl' kvs'
        | _, _ => []
        end).
    set (typed := fix go (fl : list (string * dtype)) (kvs : list (string * value)) {struct fl} : Prop :=
        match fl, kvs with
        | [], [] => True
        | (k, t') :: fl', (k', v') :: kvs' => k = k' /\ has_type code_limits t' v' /\ go fl' kvs'
        | _, _ => False
        end).
    assert (Hbody : forall kvs rest0, typed fs kvs -> fields fs (enc fs kvs ++ rest0) = Ok (kvs, rest0)).
    { clear Ht. induction IH as [|[k t'] fs' Hk _ IHfs]; intros kvs rest0 Hty.
      - destruct kvs; [reflexivity|contradiction].
      - destruct kvs as [|[k' v'] kvs']; [contradiction|]. destruct Hty as (-> & Hv & Hrest).
        cbn [enc fields]. fold enc. fold fields. rewrite <- app_assoc. cbn [snd] in Hk.
        rewrite (Hk hdr v' _ Hv). cbn [bind]. rewrite (IHfs _ _ Hrest). reflexivity. }
    destruct v as [| | | | | | | |fs' kvs|]; try contradiction; cbn [has_type] in Ht.
    + destruct Ht as [-> Hty]. fold typed in Hty. cbn [wire_encode decode]. fold enc. fold fields.
      destruct an.
      * cbn [app]. change (b2n x01 =? 0) with false. change (b2n x01 =? 1) with true. cbv iota.
        rewrite (Hbody _ _ Hty). reflexivity.
      * rewrite (Hbody _ _ Hty). reflexivity.
    + subst an. cbn [wire_encode decode app]. reflexivity.
  - (* User *) cbn [has_type] in Ht. cbn [wire_encode decode]. destruct (is_blob t) eqn:Eb.
    + apply IH; auto.
    + rewrite <- app_assoc. rewrite read_upto_app by apply le_encode_length. cbn [snd].
      apply IH; auto.
Qed.
Print Assumptions decode_wire_encode_partial.


Theorem args_roundtrip : forall hdr ts vs rest,
  Forall2 (has_type code_limits) ts vs ->
  decode_seq hdr ts (encode_seq hdr ts vs ++ rest) = Ok (vs, rest).
Proof.
  intros hdr ts vs rest H. induction H as [|t v ts vs Hv _ IH]; [reflexivity|].
  cbn [encode_seq decode_seq]. rewrite <- app_assoc, (decode_wire_encode_partial t hdr v _ Hv). cbn [bind].
  rewrite IH. reflexivity.
Qed.

(* ---- a decoder consumes a prefix of its input ---- *)
Definition suffix (rest bs : bytes) : Prop := exists used, bs = used ++ rest.
Lemma suffix_refl bs : suffix bs bs. Proof. now exists []. Qed.
Lemma suffix_trans a b c : suffix a b -> suffix b c -> suffix a c.
Proof. intros [u ->] [w ->]. exists (w ++ u). now rewrite app_assoc. Qed.
Lemma split_exact_spec n : forall bs a r, split_exact n bs = Some (a, r) -> bs = a ++ r.
Proof.
  induction n as [|n IH]; intros bs a r H; simpl in H.
  - inversion H; reflexivity.
  - destruct bs as [|b bs]; [discriminate|]. destruct (split_exact n bs) as [[a' r']|] eqn:E; [|discriminate].
    inversion H; subst. rewrite (IH _ _ _ E). reflexivity.
Qed.
Lemma need_suffix n bs a r : need n bs = Ok (a, r) -> suffix r bs.
Proof. unfold need. destruct (split_exact n bs) as [[a' r']|] eqn:E; [|discriminate]. intros H; inversion H; subst. exists a. now apply split_exact_spec in E. Qed.
Lemma get_u_suffix n bs x r : get_u n bs = Ok (x, r) -> suffix r bs.
Proof. unfold get_u. destruct (need n bs) as [[a r']|] eqn:E; [|discriminate]. cbn [bind]. intros H; inversion H; subst. eapply need_suffix; eauto. Qed.
Lemma get_s_suffix n bs x r : get_s n bs = Ok (x, r) -> suffix r bs.
Proof. unfold get_s. destruct (need n bs) as [[a r']|] eqn:E; [|discriminate]. cbn [bind]. intros H; inversion H; subst. eapply need_suffix; eauto. Qed.
Lemma read_upto_suffix n bs : suffix (snd (read_upto n bs)) bs.
Proof. unfold read_upto. cbn [snd]. exists (firstn n bs). now rewrite firstn_skipn. Qed.

Ltac bind_inv H :=
  match type of H with
  | bind ?c _ = Ok _ => let E := fresh "E" in destruct c as [[? ?]|] eqn:E; cbn [bind] in H; [|discriminate H]
  end.

Lemma plen_blob_suffix bs n r : plen_blob bs = Ok (n, r) -> suffix r bs.
Proof.
  unfold plen_blob. intros H. bind_inv H. destruct (_ =? 255).
  - eapply suffix_trans; [eapply get_u_suffix; eauto|eapply get_u_suffix; eauto].
  - inversion H; subst. eapply get_u_suffix; eauto.
Qed.
Lemma plen_string_suffix bs n r : plen_string bs = Ok (n, r) -> suffix r bs.
Proof. exact (plen_blob_suffix bs n r). Qed.

Theorem decode_consumes_prefix : forall t hdr bs v rest,
  decode hdr t bs = Ok (v, rest) -> suffix rest bs.
Proof.
  induction t as [w|w| | |n| | | | |e sz IH|fs an IH|t IH] using dtype_ind'; intros hdr bs v rest H; cbn [decode] in H.
  - bind_inv H. inversion H; subst. eapply get_u_suffix; eauto.
  - bind_inv H. inversion H; subst. eapply get_s_suffix; eauto.
  - bind_inv H. inversion H; subst. eapply need_suffix; eauto.
  - bind_inv H. inversion H; subst. eapply need_suffix; eauto.
  - bind_inv H. inversion H; subst. eapply need_suffix; eauto.
  - (* String *) bind_inv H. rewrite read_uptoN_spec in H. pose proof (read_upto_suffix (N.to_nat n) b) as S. destruct (read_upto (N.to_nat n) b) as [p r''].
    inversion H; subst. eapply suffix_trans; [exact S|eapply plen_string_suffix; eauto].
  - (* Blob *) bind_inv H. rewrite read_uptoN_spec in H. pose proof (read_upto_suffix (N.to_nat n) b) as S. destruct (read_upto (N.to_nat n) b) as [p r''].
    destruct (N.eqb _ _); [|discriminate]. inversion H; subst. eapply suffix_trans; [exact S|eapply plen_blob_suffix; eauto].
  - (* Python *) unfold plen_py in H. bind_inv H. rewrite read_uptoN_spec in H. pose proof (read_upto_suffix (N.to_nat n) b) as S. destruct (read_upto (N.to_nat n) b) as [p r''].
    inversion H; subst. eapply suffix_trans; [exact S|eapply plen_blob_suffix; eauto].
  - (* Mailbox *) pose proof (read_upto_suffix 4 bs) as S. destruct (read_upto 4 bs) as [ip r]. destruct (Nat.eqb _ _); [|discriminate].
    bind_inv H. inversion H; subst. eapply suffix_trans; [eapply need_suffix; eauto|exact S].
  - (* Array *)
    set (loop := fix loop (n : nat) (bs : bytes) {struct n} : result (list value * bytes) :=
        match n with
        | O => Ok ([], bs)
        | S n' => '(v, r) <- decode hdr e bs ;; '(vs, r') <- loop n' r ;; Ok (v :: vs, r')
        end) in H.
    assert (Hloop : forall n bs vs r, loop n bs = Ok (vs, r) -> suffix r bs).
    { induction n as [|n IHn]; intros bs0 vs r Hl; cbn [loop] in Hl; fold loop in Hl.
      - inversion Hl; subst. apply suffix_refl.
      - bind_inv Hl. bind_inv Hl. inversion Hl; subst.
        eapply suffix_trans; [eapply IHn; eauto|eapply IH; eauto]. }
    destruct sz as [n|].
    + bind_inv H. inversion H; subst. eapply Hloop; eauto.
    + bind_inv H. bind_inv H. inversion H; subst. eapply suffix_trans; [eapply Hloop; eauto|eapply get_u_suffix; eauto].
  - (* Dict *)
    set (fields := fix fields (fl : list (string * dtype)) (bs : bytes) {struct fl} : result (list (string * value) * bytes) :=
        match fl with
        | [] => Ok ([], bs)
        | (k, t') :: fl' => '(v, r) <- decode hdr t' bs ;; '(vs, r') <- fields fl' r ;; Ok ((k, v) :: vs, r')
        end) in H.
    assert (Hf : forall bs vs r, fields fs bs = Ok (vs, r) -> suffix r bs).
    { clear H. induction IH as [|[k t'] fs' Hk _ IHfs]; intros bs0 vs r Hl; cbn [fields] in Hl; fold fields in Hl.
      - inversion Hl; subst. apply suffix_refl.
      - bind_inv Hl. bind_inv Hl. inversion Hl; subst. cbn [snd] in Hk.
        eapply suffix_trans; [eapply IHfs; eauto|eapply Hk; eauto]. }
    assert (Hbody : forall bs0, ('(vs, r) <- fields fs bs0 ;; Ok (VDict fs vs, r)) = Ok (v, rest) -> suffix rest bs0).
    { intros bs0 Hb. bind_inv Hb. inversion Hb; subst. eapply Hf; eauto. }
    destruct an.
    + destruct bs as [|b r]; [now apply Hbody|].
      destruct (b2n b =? 0).
      * inversion H; subst. exists [b]. reflexivity.
      * destruct (b2n b =? 1); [|now apply Hbody].
        eapply suffix_trans; [apply Hbody; exact H|]. exists [b]. reflexivity.
    + now apply Hbody.
  - (* User *) destruct (is_blob t).
    + eapply IH; eauto.
    + eapply suffix_trans; [eapply IH; eauto|apply read_upto_suffix].
Qed.
Print Assumptions decode_consumes_prefix.

(* the full statement (spec limits) fails exactly where the library's length readers deviate *)
Definition full_statement (t : dtype) (v : value) (rest : bytes) :=
  has_type spec_limits t v -> decode 1 t (wire_encode 1 t v ++ rest) = Ok (v, rest).

(* PYTHON of 255 bytes and more: decodes exactly (the reader takes the packed length since the repair fixed: C03-b) *)
Example decode_long_python :
  decode 1 TPython (wire_encode 1 TPython (VBytes (repeat x41 300)) ++ [x42]) = Ok (VBytes (repeat x41 300), [x42]).
Proof. apply decode_wire_encode_partial. vm_compute. reflexivity. Qed.
Example decode_wire_encode_refuted_array :
  exists v rest, ~ full_statement (TArray (TUInt 1) None) v rest.
Proof.
  exists (VList (TUInt 1) (repeat (VInt 7) 255)), []. unfold full_statement. intros H.
  assert (Ht : has_type spec_limits (TArray (TUInt 1) None) (VList (TUInt 1) (repeat (VInt 7) 255))).
  { cbn [has_type]. split; [reflexivity|]. split; [vm_compute; reflexivity|].
    generalize 255%nat. intros n. induction n; cbn; [exact I|]. split; [lia|assumption]. }
  specialize (H Ht). vm_compute in H. discriminate H.
Qed.
(* STRING of 65536 bytes and more: decodes exactly (the reader takes the 3-byte packed length since the repair fixed: C03-a) *)
Example decode_long_string :
  decode 1 TString (wire_encode 1 TString (VStr (repeat x41 (N.to_nat 65537))) ++ [x42]) = Ok (VStr (repeat x41 (N.to_nat 65537)), [x42]).
Proof. apply decode_wire_encode_partial. vm_compute. split; reflexivity. Qed.
