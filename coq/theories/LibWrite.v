(* Model.LibWrite: mirrors the _add_value_to_stream methods of data_types/*.py and EntityMethod.write_to_stream.
   Definitions only.  Python values are the model's [value]s: VStr b is a str (given by its UTF-8 bytes), VBytes b a bytes. *)
From RU Require Import Base Types WireSpec.
Open Scope N_scope.

(* len(str): code points = bytes that are not UTF-8 continuation bytes *)
Definition charcount (b : bytes) : N := N.of_nat (length (filter (fun x => negb (cont x)) b)).
(* Blob/String length prefix as the WRITERS produce it: UInt8, or 0xFF + UInt16 + a zero byte; >= 65536: struct.error *)
Definition write_len (n : N) : result bytes :=
  if n <? 255 then Ok [n2b n]
  else if n <? 65536 then Ok (xff :: le_encode 2 n ++ [x00])
  else Err EStruct.

Fixpoint lib_write (hdr : nat) (t : dtype) (v : value) {struct t} : result bytes :=
  match t with
  | TUInt w => match v with
               | VInt z => if ((0 <=? z) && (z <? 256 ^ Z.of_nat w))%Z then Ok (le_encode w (Z.to_N z)) else Err EStruct
               | _ => Err EStruct end
  | TInt w => match v with
              | VInt z => if ((- 2 ^ (8 * Z.of_nat w - 1) <=? z) && (z <? 2 ^ (8 * Z.of_nat w - 1)))%Z then Ok (le_encode w (of_signed w z)) else Err EStruct
              | _ => Err EStruct end
  | TF32 => match v with VF32 b => if Nat.eqb (length b) 4 then Ok b else Err EStruct | _ => Err EStruct end
  | TF64 => match v with VF64 b => if Nat.eqb (length b) 8 then Ok b else Err EStruct | _ => Err EStruct end
  | TVec n => match v with VVec b => if Nat.eqb (length b) n then Ok b else Err EStruct | _ => Err EStruct end
  | TBlob => match v with VBytes b => p <- write_len (len b) ;; Ok (p ++ b) | _ => Err EType end
  | TString => match v with
               | VStr b => p <- write_len (len b) ;; Ok (p ++ b)            (* the text is encoded first: the prefix is the number of BYTES *)
               | VBytes b => p <- write_len (len b) ;; Ok (p ++ b)
               | _ => Err EType end
  | TPython => Err ENotImpl
  | TUser _ => Err ENotImpl
  | TMailbox => match v with
                | VMail ip port => if Nat.eqb (length ip) 4 && (port <? 65536) then Ok (ip ++ be16 port) else Err EStruct
                | _ => Err EType end
  | TArray e sz =>
      match v with
      | VList _ l =>
          let fix go (l : list value) : result bytes :=
            match l with [] => Ok [] | x :: r => a <- lib_write hdr e x ;; b <- go r ;; Ok (a ++ b) end in
          match sz with
          | Some n => if Nat.eqb (length l) n then go l else Err EValue     (* fixed size: another length is refused (ValueError) *)
          | None => if len_list l <? 256 then body <- go l ;; Ok (n2b (len_list l) :: body) else Err EStruct
          end
      | _ => Err EType end
  | TDict fs an =>
      match v with
      | VDict _ kvs =>
          let fix go (fl : list (string * dtype)) : result bytes :=
            match fl with
            | [] => Ok []
            | (k, t') :: fl' => match assoc_get k kvs with
                                | Some x => a <- lib_write hdr t' x ;; b <- go fl' ;; Ok (a ++ b)
                                | None => Err EKey end
            end in
          body <- go fs ;; Ok (if an then x01 :: body else body)
      | VNone => if an then Ok [x00] else Err EType       (* AllowNone: the flag byte 0 and nothing else; otherwise payload[key] on None: TypeError *)
      | _ => Err EType end
  end.

(* EntityMethod.write_to_stream(stream, *args) *)
Fixpoint write_seq (hdr : nat) (ts : list dtype) (vs : list value) : result bytes :=
  match ts, vs with
  | [], [] => Ok []
  | t :: tr, v :: vr => a <- lib_write hdr t v ;; b <- write_seq hdr tr vr ;; Ok (a ++ b)
  | _, _ => Err ERuntime        (* 'Arguments count mismatch' *)
  end.
Definition write_args (hdr : nat) (ts : list dtype) (vs : list value) : result bytes :=
  if Nat.eqb (length ts) (length vs) then write_seq hdr ts vs else Err ERuntime.

(* which types have a writer at all, and which values the writers can carry *)
Fixpoint writable (t : dtype) : bool :=
  match t with
  | TPython | TUser _ => false
  | TArray e _ => writable e
  | TDict fs _ => (fix go (fl : list (string * dtype)) : bool := match fl with [] => true | (_, t') :: r => writable t' && go r end) fs
  | _ => true
  end.
