(* C07 at the level of whole histories: the callback trace only ever GROWS BY APPENDING (no step removes, reorders or rewrites a
   recorded call), so the trace after any history is the concatenation, in stream order, of what each packet contributed in the world
   it found; with the per-packet theorems of DispatchProofs (a subscribed call contributes exactly its n invocations, an unsubscribed
   one nothing) this is "exactly once per matching event, in stream order, and nothing else". *)
From RU Require Import Base Types Defs BitReader World Layout LayoutProofs LwwProofs DispatchProofs.
From Coq Require Import Lia.
Open Scope N_scope.

Definition ext (w w' : world) : Prop := exists cs, w_trace w' = (rev cs ++ w_trace w)%list.
Lemma ext_refl w : ext w w. Proof. exists []. reflexivity. Qed.
Lemma ext_trace w w' : w_trace w' = w_trace w -> ext w w'. Proof. intros H. exists []. exact H. Qed.
Lemma ext_log w w' cs : ext w w' -> ext w (log w' cs).
Proof. intros [c0 H]. exists (c0 ++ cs)%list. cbn [log w_trace]. rewrite H, rev_app_distr, app_assoc. reflexivity. Qed.
Lemma ext_put w w' e : ext w w' -> ext w (put w' e). Proof. intros [c0 H]. exists c0. exact H. Qed.
Lemma ext_set_player w w' i : ext w w' -> ext w (set_player w' i). Proof. intros [c0 H]. exists c0. exact H. Qed.
Lemma ext_atomic w r : (forall w', r = Ok w' -> ext w w') -> ext w (fst (atomic w r)).
Proof. intros H. destruct r as [w'|e]; cbn; [apply H; reflexivity|apply ext_refl]. Qed.

Ltac ext_done :=
  repeat first [apply ext_refl | apply ext_log | apply ext_put | apply ext_set_player | (apply ext_trace; reflexivity)].
(* split the handler's case analysis until a constructor form is reached *)
Ltac ext_split :=
  repeat (cbn [fst snd bind];
    match goal with
    | |- ext _ (fst (let (_, _) := ?x in _)) => destruct x
    | |- ext _ (fst (match ?x with _ => _ end)) => destruct x
    | |- ext _ (fst (if ?x then _ else _)) => destruct x
    | |- ext _ (fst (atomic _ _)) => apply ext_atomic; intros ? ?
    | H : bind ?x _ = Ok _ |- _ => destruct x; cbn [bind] in H; [|discriminate H]
    | H : (let (_, _) := ?x in _) = Ok _ |- _ => destruct x
    | H : match ?x with _ => _ end = Ok _ |- _ => destruct x; try discriminate H
    | H : (if ?x then _ else _) = Ok _ |- _ => destruct x; try discriminate H
    | H : Ok _ = Ok _ |- _ => injection H as <-
    | H : Err _ = Ok _ |- _ => discriminate H
    end).

Section T.
Variable St : setup.

Lemma handle_ext w c vs : ext w (fst (handle St w c vs)).
Proof.
  unfold handle. destruct c; ext_split; ext_done.
  all: cbn [fst]; match goal with |- ext _ (if ?b then _ else _) => destruct b end; ext_done.
Qed.

Lemma step_class_ext w c pl : ext w (fst (step_class St w c pl)).
Proof.
  rewrite step_class_is_layout. unfold step_layout.
  destruct (class_layout (s_game St) c) as [L|] eqn:HL.
  - destruct (parse_layout L pl) as [vs|e]; [apply handle_ext|apply ext_refl].
  - (* the classes without a table entry: the wows map reader, and classes a dialect does not map *)
    destruct c; cbn [class_layout] in HL; try discriminate HL; destruct (s_game St) eqn:G; try discriminate HL;
      unfold step_class; rewrite ?G; ext_split; ext_done.
Qed.

Theorem step_ext w p : ext w (fst (step St w p)).
Proof.
  unfold step. destruct (table_get (pk_type p) (s_table St)) as [c|]; [|apply ext_refl].
  destruct (s_game St) eqn:G; try apply step_class_ext.
  destruct c; try apply step_class_ext; ext_split; ext_done.
Qed.

(* what a packet contributes to the trace in the world it finds *)
Definition emitted (w : world) (p : packet) : list call :=
  let w' := fst (step St w p) in rev (firstn (length (w_trace w') - length (w_trace w)) (w_trace w')).

Lemma emitted_spec w p : trace_of (fst (step St w p)) = (trace_of w ++ emitted w p)%list.
Proof.
  unfold emitted, trace_of. destruct (step_ext w p) as [cs H]. rewrite H.
  rewrite app_length, rev_length. replace (length cs + length (w_trace w) - length (w_trace w))%nat with (length (rev cs)) by (rewrite rev_length; lia).
  rewrite firstn_app, Nat.sub_diag, firstn_all. cbn [firstn]. rewrite app_nil_r, rev_app_distr. reflexivity.
Qed.

Fixpoint contributions (w : world) (ps : list packet) : list call :=
  match ps with [] => [] | p :: r => (emitted w p ++ contributions (fst (step St w p)) r)%list end.

(* the trace after ANY history (lenient play: failing packets contribute nothing more than what they had already announced) *)
Theorem trace_is_concatenation ps : forall w, trace_of (play_lenient St w ps) = (trace_of w ++ contributions w ps)%list.
Proof.
  induction ps as [|p r IH]; intros w; cbn [play_lenient contributions]; [rewrite app_nil_r; reflexivity|].
  rewrite IH, emitted_spec, app_assoc. reflexivity.
Qed.

(* nothing already recorded is ever removed, reordered or rewritten *)
Theorem trace_prefix_preserved ps w : exists cs, trace_of (play_lenient St w ps) = (trace_of w ++ cs)%list.
Proof. exists (contributions w ps). apply trace_is_concatenation. Qed.

(* strict play: the same, up to the packet that fails *)
Theorem trace_prefix_preserved_strict ps : forall w, exists cs, trace_of (fst (play_strict St w ps)) = (trace_of w ++ cs)%list.
Proof.
  induction ps as [|p r IH]; intros w; cbn [play_strict]; [exists []; rewrite app_nil_r; reflexivity|].
  pose proof (emitted_spec w p) as E. destruct (step St w p) as [w' [e|]] eqn:S; cbn [fst] in *.
  - exists (emitted w p). exact E.
  - destruct (IH w') as [cs H]. exists (emitted w p ++ cs)%list. rewrite H, E, app_assoc. reflexivity.
Qed.

(* what a packet contributes, read off the step's result: if the step logs cs on top of a world with w's trace, it contributed cs *)
Lemma emitted_of_log w p w1 cs er : step St w p = (log w1 cs, er) -> w_trace w1 = w_trace w -> emitted w p = cs.
Proof.
  intros S H. unfold emitted. rewrite S. cbn [fst log w_trace]. rewrite H, app_length, rev_length.
  replace (length cs + length (w_trace w) - length (w_trace w))%nat with (length (rev cs)) by (rewrite rev_length; lia).
  rewrite firstn_app, Nat.sub_diag, firstn_all. cbn [firstn]. rewrite app_nil_r, rev_involutive. reflexivity.
Qed.
Lemma emitted_of_same w p w1 er : step St w p = (w1, er) -> w_trace w1 = w_trace w -> emitted w p = [].
Proof. intros S H. unfold emitted. rewrite S. cbn [fst]. rewrite H, Nat.sub_diag. reflexivity. Qed.
End T.
Print Assumptions trace_is_concatenation.

(* ---- per-packet contributions, read off the per-packet theorems ---- *)
Section C.
Variable St : setup.
Hypothesis Hgame : s_game St <> Wowp.

Lemma step_eq_class w p c : table_get (pk_type p) (s_table St) = Some c -> step St w p = step_class St w c (pk_payload p).
Proof. intros H. unfold step. rewrite H. destruct (s_game St); [reflexivity | reflexivity | contradiction]. Qed.

(* a packet of a type the dialect does not map contributes nothing *)
Theorem unmapped_contributes_nothing w p : table_get (pk_type p) (s_table St) = None -> emitted St w p = [].
Proof. intros H. apply (emitted_of_same St w p w None); [unfold step; rewrite H; reflexivity|reflexivity]. Qed.

(* a call of a method nobody subscribed to contributes nothing, whatever its payload *)
Theorem unsubscribed_contributes_nothing w p id mid data e m mt :
  table_get (pk_type p) (s_table St) = Some EntityMethod -> pk_payload p = enc_call id mid data ->
  id < 2 ^ 32 -> mid < 2 ^ 32 -> N.of_nat (length data) < 2 ^ 32 ->
  zassoc_get (Z.of_N id) (w_entities w) = Some e -> assoc_get (en_type e) (s_models St) = Some m ->
  nthN (e_methods m) mid = Some mt -> mcount St (en_type e) mid = O ->
  emitted St w p = [].
Proof.
  intros T P H1 H2 H3 H4 H5 H6 H7. apply (emitted_of_same St w p w None); [|reflexivity].
  rewrite (step_eq_class w p _ T), P. apply (unsubscribed_not_decoded St w id mid data e m mt); assumption.
Qed.

(* a call of a subscribed method contributes exactly its n invocations, with that entity's id and the decoded arguments *)
Theorem subscribed_contributes w p id mid data e m mt n vs rest :
  table_get (pk_type p) (s_table St) = Some EntityMethod -> pk_payload p = enc_call id mid data ->
  id < 2 ^ 32 -> mid < 2 ^ 32 -> N.of_nat (length data) < 2 ^ 32 ->
  zassoc_get (Z.of_N id) (w_entities w) = Some e -> assoc_get (en_type e) (s_models St) = Some m ->
  nthN (e_methods m) mid = Some mt -> mcount St (en_type e) mid = S n ->
  decode_seq (Z.to_nat (m_hdr mt)) (map snd (m_args mt)) data = Ok (vs, rest) ->
  emitted St w p = repeat_call (S n) (CMethod (key_of (en_type e) (m_name mt)) (en_id e)
                                              (fst (split_args (map fst (m_args mt)) vs)) (snd (split_args (map fst (m_args mt)) vs))).
Proof.
  intros T P H1 H2 H3 H4 H5 H6 H7 H8.
  apply (emitted_of_log St w p w _ None); [|reflexivity].
  rewrite (step_eq_class w p _ T), P. apply (subscribed_called St w id mid data e m mt n vs rest); assumption.
Qed.

(* a subscribed call whose payload does not decode contributes nothing (and fails the packet) *)
Theorem undecodable_contributes_nothing w p id mid data e m mt n er :
  table_get (pk_type p) (s_table St) = Some EntityMethod -> pk_payload p = enc_call id mid data ->
  id < 2 ^ 32 -> mid < 2 ^ 32 -> N.of_nat (length data) < 2 ^ 32 ->
  zassoc_get (Z.of_N id) (w_entities w) = Some e -> assoc_get (en_type e) (s_models St) = Some m ->
  nthN (e_methods m) mid = Some mt -> mcount St (en_type e) mid = S n ->
  decode_seq (Z.to_nat (m_hdr mt)) (map snd (m_args mt)) data = Err er ->
  emitted St w p = [].
Proof.
  intros T P H1 H2 H3 H4 H5 H6 H7 H8. apply (emitted_of_same St w p w (Some er)); [|reflexivity].
  rewrite (step_eq_class w p _ T), P. apply (subscribed_undecodable St w id mid data e m mt n er); assumption.
Qed.

(* a property update contributes one CProp per callback of that (type, property), carrying the NEW value *)
Theorem update_contributes w p id pid val e m pr v rest :
  table_get (pk_type p) (s_table St) = Some EntityProperty -> pk_payload p = enc_update id pid val ->
  id < 2 ^ 32 -> pid < 2 ^ 32 -> N.of_nat (length val) < 2 ^ 32 ->
  zassoc_get (Z.of_N id) (w_entities w) = Some e -> assoc_get (en_type e) (s_models St) = Some m ->
  nthN (e_client m) pid = Some pr -> decode 1 (p_type pr) val = Ok (v, rest) ->
  emitted St w p = repeat_call (nsub (s_psubs St) (key_of (en_type e) (p_name pr))) (CProp (key_of (en_type e) (p_name pr)) (en_id e) v).
Proof.
  intros T P H1 H2 H3 H4 H5 H6 H7.
  apply (emitted_of_log St w p (put w (set_client e (p_name pr) v)) _ None); [|reflexivity].
  rewrite (step_eq_class w p _ T), P. apply (property_dispatch St w id pid val e m pr v rest); assumption.
Qed.
End C.
Print Assumptions subscribed_contributes.
