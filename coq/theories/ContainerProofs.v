(* C01: the container reader inverts the container writer *)
From RU Require Import Base WireSpec Feistel Blowfish Container TypesProofs.
From Coq Require Import Lia.
Open Scope N_scope.

Theorem bf_dec_enc_f F P b : bf_dec_f F P (bf_enc_f F P b) = b.
Proof. unfold bf_dec_f, bf_enc_f. destruct (split_P P) as [[p0 ks] pl]. apply feistel_inverse. Qed.

(* ---------- XOR of two's-complement values stays in range and is XOR of the bit patterns ---------- *)
Lemma lxor_bound_nonneg n a b : (0 <= n)%Z -> (0 <= a < 2 ^ n)%Z -> (0 <= b < 2 ^ n)%Z -> (0 <= Z.lxor a b < 2 ^ n)%Z.
Proof.
  intros Hn Ha Hb. split; [apply Z.lxor_nonneg; lia|].
  destruct (Z.eq_dec (Z.lxor a b) 0) as [->|Hne]; [apply Z.pow_pos_nonneg; lia|].
  assert (Hpos : (0 < Z.lxor a b)%Z) by (pose proof (proj2 (Z.lxor_nonneg a b) ltac:(lia)); lia).
  apply Z.log2_lt_pow2; [exact Hpos|].
  pose proof (Z.log2_lxor a b ltac:(lia) ltac:(lia)) as Hl.
  assert (La : (a = 0 \/ Z.log2 a < n)%Z) by (destruct (Z.eq_dec a 0); [auto|right; apply Z.log2_lt_pow2; lia]).
  assert (Lb : (b = 0 \/ Z.log2 b < n)%Z) by (destruct (Z.eq_dec b 0); [auto|right; apply Z.log2_lt_pow2; lia]).
  assert (Z.log2 0 = 0)%Z by reflexivity.
  destruct La as [->|La], Lb as [->|Lb]; try lia.
  - rewrite Z.lxor_0_l in Hne. lia.
  - rewrite Z.lxor_0_l in *. lia.
  - rewrite Z.lxor_0_r in *. lia.
Qed.
Lemma lnot_range n a : (- 2 ^ n <= a < 0)%Z <-> (0 <= Z.lnot a < 2 ^ n)%Z.
Proof. unfold Z.lnot. lia. Qed.
Lemma lxor_signed_range n a b : (0 <= n)%Z -> (- 2 ^ n <= a < 2 ^ n)%Z -> (- 2 ^ n <= b < 2 ^ n)%Z ->
  (- 2 ^ n <= Z.lxor a b < 2 ^ n)%Z.
Proof.
  intros Hn Ha Hb. assert (P2 : (0 < 2 ^ n)%Z) by (apply Z.pow_pos_nonneg; lia).
  assert (LN : forall x, Z.lnot x = (- x - 1)%Z) by (intros; unfold Z.lnot; lia).
  destruct (Z.lt_ge_cases a 0) as [Na|Pa], (Z.lt_ge_cases b 0) as [Nb|Pb].
  - rewrite <- Z.lxor_lnot_lnot. pose proof (lxor_bound_nonneg n (Z.lnot a) (Z.lnot b) Hn
      (proj1 (lnot_range n a) ltac:(lia)) (proj1 (lnot_range n b) ltac:(lia))). lia.
  - assert (E : Z.lxor a b = Z.lnot (Z.lxor (Z.lnot a) b)).
    { rewrite Z.lnot_lxor_l. now rewrite Z.lnot_involutive. }
    rewrite E. pose proof (lxor_bound_nonneg n (Z.lnot a) b Hn (proj1 (lnot_range n a) ltac:(lia)) ltac:(lia)).
    rewrite (LN (Z.lxor (Z.lnot a) b)). lia.
  - assert (E : Z.lxor a b = Z.lnot (Z.lxor a (Z.lnot b))).
    { rewrite (Z.lxor_comm a (Z.lnot b)), Z.lnot_lxor_l, Z.lnot_involutive. apply Z.lxor_comm. }
    rewrite E. pose proof (lxor_bound_nonneg n a (Z.lnot b) Hn ltac:(lia) (proj1 (lnot_range n b) ltac:(lia))).
    rewrite (LN (Z.lxor a (Z.lnot b))). lia.
  - pose proof (lxor_bound_nonneg n a b Hn ltac:(lia) ltac:(lia)). lia.
Qed.

Lemma land_lxor_distr_l a b c : Z.land (Z.lxor a b) c = Z.lxor (Z.land a c) (Z.land b c).
Proof.
  apply Z.bits_inj'. intros n Hn. rewrite Z.land_spec, !Z.lxor_spec, !Z.land_spec.
  destruct (Z.testbit a n), (Z.testbit b n), (Z.testbit c n); reflexivity.
Qed.
Lemma N2Z_lxor a b : Z.of_N (N.lxor a b) = Z.lxor (Z.of_N a) (Z.of_N b).
Proof. destruct a, b; reflexivity. Qed.
(* 64-bit patterns *)
Definition in64 (u : N) : Prop := u < 2 ^ 64.
Lemma to_signed8_range u : in64 u -> (- 2 ^ 63 <= to_signed 8 u < 2 ^ 63)%Z.
Proof.
  unfold in64, to_signed. intros H. change (2 ^ (8 * N.of_nat 8 - 1)) with (2 ^ 63). change (2 ^ (8 * Z.of_nat 8))%Z with (2 ^ 64)%Z.
  destruct (N.ltb_spec u (2 ^ 63)) as [L|L].
  - change (2 ^ 63) with 9223372036854775808 in L. lia.
  - change (2 ^ 63) with 9223372036854775808 in L. change (2 ^ 64) with 18446744073709551616 in H. lia.
Qed.
Lemma of_to_signed8 u : in64 u -> of_signed 8 (to_signed 8 u) = u.
Proof.
  unfold in64, to_signed, of_signed. intros H. change (2 ^ (8 * N.of_nat 8 - 1)) with (2 ^ 63). change (2 ^ (8 * Z.of_nat 8))%Z with (2 ^ 64)%Z.
  change (2 ^ 64) with 18446744073709551616 in H.
  destruct (N.ltb_spec u (2 ^ 63)) as [L|L].
  - rewrite Z.mod_small by lia. lia.
  - replace (Z.of_N u - 2 ^ 64)%Z with (Z.of_N u + (-1) * 2 ^ 64)%Z by lia. rewrite Z.mod_add by lia. rewrite Z.mod_small by lia. lia.
Qed.
Lemma to_signed8_zero u : in64 u -> (to_signed 8 u = 0%Z <-> u = 0).
Proof.
  intros H. split; [|intros ->; reflexivity]. intros E. rewrite <- (of_to_signed8 u H), E. reflexivity.
Qed.
Lemma to_of_signed8 z : (- 2 ^ 63 <= z < 2 ^ 63)%Z -> to_signed 8 (of_signed 8 z) = z.
Proof. intros H. apply (signed_roundtrip 8 z); [lia|exact H]. Qed.
Lemma of_signed8_lt z : in64 (of_signed 8 z).
Proof.
  unfold in64, of_signed. change (2 ^ (8 * Z.of_nat 8))%Z with (2 ^ 64)%Z.
  pose proof (Z.mod_pos_bound z (2 ^ 64) ltac:(lia)). change (2 ^ 64) with 18446744073709551616. lia.
Qed.
(* the code XORs SIGNED 64-bit integers; that is XOR of the unsigned bit patterns, and the result is again a signed
   64-bit integer *)
Theorem sxor_is_xor u1 u2 : in64 u1 -> in64 u2 ->
  Z.lxor (to_signed 8 u1) (to_signed 8 u2) = to_signed 8 (N.lxor u1 u2).
Proof.
  intros H1 H2.
  pose proof (to_signed8_range u1 H1) as R1. pose proof (to_signed8_range u2 H2) as R2.
  pose proof (lxor_signed_range 63 _ _ ltac:(lia) R1 R2) as R.
  rewrite <- (to_of_signed8 _ R). f_equal.
  unfold of_signed. change (2 ^ (8 * Z.of_nat 8))%Z with (2 ^ 64)%Z.
  rewrite <- Z.land_ones by lia. rewrite land_lxor_distr_l. rewrite !Z.land_ones by lia.
  pose proof (of_to_signed8 u1 H1) as E1. pose proof (of_to_signed8 u2 H2) as E2. unfold of_signed in E1, E2.
  change (2 ^ (8 * Z.of_nat 8))%Z with (2 ^ 64)%Z in E1, E2.
  assert (M1 : (to_signed 8 u1 mod 2 ^ 64 = Z.of_N u1)%Z).
  { pose proof (Z.mod_pos_bound (to_signed 8 u1) (2 ^ 64) ltac:(lia)). lia. }
  assert (M2 : (to_signed 8 u2 mod 2 ^ 64 = Z.of_N u2)%Z).
  { pose proof (Z.mod_pos_bound (to_signed 8 u2) (2 ^ 64) ltac:(lia)). lia. }
  rewrite M1, M2. rewrite <- N2Z_lxor. now rewrite N2Z.id.
Qed.
Lemma lxor_in64 a b : in64 a -> in64 b -> in64 (N.lxor a b).
Proof.
  unfold in64. intros Ha Hb.
  pose proof (lxor_bound_nonneg 64 (Z.of_N a) (Z.of_N b) ltac:(lia)) as H.
  rewrite <- N2Z_lxor in H. change (2 ^ 64)%Z with (Z.of_N (2 ^ 64)) in H. lia.
Qed.
Lemma le_decode_lt bs : le_decode bs < 256 ^ N.of_nat (length bs).
Proof.
  induction bs as [|b r IH]; cbn [le_decode length]; [cbn; lia|].
  rewrite Nat2N.inj_succ, N.pow_succ_r'. pose proof (b2n_lt b). lia.
Qed.
Lemma le_decode8_in64 b : length b = 8%nat -> in64 (le_decode b).
Proof. intros H. unfold in64. pose proof (le_decode_lt b) as L. rewrite H in L. exact L. Qed.
Lemma le_encode_decode : forall bs, le_encode (length bs) (le_decode bs) = bs.
Proof.
  induction bs as [|b r IH]; [reflexivity|]. cbn [length le_encode le_decode].
  pose proof (b2n_lt b) as Hb.
  assert (E1 : (b2n b + 256 * le_decode r) mod 256 = b2n b).
  { rewrite (N.mul_comm 256), N.mod_add by lia. apply N.mod_small. exact Hb. }
  assert (E2 : (b2n b + 256 * le_decode r) / 256 = le_decode r).
  { rewrite (N.mul_comm 256), N.div_add by lia. rewrite (N.div_small (b2n b)) by exact Hb. lia. }
  rewrite E1, E2, IH. f_equal. unfold n2b, b2n. now rewrite Byte.of_to_N.
Qed.

(* ---------- chunking ---------- *)
Lemma firstn_app_exact {A} (a b : list A) : firstn (length a) (a ++ b) = a.
Proof. induction a as [|x a IH]; cbn; [now destruct b|now rewrite IH]. Qed.
Lemma skipn_app_exact {A} (a b : list A) : skipn (length a) (a ++ b) = b.
Proof. induction a as [|x a IH]; cbn; auto. Qed.
Lemma chunks8_cons fuel a rest : length a = 8%nat -> chunks8 (S fuel) (a ++ rest) = a :: chunks8 fuel rest.
Proof.
  intros Ha. cbn [chunks8]. destruct (a ++ rest) eqn:E.
  { apply (f_equal (@length byte)) in E. rewrite app_length, Ha in E. discriminate. }
  rewrite <- E. rewrite <- Ha. now rewrite firstn_app_exact, skipn_app_exact.
Qed.
Lemma chunks8_fuel : forall bs f1 f2, (length bs < f1)%nat -> (length bs < f2)%nat -> chunks8 f1 bs = chunks8 f2 bs.
Proof.
  intros bs. remember (length bs) as n eqn:En. revert bs En.
  induction n as [n IH] using lt_wf_ind. intros bs En f1 f2 H1 H2.
  destruct f1 as [|f1]; [lia|]. destruct f2 as [|f2]; [lia|]. cbn [chunks8].
  destruct bs as [|b r]; [reflexivity|]. f_equal.
  apply (IH (length (skipn 8 (b :: r)))); try reflexivity; rewrite skipn_length; cbn [length] in *; lia.
Qed.
Lemma chunks8_blocks : forall bs fuel, (length bs < fuel)%nat -> (Nat.modulo (length bs) 8 = 0)%nat ->
  Forall (fun c => length c = 8%nat) (chunks8 fuel bs) /\ List.concat (chunks8 fuel bs) = bs.
Proof.
  intros bs. remember (length bs) as n eqn:En. revert bs En.
  induction n as [n IH] using lt_wf_ind. intros bs En fuel Hf Hm.
  destruct fuel as [|fuel]; [lia|]. cbn [chunks8].
  destruct bs as [|b r]; [split; [constructor|reflexivity]|].
  set (l := b :: r) in *.
  assert (Hpos : (0 < length l)%nat) by (unfold l; cbn; lia).
  assert (Hlen : (8 <= length l)%nat).
  { destruct (le_lt_dec 8 (length l)); [assumption|]. rewrite <- En in *. rewrite Nat.mod_small in Hm by lia. lia. }
  assert (Hs : length (skipn 8 l) = (n - 8)%nat) by (rewrite skipn_length; lia).
  destruct (IH (n - 8)%nat ltac:(lia) (skipn 8 l) ltac:(lia) fuel) as [F C].
  - lia.
  - replace n with ((n - 8) + 1 * 8)%nat in Hm by lia. rewrite Nat.mod_add in Hm by lia. exact Hm.
  - split.
    + constructor; [rewrite firstn_length; lia|exact F].
    + cbn [List.concat]. rewrite C. apply firstn_skipn.
Qed.

(* ---------- the chain ---------- *)
Section Chain.
Variable E D : bytes -> bytes.
Hypothesis DE : forall b, length b = 8%nat -> D (E b) = b /\ length (E b) = 8%nat.

Lemma le_encode8_len n : length (le_encode 8 n) = 8%nat. Proof. apply le_encode_length. Qed.

(* reading the ciphertext blocks one by one: the writer's previous plaintext value [prev] and the reader's signed
   previous block agree *)
Lemma chain_dec_enc : forall ps prev sprev,
  Forall (fun p => length p = 8%nat) ps -> in64 prev ->
  match sprev with Some q => q = to_signed 8 prev | None => prev = 0 end ->
  chain_dec D sprev (chunks8 (S (length (chain_enc E prev ps))) (chain_enc E prev ps)) = Ok (List.concat ps).
Proof.
  induction ps as [|p ps IH]; intros prev sprev Hps Hprev Hs; [reflexivity|].
  inversion Hps as [|? ? Hp Hps']; subst.
  cbn [chain_enc]. set (v := le_decode p). assert (Hv : in64 v) by (apply le_decode8_in64; exact Hp).
  assert (Hx : in64 (N.lxor v prev)) by (apply lxor_in64; assumption).
  destruct (DE (le_encode 8 (N.lxor v prev)) (le_encode8_len _)) as [HD HL].
  rewrite app_length. replace (S (length (E (le_encode 8 (N.lxor v prev))) + length (chain_enc E v ps)))
    with (S (S (length (chain_enc E v ps)) + 7))%nat by lia.
  rewrite chunks8_cons by exact HL. cbn [chain_dec]. rewrite HL. cbn [Nat.eqb]. rewrite HD.
  rewrite le_roundtrip by exact Hx.
  assert (Hp' : (match sprev with Some q => if Z.eqb q 0 then to_signed 8 (N.lxor v prev) else Z.lxor (to_signed 8 (N.lxor v prev)) q
                                 | None => to_signed 8 (N.lxor v prev) end) = to_signed 8 v).
  { destruct sprev as [q|].
    - subst q. destruct (Z.eqb_spec (to_signed 8 prev) 0) as [Ez|Enz].
      + apply to_signed8_zero in Ez; [|exact Hprev]. subst prev. now rewrite N.lxor_0_r.
      + rewrite sxor_is_xor by assumption. f_equal. apply xor2.
    - subst prev. now rewrite N.lxor_0_r. }
  rewrite Hp'.
  rewrite (chunks8_fuel _ _ (S (length (chain_enc E v ps)))) by lia.
  rewrite (IH v (Some (to_signed 8 v)) Hps' Hv eq_refl). cbn [bind concat].
  rewrite of_to_signed8 by exact Hv. unfold v. rewrite <- Hp at 1. now rewrite le_encode_decode.
Qed.

Theorem decrypt_data_roundtrip prefix zpad :
  length prefix = 8%nat -> (Nat.modulo (length zpad) 8 = 0)%nat ->
  decrypt_data D (prefix ++ chain_enc E 0 (chunks8 (S (length zpad)) zpad)) = Ok zpad.
Proof.
  intros Hp Hm. unfold decrypt_data.
  destruct (chunks8_blocks zpad (S (length zpad)) ltac:(lia) Hm) as [F C].
  rewrite app_length, Hp.
  replace (S (8 + length (chain_enc E 0 (chunks8 (S (length zpad)) zpad))))
    with (S (S (length (chain_enc E 0 (chunks8 (S (length zpad)) zpad))) + 7))%nat by lia.
  rewrite chunks8_cons by exact Hp.
  rewrite (chunks8_fuel _ _ (S (length (chain_enc E 0 (chunks8 (S (length zpad)) zpad))))) by lia.
  rewrite (chain_dec_enc _ 0 None F); [now rewrite C| |reflexivity].
  unfold in64. cbn. lia.
Qed.
End Chain.
Print Assumptions sxor_is_xor.
Print Assumptions decrypt_data_roundtrip.

(* ---------- the whole container ---------- *)
Lemma to_signed4_small n : n < 2 ^ 31 -> to_signed 4 n = Z.of_N n.
Proof. intros H. unfold to_signed. change (2 ^ (8 * N.of_nat 4 - 1)) with (2 ^ 31). destruct (N.ltb_spec n (2 ^ 31)); [reflexivity|lia]. Qed.
Lemma get_s4_unsigned n rest : n < 2 ^ 31 -> get_s 4 (le_encode 4 n ++ rest) = Ok (Z.of_N n, rest).
Proof.
  intros H. unfold get_s. rewrite need_app by apply le_encode_length. cbn [bind].
  rewrite le_roundtrip by (change (256 ^ N.of_nat 4) with (2 ^ 32); change (2 ^ 31) with 2147483648 in H; change (2 ^ 32) with 4294967296; lia).
  now rewrite to_signed4_small.
Qed.
Lemma read_z_block b rest : read_z (Z.of_N (N.of_nat (length b))) (b ++ rest) = (b, rest).
Proof.
  unfold read_z. destruct (Z.ltb_spec (Z.of_N (N.of_nat (length b))) 0); [lia|].
  rewrite N2Z.id. apply read_uptoN_app.
Qed.
Lemma write_block_len b : (4 <= length (write_block b))%nat.
Proof. unfold write_block, enc_i32. rewrite app_length, le_encode_length. lia. Qed.
Lemma read_blocks_written : forall (extra : list bytes) fuel tail,
  Forall (fun b => N.of_nat (length b) < 2 ^ 31) extra -> (length extra <= fuel)%nat ->
  read_blocks fuel (Z.of_nat (length extra)) (List.concat (map write_block extra) ++ tail) = Ok (map opt_block extra, tail).
Proof.
  induction extra as [|b extra IH]; intros fuel tail Hb Hf.
  - cbn [length Z.of_nat]. destruct fuel; reflexivity.
  - inversion Hb as [|? ? Hb1 Hb2]; subst. destruct fuel as [|fuel]; [cbn in Hf; lia|].
    cbn [read_blocks]. destruct (Z.leb_spec (Z.of_nat (length (b :: extra))) 0) as [L|L]; [cbn [length] in L; lia|].
    cbn [map List.concat]. unfold write_block at 1, enc_i32. rewrite <- !app_assoc.
    rewrite get_s4_unsigned by exact Hb1. cbn [bind]. rewrite read_z_block.
    replace (Z.of_nat (length (b :: extra)) - 1)%Z with (Z.of_nat (length extra)) by (cbn [length]; lia).
    rewrite IH by (auto; cbn [length] in Hf; lia). reflexivity.
Qed.
Lemma concat_blocks_len (extra : list bytes) : (length extra <= length (List.concat (map write_block extra)))%nat.
Proof.
  induction extra as [|b extra IH]; [cbn; lia|]. cbn [map List.concat length]. rewrite app_length.
  pose proof (write_block_len b). lia.
Qed.

Theorem container_roundtrip ciph_d ciph_e ext game key b0 (extra : list bytes) prefix zpad :
  assoc_get ext key_table = Some (game, key) ->
  (forall b, length b = 8%nat -> ciph_d key (ciph_e key b) = b /\ length (ciph_e key b) = 8%nat) ->
  N.of_nat (length b0) < 2 ^ 31 -> Forall (fun b => N.of_nat (length b) < 2 ^ 31) extra -> N.of_nat (S (length extra)) < 2 ^ 31 ->
  length prefix = 8%nat -> (Nat.modulo (length zpad) 8 = 0)%nat ->
  read_container ciph_d ext (write_container (ciph_e key) b0 extra prefix zpad) =
  Ok {| ct_game := game; ct_engine := b0; ct_extra := map opt_block extra; ct_payload := zpad |}.
Proof.
  intros Hk HDE Hb0 Hex Hcnt Hp Hm. unfold read_container, write_container. rewrite Hk.
  rewrite (split_exact_app magic). change (bytes_eqb magic magic) with true. cbn [negb].
  unfold enc_i32 at 1. rewrite get_s4_unsigned by exact Hcnt. cbn [bind].
  unfold write_block at 1, enc_i32. rewrite <- !app_assoc. rewrite get_s4_unsigned by exact Hb0. cbn [bind].
  rewrite read_z_block.
  match goal with |- context [Z.sub (Z.of_N (N.of_nat (S (@length ?T extra)))) 1] =>
    replace (Z.sub (Z.of_N (N.of_nat (S (@length T extra)))) 1) with (Z.of_nat (@length T extra)) by lia end.
  rewrite read_blocks_written; [|exact Hex|].
  2: { rewrite app_length. pose proof (concat_blocks_len extra). lia. }
  cbn [bind]. rewrite (decrypt_data_roundtrip (ciph_e key) (ciph_d key) HDE prefix zpad Hp Hm). reflexivity.
Qed.

Theorem bad_extension_valueerror ciph ext file : assoc_get ext key_table = None -> read_container ciph ext file = Err EValue.
Proof. intros H. unfold read_container. now rewrite H. Qed.
Theorem bad_magic_valueerror ciph ext game key m rest : assoc_get ext key_table = Some (game, key) ->
  length m = 4%nat -> bytes_eqb m magic = false -> read_container ciph ext (m ++ rest) = Err EValue.
Proof.
  intros Hk Hl Hm. unfold read_container. rewrite Hk. rewrite <- Hl. rewrite split_exact_app. now rewrite Hm.
Qed.
(* a file shorter than the magic number is rejected the same way *)
Theorem short_file_valueerror ciph ext game key file : assoc_get ext key_table = Some (game, key) ->
  (length file < 4)%nat -> read_container ciph ext file = Err EValue.
Proof.
  intros Hk Hl. unfold read_container. rewrite Hk.
  destruct (split_exact 4 file) as [[m r]|] eqn:E; [|reflexivity].
  apply split_exact_spec in E as E'. subst file.
  assert (length m = 4%nat).
  { clear -E. revert E. generalize (m ++ r). generalize 4%nat. intros n l. revert l m r.
    induction n as [|n IH]; intros l m r H; cbn in H.
    - inversion H; reflexivity.
    - destruct l as [|x l]; [discriminate|]. destruct (split_exact n l) as [[a b]|] eqn:E2; [|discriminate].
      inversion H; subst. cbn. f_equal. eapply IH; eauto. }
  rewrite app_length in Hl. lia.
Qed.
Print Assumptions container_roundtrip.
Print Assumptions bad_magic_valueerror.

(* ---------- the progress-reporting reader agrees with the plain one ---------- *)
Lemma read_blocks_pg_agree : forall fuel cnt bs,
  match read_blocks fuel cnt bs, read_blocks_pg fuel cnt bs with
  | Ok (l, r), (l', r', None) => l = l' /\ r = r'
  | Err e, (_, _, Some e') => e = e'
  | _, _ => False
  end.
Proof.
  induction fuel as [|f IH]; intros cnt bs; cbn [read_blocks read_blocks_pg]; destruct (cnt <=? 0)%Z; auto.
  destruct (get_s 4 bs) as [[sz r]|e]; cbn [bind]; [|reflexivity].
  destruct (read_z sz r) as [b r'].
  specialize (IH (cnt - 1)%Z r'). destruct (read_blocks f (cnt - 1) r') as [[l r2]|e], (read_blocks_pg f (cnt - 1) r') as [[l' r2'] [e'|]];
    cbn [bind]; try contradiction; auto.
  destruct IH as [-> ->]. auto.
Qed.
Theorem read_container_pg_agree ciph ext file :
  match read_container ciph ext file, read_container_pg ciph ext file with
  | Ok c, (pg, None) => pg = {| pg_game := Some (ct_game c); pg_engine := Some (ct_engine c); pg_extra := ct_extra c; pg_payload := Some (ct_payload c) |}
  | Err e, (_, Some e') => e = e'
  | _, _ => False
  end.
Proof.
  unfold read_container, read_container_pg.
  destruct (assoc_get ext key_table) as [[game key]|]; [|reflexivity].
  destruct (split_exact 4 file) as [[m r0]|]; [|reflexivity].
  destruct (negb (bytes_eqb m magic)); [reflexivity|].
  destruct (get_s 4 r0) as [[bc r1]|e]; cbn [bind]; [|reflexivity].
  destruct (get_s 4 r1) as [[sz r2]|e]; cbn [bind]; [|reflexivity].
  destruct (read_z sz r2) as [b0 r3].
  pose proof (read_blocks_pg_agree (S (length r3)) (bc - 1) r3) as A.
  destruct (read_blocks (S (length r3)) (bc - 1) r3) as [[l r]|e], (read_blocks_pg (S (length r3)) (bc - 1) r3) as [[l' r'] [e'|]];
    cbn [bind]; try contradiction; auto.
  destruct A as [-> ->]. destruct (decrypt_data (ciph key) r'); cbn [bind]; reflexivity.
Qed.
Print Assumptions read_container_pg_agree.
