From RU Require Import Base Types Defs World.
Open Scope N_scope.
Open Scope string_scope.

Definition default_config : config := {|
  simple_types := [("BLOB", TBlob); ("STRING", TString); ("UNICODE_STRING", TString);
    ("FLOAT", TF32); ("FLOAT32", TF32); ("FLOAT64", TF64);
    ("INT8", TInt 1); ("INT16", TInt 2); ("INT32", TInt 4); ("INT64", TInt 8);
    ("UINT8", TUInt 1); ("UINT16", TUInt 2); ("UINT32", TUInt 4); ("UINT64", TUInt 8);
    ("VECTOR2", TVec 8); ("VECTOR3", TVec 12); ("VECTOR4", TVec 16);
    ("MAILBOX", TMailbox); ("PYTHON", TPython)];
  flag_values := [("CELL_PRIVATE", 0); ("CELL_PUBLIC", 1); ("OTHER_CLIENTS", 2); ("OWN_CLIENT", 4); ("BASE", 8);
    ("BASE_AND_CLIENT", 16); ("CELL_PUBLIC_AND_OWN", 32); ("ALL_CLIENTS", 64); ("EDITOR_ONLY", 128)];
  mask_client := 118; mask_internal := 102; mask_cell := 33; mask_base := 16 |}.

Definition generic : list (N * pclass) :=
  [(0, BasePlayerCreate); (1, CellPlayerCreate); (2, EntityControl); (3, EntityEnter); (4, EntityLeave);
   (5, EntityCreate); (7, EntityProperty); (8, EntityMethod); (10, Position); (22, Version); (43, PlayerPosition)].
Definition table_wows := (generic ++ [(39, Map); (34, NestedProperty)])%list.
Definition table_wows126 := (generic ++ [(34, BattleStats); (35, NestedProperty); (40, Map)])%list.
Definition table_wot : list (N * pclass) :=
  [(0, BasePlayerCreate); (1, CellPlayerCreate); (2, EntityControl); (3, EntityEnter); (4, EntityLeave);
   (5, EntityCreate); (7, EntityProperty); (8, EntityMethod); (15, Map); (36, NestedProperty); (10, Position)].
Definition table_wowp : list (N * pclass) :=
  [(0, BasePlayerCreate); (2, EntityControl); (3, EntityEnter); (4, EntityLeave); (7, EntityProperty);
   (8, EntityMethod); (34, NestedProperty); (10, Position); (22, Version)].

(* al: alias nodes in declaration order; ents: (name, def root) in entities.xml order *)
Definition build_setup (g : game) (table : list (N * pclass)) (alias : list node) (ifaces : list (string * node))
           (ents : list (string * node)) (msubs psubs nsubs : list (string * nat)) : result setup :=
  let al := rev (map (fun n => (tag_of n, n)) alias) in
  let fix go (l : list (string * node)) : result (list (string * emodel)) :=
    match l with
    | [] => Ok []
    | (name, d) :: r => m <- entity_model default_config al ifaces d ;; rest <- go r ;; Ok ((name, m) :: rest)
    end in
  ms <- go ents ;;
  Ok {| s_game := g; s_table := table; s_names := map fst ents; s_models := ms;
        s_msubs := msubs;
        s_mcounts := map (fun '(name, m) => (name, map (fun mt => nsub msubs (key_of name (m_name mt))) (e_methods m))) ms;
        s_psubs := psubs; s_nsubs := nsubs |}.

(* PlayerBase.play: packets are framed and processed one after the other; a cut header raises struct.error
   in either mode, after the packets before it have been processed *)
Definition run_strict (St : setup) (stream : bytes) : world * option error :=
  let '(ps, t) := frames stream in
  match play_strict St empty_world ps with
  | (w, Some e) => (w, Some e)
  | (w, None) => (w, match t with Clean => None | HeaderCut => Some EStruct | OutOfFuel => Some EFuel end)
  end.
Definition run_lenient (St : setup) (stream : bytes) : world * option error :=
  let '(ps, t) := frames stream in
  (play_lenient St empty_world ps, match t with Clean => None | HeaderCut => Some EStruct | OutOfFuel => Some EFuel end).

Definition all_bytes : list byte :=
  (fix go (n : nat) (acc : list byte) := match n with O => acc | S n' => go n' (n2b (N.of_nat n') :: acc) end) 256%nat [].
